#!/bin/bash
# seedq.sh <round, e.g. 5> [parallel=3] : evaluate every /tmp/seed<round>-cNN-out/{1,2} that has no log yet in /tmp/seedlogs
r=$1; par=${2:-3}
mkdir -p /tmp/seedlogs
cd /verif
for d in /tmp/seed$r-c*-out/[12]; do
  [ -f $d/patch.diff ] && [ -f $d/meta.json ] || continue
  id=$(echo $d | sed -E "s|/tmp/seed$r-(c[0-9]+)-out/([12])|\1|"); k=$(basename $d)
  P=$(echo $id | tr a-z A-Z); tag=$P-r${r}s$k
  [ -f /tmp/seedlogs/$tag.log ] && continue
  echo "$d $tag"
done | xargs -P $par -L 1 bash -c 'timeout 3000 /verif/bin/seedtest.py $0 $1 > /tmp/seedlogs/$1.log 2>&1'
