#!/bin/bash
# seedqueue.sh <round-prefix dir pattern e.g. seed2> ids... : run seedtest for /tmp/<prefix>-cNN-out/{1,2}
pre=$1; shift
for id in "$@"; do
  P=$(echo $id | tr a-z A-Z)
  for k in 1 2; do
    [ -f /tmp/$pre-$id-out/$k/patch.diff ] || continue
    tag=$P-${pre/seed/r}s$k; tag=${tag/-rs/-s}
    timeout 3000 /verif/bin/seedtest.py /tmp/$pre-$id-out/$k $tag > /tmp/seedlogs/$tag.log 2>&1
  done
done
