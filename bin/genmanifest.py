#!/usr/bin/env python3
"""Generate /verif/MANIFEST.json from checks.json (single source of truth for registered checks)."""
import json, os
V = os.path.dirname(os.path.dirname(os.path.abspath(__file__)))
import glob
reg = json.load(open(os.path.join(V, "checks.json")))
for frag in sorted(glob.glob(os.path.join(V, "checks.d", "*.json"))):
    reg["checks"].update(json.load(open(frag)))
props = [json.loads(l)["id"] for l in open(os.path.join(V, "properties.jsonl")) if l.strip()]
checks, na = [], []
for pid in props:
    c = reg["checks"].get(pid)
    if not c or c.get("disabled") or pid not in reg.get("claimed", []):
        na.append({"property_id": pid, "reason": (c or {}).get("na_reason", "check not built yet in this session (work in progress); no claim is made")})
        continue
    checks.append({
        "property_id": pid,
        "quick_cmd": "./vcheck %s --tier quick" % pid,
        "thorough_cmd": "./vcheck %s --tier thorough" % pid,
        "evidence_file": "/verif/evidence/%s.json" % pid,
        "replay_cmd_template": "./vcheck %s --replay {path}" % pid,
        "engine": c.get("engine", "vcheck"),
        "level_claimed": {"category": c["level"], "text": c["level_text"], "design_ref": c.get("design_ref", "DESIGN.md section 6 / " + pid)},
        "level_note": c["level_note"],
        "technique": c["technique"],
    })
m = {
    "version": 1,
    "setup_cmd": "./vcheck --setup",
    "hooks": {
        "guard": "verif",
        "enable": "go test -c -tags verif -vet=off -overlay <generated from /repo's working tree by ./vcheck> -modfile <generated>; no hook source lives in /repo: "
                  "//go:build verif files under /verif/inject are mapped into repository packages by the overlay, sync/atomic/time imports of the packages under "
                  "schedule exploration are rewritten to /verif/engine/shim at check time",
        "baseline_off_cmd": "cd /repo && GOFLAGS=-mod=mod go test -json -vet=off -count=1 -timeout 25m ./...",
        "source_commits": reg.get("hook_commits", []),
        "add_only": True,
    },
    "engines": reg.get("engines", []),
    "checks": checks,
    "not_applicable": na,
    "notes": reg.get("notes", ""),
}
json.dump(m, open(os.path.join(V, "MANIFEST.json"), "w"), indent=1)
print("checks:", [c["property_id"] for c in checks], "not_applicable:", [n["property_id"] for n in na])
