#!/bin/bash
# seedpoll.sh <prefix> <worker index> <n workers> : evaluate seeds as they arrive (until /tmp/seedpoll.stop exists)
pre=$1; w=$2; n=$3
while [ ! -f /tmp/seedpoll.stop ]; do
  i=0
  for d in /tmp/$pre-c*-out/[12]; do
    [ -f $d/patch.diff ] && [ -f $d/meta.json ] || continue
    i=$((i+1)); [ $((i % n)) -eq $w ] || continue
    id=$(echo $d | sed -E "s|/tmp/$pre-(c[0-9]+)-out/([12])|\1|"); k=$(basename $d)
    P=$(echo $id | tr a-z A-Z); tag=$P-r${pre#seed}s$k
    [ -f /tmp/seedlogs/$tag.log ] && continue
    # the seeding agent may still be writing: require the files to be older than 3 minutes
    [ -n "$(find $d/meta.json -mmin +3)" ] || continue
    timeout 3000 /verif/bin/seedtest.py $d $tag > /tmp/seedlogs/$tag.log 2>&1
  done
  sleep 60
done
