#!/usr/bin/env python3
"""Confirm a seeded defect and run the check(s) on it.

  seedtest.py <src dir with patch.diff, meta.json, demo> <seed id, e.g. C04-s1> [--props C04,C17] [--tier quick]

Steps (all in a scratch worktree of /repo's HEAD under /tmp, removed afterwards):
  1. patch applies, `go build ./...` succeeds;
  2. the repository's own tests of the touched packages keep every stable-pass test passing;
  3. the demonstration fails with the change (and, in a second clean worktree, passes without it);
  4. `VERIF_REPO=<worktree> ./vcheck <prop>` for every property given -> detected (exit 1 + VIOLATION) or missed.
Result is written to /verif/seeded/<id>/ (patch.diff, demo, meta.json with what was run)."""
import json, os, re, shutil, subprocess, sys, time

V = "/verif"
ENV = dict(os.environ, GOFLAGS="-mod=mod", GOPROXY="off", GOSUMDB="off", GOTOOLCHAIN="local")


def sh(cmd, cwd=None, timeout=1800, env=ENV):
    p = subprocess.run(cmd, shell=True, cwd=cwd, env=env, stdout=subprocess.PIPE, stderr=subprocess.STDOUT, text=True, timeout=timeout)
    return p.returncode, p.stdout


def main():
    src, sid = sys.argv[1], sys.argv[2]
    props, tier = None, "quick"
    skip_demo = "--skip-demo" in sys.argv
    for i, a in enumerate(sys.argv):
        if a == "--props":
            props = sys.argv[i + 1].split(",")
        if a == "--tier":
            tier = sys.argv[i + 1]
    meta = json.load(open(os.path.join(src, "meta.json"))) if os.path.exists(os.path.join(src, "meta.json")) else {}
    props = props or [meta.get("property", sid.split("-")[0])]
    patch = os.path.join(src, "patch.diff")
    touched = sorted(set(re.findall(r"^\+\+\+ b/(.*)$", open(patch).read(), re.M)))
    pkgs = sorted(set("./" + os.path.dirname(f) + "/..." for f in touched))
    wt = "/tmp/seedwt-%s-%d" % (sid, os.getpid())
    ran, out = [], {}
    sh("git -C /repo worktree add --detach %s HEAD -q" % wt)
    try:
        rc, o = sh("git apply %s" % patch, cwd=wt)
        ran.append("git apply patch.diff -> rc %d" % rc)
        if rc != 0:
            print("PATCH DOES NOT APPLY\n" + o)
            out["applies"] = False
            return finish(src, sid, meta, ran, out)
        out["applies"] = True
        rc, o = sh("go build ./...", cwd=wt)
        ran.append("go build ./... -> rc %d" % rc)
        out["builds"] = rc == 0
        if rc != 0:
            print(o[-2000:])
            return finish(src, sid, meta, ran, out)
        rc, o = sh("%s/bin/baseline.py --repo %s %s" % (V, wt, " ".join(pkgs)))
        ran.append("bin/baseline.py %s -> %s" % (" ".join(pkgs), o.strip().splitlines()[0] if o.strip() else rc))
        out["suite_passes"] = rc == 0
        print("suite:", o.strip()[:1500])
        # demonstration
        demos = [f for f in os.listdir(src) if f.endswith("_test.go")]
        if demos and not skip_demo:
            for d in demos:
                txt = open(os.path.join(src, d)).read()
                m = re.search(r"(?:copy|copied|place|placed|put|goes|belongs|directory|package dir)[^\n]*?\s([\w./-]+/[\w./-]*|[a-z]+)/?\s*(?:\)|$|\n|\.|,|;)", txt[:1500], re.I)
                pk = meta.get("demo_dir")
                if not pk:
                    pm = re.search(r"^package (\w+)", txt, re.M)
                    # find the directory among touched files' dirs or by explicit path mention
                    cands = [os.path.dirname(f) for f in touched]
                    for c in re.findall(r"([\w-]+(?:/[\w-]+)+)", txt[:2000]):
                        if os.path.isdir(os.path.join(wt, c)):
                            cands.insert(0, c)
                    pk = None
                    for c in cands:
                        if os.path.isdir(os.path.join(wt, c)):
                            # package name must match
                            gos = [g for g in os.listdir(os.path.join(wt, c)) if g.endswith(".go")]
                            if gos and pm:
                                g = open(os.path.join(wt, c, gos[0])).read()
                                pn = re.search(r"^package (\w+)", g, re.M)
                                if pn and (pn.group(1) == pm.group(1) or pn.group(1) + "_test" == pm.group(1)):
                                    pk = c
                                    break
                if not pk:
                    ran.append("demo %s: could not determine package dir" % d)
                    continue
                shutil.copy(os.path.join(src, d), os.path.join(wt, pk, "zz_seed_" + d))
                tests = re.findall(r"^func (Test\w+)\(", txt, re.M)
                rc, o = sh("timeout 900 go test -vet=off -count=1 -run '^(%s)$' ./%s" % ("|".join(tests), pk), cwd=wt)
                ran.append("demo with change: go test -run %s ./%s -> rc %d" % ("|".join(tests), pk, rc))
                out["demo_fails_with_change"] = rc != 0
                # without the change
                sh("git apply -R %s" % patch, cwd=wt)
                rc2, o2 = sh("timeout 900 go test -vet=off -count=1 -run '^(%s)$' ./%s" % ("|".join(tests), pk), cwd=wt)
                ran.append("demo without change -> rc %d" % rc2)
                out["demo_passes_without_change"] = rc2 == 0
                sh("git apply %s" % patch, cwd=wt)
                os.remove(os.path.join(wt, pk, "zz_seed_" + d))
                if rc == 0:
                    print("DEMO DID NOT FAIL WITH CHANGE:\n" + o[-1500:])
                if rc2 != 0:
                    print("DEMO FAILS WITHOUT CHANGE:\n" + o2[-1500:])
        sh("git checkout -- go.mod go.sum", cwd=wt)
        # the checks
        out["checks"] = {}
        for p in props:
            t0 = time.time()
            env = dict(ENV, VERIF_REPO=wt)
            rc, o = sh("./vcheck %s --tier %s" % (p, tier), cwd=V, env=env, timeout=3600)
            viol = [l for l in o.splitlines() if l.startswith("VIOLATION")]
            sigs = [l.strip() for l in o.splitlines() if l.strip().startswith("signature:")]
            out["checks"][p] = {"exit": rc, "violations": len(viol), "signatures": sigs[:8], "wall_s": round(time.time() - t0)}
            ran.append("VERIF_REPO=<worktree> ./vcheck %s --tier %s -> exit %d, %d VIOLATION line(s)" % (p, tier, rc, len(viol)))
            print(p, "exit", rc, "violations", len(viol), sigs[:4])
            if rc == 2:
                print(o[-3000:])
        return finish(src, sid, meta, ran, out)
    finally:
        sh("git -C /repo worktree remove --force %s" % wt)
        shutil.rmtree(wt, ignore_errors=True)
        import hashlib
        key = hashlib.sha1(wt.encode()).hexdigest()[:10]
        for d in ("bin", "ov", "mod"):  # build output of the scratch tree
            shutil.rmtree(os.path.join(V, ".cache", d, key), ignore_errors=True)


def finish(src, sid, meta, ran, out):
    dst = os.path.join(V, "seeded", sid)
    os.makedirs(dst, exist_ok=True)
    for f in os.listdir(src):
        if os.path.isfile(os.path.join(src, f)) and f != "meta.json" and os.path.realpath(src) != os.path.realpath(dst):
            shutil.copy(os.path.join(src, f), dst)
    prev = {}
    if os.path.exists(os.path.join(dst, "meta.json")):
        try:
            prev = json.load(open(os.path.join(dst, "meta.json")))
        except Exception:
            prev = {}
    pres = prev.get("result") or {}
    for k in ("demo_fails_with_change", "demo_passes_without_change"):
        if k not in out and k in pres:
            out[k] = pres[k]  # demonstration was confirmed in an earlier run of this script
    hist = prev.get("check_history") or []
    if pres.get("checks") and not hist:
        hist.append(pres["checks"])
    if out.get("checks"):
        hist.append(out["checks"])
    ran = (prev.get("confirmed_by_me") or []) + ["--- later run ---"] + ran if prev.get("confirmed_by_me") else ran
    m = {"check_history": hist, "property": meta.get("property"), "summary": meta.get("summary"), "needs": meta.get("needs"),
         "author": "independent sub-agent given only the property text and a scratch worktree",
         "author_ran": meta.get("ran") or meta.get("author_ran"), "confirmed_by_me": ran, "result": out}
    json.dump(m, open(os.path.join(dst, "meta.json"), "w"), indent=1)
    print(json.dumps(out, indent=1))


if __name__ == "__main__":
    main()
