#!/bin/bash
# applyfix.sh <patch> <commit message file|string> [extra pkg patterns...] : apply a repair to /repo, run the repository's tests of the
# touched packages against the stable-pass list, commit as one "fix:" commit. Aborts (and reverts) when a stable test stops passing.
set -e
patch=$1; msg=$2; shift 2
cd /repo
git diff --quiet || { echo "repo working tree not clean"; exit 2; }
git apply "$patch"
pkgs=$(git diff --name-only | xargs -n1 dirname | sort -u | sed 's|^|./|; s|$|/...|' | tr '\n' ' ')
echo "touched packages: $pkgs $@"
if ! /verif/bin/baseline.py $pkgs "$@"; then
  echo "BASELINE FAILED - reverting"; git checkout -- .; exit 1
fi
git add -u
git commit -q -m "$msg"
git log --oneline | head -1
