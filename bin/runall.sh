#!/bin/bash
# runall.sh [tier] props... : run checks one after another, print one summary line each
tier=${TIER:-quick}
cd "$(dirname "$0")/.."
for p in "$@"; do
  start=$(date +%s)
  out=$(timeout 3000 ./vcheck $p --tier $tier 2>&1); rc=$?
  echo "== $p rc=$rc wall=$(( $(date +%s) - start ))s $(echo "$out" | grep '^\[vcheck\] '$p | tail -1)"
  echo "$out" | grep -E "^VIOLATION|signature:|MACHINERY|KNOWN-FINDING" | cut -c1-200
done
