#!/opt/veriftools/pyvenv/bin/python
import json, jsonschema, glob, sys
ok = True
try:
    jsonschema.validate(json.load(open('/verif/MANIFEST.json')), json.load(open('/root/.vp/MANIFEST.schema.json')))
except Exception as e:
    ok = False; print("MANIFEST invalid:", str(e)[:400])
s = json.load(open('/root/.vp/EVIDENCE.schema.json'))
for f in sorted(glob.glob('/verif/evidence/*.json')):
    try:
        jsonschema.validate(json.load(open(f)), s)
    except Exception as e:
        ok = False; print(f, "invalid:", str(e)[:400])
print("valid" if ok else "INVALID")
sys.exit(0 if ok else 1)
