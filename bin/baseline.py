#!/usr/bin/env python3
"""Run (part of) the repository's own test suite with the verif guard OFF and compare with the
stable-pass list of /root/.vp/BASELINE.json.   usage: baseline.py [--repo DIR] [pkg patterns...]"""
import json, os, subprocess, sys
repo = "/repo"
args = sys.argv[1:]
if args and args[0] == "--repo":
    repo = args[1]; args = args[2:]
pats = args or ["./..."]
stable = set(json.load(open("/root/.vp/BASELINE.json"))["stable_pass"])
env = dict(os.environ, GOFLAGS="-mod=mod", GOPROXY="off", GOSUMDB="off", GOTOOLCHAIN="local")
p = subprocess.Popen(["go", "test", "-json", "-vet=off", "-count=1", "-timeout", "25m"] + pats, cwd=repo, env=env,
                     stdout=subprocess.PIPE, stderr=subprocess.DEVNULL, text=True)
res, pkgs = {}, set()
for line in p.stdout:
    try:
        e = json.loads(line)
    except Exception:
        continue
    if e.get("Package"):
        pkgs.add(e["Package"])
    if e.get("Test") and e.get("Action") in ("pass", "fail", "skip"):
        res[e["Package"] + "::" + e["Test"]] = e["Action"]
p.wait()
want = [s for s in stable if s.split("::")[0] in pkgs]
bad = sorted(s for s in want if res.get(s) != "pass")
print("packages=%d tests_run=%d stable_in_scope=%d stable_not_passing=%d other_failures=%d" % (
    len(pkgs), len(res), len(want), len(bad), sum(1 for k, v in res.items() if v == "fail" and k not in stable)))
for b in bad[:50]:
    print("NOT PASSING:", b, res.get(b))
subprocess.run(["git", "-C", repo, "checkout", "--", "go.sum", "go.mod"], stderr=subprocess.DEVNULL)
sys.exit(1 if bad else 0)
