//go:build verif

// C07 — structured LARGE pairs with the shipped constants (PageSize 512, 1024 IBLT buckets), explored along
// the fair schedule with every single deviation at every message position (thorough: pairs of deviations).
package v2

import (
	"fmt"
	"os"
	"sort"
	"syscall"
	"testing"

	"github.com/nuts-foundation/nuts-node/crypto/hash"
	"github.com/nuts-foundation/nuts-node/network/dag"

	"verif/ev"
	"verif/fault"
)

type vc07LargePair struct {
	Name  string
	Prevs [][]int
	Init  [2][]int
}

func vc07Chain(prevs [][]int, from int, n int) ([][]int, []int) {
	var ids []int
	last := from
	for i := 0; i < n; i++ {
		prevs = append(prevs, []int{last})
		last = len(prevs) - 1
		ids = append(ids, last)
	}
	return prevs, ids
}

func vc07LargePairs() []vc07LargePair {
	var out []vc07LargePair
	{ // one side has the root only, the other 1300 more (three pages)
		prevs := [][]int{nil}
		prevs, ids := vc07Chain(prevs, 0, 1300)
		out = append(out, vc07LargePair{Name: "behind-0-vs-1300", Prevs: prevs, Init: [2][]int{{0}, append([]int{0}, ids...)}})
	}
	{ // two disjoint branches of 600: symmetric difference 1200, more than one IBLT of 1024 buckets decodes
		prevs := [][]int{nil}
		prevs, x := vc07Chain(prevs, 0, 600)
		prevs, y := vc07Chain(prevs, 0, 600)
		out = append(out, vc07LargePair{Name: "disjoint-600-vs-600", Prevs: prevs, Init: [2][]int{append([]int{0}, x...), append([]int{0}, y...)}})
	}
	{ // equal heads and clocks, the difference (3 transactions) sits in the first page of a three-page DAG
		prevs := [][]int{nil}
		prevs, c := vc07Chain(prevs, 0, 1200)
		prevs, e := vc07Chain(prevs, c[99], 3)
		out = append(out, vc07LargePair{Name: "old-page-diff-3-of-1200", Prevs: prevs, Init: [2][]int{append([]int{0}, c...), append(append([]int{0}, c...), e...)}})
	}
	{ // common prefix of 600, then two branches of 450 each: difference 900 spread over pages 1 and 2
		prevs := [][]int{nil}
		prevs, c := vc07Chain(prevs, 0, 600)
		prevs, x := vc07Chain(prevs, c[599], 450)
		prevs, y := vc07Chain(prevs, c[599], 450)
		out = append(out, vc07LargePair{Name: "fork-after-600-450-vs-450", Prevs: prevs,
			Init: [2][]int{append(append([]int{0}, c...), x...), append(append([]int{0}, c...), y...)}})
	}
	return out
}

// vc07Dev is one deviation from the fair schedule: at delivery position Pos (counted over the whole run)
// the message at the head of the FIFO is treated according to Kind instead of being delivered.
//
//	drop       lost
//	dup-now    delivered twice in a row
//	dup-late   delivered, and once more after everything else of this round
//	dup-stale  delivered, and once more in the NEXT round (after the conversations have expired)
//	reorder    moved to the end of the FIFO
//	delay      held back until the next round (arrives after the clock passed the conversation validity)
//	lexpire    the clock passes the validity and both evictions run just before it is delivered
//	kvfail     delivered while the At-th KV step of the receiving node's handler fails (storage fault; L = label of that step)
type vc07Dev struct {
	Pos  int    `json:"pos"`
	Kind string `json:"kind"`
	At   int    `json:"at,omitempty"`
	L    string `json:"l,omitempty"`
}

var vc07DevKinds = []string{"drop", "dup-now", "dup-late", "dup-stale", "reorder", "delay", "lexpire"}

type vc07LargeReplay struct {
	Large string    `json:"large"`
	Devs  []vc07Dev `json:"devs"`
}

type vc07LargeResult struct {
	rounds     int
	deliveries int
	steps      int64
	checked    int64
	clause     string
	detail     string
	kinds      map[string]int
	// per delivery position: the KV step trace of the handler and, for a TransactionList, the clocks of its transactions (only when asked for)
	traces map[int][]fault.Step
	clocks map[int][]uint32
	// storage / message-size seams
	fired        bool   // a planned storage fault fired
	firedLabel   string // at which step
	oversize     int    // envelopes the stream refused because their serialized size exceeded the configured message size
	oversizeKind string
	maxEnvelope  map[string]int
}

// vc07RunLarge executes the fair schedule with the given deviations.
func vc07RunLarge(t testing.TB, dir string, u *vc07Universe, tpl *vc07Template, devs []vc07Dev, rmax int, outcome func(string)) vc07LargeResult {
	return vc07RunLargeTraced(t, dir, u, tpl, devs, rmax, outcome, false)
}

// vc07RunLargeTraced: traced = record, per delivery position of a TransactionList, the KV step trace and the transaction clocks.
func vc07RunLargeTraced(t testing.TB, dir string, u *vc07Universe, tpl *vc07Template, devs []vc07Dev, rmax int, outcome func(string), traced bool) vc07LargeResult {
	w := vc07Build(t, dir, u, tpl, [2][]int{})
	defer w.close()
	w.outcome = outcome
	res := vc07LargeResult{rounds: -1, kinds: map[string]int{}, traces: map[int][]fault.Step{}, clocks: map[int][]uint32{}}
	devAt := map[int]string{}
	failAt := map[int]int{}
	for _, d := range devs {
		devAt[d.Pos] = d.Kind
		failAt[d.Pos] = d.At
	}
	var held []*vc07Msg
	pos := 0
	deliver := func(m *vc07Msg) {
		env := vc07Decode(m.Raw)
		res.kinds[vc07Kind(env)]++
		w.handle(m.To, m.Raw)
		if tl := env.GetTransactionList(); traced && tl != nil {
			res.traces[pos-1] = w.lastTrace
			var cl []uint32
			for _, x := range tl.Transactions {
				if i, ok := u.idx[hash.SHA256Sum(x.Data)]; ok {
					cl = append(cl, u.Clock[i])
				}
			}
			res.clocks[pos-1] = cl
		}
	}
	safety := func(full bool) bool {
		// between rounds the cheap listing (presence of every universe transaction + digests) is used; the
		// complete listing through FindBetweenLC (which would also show a foreign transaction) closes the run
		w.light = !full
		for _, nd := range w.nodes {
			nd.curValid, nd.lightValid = false, false
		}
		res.checked++
		c, d := w.safety()
		if c != "" {
			res.clause, res.detail = "safety-"+c, d
		}
		return c == ""
	}
	for round := 0; ; round++ {
		if !safety(false) {
			break
		}
		if len(w.pool) == 0 && len(held) == 0 && w.converged() {
			if safety(true) && w.converged() {
				res.rounds = round
			} else if res.clause == "" {
				res.clause, res.detail = "safety-subset", "complete listing disagrees with the presence listing"
			}
			break
		}
		if round >= rmax {
			res.clause, res.detail = "liveness-rmax", fmt.Sprintf("not converged after %d rounds", rmax)
			break
		}
		w.apply(vc07Event{K: "expire", N: 0})
		w.nodes[1].p.cMan.evict()
		w.apply(vc07Event{K: "tick", N: 0})
		w.apply(vc07Event{K: "tick", N: 1})
		w.pool = append(held, w.pool...)
		held = nil
		var tail []*vc07Msg // re-deliveries after everything else of this round
		for guard := 0; len(w.pool) > 0 || len(tail) > 0; guard++ {
			if guard > 20000 {
				res.clause, res.detail = "liveness-endless-round", "a round does not end"
				break
			}
			if len(w.pool) == 0 {
				w.pool, tail = tail, nil
			}
			m := w.pool[0]
			w.pool = w.pool[1:]
			kind := devAt[pos]
			pos++
			switch kind {
			case "":
				deliver(m)
			case "drop":
			case "dup-now":
				deliver(m)
				deliver(m)
			case "dup-late":
				deliver(m)
				tail = append(tail, m)
			case "dup-stale":
				deliver(m)
				held = append(held, m)
			case "reorder":
				w.pool = append(w.pool, m)
			case "delay":
				held = append(held, m)
			case "lexpire":
				w.apply(vc07Event{K: "expire", N: 0})
				w.nodes[1].p.cMan.evict()
				deliver(m)
			case "kvfail":
				res.kinds[vc07Kind(vc07Decode(m.Raw))]++
				w.handleKV(m.To, m.Raw, failAt[pos-1])
				if w.lastFired {
					res.fired, res.firedLabel = true, w.lastStep.Label()
				}
				safety(false) // the aggregates are judged right after the failed step (the roll-back must have restored them)
			default:
				panic("unknown deviation " + kind)
			}
		}
		if res.clause != "" {
			break
		}
	}
	res.deliveries = pos
	res.steps = w.steps
	res.oversize, res.oversizeKind, res.maxEnvelope = w.oversize, w.oversizeKind, w.maxEnvelope
	return res
}

// vc07KVDevs selects the storage-fault deviations of one fair run: for every delivered TransactionList, the State.Add of its
// first, second and last transaction and of every transaction whose clock is the last of a page, the first or the second of the
// next (dag.PageSize: tree leaf boundaries) — for each of these Adds every failable KV step (its read and every begin / put /
// commit of its write transaction). The mapping Add <-> transaction needs one write transaction per listed transaction;
// otherwise only the first and the last write transaction are taken.
func vc07KVDevs(base vc07LargeResult) []vc07Dev {
	var out []vc07Dev
	var positions []int
	for p := range base.traces {
		positions = append(positions, p)
	}
	sort.Ints(positions)
	for _, p := range positions {
		trace, clocks := base.traces[p], base.clocks[p]
		txs := 0
		for _, st := range trace {
			if st.Tx > txs {
				txs = st.Tx
			}
		}
		if txs == 0 {
			continue
		}
		want := map[int]bool{1: true, 2: true, txs: true}
		if txs == len(clocks) {
			for i, c := range clocks {
				if m := c % dag.PageSize; m == dag.PageSize-1 || m == 0 || m == 1 {
					want[i+1] = true
				}
			}
		}
		// a read step (Tx 0) belongs to the write transaction that follows it
		next := make([]int, len(trace))
		cur := 0
		for i := len(trace) - 1; i >= 0; i-- {
			if trace[i].Tx > 0 {
				cur = trace[i].Tx
			}
			next[i] = cur
		}
		for i, st := range trace {
			if !fault.Applicable(st.Kind, fault.Error) || !want[next[i]] {
				continue
			}
			out = append(out, vc07Dev{Pos: p, Kind: "kvfail", At: st.N, L: st.Label()})
		}
	}
	return out
}

func TestVerifC07Large(t *testing.T) {
	vc07Quiet()
	r := ev.Start(t, "C07")
	defer r.Finish()
	dir, err := os.MkdirTemp("", "c07l")
	if err != nil {
		t.Fatal(err)
	}
	defer os.RemoveAll(dir)
	const rmax = 12
	pairs := vc07LargePairs()
	byName := map[string]vc07LargePair{}
	for _, p := range pairs {
		byName[p.Name] = p
	}
	outcome := func(o string) { r.Outcome(o) }

	var rc vc07LargeReplay
	if r.ReplayCase(&rc) {
		if rc.Large == "" {
			return
		}
		p := byName[rc.Large]
		u := vc07NewUniverse(p.Name, p.Prevs)
		tpl := vc07MakeTemplate(t, dir, u, p.Init)
		res := vc07RunLarge(t, dir, u, tpl, rc.Devs, rmax, outcome)
		t.Logf("rounds=%d deliveries=%d clause=%q %s", res.rounds, res.deliveries, res.clause, res.detail)
		if res.clause != "" {
			r.Violation(vc07LargeSig(rc.Large, res.clause, rc.Devs), res.detail, rc)
		}
		r.Eval(rc.Large)
		r.States(res.checked)
		r.Transitions(res.steps)
		return
	}
	if os.Getenv("VERIF_REPLAY") != "" {
		return // the replay case belongs to the other part
	}

	r.Rule("structured large pairs with the shipped constants (PageSize 512, 1024 IBLT buckets): one side 1300 behind; disjoint branches of 600 " +
		"(symmetric difference 1200 > one IBLT decodes); equal clocks with a 3-transaction difference in the first of three pages; fork after 600 with 450 on each side. " +
		"Each is run along the fair schedule (expire, tick A, tick B, deliver FIFO) once without deviation and then once per (delivery position, deviation kind) " +
		"with kinds drop, dup-now, dup-late, dup-stale, reorder, delay (to the next round, past the conversation validity), lexpire, and kvfail (storage fault: a TransactionList is delivered while one KV step of a State.Add fails — every failable step of the Adds of the first, second and last transaction of the list and of the transactions at a page boundary; on the old-page-difference pair, thorough also on the pair that is 1300 behind) (quick tier: drop, dup-stale, delay, lexpire; the last pair drop and lexpire only); thorough adds, for the first two pairs, all pairs of " +
		"{drop, dup-stale, lexpire} deviations. A case is (pair, deviations).")
	r.Bound("large_pairs", len(pairs))
	r.Bound("R_max_allowed_large", rmax)
	shard, nsh := r.Shard()
	var states, trans int64
	maxR := 0
	idx := 0 // runs are numbered across all pairs and dealt round-robin, so every worker carries the same load
	for pi, p := range pairs {
		if r.Expired() {
			break
		}
		u := vc07NewUniverse(p.Name, p.Prevs)
		tpl := vc07MakeTemplate(t, dir, u, p.Init)
		// storage faults (kvfail) along the fair run: the pair whose difference lies in the first of three pages (the roll-back reloads
		// a three-page tree) in both tiers; the pair that is 1300 behind (lists of hundreds of transactions crossing pages) in thorough
		wantKV := pi == 2 || (r.Thorough() && pi == 0)
		base := vc07RunLargeTraced(t, dir, u, tpl, nil, rmax, outcome, wantKV)
		if base.clause != "" {
			r.Violation(vc07LargeSig(p.Name, base.clause, nil), base.detail, vc07LargeReplay{Large: p.Name})
			continue
		}
		if shard == pi%nsh {
			r.Eval(p.Name + " fair")
			states += base.checked
			trans += base.steps
			r.Sample(map[string]any{"pair": p.Name, "transactions": len(u.Txs), "fair_schedule_rounds": base.rounds, "deliveries": base.deliveries, "messages": base.kinds})
		}
		if base.rounds > maxR {
			maxR = base.rounds
		}
		r.Bound("positions_"+p.Name, base.deliveries)
		run := func(devs []vc07Dev) {
			idx++
			if (idx-1)%nsh != shard || r.Expired() || r.Violations() > 0 {
				return
			}
			res := vc07RunLarge(t, dir, u, tpl, devs, rmax, outcome)
			states += res.checked
			trans += res.steps
			r.Eval(fmt.Sprintf("%s %v", p.Name, devs))
			if res.fired {
				r.Outcome("storage-fault:" + res.firedLabel)
			}
			if res.clause != "" {
				r.Violation(vc07LargeSig(p.Name, res.clause, devs), res.detail, vc07LargeReplay{Large: p.Name, Devs: devs})
				return
			}
			r.Outcome(fmt.Sprintf("large-rounds:%d", res.rounds))
			r.AddExtra(fmt.Sprintf("large_runs_converging_in_%d_rounds", res.rounds), 1)
			if res.rounds > maxR {
				maxR = res.rounds
			}
		}
		kinds := vc07DevKinds
		if !r.Thorough() {
			kinds = []string{"drop", "dup-stale", "delay", "lexpire"}
			if pi == 3 {
				kinds = []string{"drop", "lexpire"}
			}
		}
		r.Bound("kinds_"+p.Name, kinds)
		for pos := 0; pos < base.deliveries; pos++ {
			for _, k := range kinds {
				run([]vc07Dev{{Pos: pos, Kind: k}})
			}
		}
		if wantKV {
			kv := vc07KVDevs(base)
			r.Bound("storage_fault_deviations_"+p.Name, len(kv))
			for _, d := range kv {
				run([]vc07Dev{d})
			}
		}
		if r.Thorough() && base.deliveries <= 40 && pi < 2 {
			k2 := []string{"drop", "dup-stale", "lexpire"}
			for p1 := 0; p1 < base.deliveries; p1++ {
				for p2 := p1 + 1; p2 < base.deliveries+3; p2++ {
					for _, a := range k2 {
						for _, b := range k2 {
							run([]vc07Dev{{Pos: p1, Kind: a}, {Pos: p2, Kind: b}})
						}
					}
				}
			}
			r.Bound("deviation_pairs_"+p.Name, true)
		}
	}
	r.Bound("R_max_observed_large", maxR)
	var ru syscall.Rusage
	_ = syscall.Getrusage(syscall.RUSAGE_SELF, &ru)
	r.Extra("cpu_seconds", float64(ru.Utime.Sec+ru.Stime.Sec)+float64(ru.Utime.Usec+ru.Stime.Usec)/1e6)
	r.Bound("cpu_seconds_of_this_worker", int(ru.Utime.Sec+ru.Stime.Sec))
	r.States(states)
	r.Transitions(trans)
}

func vc07LargeSig(pair, clause string, devs []vc07Dev) string {
	cls := "no-fault"
	if len(devs) > 0 {
		cls = ""
		for i, d := range devs {
			if i > 0 {
				cls += "+"
			}
			cls += d.Kind
			if d.L != "" {
				cls += "(" + d.L + ")"
			}
		}
	}
	return fmt.Sprintf("C07|large:%s|%s|%s", pair, clause, cls)
}
