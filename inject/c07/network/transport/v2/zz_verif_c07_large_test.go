//go:build verif

// C07 — structured LARGE pairs with the shipped constants (PageSize 512, 1024 IBLT buckets), explored along
// the fair schedule with every single deviation at every message position (thorough: pairs of deviations).
package v2

import (
	"fmt"
	"os"
	"syscall"
	"testing"

	"verif/ev"
)

type vc07LargePair struct {
	Name  string
	Prevs [][]int
	Init  [2][]int
}

func vc07Chain(prevs [][]int, from int, n int) ([][]int, []int) {
	var ids []int
	last := from
	for i := 0; i < n; i++ {
		prevs = append(prevs, []int{last})
		last = len(prevs) - 1
		ids = append(ids, last)
	}
	return prevs, ids
}

func vc07LargePairs() []vc07LargePair {
	var out []vc07LargePair
	{ // one side has the root only, the other 1300 more (three pages)
		prevs := [][]int{nil}
		prevs, ids := vc07Chain(prevs, 0, 1300)
		out = append(out, vc07LargePair{Name: "behind-0-vs-1300", Prevs: prevs, Init: [2][]int{{0}, append([]int{0}, ids...)}})
	}
	{ // two disjoint branches of 600: symmetric difference 1200, more than one IBLT of 1024 buckets decodes
		prevs := [][]int{nil}
		prevs, x := vc07Chain(prevs, 0, 600)
		prevs, y := vc07Chain(prevs, 0, 600)
		out = append(out, vc07LargePair{Name: "disjoint-600-vs-600", Prevs: prevs, Init: [2][]int{append([]int{0}, x...), append([]int{0}, y...)}})
	}
	{ // equal heads and clocks, the difference (3 transactions) sits in the first page of a three-page DAG
		prevs := [][]int{nil}
		prevs, c := vc07Chain(prevs, 0, 1200)
		prevs, e := vc07Chain(prevs, c[99], 3)
		out = append(out, vc07LargePair{Name: "old-page-diff-3-of-1200", Prevs: prevs, Init: [2][]int{append([]int{0}, c...), append(append([]int{0}, c...), e...)}})
	}
	{ // common prefix of 600, then two branches of 450 each: difference 900 spread over pages 1 and 2
		prevs := [][]int{nil}
		prevs, c := vc07Chain(prevs, 0, 600)
		prevs, x := vc07Chain(prevs, c[599], 450)
		prevs, y := vc07Chain(prevs, c[599], 450)
		out = append(out, vc07LargePair{Name: "fork-after-600-450-vs-450", Prevs: prevs,
			Init: [2][]int{append(append([]int{0}, c...), x...), append(append([]int{0}, c...), y...)}})
	}
	return out
}

// vc07Dev is one deviation from the fair schedule: at delivery position Pos (counted over the whole run)
// the message at the head of the FIFO is treated according to Kind instead of being delivered.
//
//	drop       lost
//	dup-now    delivered twice in a row
//	dup-late   delivered, and once more after everything else of this round
//	dup-stale  delivered, and once more in the NEXT round (after the conversations have expired)
//	reorder    moved to the end of the FIFO
//	delay      held back until the next round (arrives after the clock passed the conversation validity)
//	lexpire    the clock passes the validity and both evictions run just before it is delivered
type vc07Dev struct {
	Pos  int    `json:"pos"`
	Kind string `json:"kind"`
}

var vc07DevKinds = []string{"drop", "dup-now", "dup-late", "dup-stale", "reorder", "delay", "lexpire"}

type vc07LargeReplay struct {
	Large string    `json:"large"`
	Devs  []vc07Dev `json:"devs"`
}

type vc07LargeResult struct {
	rounds     int
	deliveries int
	steps      int64
	checked    int64
	clause     string
	detail     string
	kinds      map[string]int
	// storage / message-size seams
	fired        bool   // a planned storage fault fired
	firedLabel   string // at which step
	oversize     int    // envelopes the stream refused because their serialized size exceeded the configured message size
	oversizeKind string
	maxEnvelope  map[string]int
}

// vc07RunLarge executes the fair schedule with the given deviations.
func vc07RunLarge(t testing.TB, dir string, u *vc07Universe, tpl *vc07Template, devs []vc07Dev, rmax int, outcome func(string)) vc07LargeResult {
	w := vc07Build(t, dir, u, tpl, [2][]int{})
	defer w.close()
	w.outcome = outcome
	res := vc07LargeResult{rounds: -1, kinds: map[string]int{}}
	devAt := map[int]string{}
	for _, d := range devs {
		devAt[d.Pos] = d.Kind
	}
	var held []*vc07Msg
	pos := 0
	deliver := func(m *vc07Msg) {
		res.kinds[vc07Kind(vc07Decode(m.Raw))]++
		w.handle(m.To, m.Raw)
	}
	safety := func(full bool) bool {
		// between rounds the cheap listing (presence of every universe transaction + digests) is used; the
		// complete listing through FindBetweenLC (which would also show a foreign transaction) closes the run
		w.light = !full
		for _, nd := range w.nodes {
			nd.curValid, nd.lightValid = false, false
		}
		res.checked++
		c, d := w.safety()
		if c != "" {
			res.clause, res.detail = "safety-"+c, d
		}
		return c == ""
	}
	for round := 0; ; round++ {
		if !safety(false) {
			break
		}
		if len(w.pool) == 0 && len(held) == 0 && w.converged() {
			if safety(true) && w.converged() {
				res.rounds = round
			} else if res.clause == "" {
				res.clause, res.detail = "safety-subset", "complete listing disagrees with the presence listing"
			}
			break
		}
		if round >= rmax {
			res.clause, res.detail = "liveness-rmax", fmt.Sprintf("not converged after %d rounds", rmax)
			break
		}
		w.apply(vc07Event{K: "expire", N: 0})
		w.nodes[1].p.cMan.evict()
		w.apply(vc07Event{K: "tick", N: 0})
		w.apply(vc07Event{K: "tick", N: 1})
		w.pool = append(held, w.pool...)
		held = nil
		var tail []*vc07Msg // re-deliveries after everything else of this round
		for guard := 0; len(w.pool) > 0 || len(tail) > 0; guard++ {
			if guard > 20000 {
				res.clause, res.detail = "liveness-endless-round", "a round does not end"
				break
			}
			if len(w.pool) == 0 {
				w.pool, tail = tail, nil
			}
			m := w.pool[0]
			w.pool = w.pool[1:]
			kind := devAt[pos]
			pos++
			switch kind {
			case "":
				deliver(m)
			case "drop":
			case "dup-now":
				deliver(m)
				deliver(m)
			case "dup-late":
				deliver(m)
				tail = append(tail, m)
			case "dup-stale":
				deliver(m)
				held = append(held, m)
			case "reorder":
				w.pool = append(w.pool, m)
			case "delay":
				held = append(held, m)
			case "lexpire":
				w.apply(vc07Event{K: "expire", N: 0})
				w.nodes[1].p.cMan.evict()
				deliver(m)
			default:
				panic("unknown deviation " + kind)
			}
		}
		if res.clause != "" {
			break
		}
	}
	res.deliveries = pos
	res.steps = w.steps
	return res
}

func TestVerifC07Large(t *testing.T) {
	vc07Quiet()
	r := ev.Start(t, "C07")
	defer r.Finish()
	dir, err := os.MkdirTemp("", "c07l")
	if err != nil {
		t.Fatal(err)
	}
	defer os.RemoveAll(dir)
	const rmax = 12
	pairs := vc07LargePairs()
	byName := map[string]vc07LargePair{}
	for _, p := range pairs {
		byName[p.Name] = p
	}
	outcome := func(o string) { r.Outcome(o) }

	var rc vc07LargeReplay
	if r.ReplayCase(&rc) {
		if rc.Large == "" {
			return
		}
		p := byName[rc.Large]
		u := vc07NewUniverse(p.Name, p.Prevs)
		tpl := vc07MakeTemplate(t, dir, u, p.Init)
		res := vc07RunLarge(t, dir, u, tpl, rc.Devs, rmax, outcome)
		t.Logf("rounds=%d deliveries=%d clause=%q %s", res.rounds, res.deliveries, res.clause, res.detail)
		if res.clause != "" {
			r.Violation(vc07LargeSig(rc.Large, res.clause, rc.Devs), res.detail, rc)
		}
		r.Eval(rc.Large)
		r.States(res.checked)
		r.Transitions(res.steps)
		return
	}
	if os.Getenv("VERIF_REPLAY") != "" {
		return // the replay case belongs to the other part
	}

	r.Rule("structured large pairs with the shipped constants (PageSize 512, 1024 IBLT buckets): one side 1300 behind; disjoint branches of 600 " +
		"(symmetric difference 1200 > one IBLT decodes); equal clocks with a 3-transaction difference in the first of three pages; fork after 600 with 450 on each side. " +
		"Each is run along the fair schedule (expire, tick A, tick B, deliver FIFO) once without deviation and then once per (delivery position, deviation kind) " +
		"with kinds drop, dup-now, dup-late, dup-stale, reorder, delay (to the next round, past the conversation validity), lexpire (quick tier: drop, dup-stale, delay, lexpire; the last pair drop and lexpire only); thorough adds, for the first two pairs, all pairs of " +
		"{drop, dup-stale, lexpire} deviations. A case is (pair, deviations).")
	r.Bound("large_pairs", len(pairs))
	r.Bound("R_max_allowed_large", rmax)
	shard, nsh := r.Shard()
	var states, trans int64
	maxR := 0
	idx := 0 // runs are numbered across all pairs and dealt round-robin, so every worker carries the same load
	for pi, p := range pairs {
		if r.Expired() {
			break
		}
		u := vc07NewUniverse(p.Name, p.Prevs)
		tpl := vc07MakeTemplate(t, dir, u, p.Init)
		base := vc07RunLarge(t, dir, u, tpl, nil, rmax, outcome)
		if base.clause != "" {
			r.Violation(vc07LargeSig(p.Name, base.clause, nil), base.detail, vc07LargeReplay{Large: p.Name})
			continue
		}
		if shard == pi%nsh {
			r.Eval(p.Name + " fair")
			states += base.checked
			trans += base.steps
			r.Sample(map[string]any{"pair": p.Name, "transactions": len(u.Txs), "fair_schedule_rounds": base.rounds, "deliveries": base.deliveries, "messages": base.kinds})
		}
		if base.rounds > maxR {
			maxR = base.rounds
		}
		r.Bound("positions_"+p.Name, base.deliveries)
		run := func(devs []vc07Dev) {
			idx++
			if (idx-1)%nsh != shard || r.Expired() || r.Violations() > 0 {
				return
			}
			res := vc07RunLarge(t, dir, u, tpl, devs, rmax, outcome)
			states += res.checked
			trans += res.steps
			r.Eval(fmt.Sprintf("%s %v", p.Name, devs))
			if res.clause != "" {
				r.Violation(vc07LargeSig(p.Name, res.clause, devs), res.detail, vc07LargeReplay{Large: p.Name, Devs: devs})
				return
			}
			r.Outcome(fmt.Sprintf("large-rounds:%d", res.rounds))
			r.AddExtra(fmt.Sprintf("large_runs_converging_in_%d_rounds", res.rounds), 1)
			if res.rounds > maxR {
				maxR = res.rounds
			}
		}
		kinds := vc07DevKinds
		if !r.Thorough() {
			kinds = []string{"drop", "dup-stale", "delay", "lexpire"}
			if pi == 3 {
				kinds = []string{"drop", "lexpire"}
			}
		}
		r.Bound("kinds_"+p.Name, kinds)
		for pos := 0; pos < base.deliveries; pos++ {
			for _, k := range kinds {
				run([]vc07Dev{{Pos: pos, Kind: k}})
			}
		}
		if r.Thorough() && base.deliveries <= 40 && pi < 2 {
			k2 := []string{"drop", "dup-stale", "lexpire"}
			for p1 := 0; p1 < base.deliveries; p1++ {
				for p2 := p1 + 1; p2 < base.deliveries+3; p2++ {
					for _, a := range k2 {
						for _, b := range k2 {
							run([]vc07Dev{{Pos: p1, Kind: a}, {Pos: p2, Kind: b}})
						}
					}
				}
			}
			r.Bound("deviation_pairs_"+p.Name, true)
		}
	}
	r.Bound("R_max_observed_large", maxR)
	var ru syscall.Rusage
	_ = syscall.Getrusage(syscall.RUSAGE_SELF, &ru)
	r.Extra("cpu_seconds", float64(ru.Utime.Sec+ru.Stime.Sec)+float64(ru.Utime.Usec+ru.Stime.Usec)/1e6)
	r.States(states)
	r.Transitions(trans)
}

func vc07LargeSig(pair, clause string, devs []vc07Dev) string {
	cls := "no-fault"
	if len(devs) > 0 {
		cls = ""
		for i, d := range devs {
			if i > 0 {
				cls += "+"
			}
			cls += d.Kind
		}
	}
	return fmt.Sprintf("C07|large:%s|%s|%s", pair, clause, cls)
}
