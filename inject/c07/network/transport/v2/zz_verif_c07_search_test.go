//go:build verif

// C07 — explicit-state search over small pairs (this file) — see zz_verif_c07_world_test.go for the seam.
package v2

import (
	"crypto/sha256"
	"fmt"
	"io"
	"os"
	"runtime/debug"
	"sort"
	"strings"
	"syscall"
	"testing"

	vtime "github.com/nuts-foundation/nuts-node/verifshim/vtime"
	"github.com/sirupsen/logrus"

	"verif/ev"
	"verif/fault"
)

// ---------------------------------------------------------------------------------------------------------
// enumeration of initial pairs

// vc07Shapes enumerates all DAG shapes with n non-root transactions whose prevs are non-empty ANTICHAINS of
// earlier transactions (what a node produces: prevs = current heads), up to isomorphism. A transaction that
// also names an ancestor of one of its prevs has the same clock and the same causal closure as its reduced
// form, and the protocol reads nothing else of `prevs`, so the restriction loses no protocol behaviour.
func vc07Shapes(n int) [][][]int {
	var out [][][]int
	seen := map[string]bool{}
	var rec func(prevs [][]int, anc []uint32)
	rec = func(prevs [][]int, anc []uint32) {
		i := len(prevs)
		if i == n+1 {
			k := vc07ShapeKey(prevs, 0, 0)
			if !seen[k] {
				seen[k] = true
				cp := make([][]int, len(prevs))
				for j := range prevs {
					cp[j] = append([]int{}, prevs[j]...)
				}
				out = append(out, cp)
			}
			return
		}
		for mask := uint32(1); mask < 1<<uint(i); mask++ {
			ok := true
			var a uint32
			var ps []int
			for j := 0; j < i && ok; j++ {
				if mask&(1<<uint(j)) == 0 {
					continue
				}
				// antichain: j must not be an ancestor of another chosen element
				for k := 0; k < i; k++ {
					if k != j && mask&(1<<uint(k)) != 0 && anc[k]&(1<<uint(j)) != 0 {
						ok = false
					}
				}
				ps = append(ps, j)
				a |= anc[j] | 1<<uint(j)
			}
			if !ok {
				continue
			}
			rec(append(prevs, ps), append(anc, a))
		}
	}
	rec([][]int{nil}, []uint32{0})
	return out
}

// vc07ShapeKey is the canonical key of (shape, A, B) under relabelling of the non-root transactions and
// swapping of the two nodes: the minimum rendering over all permutations that keep a topological order.
func vc07ShapeKey(prevs [][]int, a, b uint32) string {
	n := len(prevs) - 1
	perm := make([]int, n+1) // old index -> new index
	used := make([]bool, n+1)
	best := ""
	var rec func(pos int)
	render := func() {
		np := make([][]int, n+1)
		for old := 0; old <= n; old++ {
			var ps []int
			for _, p := range prevs[old] {
				ps = append(ps, perm[p])
			}
			sort.Ints(ps)
			np[perm[old]] = ps
		}
		for i := 1; i <= n; i++ {
			for _, p := range np[i] {
				if p >= i {
					return // not topological
				}
			}
		}
		mapMask := func(m uint32) uint32 {
			var r uint32
			for old := 0; old <= n; old++ {
				if m&(1<<uint(old)) != 0 {
					r |= 1 << uint(perm[old])
				}
			}
			return r
		}
		ma, mb := mapMask(a), mapMask(b)
		if mb < ma {
			ma, mb = mb, ma
		}
		s := fmt.Sprintf("%v|%d|%d", np, ma, mb)
		if best == "" || s < best {
			best = s
		}
	}
	rec = func(pos int) {
		if pos > n {
			render()
			return
		}
		for v := 1; v <= n; v++ {
			if !used[v] {
				used[v] = true
				perm[pos] = v
				rec(pos + 1)
				used[v] = false
			}
		}
	}
	perm[0] = 0
	rec(1)
	return best
}

// vc07Symmetric tells whether a relabelling of the transactions maps the shape onto itself and A onto B and B onto A:
// the two nodes are then mirror images, and a first fault at node 1 is the mirror image of the same fault at node 0.
func vc07Symmetric(prevs [][]int, a, b uint32) bool {
	n := len(prevs) - 1
	norm := func(pp [][]int) string {
		cp := make([][]int, len(pp))
		for i := range pp {
			cp[i] = append([]int{}, pp[i]...)
			sort.Ints(cp[i])
		}
		return fmt.Sprint(cp)
	}
	want := fmt.Sprintf("%s|%d|%d", norm(prevs), b, a)
	perm := make([]int, n+1)
	used := make([]bool, n+1)
	found := false
	var rec func(pos int)
	rec = func(pos int) {
		if found {
			return
		}
		if pos > n {
			np := make([][]int, n+1)
			for old := 0; old <= n; old++ {
				var ps []int
				for _, p := range prevs[old] {
					ps = append(ps, perm[p])
				}
				np[perm[old]] = ps
			}
			mapMask := func(m uint32) uint32 {
				var r uint32
				for old := 0; old <= n; old++ {
					if m&(1<<uint(old)) != 0 {
						r |= 1 << uint(perm[old])
					}
				}
				return r
			}
			if fmt.Sprintf("%s|%d|%d", norm(np), mapMask(a), mapMask(b)) == want {
				found = true
			}
			return
		}
		for v := 1; v <= n; v++ {
			if !used[v] {
				used[v] = true
				perm[pos] = v
				rec(pos + 1)
				used[v] = false
			}
		}
	}
	rec(1)
	return found
}

type vc07Pair struct {
	Shape  [][]int `json:"shape"` // prevs per transaction (index 0 = root)
	A      uint32  `json:"a"`     // bit i set: node A starts with transaction i
	B      uint32  `json:"b"`
	Queued bool    `json:"queued"` // true: the non-shared transactions are created AFTER the connection is up (they sit in the gossip queues)
	// Private: "" | "no-payload" | "payload-at-holder" (see vc07NewUniversePrivate)
	Private string `json:"private,omitempty"`
}

func (p vc07Pair) String() string {
	if p.Private != "" {
		return fmt.Sprintf("shape=%v A=%b B=%b queued=%v private=%s", p.Shape, p.A, p.B, p.Queued, p.Private)
	}
	return fmt.Sprintf("shape=%v A=%b B=%b queued=%v", p.Shape, p.A, p.B, p.Queued)
}

func vc07Closed(prevs [][]int, m uint32) bool {
	if m&1 == 0 {
		return false
	}
	for i := range prevs {
		if m&(1<<uint(i)) == 0 {
			continue
		}
		for _, p := range prevs[i] {
			if m&(1<<uint(p)) == 0 {
				return false
			}
		}
	}
	return true
}

// vc07Pairs lists all pairs (A,B) of causally closed subsets containing the root with A ∪ B = everything,
// for every shape with at most maxUnion transactions, up to isomorphism and swapping. Every pair is listed with the
// differing transactions present before the connection; pairs with a union of at most queuedUpTo transactions are
// listed a second time with the differing transactions created after the connection (queued for gossip).
func vc07Pairs(maxUnion int, queuedUpTo int) []vc07Pair {
	var out []vc07Pair
	seen := map[string]bool{}
	for n := 1; n <= maxUnion-1; n++ {
		for _, shape := range vc07Shapes(n) {
			full := uint32(1)<<uint(n+1) - 1
			for a := uint32(1); a <= full; a++ {
				if !vc07Closed(shape, a) {
					continue
				}
				for b := uint32(1); b <= full; b++ {
					if a|b != full || !vc07Closed(shape, b) {
						continue
					}
					k := vc07ShapeKey(shape, a, b)
					if seen[k] {
						continue
					}
					seen[k] = true
					out = append(out, vc07Pair{Shape: shape, A: a, B: b})
					if a != b && n+1 <= queuedUpTo {
						out = append(out, vc07Pair{Shape: shape, A: a, B: b, Queued: true})
					}
				}
			}
		}
	}
	return out
}

func vc07Bits(m uint32, n int) []int {
	var r []int
	for i := 0; i < n; i++ {
		if m&(1<<uint(i)) != 0 {
			r = append(r, i)
		}
	}
	return r
}

// ---------------------------------------------------------------------------------------------------------
// search

type vc07Bounds struct {
	// FirstFault restricts the FIRST fault of a history to one class "kind@node" (node = destination of the message,
	// or the node whose eviction runs); "" = any. The classes partition the histories with at least one fault, so a
	// pair can be searched as six independent jobs (each de-duplicates within itself).
	FirstFault string
	Budget     int // fault events per history
	// KVFaults: storage faults are part of the fault alphabet (kvfail on deliveries, cfail on creations; class "kvfail@node" of
	// the first fault). KVReads: read steps (Read / ReadShelf calls of the handler) can fail too, not only write-transaction steps.
	KVFaults bool
	KVReads  bool
	PoolTick int // tick(n) is enabled while fewer than this many original messages are in flight (bounds delay)
	MaxDepth int
	Rmax     int
}

// enabled lists the events of the current state. Faults (drop, dup, lexpire) only while budget remains.
// tick(n): enabled while no original Gossip of n is still in flight and fewer than PoolTick originals are in
// flight (a bound on how far delivery may lag behind the 5 s gossip interval; copies left by dup do not count,
// they model arbitrarily late duplicates). expire(n) / lexpire(n): advance the clock past the conversation
// validity and run n's eviction; enabled when that changes anything; free only when no original is in flight.
func (w *vc07World) enabled(b vc07Bounds) []vc07Event {
	var evs []vc07Event
	seen := map[string]bool{}
	originals := 0
	gossipInFlight := [2]bool{}
	for _, m := range w.pool {
		if !m.Copy {
			originals++
			if _, ok := vc07Decode(m.Raw).Message.(*Envelope_Gossip); ok {
				gossipInFlight[1-m.To] = true
			}
		}
		k := fmt.Sprintf("%d|%v|%s", m.To, m.Copy, m.Raw)
		if seen[k] {
			continue
		}
		seen[k] = true
		if m.Copy {
			evs = append(evs, vc07Event{K: "stale", M: m.ID})
			continue
		}
		evs = append(evs, vc07Event{K: "deliver", M: m.ID})
		if w.faults < b.Budget {
			for _, k := range []string{"drop", "dup"} {
				if w.faults > 0 || b.FirstFault == "" || b.FirstFault == fmt.Sprintf("%s@%d", k, m.To) {
					evs = append(evs, vc07Event{K: k, M: m.ID})
				}
			}
		}
	}
	for n := 0; n < 2; n++ {
		if w.nodes[n].connected && !gossipInFlight[n] && originals < b.PoolTick {
			evs = append(evs, vc07Event{K: "tick", N: n})
		}
		if !w.nodes[n].connected {
			evs = append(evs, vc07Event{K: "reconnect", N: n})
		}
	}
	if w.faults < b.Budget && w.linkUp() {
		// the classes of a first stream loss are split once more: with messages in flight (busy) or without (idle)
		phase := "idle"
		if len(w.pool) > 0 {
			phase = "busy"
		}
		for n := 0; n <= 2; n++ {
			if w.faults > 0 || b.FirstFault == "" || b.FirstFault == fmt.Sprintf("disc@%d:%s", n, phase) {
				evs = append(evs, vc07Event{K: "disc", N: n})
			}
		}
	}
	w.setClock()
	live, any := false, [2]bool{}
	for n := 0; n < 2; n++ {
		cm := w.nodes[n].p.cMan
		for _, c := range cm.conversations {
			any[n] = true
			if c.expiry.After(vtime.Now()) {
				live = true
			}
		}
	}
	for n := 0; n < 2; n++ {
		if live || any[n] {
			if originals == 0 {
				evs = append(evs, vc07Event{K: "expire", N: n})
			} else if w.faults < b.Budget && (w.faults > 0 || b.FirstFault == "" || b.FirstFault == fmt.Sprintf("lexpire@%d", n)) {
				evs = append(evs, vc07Event{K: "lexpire", N: n})
			}
		}
	}
	return evs
}

type vc07Replay struct {
	Pair vc07Pair    `json:"pair"`
	Hist []vc07Event `json:"history"`
	Note string      `json:"note,omitempty"`
}

type vc07Searcher struct {
	t       *testing.T
	r       *ev.Run
	dir     string
	b       vc07Bounds
	maxR    int
	states  int64
	trans   int64
	suffix  int64
	maxDep  int
	byFault map[int]int64
}

func (s *vc07Searcher) primaryJob() bool { return s.b.FirstFault == "" || s.b.FirstFault == "drop@0" }

func vc07Hist(h []vc07Event, e vc07Event) []vc07Event {
	return append(append(make([]vc07Event, 0, len(h)+1), h...), e)
}

func vc07Sig(kind, clause string, hist []vc07Event) string {
	// structural input class: which fault kinds the history contains (not ids, not positions)
	kinds := map[string]bool{}
	for _, e := range hist {
		if e.fault() {
			if e.L != "" {
				kinds[e.K+"("+e.L+")"] = true // storage faults: which step failed (structural label, no counters)
			} else {
				kinds[e.K] = true
			}
		}
	}
	var ks []string
	for k := range kinds {
		ks = append(ks, k)
	}
	sort.Strings(ks)
	cls := "no-fault"
	if len(ks) > 0 {
		cls = strings.Join(ks, "+")
	}
	return fmt.Sprintf("C07|%s|%s|%s", kind, clause, cls)
}

type vc07Setup struct {
	pair vc07Pair
	u    *vc07Universe
	tpl  *vc07Template
	late [2][]int
}

func vc07Prepare(t testing.TB, dir string, pair vc07Pair) *vc07Setup {
	n := len(pair.Shape)
	u := vc07NewUniversePrivate(fmt.Sprint(pair.Shape), pair.Shape, pair.Private)
	s := &vc07Setup{pair: pair, u: u}
	shared := pair.A & pair.B
	var init [2][]int
	for i, m := range []uint32{pair.A, pair.B} {
		if pair.Queued {
			init[i] = vc07Bits(m&shared, n)
			s.late[i] = vc07Bits(m&^shared, n)
		} else {
			init[i] = vc07Bits(m, n)
		}
	}
	s.tpl = vc07MakeTemplate(t, dir, u, init)
	return s
}

func (s *vc07Setup) build(t testing.TB, dir string, hist []vc07Event) *vc07World {
	var opts vc07BuildOpts
	if len(hist) > 0 && hist[0].K == "cfail" {
		opts.createFault, hist = &hist[0], hist[1:]
	}
	w := vc07BuildOpt(t, dir, s.u, s.tpl, s.late, opts)
	for i, e := range hist {
		if !w.apply(e) {
			t.Fatalf("replay mismatch at step %d (%+v) of %s: event does not exist — replay is not deterministic", i, e, s.pair)
		}
	}
	return w
}

type vc07QNode struct {
	hist    []vc07Event
	enabled []vc07Event
	key     [32]byte
	conv    bool
}

// searchPair explores the state graph of one pair breadth-first to quiescence (no new canonical states).
func (s *vc07Searcher) searchPair(pair vc07Pair) {
	r := s.r
	set := vc07Prepare(s.t, s.dir, pair)
	seen := map[[32]byte]bool{}
	// conformance pass (App. B.3): successor sets of states merged at depth <= 3
	succOf := map[[32]byte]map[[32]byte]bool{}
	dupHist := map[[32]byte][][]vc07Event{}
	outcome := func(o string) { r.Outcome(o) }

	visit := func(w *vc07World, hist []vc07Event) (vc07QNode, bool) {
		// safety in every state reached (also duplicates); cheap listing here, complete listing for new states below
		w.light = true
		defer func() { w.light = false }()
		if clause, detail := w.safety(); clause != "" {
			r.Violation(vc07Sig("small", "safety-"+clause, hist), detail, vc07Replay{Pair: pair, Hist: hist})
		}
		if w.buildClause != "" && len(hist) == 1 {
			r.Violation(vc07Sig("small", "safety-"+w.buildClause+"-after-failed-creation", hist), w.buildDetail, vc07Replay{Pair: pair, Hist: hist})
		}
		key := sha256.Sum256([]byte(w.canon()))
		if seen[key] {
			return vc07QNode{key: key}, false
		}
		seen[key] = true
		s.states++
		s.byFault[w.faults]++
		if len(hist) > s.maxDep {
			s.maxDep = len(hist)
		}
		node := vc07QNode{hist: hist, enabled: w.enabled(s.b), key: key, conv: len(w.pool) == 0 && w.converged()}
		w.light = false
		// liveness: fair suffix from this (new) state, on this live instance. The fault-free states are common to the six
		// jobs of a pair: their suffix (and the conformance pass) is run by the first job only.
		if w.faults == 0 && !s.primaryJob() {
			return node, true
		}
		before := w.steps
		rounds, reason := w.fairSuffix(s.b.Rmax, func() bool {
			if clause, detail := w.safety(); clause != "" {
				r.Violation(vc07Sig("small-suffix", "safety-"+clause, hist), detail, vc07Replay{Pair: pair, Hist: hist, Note: "then the fair suffix"})
				return false
			}
			return true
		})
		s.suffix += w.steps - before
		if rounds < 0 && reason != "safety" {
			r.Violation(vc07Sig("small", "liveness-"+reason, hist),
				fmt.Sprintf("fair suffix (expire, tick both, deliver FIFO) from this state does not reach set(A)=set(B)=union with equal XOR (%s; Rmax=%d)", reason, s.b.Rmax),
				vc07Replay{Pair: pair, Hist: hist, Note: "then the fair suffix"})
		} else if rounds > s.maxR {
			s.maxR = rounds
		}
		if rounds >= 0 {
			r.Outcome(fmt.Sprintf("suffix-rounds:%d", rounds))
			r.AddExtra(fmt.Sprintf("states_converging_in_%d_rounds", rounds), 1)
		}
		return node, true
	}

	// kvSteps lists the steps of a recorded KV trace at which a storage error is enumerated
	kvSteps := func(trace []fault.Step) []fault.Step {
		var out []fault.Step
		for _, st := range trace {
			if !fault.Applicable(st.Kind, fault.Error) || (st.Kind == fault.ReadOp && !s.b.KVReads) {
				continue
			}
			out = append(out, st)
		}
		return out
	}
	kvClass := func(faultsSoFar, node int) bool {
		return s.b.KVFaults && faultsSoFar < s.b.Budget && (faultsSoFar > 0 || s.b.FirstFault == "" || s.b.FirstFault == fmt.Sprintf("kvfail@%d", node))
	}

	w := set.build(s.t, s.dir, nil)
	w.outcome = outcome
	root, _ := visit(w, nil)
	createTraces := w.createTraces
	w.close()
	frontier := []vc07QNode{root}
	// storage faults on LOCAL CREATION: every created transaction x every failable KV step of its State.Add; the creation is
	// repeated at once (these are alternative start states: with a correct roll-back they coincide with the root)
	for n := 0; n < 2; n++ {
		if !kvClass(0, n) {
			continue
		}
		for j, trace := range createTraces[n] {
			for _, st := range kvSteps(trace) {
				if r.Expired() {
					return
				}
				h := []vc07Event{{K: "cfail", N: n, M: j, At: st.N, L: st.Label()}}
				w := set.build(s.t, s.dir, h)
				w.outcome = outcome
				s.trans++
				r.Outcome("creation-fault:" + st.Label())
				node, fresh := visit(w, h)
				w.close()
				if fresh {
					frontier = append(frontier, node)
				}
			}
		}
	}
	for depth := 1; len(frontier) > 0; depth++ {
		if depth > s.b.MaxDepth {
			r.NotExhaustive(fmt.Sprintf("depth bound %d reached with a non-empty frontier", s.b.MaxDepth))
			break
		}
		var next []vc07QNode
		for _, q := range frontier {
			if r.Expired() {
				return
			}
			selfLoopOnly := true
			succ := map[[32]byte]bool{}
			evs := q.enabled
			for ei := 0; ei < len(evs); ei++ {
				e := evs[ei]
				nh := vc07Hist(q.hist, e)
				w := set.build(s.t, s.dir, q.hist)
				w.outcome = outcome
				faultsBefore, to := w.faults, -1
				if e.K == "deliver" || e.K == "stale" {
					if _, m := w.find(e.M, w.pool); m != nil {
						to = m.To
					}
				}
				if !w.apply(e) {
					s.t.Fatalf("enabled event %+v vanished on replay of %s", e, pair)
				}
				if e.K == "kvfail" {
					if !w.lastFired {
						// the step of the fault-free trace did not occur on this replay: the storage steps of a handler are expected
						// to be deterministic; never an alarm
						r.NotExhaustive("a storage step of the fault-free trace did not occur when the delivery was replayed with the fault armed")
						w.close()
						continue
					}
					r.Outcome("storage-fault:" + w.lastStep.Label() + ":" + w.lastErr)
				}
				if to >= 0 && kvClass(faultsBefore, to) {
					// storage faults as environment deviations: the same delivery again with the k-th KV step of the handler failing,
					// for every failable step k of the trace just recorded
					cp := append([]vc07Event{}, evs...)
					for _, st := range kvSteps(w.lastTrace) {
						cp = append(cp, vc07Event{K: "kvfail", M: e.M, At: st.N, L: st.Label()})
					}
					evs = cp
				}
				s.trans++
				node, fresh := visit(w, nh)
				w.close()
				if e.K != "kvfail" { // the conformance pass below re-derives successors from enabled(), which does not list storage faults
					succ[node.key] = true
				}
				if !e.fault() && node.key != q.key {
					selfLoopOnly = false
				}
				if fresh {
					next = append(next, node)
				} else if depth <= 3 && len(dupHist[node.key]) < 2 && s.primaryJob() {
					dupHist[node.key] = append(dupHist[node.key], nh)
				}
			}
			if depth-1 <= 3 {
				succOf[q.key] = succ
			}
			if selfLoopOnly && !q.conv {
				r.Violation(vc07Sig("small", "quiescent-not-converged", q.hist),
					"every non-fault event leaves this state unchanged although the nodes have not converged",
					vc07Replay{Pair: pair, Hist: q.hist})
			}
		}
		frontier = next
	}
	// conformance: a second history with the same canonical form must have the same successor forms
	checked, bad := 0, 0
	for key, hs := range dupHist {
		want, ok := succOf[key]
		if !ok {
			continue
		}
		for _, h := range hs {
			if r.Expired() {
				return
			}
			w := set.build(s.t, s.dir, h)
			evs := w.enabled(s.b)
			w.close()
			got := map[[32]byte]bool{}
			for _, e := range evs {
				w := set.build(s.t, s.dir, h)
				w.apply(e)
				got[sha256.Sum256([]byte(w.canon()))] = true
				w.close()
			}
			checked++
			same := len(got) == len(want)
			for k := range got {
				if !want[k] {
					same = false
				}
			}
			if !same {
				bad++
			}
		}
	}
	r.AddExtra("conformance_checked", int64(checked))
	r.AddExtra("conformance_mismatch", int64(bad))
	if bad > 0 {
		s.t.Errorf("canonical form is too coarse: %d of %d merged states have different successor sets (%s)", bad, checked, pair)
	}
}

func vc07Quiet() {
	debug.SetGCPercent(400)
	logrus.SetOutput(io.Discard)
	logrus.SetLevel(logrus.PanicLevel)
	// the audit logger is created on first use with the os.Stderr of that moment: point it at /dev/null
	// (one line per signed transaction would flood the worker log)
	if null, err := os.OpenFile(os.DevNull, os.O_WRONLY, 0); err == nil {
		old := os.Stderr
		os.Stderr = null
		vc07NewUniverse("warm-up", [][]int{nil})
		os.Stderr = old
	}
}

func TestVerifC07Small(t *testing.T) {
	vc07Quiet()
	r := ev.Start(t, "C07")
	defer r.Finish()
	dir, err := os.MkdirTemp("", "c07")
	if err != nil {
		t.Fatal(err)
	}
	defer os.RemoveAll(dir)

	b := vc07Bounds{Budget: 1, PoolTick: 2, MaxDepth: 80, Rmax: 16, KVFaults: true, KVReads: true}
	if v := os.Getenv("VERIF_C07_KVREADS"); v != "" {
		b.KVReads = v == "1"
	}
	maxUnion := 4
	// fault budget per pair. "two-way": both sides hold transactions the other lacks (two crossing reconciliations: the
	// state graph with one fault has ~45 000 transitions per pair against ~5 000 for a one-way pair).
	budgetFor := func(p vc07Pair) int {
		union, twoWay := len(p.Shape), p.A&^p.B != 0 && p.B&^p.A != 0
		if p.Private != "" {
			// the private variants repeat the graphs of the public ones: fault-free in quick, one fault up to a union of 3 in thorough
			if r.Thorough() && union <= 3 {
				return 1
			}
			return 0
		}
		if !r.Thorough() {
			// quick: one fault for the two-way pairs and for the one-way pairs whose behind side holds the root only, up to a union
			// of 3. The other one-way pairs (a longer shared prefix, one transaction missing) have, class by class, exactly the
			// graph sizes of the |union| = 2 pair (measured) and get their fault search in thorough, like the unions of 4.
			shared := p.A & p.B
			if union <= 3 && (twoWay || shared == 1) {
				return 1
			}
			return 0
		}
		switch {
		case union <= 2:
			return 2
		case union <= 4, union == 5 && !twoWay:
			return 1
		}
		return 0
	}
	if r.Thorough() {
		maxUnion = 6
	}
	if v := os.Getenv("VERIF_C07_UNION"); v != "" {
		fmt.Sscan(v, &maxUnion)
	}
	if v := os.Getenv("VERIF_C07_BUDGET"); v != "" {
		fixed := 0
		fmt.Sscan(v, &fixed)
		budgetFor = func(vc07Pair) int { return fixed }
	}
	if v := os.Getenv("VERIF_C07_POOLTICK"); v != "" {
		fmt.Sscan(v, &b.PoolTick)
	}
	s := &vc07Searcher{t: t, r: r, dir: dir, b: b, byFault: map[int]int64{}}

	var rc vc07Replay
	if r.ReplayCase(&rc) {
		if rc.Pair.Shape == nil {
			return
		}
		b.Budget = 99
		vc07ReplayCase(t, r, dir, rc, b)
		return
	}
	if os.Getenv("VERIF_REPLAY") != "" {
		return // the replay case belongs to the other part
	}

	r.Rule("initial pairs: every pair (A,B) of causally closed transaction sets over a shared root with A∪B = a DAG of at most maxUnion transactions " +
		"(every shape whose prevs are antichains, up to isomorphism and swapping A/B), each with the differing transactions present before the connection " +
		"(empty gossip queues) and, up to the union size given under bounds, a second time with them created after it (queued for gossip); every pair again with all non-root " +
		"transactions PRIVATE, the payload held by no node / by the nodes that start with the transaction (convergence is judged on the transaction set). From each pair a breadth-first search over event histories of the two REAL protocol " +
		"instances to quiescence: deliver(m) for any in-flight m, tick(node), expire(node) and, charged to a budget, drop(m), dup(m) (deliver and leave a copy in flight " +
		"for arbitrarily late re-delivery; stale(m) is the delivery of such a copy at any later moment), lexpire(node) (expiry while messages are in flight), " +
		"kvfail(m,k) (STORAGE fault: m is delivered while the k-th KV step of the receiving node's handler — every begin / put <shelf> / commit of its write transactions and every read, taken from the step trace of the fault-free delivery through the shared fault.KV wrapper around the bbolt store — returns a database error; the store works again afterwards) " +
		"and, for pairs whose differing transactions are created after the connection, cfail (the k-th KV step of a creating State.Add fails, for every created transaction and every k; the aggregates are judged at once and the creation is repeated). " +
		"A pair with a fault budget is searched as one job per class (kind, node) of the FIRST fault (eleven classes, the three stream-loss classes split again into idle/busy; for a pair whose nodes are mirror images the classes at node 1 are skipped; quick searches stream loss on the one-way pairs only); states are merged by canonical form (App. B.3) within a job, " +
		"so the state and transition counts are sums over jobs. A case is (pair, first-fault class); non-trivial when A != B.")
	queuedUpTo := 3
	if r.Thorough() {
		queuedUpTo = maxUnion
	}
	pairs := vc07Pairs(maxUnion, queuedUpTo)
	// every non-trivial pair again with PRIVATE transactions: payload held by nobody / by the nodes that start with the transaction
	for _, p := range append([]vc07Pair{}, pairs...) {
		if p.A != p.B {
			for _, v := range []string{"no-payload", "payload-at-holder"} {
				q := p
				q.Private = v
				pairs = append(pairs, q)
			}
		}
	}
	r.Bound("queued_variant_up_to_union", queuedUpTo)
	r.Bound("private_variants", []string{"no-payload", "payload-at-holder"})
	r.Bound("storage_fault_steps", map[string]bool{"write_transaction_steps": b.KVFaults, "read_steps": b.KVFaults && b.KVReads})
	if os.Getenv("VERIF_C07_COUNTONLY") != "" {
		for k := 2; k <= 6; k++ {
			ps := vc07Pairs(k, k)
			nt := 0
			for _, p := range ps {
				if p.A != p.B {
					nt++
				}
			}
			fmt.Printf("COUNT maxUnion=%d shapes(n=%d)=%d pairs=%d nontrivial=%d\n", k, k-1, len(vc07Shapes(k-1)), len(ps), nt)
		}
		return
	}
	// jobs: a pair with a fault budget is split by the class of the first fault; jobs are dealt to the shards by
	// estimated cost (longest first to the least loaded shard), deterministically
	type job struct {
		pair   int
		first  string
		budget int
		cost   int
	}
	var jobs []job
	// estimated transitions per job, measured once on the unchanged tree (only used to balance the shards)
	est := func(twoWay, queued bool, kind string, node int) int {
		switch {
		case twoWay && !queued:
			return map[string]int{"drop": 11800, "dup": 17500, "lexpire": 4300, "disc": 25500, "kvfail": 5600}[kind]
		case twoWay:
			return map[string]int{"drop": 6500, "dup": 7200, "lexpire": 2400, "disc": 14000, "kvfail": 3000}[kind]
		case !queued:
			return map[string]int{"drop": 1440, "dup": 1810 + 570*(node%2), "lexpire": 720, "disc": 2800, "kvfail": 1540 - 870*(node%2)}[kind]
		}
		return map[string]int{"drop": 1040 - 200*(node%2), "dup": 1190 + 180*(node%2), "lexpire": 540 - 120*(node%2), "disc": 1900, "kvfail": 950 - 410*(node%2)}[kind]
	}
	for i, p := range pairs {
		bud := budgetFor(p)
		twoWay := p.A&^p.B != 0 && p.B&^p.A != 0
		switch {
		case p.A == p.B:
			jobs = append(jobs, job{pair: i, budget: bud, cost: 50})
		case bud == 0:
			c := 200
			if twoWay {
				c = 1170
			}
			jobs = append(jobs, job{pair: i, budget: bud, cost: c})
		default:
			symmetric := vc07Symmetric(p.Shape, p.A, p.B)
			for _, k := range []string{"drop", "dup", "lexpire", "disc", "kvfail"} {
				for n := 0; n < 3; n++ {
					if n == 2 && k != "disc" {
						continue
					}
					if n == 1 && symmetric {
						continue // mirror image of the class at node 0
					}
					if k == "disc" && !r.Thorough() && (twoWay || (n < 2 && p.Queued)) {
						// quick: stream loss is searched on the one-way pairs (one-sided loss where the differing transactions predate
						// the connection), and along structured scenarios in part limits; two-way pairs (~25 000 transitions per class) in thorough
						continue
					}
					c := est(twoWay, p.Queued, k, n)
					if bud == 2 {
						c *= 25
					}
					if k == "disc" {
						for _, ph := range []string{"idle", "busy"} {
							jobs = append(jobs, job{pair: i, first: fmt.Sprintf("%s@%d:%s", k, n, ph), budget: bud, cost: c/2 + c/10})
						}
						continue
					}
					jobs = append(jobs, job{pair: i, first: fmt.Sprintf("%s@%d", k, n), budget: bud, cost: c})
				}
			}
		}
	}
	assign := make([]int, len(jobs))
	{
		_, nsh := r.Shard()
		order := make([]int, len(jobs))
		for i := range jobs {
			order[i] = i
		}
		sort.SliceStable(order, func(a, b int) bool { return jobs[order[a]].cost > jobs[order[b]].cost })
		load := make([]int, nsh)
		for _, i := range order {
			best := 0
			for s := range load {
				if load[s] < load[best] {
					best = s
				}
			}
			assign[i] = best
			load[best] += jobs[i].cost
		}
	}
	r.Bound("max_union", maxUnion)
	bb := map[string]int{}
	for _, p := range pairs {
		way := "one-way"
		if p.A&^p.B != 0 && p.B&^p.A != 0 {
			way = "two-way"
		}
		if p.Private != "" {
			way += "_private"
		}
		bb[fmt.Sprintf("union_%d_%s", len(p.Shape), way)] = budgetFor(p)
	}
	r.Bound("fault_budget_by_union_size", bb)
	r.Bound("pool_bound_for_tick", b.PoolTick)
	r.Bound("max_depth_allowed", b.MaxDepth)
	r.Bound("pairs_total", len(pairs))
	r.Bound("jobs_total", len(jobs))
	r.Assume("time passes in steps of conversation validity + 1 s (all live conversations of both nodes expire together); the xorTreeRepair loop is not started (its counter is inert)")
	r.Assume("honest peers: every in-flight message was produced by the real sender code of the other node; forged messages belong to C06/C15/C19")
	myShard, _ := r.Shard()
	// execution order within a worker: cheapest first, so that the broad fault-free jobs (every pair, every private variant)
	// are done even when the wall budget cuts the expensive single-fault jobs on a loaded machine
	exec := make([]int, len(jobs))
	for i := range exec {
		exec[i] = i
	}
	sort.SliceStable(exec, func(a, b int) bool { return jobs[exec[a]].cost < jobs[exec[b]].cost })
	for _, ji := range exec {
		j := jobs[ji]
		if assign[ji] != myShard {
			continue
		}
		if r.Expired() {
			break
		}
		if r.Violations() > 0 {
			r.NotExhaustive("stopped after the first job with a violation")
			break
		}
		pair := pairs[j.pair]
		st0, tr0 := s.states, s.trans
		s.b.Budget, s.b.FirstFault = j.budget, j.first
		s.searchPair(pair)
		key := ""
		if pair.A != pair.B {
			key = pair.String() + " first-fault=" + j.first
		}
		r.Eval(key)
		r.Sample(map[string]any{"pair": pair.String(), "fault_budget": j.budget, "first_fault_class": j.first, "states": s.states - st0, "transitions": s.trans - tr0})
		if os.Getenv("VERIF_C07_PAIRSTATS") != "" {
			fmt.Printf("PAIRSTAT %d %s budget=%d first=%s states=%d transitions=%d\n", j.pair, pair.String(), j.budget, j.first, s.states-st0, s.trans-tr0)
		}
	}
	var ru syscall.Rusage
	_ = syscall.Getrusage(syscall.RUSAGE_SELF, &ru)
	r.Extra("cpu_seconds", float64(ru.Utime.Sec+ru.Stime.Sec)+float64(ru.Utime.Usec+ru.Stime.Usec)/1e6)
	r.Bound("cpu_seconds_of_this_worker", int(ru.Utime.Sec+ru.Stime.Sec))
	r.States(s.states)
	r.Transitions(s.trans)
	r.AddExtra("fair_suffix_steps", s.suffix)
	r.Bound("R_max_observed", s.maxR)
	r.Bound("max_depth_reached", s.maxDep)
	for f, n := range s.byFault {
		r.AddExtra(fmt.Sprintf("states_with_%d_faults", f), n)
	}
}

// vc07ReplayCase re-executes one recorded history without the explorer and judges it with the same oracles.
func vc07ReplayCase(t *testing.T, r *ev.Run, dir string, rc vc07Replay, b vc07Bounds) {
	set := vc07Prepare(t, dir, rc.Pair)
	pre := 0
	if len(rc.Hist) > 0 && rc.Hist[0].K == "cfail" {
		pre = 1
	}
	w := set.build(t, dir, rc.Hist[:pre])
	defer w.close()
	if w.buildClause != "" {
		t.Logf("after the failed creation: %s: %s", w.buildClause, w.buildDetail)
		r.Violation(vc07Sig("small", "safety-"+w.buildClause+"-after-failed-creation", rc.Hist[:pre]), w.buildDetail, rc)
	}
	for i, e := range rc.Hist {
		if i < pre {
			continue
		}
		if !w.apply(e) {
			t.Fatalf("replay: event %d %+v does not exist", i, e)
		}
		t.Logf("step %d %+v -> %s", i, e, w.lastErr)
		if clause, detail := w.safety(); clause != "" {
			r.Violation(vc07Sig("small", "safety-"+clause, rc.Hist[:i+1]), detail, rc)
		}
	}
	t.Logf("state:\n%s", w.canon())
	rounds, reason := w.fairSuffix(b.Rmax, func() bool {
		if clause, detail := w.safety(); clause != "" {
			r.Violation(vc07Sig("small-suffix", "safety-"+clause, rc.Hist), detail, rc)
			return false
		}
		return true
	})
	t.Logf("fair suffix: rounds=%d reason=%q", rounds, reason)
	if rounds < 0 && reason != "safety" {
		r.Violation(vc07Sig("small", "liveness-"+reason, rc.Hist), "fair suffix does not converge ("+reason+")", rc)
	}
	r.Eval(rc.Pair.String())
	r.States(1)
	r.Transitions(int64(len(rc.Hist)))
}
