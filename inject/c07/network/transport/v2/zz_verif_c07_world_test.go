//go:build verif

// C07 — Connected nodes converge to the union of their DAGs despite loss and reordering.
//
// This file: the simulated world. Two REAL v2.protocol instances, each over a REAL dag.State on its own
// bbolt file, a REAL conversationManager (clock virtualised by the overlay rewrite of conversation.go)
// and the REAL gossip manager (ticker 1 h, rounds fired through the injected gossip.VerifTick). The two
// are connected by the repository's exported grpc.StubConnection: whatever a node hands to Send is
// marshalled to protobuf bytes (as on the wire) and becomes an in-flight message of the pool; delivery
// unmarshals the bytes into a fresh Envelope and calls the real handle* body synchronously (the
// handleASync goroutine and the list-handler channel are bypassed, nothing else).
package v2

import (
	"context"
	"crypto/sha256"
	"encoding/hex"
	"fmt"
	"os"
	"path/filepath"
	"sort"
	"strings"
	"sync/atomic"
	"testing"
	"time"

	"github.com/nuts-foundation/go-did/did"
	"github.com/nuts-foundation/go-stoabs"
	"github.com/nuts-foundation/go-stoabs/bbolt"
	"github.com/nuts-foundation/nuts-node/core"
	"github.com/nuts-foundation/nuts-node/crypto/hash"
	"github.com/nuts-foundation/nuts-node/network/dag"
	"github.com/nuts-foundation/nuts-node/network/dag/tree"
	"github.com/nuts-foundation/nuts-node/network/transport"
	"github.com/nuts-foundation/nuts-node/network/transport/grpc"
	"github.com/nuts-foundation/nuts-node/network/transport/v2/gossip"
	vtime "github.com/nuts-foundation/nuts-node/verifshim/vtime"
	"google.golang.org/protobuf/proto"

	"verif/fault"
)

// vc07Universe is a set of valid signed transactions over one root (index 0), in topological order.
type vc07Universe struct {
	Name     string
	Prevs    [][]int
	Txs      []dag.Transaction
	Payloads [][]byte
	Clock    []uint32
	idx      map[hash.SHA256Hash]int
	folds    map[string]*tree.Iblt // reference IBLT per transaction set (fold of Insert over the set)
}

var vc07TxCounter uint32

// vc07NewUniverse signs one transaction per entry of prevs (prevs[0] must be empty: the root).
func vc07NewUniverse(name string, prevs [][]int) *vc07Universe {
	return vc07NewUniversePrivate(name, prevs, "")
}

// vc07NewUniversePrivate: private = "no-payload" makes every non-root transaction a PRIVATE one (it carries a participant
// list header; the nodes have no node DID, so they are non-participant relays) whose payload NO node holds; "payload-at-holder"
// makes them private with the payload present on the nodes that start with the transaction (a node that receives one over the
// wire never gets the payload). Convergence is about the transaction SET; payloads of private transactions are not part of it.
func vc07NewUniversePrivate(name string, prevs [][]int, private string) *vc07Universe {
	u := &vc07Universe{Name: name, Prevs: prevs, idx: map[hash.SHA256Hash]int{}}
	signingTime := time.Date(2024, 1, 1, 0, 0, 0, 0, time.UTC)
	for i, ps := range prevs {
		var ptx []dag.Transaction
		for _, p := range ps {
			ptx = append(ptx, u.Txs[p])
		}
		num := atomic.AddUint32(&vc07TxCounter, 1)
		var pal [][]byte
		if private != "" && i > 0 {
			pal = [][]byte{[]byte("verif-c07 opaque participant list")}
		}
		tx := dag.CreateSignedTestTransaction(num, signingTime, pal, "application/verif+json", true, ptx...)
		payload := []byte{byte(num >> 24), byte(num >> 16), byte(num >> 8), byte(num)}
		if !hash.SHA256Sum(payload).Equals(tx.PayloadHash()) {
			panic("payload convention of CreateSignedTestTransaction changed")
		}
		if private == "no-payload" && i > 0 {
			payload = nil
		}
		u.Txs = append(u.Txs, tx)
		u.Payloads = append(u.Payloads, payload)
		u.Clock = append(u.Clock, tx.Clock())
		u.idx[tx.Ref()] = i
	}
	return u
}

type vc07Node struct {
	name  string
	path  string
	db    stoabs.KVStore
	kv    *fault.KV // the same store: every KV step of the node passes through the shared fault wrapper (bbolt file -> fault.KV -> dag.State / protocol)
	state dag.State
	p     *protocol
	conn  *grpc.StubConnection // this node's connection TO the other node
	other transport.Peer
	// connection churn: connected = this node currently sees the stream to the other node; handles = the ticker
	// goroutines the gossip manager started for it (see gossip.VerifHandle)
	connected bool
	handles   []*gossip.VerifHandle
	set       map[int]bool // last observed transaction set (universe indices), for the never-shrinks clause
	// cache of the set as listed by the real State, dropped whenever this node executes a step
	cur        map[int]bool
	curForeign string
	curValid   bool
	lightSet   map[int]bool
	lightValid bool
}

type vc07Msg struct {
	ID   int
	To   int
	Raw  []byte
	Copy bool // left in the pool by a dup event
}

// vc07Event is one step of a history. N: node (tick, expire, lexpire). M: message id.
//
//	deliver(m)  hand an in-flight original to its destination (ANY in-flight message: reordering)
//	drop(m)     lose it                                                             [fault]
//	dup(m)      deliver it and leave a copy in flight                                [fault]
//	stale(m)    deliver such a left-over copy, at any later moment (a duplicate that arrives after the
//	            exchange it belongs to has long been answered: a stale / unsolicited response)
//	tick(n)     one gossip round of n
//	expire(n)   the clock passes the conversation validity and n's eviction runs, while nothing is in flight
//	lexpire(n)  the same while original messages are still in flight, i.e. they are delayed > 30 s  [fault]
//	disc(n)     the stream between the nodes drops and node n notices (n = 2: both notice at once): the REAL
//	            connectionStateCallback(StateDisconnected) runs on it (gossip PeerDisconnected, diagnostics), its
//	            connection reports closed, and everything in flight in either direction is lost with the stream  [fault]
//	reconnect(n) node n sees the stream re-established: connectionStateCallback(StateConnected) (gossip PeerConnected with
//	            the current XOR/clock). Nothing travels while either side is disconnected.
//	kvfail(m,at) message m is delivered while the STORAGE of the receiving node fails once: the at-th KV step (begin / put <shelf> /
//	            delete / commit of a write transaction, read <shelf>) that the handler performs returns a database error  [fault]
//	            (an environment deviation like drop/dup: afterwards the store works again and the peer simply offers the
//	            transaction again). L is the structural label of the step (for signatures), filled in from the fault-free trace.
//	cfail(n,j,at) only as the FIRST event of a history of a pair whose differing transactions are created after the connection:
//	            the at-th KV step of node n's State.Add of its j-th created transaction fails (the creator sees the error) and the
//	            creation is repeated at once; the aggregates are judged between the failure and the repetition       [fault]
type vc07Event struct {
	K  string `json:"k"`
	N  int    `json:"n,omitempty"`
	M  int    `json:"m,omitempty"`
	At int    `json:"at,omitempty"`
	L  string `json:"l,omitempty"`
}

func (e vc07Event) fault() bool {
	return e.K == "drop" || e.K == "dup" || e.K == "lexpire" || e.K == "disc" || e.K == "kvfail" || e.K == "cfail"
}

type vc07World struct {
	u       *vc07Universe
	nodes   [2]*vc07Node
	pool    []*vc07Msg
	nextID  int
	faults  int
	offset  time.Duration // virtual clock, shared by both nodes (one process)
	steps   int64         // real handler / sender invocations
	outcome func(string)
	lastErr string
	light   bool // see readSet
	// storage seam: KV steps of the last handled delivery (reads numbered), whether the planned storage fault fired and where
	lastTrace []fault.Step
	lastFired bool
	lastStep  fault.Step
	// creation through State.Add after the connection: KV step trace per node and created transaction (fault-free build), and
	// what the aggregates looked like between a failed creation and its repetition ("" = fine)
	createTraces [2][][]fault.Step
	buildClause  string
	buildDetail  string
	// message-size seam (see collect)
	oversize     int
	oversizeKind string
	maxEnvelope  map[string]int
}

var vc07Base = time.Date(2030, 1, 1, 0, 0, 0, 0, time.UTC)
var vc07FileCounter int64

type vc07Template struct {
	bytes [2][]byte
}

// vc07MakeTemplate builds the two bbolt files holding the initial sets once; every build copies them.
// Stores are opened with a one-hour lock-acquire timeout: go-stoabs' default is 3 s of REAL time, and on a starved
// machine an uncontended lock can take longer, which either fails the transaction or (a race in its
// lockWithCancel) blocks for ever — observed once with ten of sixteen workers during a machine-wide stall.
func vc07MakeTemplate(t testing.TB, dir string, u *vc07Universe, init [2][]int) *vc07Template {
	tpl := &vc07Template{}
	for n := 0; n < 2; n++ {
		// large initial sets are expensive to load (one signature verification per transaction): the file for one
		// (universe, set) is kept, e.g. for the scenario with the two sides swapped
		key := ""
		if len(init[n]) > 300 {
			h := sha256.Sum256([]byte(fmt.Sprint(init[n])))
			key = fmt.Sprintf("%p|%x", u, h[:8])
			if b, ok := vc07TemplateCache[key]; ok {
				tpl.bytes[n] = b
				continue
			}
		}
		path := filepath.Join(dir, fmt.Sprintf("tpl_%d_%d.db", atomic.AddInt64(&vc07FileCounter, 1), n))
		db, err := bbolt.CreateBBoltStore(path, stoabs.WithNoSync(), stoabs.WithLockAcquireTimeout(time.Hour))
		if err != nil {
			t.Fatal(err)
		}
		st, err := dag.NewState(db, dag.NewPrevTransactionsVerifier(), dag.NewTransactionSignatureVerifier(nil))
		if err != nil {
			t.Fatal(err)
		}
		if err := st.Configure(core.ServerConfig{}); err != nil {
			t.Fatal(err)
		}
		for _, i := range init[n] {
			if err := st.Add(context.Background(), u.Txs[i], u.Payloads[i]); err != nil {
				t.Fatalf("template add tx %d: %v", i, err)
			}
		}
		_ = st.Shutdown()
		if err := db.Close(context.Background()); err != nil {
			t.Fatal(err)
		}
		b, err := os.ReadFile(path)
		if err != nil {
			t.Fatal(err)
		}
		tpl.bytes[n] = b
		_ = os.Remove(path)
		if key != "" {
			if len(vc07TemplateCache) > 8 {
				vc07TemplateCache = map[string][]byte{}
			}
			vc07TemplateCache[key] = b
		}
	}
	return tpl
}

var vc07TemplateCache = map[string][]byte{}

// vc07Build creates a fresh world: copies the template files, opens them with the real constructors,
// wires the two protocols and connects them. late[n] are added through State.Add AFTER the connection
// is up, so they pass through the real gossip notifier into the peer queue (freshly created transactions).
func vc07Build(t testing.TB, dir string, u *vc07Universe, tpl *vc07Template, late [2][]int) *vc07World {
	return vc07BuildPeers(t, dir, u, tpl, late, false)
}

// vc07BuildPeers: withDID gives both connections an authenticated node DID (transport.Peer.Key() then carries it).
func vc07BuildPeers(t testing.TB, dir string, u *vc07Universe, tpl *vc07Template, late [2][]int, withDID bool) *vc07World {
	return vc07BuildOpt(t, dir, u, tpl, late, vc07BuildOpts{withDID: withDID})
}

// vc07BuildOpts: pre[n] are added through State.Add BEFORE node n is connected (they predate the connection like the template's
// transactions, but need not be part of the cached template file); createFault, when set, is a cfail event (see vc07Event).
type vc07BuildOpts struct {
	withDID     bool
	pre         [2][]int
	createFault *vc07Event
}

// armKV starts a numbered, recorded phase on node n's store (reads numbered too); at > 0 plans one storage error at that step.
func (w *vc07World) armKV(n int, at int) {
	kv := w.nodes[n].kv
	kv.NumberReads(true)
	kv.KeepTrace(true)
	if at > 0 {
		kv.Arm(fault.Plan{Mode: fault.Error, At: at})
	} else {
		kv.Arm(fault.Plan{})
	}
}

// disarmKV ends the phase and returns its step trace and whether / where the planned fault fired.
func (w *vc07World) disarmKV(n int) (trace []fault.Step, fired bool, at fault.Step) {
	kv := w.nodes[n].kv
	trace = kv.Trace()
	fired, at = kv.Fired()
	kv.Arm(fault.Plan{})
	kv.KeepTrace(false)
	kv.NumberReads(false)
	return
}

func vc07BuildOpt(t testing.TB, dir string, u *vc07Universe, tpl *vc07Template, late [2][]int, opts vc07BuildOpts) *vc07World {
	withDID := opts.withDID
	vtime.Freeze(vc07Base)
	w := &vc07World{u: u, maxEnvelope: map[string]int{}}
	peers := [2]transport.Peer{{ID: "nodeA", Address: "a.test:5555"}, {ID: "nodeB", Address: "b.test:5555"}}
	if withDID {
		peers[0].NodeDID, peers[0].Authenticated = did.MustParseDID("did:nuts:nodeA"), true
		peers[1].NodeDID, peers[1].Authenticated = did.MustParseDID("did:nuts:nodeB"), true
	}
	for n := 0; n < 2; n++ {
		path := filepath.Join(dir, fmt.Sprintf("w_%d_%d.db", atomic.AddInt64(&vc07FileCounter, 1), n))
		if err := os.WriteFile(path, tpl.bytes[n], 0o600); err != nil {
			t.Fatal(err)
		}
		inner, err := bbolt.CreateBBoltStore(path, stoabs.WithNoSync(), stoabs.WithLockAcquireTimeout(time.Hour))
		if err != nil {
			t.Fatal(err)
		}
		kv := fault.Wrap(inner)
		kv.KeepTrace(false)
		var db stoabs.KVStore = kv
		st, err := dag.NewState(db, dag.NewPrevTransactionsVerifier(), dag.NewTransactionSignatureVerifier(nil))
		if err != nil {
			t.Fatal(err)
		}
		if err := st.Configure(core.ServerConfig{}); err != nil {
			t.Fatal(err)
		}
		for _, i := range opts.pre[n] {
			if err := st.Add(context.Background(), u.Txs[i], u.Payloads[i]); err != nil {
				t.Fatalf("pre-connection add tx %d: %v", i, err)
			}
		}
		cfg := Config{GossipInterval: 3600 * 1000, DiagnosticsInterval: 0, PayloadRetryDelay: time.Hour}
		p := New(cfg, did.DID{}, st, nil, nil, func() transport.Diagnostics { return transport.Diagnostics{} }, db).(*protocol)
		if err := p.Configure(transport.PeerID(peers[n].ID)); err != nil {
			t.Fatal(err)
		}
		p.cMan = newConversationManager(maxValidity) // as Start() does, without the eviction ticker
		other := peers[1-n]
		conn := grpc.NewStubConnection(other)
		p.connectionList = &grpc.StubConnectionList{Conn: conn}
		w.nodes[n] = &vc07Node{name: string(peers[n].ID), path: path, db: db, kv: kv, state: st, p: p, conn: conn, other: other}
		w.connect(n)
	}
	for n := 0; n < 2; n++ {
		w.nodes[n].set, _ = w.readSet(n)
	}
	for n := 0; n < 2; n++ {
		for j, i := range late[n] {
			if cf := opts.createFault; cf != nil && cf.N == n && cf.M == j {
				// the creation fails at KV step cf.At; the creator sees the error and repeats the creation at once
				w.armKV(n, cf.At)
				err := w.nodes[n].state.Add(context.Background(), u.Txs[i], u.Payloads[i])
				_, fired, _ := w.disarmKV(n)
				w.faults++
				w.steps++
				w.nodes[n].curValid, w.nodes[n].lightValid = false, false
				if fired && err != nil {
					// between failure and repetition: the node's aggregates must describe its stored set (the transaction is not in it)
					if c, d := w.safety(); c != "" && w.buildClause == "" {
						w.buildClause, w.buildDetail = c, "after the failed creation of #"+fmt.Sprint(i)+": "+d
					}
				}
				if err == nil {
					continue // the step was not one the creation depends on (or did not occur): the transaction exists
				}
				// repetition; a second failure leaves the transaction uncreated, which the liveness oracle reports
				_ = w.nodes[n].state.Add(context.Background(), u.Txs[i], u.Payloads[i])
				continue
			}
			w.armKV(n, 0)
			err := w.nodes[n].state.Add(context.Background(), u.Txs[i], u.Payloads[i])
			trace, _, _ := w.disarmKV(n)
			w.createTraces[n] = append(w.createTraces[n], trace)
			if err != nil {
				t.Fatalf("late add tx %d: %v", i, err)
			}
		}
		w.nodes[n].curValid, w.nodes[n].lightValid = false, false
		w.nodes[n].set, _ = w.readSet(n)
	}
	w.collect()
	return w
}

func (w *vc07World) close() {
	for _, n := range w.nodes {
		if n == nil {
			continue
		}
		n.p.cancel()
		_ = n.state.Shutdown()
		_ = n.db.Close(context.Background())
		_ = os.Remove(n.path)
	}
}

func (w *vc07World) setClock() { vtime.Freeze(vc07Base); vtime.Advance(w.offset) }

// collect moves whatever the nodes handed to Send into the pool, as wire bytes.
func (w *vc07World) linkUp() bool { return w.nodes[0].connected && w.nodes[1].connected }

// connect / disconnect run the real connection-state callback of node n.
func (w *vc07World) connect(n int) {
	nd := w.nodes[n]
	nd.conn.Open = true
	nd.connected = true
	nd.p.connectionStateCallback(nd.other, transport.StateConnected, nd.p)
	if h := gossip.VerifAfterConnect(nd.p.gManager, nd.other, nd.handles); h != nil {
		known := false
		for _, x := range nd.handles {
			known = known || x == h
		}
		if !known {
			nd.handles = append(nd.handles, h)
		}
	}
}

func (w *vc07World) disconnect(n int) {
	nd := w.nodes[n]
	nd.conn.Open = false
	nd.connected = false
	nd.p.connectionStateCallback(nd.other, transport.StateDisconnected, nd.p)
	w.collect()
	w.pool = nil // lost with the stream
}

func (w *vc07World) collect() {
	for n := 0; n < 2; n++ {
		c := w.nodes[n].conn
		if !w.linkUp() {
			c.SentMsgs = nil // nothing travels while either side is disconnected
			continue
		}
		msgs := c.SentMsgs
		c.SentMsgs = nil
		for _, m := range msgs {
			env := m.(*Envelope)
			// the stream enforces the configured message size on the REAL serialized size, as gRPC does (MaxSendMsgSize /
			// MaxCallSendMsgSize = grpc.MaxMessageSizeInBytes): SendMsg of a larger message fails with ResourceExhausted, the
			// message is never transmitted, and the failed SendMsg ends the stream (grpc-go finishes the client stream / writes the
			// status on the server stream), so both nodes see the connection drop and everything else in flight is lost with it.
			// This is the sender's own doing, not a fault of the environment: it is not charged to the deviation budget.
			size := proto.Size(env)
			kind := vc07Kind(env)
			if size > w.maxEnvelope[kind] {
				w.maxEnvelope[kind] = size
			}
			if size > grpc.MaxMessageSizeInBytes {
				w.oversize++
				w.oversizeKind = kind
				if w.outcome != nil {
					w.outcome("oversize-refused:" + kind)
				}
				for x := 0; x < 2; x++ {
					if w.nodes[x].connected {
						w.disconnect(x)
					}
				}
				break
			}
			raw, err := proto.MarshalOptions{Deterministic: true}.Marshal(env)
			if err != nil {
				panic(err)
			}
			w.nextID++
			w.pool = append(w.pool, &vc07Msg{ID: w.nextID, To: 1 - n, Raw: raw})
		}
	}
}

func vc07Kind(env *Envelope) string {
	return strings.TrimPrefix(fmt.Sprintf("%T", env.Message), "*v2.Envelope_")
}

func vc07Decode(raw []byte) *Envelope {
	env := &Envelope{}
	if err := proto.Unmarshal(raw, env); err != nil {
		panic(err)
	}
	return env
}

func vc07ErrClass(err error) string {
	if err == nil {
		return "ok"
	}
	s := err.Error()
	if i := strings.IndexAny(s, "(:"); i > 0 {
		s = s[:i]
	}
	return strings.TrimSpace(s)
}

// handle calls the real handler body for the message kind, synchronously.
func (w *vc07World) handle(to int, raw []byte) { w.handleKV(to, raw, 0) }

// handleKV: failAt > 0 makes the failAt-th KV step of this handler invocation fail (see kvfail).
func (w *vc07World) handleKV(to int, raw []byte, failAt int) {
	w.setClock()
	n := w.nodes[to]
	w.armKV(to, failAt)
	defer func() { w.lastTrace, w.lastFired, w.lastStep = w.disarmKV(to) }()
	n.curValid, n.lightValid = false, false
	env := vc07Decode(raw)
	ctx := n.p.ctx
	var err error
	switch env.Message.(type) {
	case *Envelope_Gossip:
		err = n.p.handleGossip(ctx, n.conn, env)
	case *Envelope_State:
		err = n.p.handleState(ctx, n.conn, env)
	case *Envelope_TransactionSet:
		err = n.p.handleTransactionSet(ctx, n.conn, env)
	case *Envelope_TransactionListQuery:
		err = n.p.handleTransactionListQuery(ctx, n.conn, env)
	case *Envelope_TransactionRangeQuery:
		err = n.p.handleTransactionRangeQuery(ctx, n.conn, env)
	case *Envelope_TransactionList:
		err = n.p.handleTransactionList(ctx, n.conn, env)
	case *Envelope_TransactionPayloadQuery:
		err = n.p.handleTransactionPayloadQuery(ctx, n.conn, env)
	case *Envelope_TransactionPayload:
		err = n.p.handleTransactionPayload(ctx, n.conn, env)
	default:
		panic("unexpected message kind " + vc07Kind(env))
	}
	w.steps++
	w.lastErr = vc07ErrClass(err)
	if w.outcome != nil {
		w.outcome(vc07Kind(env) + ":" + w.lastErr)
	}
	w.collect()
}

func (w *vc07World) find(id int, list []*vc07Msg) (int, *vc07Msg) {
	for i, m := range list {
		if m.ID == id {
			return i, m
		}
	}
	return -1, nil
}

// apply executes one event. It returns false if the event does not exist in this state (replay mismatch).
func (w *vc07World) apply(e vc07Event) bool {
	switch e.K {
	case "deliver", "stale":
		i, m := w.find(e.M, w.pool)
		if m == nil || m.Copy != (e.K == "stale") {
			return false
		}
		w.pool = append(append([]*vc07Msg{}, w.pool[:i]...), w.pool[i+1:]...)
		w.handle(m.To, m.Raw)
	case "drop":
		i, m := w.find(e.M, w.pool)
		if m == nil || m.Copy {
			return false
		}
		w.pool = append(append([]*vc07Msg{}, w.pool[:i]...), w.pool[i+1:]...)
		w.faults++
	case "dup":
		_, m := w.find(e.M, w.pool)
		if m == nil || m.Copy {
			return false
		}
		m.Copy = true
		w.faults++
		w.handle(m.To, m.Raw)
	case "kvfail":
		i, m := w.find(e.M, w.pool)
		if m == nil {
			return false
		}
		w.pool = append(append([]*vc07Msg{}, w.pool[:i]...), w.pool[i+1:]...)
		w.faults++
		w.handleKV(m.To, m.Raw, e.At)
	case "cfail":
		// executed by the build (vc07BuildOpts.createFault); as an event of a running history it does not exist
		return false
	case "tick":
		w.setClock()
		n := w.nodes[e.N]
		res := gossip.VerifTick(n.p.gManager, n.other, n.handles)
		if w.outcome != nil {
			w.outcome("tick:" + res)
		}
		w.steps++
		w.collect()
	case "disc":
		w.setClock()
		w.faults++
		for n := 0; n < 2; n++ {
			if (e.N == n || e.N == 2) && w.nodes[n].connected {
				w.disconnect(n)
			}
		}
		w.steps++
	case "reconnect":
		w.setClock()
		if w.nodes[e.N].connected {
			return false
		}
		w.connect(e.N)
		w.steps++
		w.collect()
	case "expire", "lexpire":
		if e.K == "lexpire" {
			w.faults++
		}
		w.offset += maxValidity + time.Second
		w.setClock()
		w.nodes[e.N].p.cMan.evict()
		w.steps++
	default:
		panic("unknown event " + e.K)
	}
	return true
}

// readSet lists the node's transactions through the real State and maps them onto the universe.
// foreign != "" names a stored transaction that is not part of the universe.
func (w *vc07World) readSet(n int) (set map[int]bool, foreign string) {
	nd := w.nodes[n]
	if nd.curValid {
		return nd.cur, nd.curForeign
	}
	if w.light {
		// cheap listing (no transaction parsing): presence of every universe transaction; a stored foreign
		// transaction still shows as a digest mismatch, and every NEW state and every round boundary of the
		// fair suffix is judged on the complete listing
		if nd.lightValid {
			return nd.lightSet, ""
		}
		defer func() { nd.lightSet, nd.lightValid = set, true }()
		set = map[int]bool{}
		for i, tx := range w.u.Txs {
			ok, err := nd.state.IsPresent(context.Background(), tx.Ref())
			if err != nil {
				panic(err)
			}
			if ok {
				set[i] = true
			}
		}
		return set, ""
	}
	defer func() { nd.cur, nd.curForeign, nd.curValid = set, foreign, true }()
	txs, err := w.nodes[n].state.FindBetweenLC(context.Background(), 0, dag.MaxLamportClock)
	if err != nil {
		panic(err)
	}
	set = map[int]bool{}
	for _, tx := range txs {
		i, ok := w.u.idx[tx.Ref()]
		if !ok {
			foreign = tx.Ref().String()
			continue
		}
		set[i] = true
	}
	return
}

// safety evaluates the safety clauses on the current state; it returns "" or (clause, detail).
// Clauses: subset (set ⊆ union of the initial sets = the universe), shrink (never removes), causal (every
// stored transaction has its prevs stored: nothing causally incomplete was admitted), digest (XOR / clock /
// IBLT aggregates equal a fold over the stored set — otherwise later rounds compare garbage).
func (w *vc07World) safety() (clause, detail string) {
	for n := 0; n < 2; n++ {
		nd := w.nodes[n]
		set, foreign := w.readSet(n)
		if foreign != "" {
			return "subset", fmt.Sprintf("node %s stores %s which is in neither initial set", nd.name, foreign)
		}
		for i := range nd.set {
			if !set[i] {
				return "shrink", fmt.Sprintf("node %s lost transaction #%d", nd.name, i)
			}
		}
		nd.set = set
		x := hash.EmptyHash()
		var high uint32
		ids := make([]int, 0, len(set))
		for i := range set {
			ids = append(ids, i)
		}
		sort.Ints(ids)
		foldKey := ""
		if len(ids) <= 16 {
			foldKey = fmt.Sprint(ids)
		}
		ib := w.u.folds[foldKey]
		fresh := ib == nil
		if fresh {
			ib = tree.NewIblt(dag.IbltNumBuckets)
		}
		for _, i := range ids {
			for _, p := range w.u.Prevs[i] {
				if !set[p] {
					return "causal", fmt.Sprintf("node %s stores #%d without its prev #%d", nd.name, i, p)
				}
			}
			x = x.Xor(w.u.Txs[i].Ref())
			if fresh {
				ib.Insert(w.u.Txs[i].Ref())
			}
			if w.u.Clock[i] > high {
				high = w.u.Clock[i]
			}
		}
		if fresh && foldKey != "" {
			if w.u.folds == nil {
				w.u.folds = map[string]*tree.Iblt{}
			}
			w.u.folds[foldKey] = ib
		}
		gx, gc := nd.state.XOR(dag.MaxLamportClock)
		if !gx.Equals(x) || gc != high {
			return "digest", fmt.Sprintf("node %s XOR/clock (%s,%d) differs from the fold over its set (%s,%d)", nd.name, gx, gc, x, high)
		}
		gi, _ := nd.state.IBLT(dag.MaxLamportClock)
		if err := gi.Subtract(ib); err != nil || !gi.Empty() {
			return "digest", fmt.Sprintf("node %s IBLT differs from the fold over its set", nd.name)
		}
	}
	return "", ""
}

func (w *vc07World) converged() bool {
	a, _ := w.readSet(0)
	b, _ := w.readSet(1)
	if len(a) != len(w.u.Txs) || len(b) != len(w.u.Txs) {
		return false
	}
	xa, ca := w.nodes[0].state.XOR(dag.MaxLamportClock)
	xb, cb := w.nodes[1].state.XOR(dag.MaxLamportClock)
	return xa.Equals(xb) && ca == cb
}

// ---------------------------------------------------------------------------------------------------------
// canonical form

func vc07Short(b []byte) string {
	h := sha256.Sum256(b)
	return hex.EncodeToString(h[:8])
}

// vc07MsgContent renders an envelope without its conversation id; cid is returned separately.
func vc07MsgContent(env *Envelope) (content string, cid string) {
	c := proto.Clone(env).(*Envelope)
	switch m := c.Message.(type) {
	case *Envelope_Gossip:
	case *Envelope_State:
		cid, m.State.ConversationID = string(m.State.ConversationID), nil
	case *Envelope_TransactionSet:
		cid, m.TransactionSet.ConversationID = string(m.TransactionSet.ConversationID), nil
	case *Envelope_TransactionListQuery:
		cid, m.TransactionListQuery.ConversationID = string(m.TransactionListQuery.ConversationID), nil
	case *Envelope_TransactionRangeQuery:
		cid, m.TransactionRangeQuery.ConversationID = string(m.TransactionRangeQuery.ConversationID), nil
	case *Envelope_TransactionList:
		cid, m.TransactionList.ConversationID = string(m.TransactionList.ConversationID), nil
	case *Envelope_TransactionPayloadQuery:
		cid, m.TransactionPayloadQuery.ConversationID = string(m.TransactionPayloadQuery.ConversationID), nil
	case *Envelope_TransactionPayload:
		cid, m.TransactionPayload.ConversationID = string(m.TransactionPayload.ConversationID), nil
	}
	raw, err := proto.MarshalOptions{Deterministic: true}.Marshal(c)
	if err != nil {
		panic(err)
	}
	return vc07Kind(env) + ":" + vc07Short(raw), cid
}

func (w *vc07World) refName(h hash.SHA256Hash) string {
	if i, ok := w.u.idx[h]; ok {
		return fmt.Sprintf("#%d", i)
	}
	return h.String()[:8]
}

// canon renders the canonical form of the world (see DESIGN App. B.3). Conversation ids are random: instead
// of renaming them, everything that carries the same id (the conversation entry of its owner, in-flight
// messages and copies) is grouped into one cluster rendered without the id, and the clusters
// are sorted — two states that differ only in the ids (or in which of two identical clusters is which)
// get the same form.
func (w *vc07World) canon() string {
	w.setClock()
	now := vtime.Now()
	var sb strings.Builder
	clusters := map[string][]string{}
	convDesc := map[string]string{}
	for n := 0; n < 2; n++ {
		nd := w.nodes[n]
		set, _ := w.readSet(n)
		ids := make([]int, 0, len(set))
		for i := range set {
			ids = append(ids, i)
		}
		sort.Ints(ids)
		fmt.Fprintf(&sb, "node%d set=%v", n, ids)
		cm := nd.p.cMan
		cm.mutex.RLock()
		for id, c := range cm.conversations {
			content, _ := vc07MsgContent(&Envelope{Message: c.conversationData})
			bucket := "expired"
			if c.expiry.After(now) {
				bucket = "live"
			}
			last := false
			for _, l := range cm.lastPeerConversationID {
				if l.String() == id {
					last = true
				}
			}
			convDesc[id] = fmt.Sprintf("conv@%d %s %s last=%v", n, content, bucket, last)
		}
		cm.mutex.RUnlock()
		exists, alive := gossip.VerifTickerAlive(nd.p.gManager, nd.other, nd.handles)
		fmt.Fprintf(&sb, " connected=%v ticker=%v", nd.connected, alive)
		q, ok := gossip.VerifSnapshot(nd.p.gManager, nd.other)
		if !ok || !exists {
			sb.WriteString(" queue=none\n")
			continue
		}
		sb.WriteString(" queue=[")
		for _, h := range q.Queue {
			sb.WriteString(w.refName(h) + " ")
		}
		logNames := make([]string, 0, len(q.Log))
		for _, h := range q.Log {
			logNames = append(logNames, w.refName(h))
		}
		sort.Strings(logNames)
		fmt.Fprintf(&sb, "] log=%v gossiped=(%s,%d)\n", logNames, q.XOR.String()[:12], q.Clock)
	}
	var loose []string
	add := func(tag string, m *vc07Msg) {
		content, cid := vc07MsgContent(vc07Decode(m.Raw))
		d := fmt.Sprintf("%s to=%d %s", tag, m.To, content)
		if cid == "" {
			loose = append(loose, d)
		} else {
			clusters[cid] = append(clusters[cid], d)
		}
	}
	for _, m := range w.pool {
		if m.Copy {
			add("copy", m)
		} else {
			add("msg", m)
		}
	}
	var cl []string
	for id, d := range convDesc {
		ms := clusters[id]
		sort.Strings(ms)
		cl = append(cl, d+" {"+strings.Join(ms, "; ")+"}")
		delete(clusters, id)
	}
	for _, ms := range clusters {
		sort.Strings(ms)
		cl = append(cl, "conv-gone {"+strings.Join(ms, "; ")+"}")
	}
	sort.Strings(cl)
	sort.Strings(loose)
	sb.WriteString(strings.Join(cl, "\n"))
	sb.WriteString("\n")
	sb.WriteString(strings.Join(loose, "\n"))
	fmt.Fprintf(&sb, "\nfaults=%d", w.faults)
	return sb.String()
}

// ---------------------------------------------------------------------------------------------------------
// fair suffix

// fairSuffix runs: repeat { reconnect whoever is disconnected; expire both; tick A; tick B; deliver everything FIFO until the pool is empty }
// until both sets equal the union and the digests are equal. It returns the number of rounds used, or
// -1 with a reason when the state at a round boundary repeats (the deterministic fair schedule cycles:
// it will never converge) or rmax rounds pass. check (optional) is called after every step.
func (w *vc07World) fairSuffix(rmax int, check func() bool) (rounds int, reason string) {
	seen := map[string]bool{}
	for round := 0; ; round++ {
		w.light = false
		if check != nil && !check() {
			return -1, "safety"
		}
		if len(w.pool) == 0 && w.converged() {
			return round, ""
		}
		if round >= rmax {
			return -1, "rmax"
		}
		c := w.canon()
		if seen[c] {
			return -1, "cycle"
		}
		seen[c] = true
		for n := 0; n < 2; n++ {
			if !w.nodes[n].connected {
				w.apply(vc07Event{K: "reconnect", N: n})
			}
		}
		w.apply(vc07Event{K: "expire", N: 0})
		w.nodes[1].p.cMan.evict()
		w.apply(vc07Event{K: "tick", N: 0})
		w.apply(vc07Event{K: "tick", N: 1})
		for guard := 0; len(w.pool) > 0; guard++ {
			if guard > 5000 {
				return -1, "endless-round"
			}
			k := "deliver"
			if w.pool[0].Copy {
				k = "stale"
			}
			w.apply(vc07Event{K: k, M: w.pool[0].ID})
			w.light = true
			ok := check == nil || check()
			w.light = false
			if !ok {
				return -1, "safety"
			}
		}
	}
}
