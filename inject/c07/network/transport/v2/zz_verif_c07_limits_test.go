//go:build verif

// C07 — structured scenarios that CROSS the protocol's limits (this file). The small search and the large pairs start
// from static DAGs; here transactions are ADDED to a connected node through the real State.Add (→ the protocol's
// registered notifier → gossip TransactionRegistered) between and inside gossip rounds, and sizes are chosen at
// limit-1 / limit / limit+1 of:
//   - the per-peer gossip queue and the received-refs log (gossip.maxQueueSize = 100): bursts of 1, 99, 100, 101, 150
//     transactions within one gossip interval, on one node, split over two intervals, on both nodes at once, and in the
//     middle of a running exchange;
//   - the TransactionList chunk size (grpc.MaxMessageSizeInBytes - 512): a list of exactly max-1, max, max+1 bytes and a
//     three-chunk list (multi-message conversations: resetTimeout, done on the last message);
//   - the page size (dag.PageSize = 512): one side behind by 511, 512, 513, 1023, 1024, 1025 transactions.
//
// Every scenario ends with the fair suffix and the same oracle as the rest of C07; the limit-crossing ones are also run
// with every single deviation at every delivery position.
package v2

import (
	"context"
	"fmt"
	"os"
	"sort"
	"strings"
	"syscall"
	"testing"
	"time"

	"github.com/lestrrat-go/jwx/v2/jwk"
	"github.com/nuts-foundation/nuts-node/audit"
	nutsCrypto "github.com/nuts-foundation/nuts-node/crypto"
	"github.com/nuts-foundation/nuts-node/crypto/hash"
	"github.com/nuts-foundation/nuts-node/network/dag"
	"github.com/nuts-foundation/nuts-node/network/transport/grpc"
	"google.golang.org/protobuf/proto"

	"verif/ev"
)

// vc07SignPayload signs a transaction over an arbitrary payload (CreateSignedTestTransaction fixes it to 4 bytes).
func vc07SignPayload(payload []byte, prevs ...dag.Transaction) dag.Transaction {
	var ph []hash.SHA256Hash
	lc := uint32(0)
	for _, p := range prevs {
		ph = append(ph, p.Ref())
		if p.Clock()+1 > lc {
			lc = p.Clock() + 1
		}
	}
	unsigned, err := dag.NewTransaction(hash.SHA256Sum(payload), "application/verif+json", ph, nil, lc)
	if err != nil {
		panic(err)
	}
	key, err := nutsCrypto.GenerateJWK()
	if err != nil {
		panic(err)
	}
	_ = key.Set(jwk.KeyIDKey, "k")
	pub, _ := key.PublicKey()
	var raw interface{}
	if err := pub.Raw(&raw); err != nil {
		panic(err)
	}
	tx, err := dag.NewTransactionSigner(nutsCrypto.MemoryJWTSigner{Key: key}, "k", raw).Sign(audit.TestContext(), unsigned, time.Date(2024, 1, 1, 0, 0, 0, 0, time.UTC))
	if err != nil {
		panic(err)
	}
	return tx
}

// vc07PayloadUniverse is vc07NewUniverse with chosen payloads. payloadOf may look at the transactions signed so far.
func vc07PayloadUniverse(name string, prevs [][]int, payloadOf func(i int, u *vc07Universe, prevTxs []dag.Transaction) []byte) *vc07Universe {
	u := &vc07Universe{Name: name, Prevs: prevs, idx: map[hash.SHA256Hash]int{}}
	for i, ps := range prevs {
		var ptx []dag.Transaction
		for _, p := range ps {
			ptx = append(ptx, u.Txs[p])
		}
		payload := payloadOf(i, u, ptx)
		tx := vc07SignPayload(payload, ptx...)
		u.Txs = append(u.Txs, tx)
		u.Payloads = append(u.Payloads, payload)
		u.Clock = append(u.Clock, tx.Clock())
		u.idx[tx.Ref()] = i
	}
	return u
}

// vc07Phase scripts one round: transactions created on a node before its tick, after both ticks, or just before the
// delivery with the given index WITHIN the round.
type vc07Phase struct {
	Reconnect    [2]bool          `json:"reconnect"`  // at the start of the round
	Disconnect   [2]bool          `json:"disconnect"` // next, before anything is created
	BeforeTicks  [2][]int         `json:"before_ticks"`
	AfterTicks   [2][]int         `json:"after_ticks"`
	AtDelivery   map[int][2][]int `json:"at_delivery,omitempty"`
	DisconnectAt map[int][2]bool  `json:"disconnect_at,omitempty"` // just before the delivery with this index within the round
	NoReconnect  bool             `json:"no_reconnect"`            // scripted round during which a disconnected node stays disconnected
	// FailCreate: one creation whose State.Add fails at a KV step (the creator sees the error; the script repeats the creation in
	// a later round)
	FailCreate *vc07FailCreate `json:"fail_create,omitempty"`
}

// vc07FailCreate: node Node creates transaction ID while the At-th KV step of that State.Add fails. Delivery = -1: before the
// ticks of the round; >= 0: just before the delivery with that index within the round (or at the end of a shorter round).
type vc07FailCreate struct {
	Node     int `json:"node"`
	ID       int `json:"id"`
	At       int `json:"at"`
	Delivery int `json:"delivery"`
}

func (w *vc07World) create(t testing.TB, node int, ids []int) {
	for _, i := range ids {
		if err := w.nodes[node].state.Add(context.Background(), w.u.Txs[i], w.u.Payloads[i]); err != nil {
			t.Fatalf("scripted creation of #%d on node %d: %v", i, node, err)
		}
		w.steps++
	}
	if len(ids) > 0 {
		w.nodes[node].curValid, w.nodes[node].lightValid = false, false
		w.collect()
	}
}

// vc07RunScript executes the scripted rounds, then fair rounds until convergence; devs as in vc07RunLarge.
func vc07RunScript(t testing.TB, dir string, u *vc07Universe, tpl *vc07Template, script []vc07Phase, devs []vc07Dev, rmax int, outcome func(string)) vc07LargeResult {
	return vc07RunScriptPeers(t, dir, u, tpl, script, devs, rmax, outcome, false)
}

func vc07RunScriptPeers(t testing.TB, dir string, u *vc07Universe, tpl *vc07Template, script []vc07Phase, devs []vc07Dev, rmax int, outcome func(string), withDID bool) vc07LargeResult {
	return vc07RunScriptOpt(t, dir, u, tpl, script, devs, rmax, outcome, vc07BuildOpts{withDID: withDID})
}

func vc07RunScriptOpt(t testing.TB, dir string, u *vc07Universe, tpl *vc07Template, script []vc07Phase, devs []vc07Dev, rmax int, outcome func(string), opts vc07BuildOpts) (res vc07LargeResult) {
	w := vc07BuildOpt(t, dir, u, tpl, [2][]int{}, opts)
	defer w.close()
	w.outcome = outcome
	res = vc07LargeResult{rounds: -1, kinds: map[string]int{}}
	defer func() { res.oversize, res.oversizeKind, res.maxEnvelope = w.oversize, w.oversizeKind, w.maxEnvelope }()
	devAt := map[int]string{}
	for _, d := range devs {
		devAt[d.Pos] = d.Kind
	}
	var held []*vc07Msg
	pos := 0
	deliver := func(m *vc07Msg) {
		res.kinds[vc07Kind(vc07Decode(m.Raw))]++
		w.handle(m.To, m.Raw)
	}
	safety := func(full bool) bool {
		w.light = !full
		for _, nd := range w.nodes {
			nd.curValid, nd.lightValid = false, false
		}
		res.checked++
		c, d := w.safety()
		if c != "" {
			res.clause, res.detail = "safety-"+c, d
		}
		return c == ""
	}
	// failCreate: the creation fails at a KV step; the aggregates are judged at once (between the failure and the repetition)
	failCreate := func(fc *vc07FailCreate) {
		w.setClock()
		w.armKV(fc.Node, fc.At)
		err := w.nodes[fc.Node].state.Add(context.Background(), w.u.Txs[fc.ID], w.u.Payloads[fc.ID])
		_, fired, step := w.disarmKV(fc.Node)
		w.steps++
		w.nodes[fc.Node].curValid, w.nodes[fc.Node].lightValid = false, false
		w.collect()
		if fired {
			res.fired, res.firedLabel = true, step.Label()
			if outcome != nil {
				outcome("creation-fault:" + step.Label() + ":failed=" + fmt.Sprint(err != nil))
			}
		}
		safety(false)
	}
	for round := 0; ; round++ {
		if res.clause != "" || !safety(false) {
			break
		}
		scripted := round < len(script)
		if !scripted && len(w.pool) == 0 && len(held) == 0 && w.converged() {
			if safety(true) && w.converged() {
				res.rounds = round - len(script)
			} else if res.clause == "" {
				res.clause, res.detail = "safety-subset", "complete listing disagrees with the presence listing"
			}
			break
		}
		if round >= rmax+len(script) {
			res.clause, res.detail = "liveness-rmax", fmt.Sprintf("not converged %d fair rounds after the last scripted round", rmax)
			break
		}
		var ph vc07Phase
		if scripted {
			ph = script[round]
		}
		for n := 0; n < 2; n++ {
			if !w.nodes[n].connected && (ph.Reconnect[n] || !scripted) {
				w.apply(vc07Event{K: "reconnect", N: n})
			}
		}
		for n := 0; n < 2; n++ {
			if ph.Disconnect[n] && w.nodes[n].connected {
				w.disconnect(n)
				w.steps++
				held = nil
			}
		}
		w.apply(vc07Event{K: "expire", N: 0})
		w.nodes[1].p.cMan.evict()
		w.create(t, 0, ph.BeforeTicks[0])
		w.create(t, 1, ph.BeforeTicks[1])
		failDone := ph.FailCreate == nil
		if !failDone && ph.FailCreate.Delivery < 0 {
			failCreate(ph.FailCreate)
			failDone = true
		}
		for n := 0; n < 2; n++ {
			if w.nodes[n].connected { // a disconnected node has no gossip ticker for the peer
				w.apply(vc07Event{K: "tick", N: n})
			}
		}
		w.create(t, 0, ph.AfterTicks[0])
		w.create(t, 1, ph.AfterTicks[1])
		w.pool = append(held, w.pool...)
		held = nil
		var tail []*vc07Msg
		inRound := 0
		for guard := 0; len(w.pool) > 0 || len(tail) > 0; guard++ {
			if guard > 20000 {
				res.clause, res.detail = "liveness-endless-round", "a round does not end"
				break
			}
			if len(w.pool) == 0 {
				w.pool, tail = tail, nil
			}
			if c, ok := ph.AtDelivery[inRound]; ok {
				w.create(t, 0, c[0])
				w.create(t, 1, c[1])
			}
			if !failDone && ph.FailCreate.Delivery == inRound {
				failCreate(ph.FailCreate)
				failDone = true
			}
			if d, ok := ph.DisconnectAt[inRound]; ok {
				for n := 0; n < 2; n++ {
					if d[n] && w.nodes[n].connected {
						w.disconnect(n)
						w.steps++
					}
				}
				held, tail = nil, nil
				if len(w.pool) == 0 {
					break
				}
			}
			inRound++
			m := w.pool[0]
			w.pool = w.pool[1:]
			kind := devAt[pos]
			pos++
			switch kind {
			case "":
				deliver(m)
			case "drop":
			case "dup-now":
				deliver(m)
				deliver(m)
			case "dup-late":
				deliver(m)
				tail = append(tail, m)
			case "dup-stale":
				deliver(m)
				held = append(held, m)
			case "reorder":
				w.pool = append(w.pool, m)
			case "delay":
				held = append(held, m)
			case "lexpire":
				w.apply(vc07Event{K: "expire", N: 0})
				w.nodes[1].p.cMan.evict()
				deliver(m)
			default:
				panic("unknown deviation " + kind)
			}
		}
		// creations scripted for a delivery index the round never reached happen at its end
		for i, c := range ph.AtDelivery {
			if i >= inRound {
				w.create(t, 0, c[0])
				w.create(t, 1, c[1])
			}
		}
		if !failDone {
			failCreate(ph.FailCreate)
		}
		if res.clause != "" {
			break
		}
	}
	res.deliveries = pos
	res.steps = w.steps
	return res
}

type vc07Limit struct {
	Name    string
	Class   string // stable class for signatures
	Build   func() (*vc07Universe, [2][]int, []vc07Phase)
	WithDID bool     // the connections carry authenticated node DIDs
	Kinds   []string // deviation kinds swept over every position (nil: fair run only)
	Kinds2  []string // thorough: additional kinds
	KVStep  bool     // the scenario plans a storage fault at a numbered KV step: a run in which it did not fire is a trivial case
	// MaxMsg > 0: grpc.MaxMessageSizeInBytes (a package variable of the product) is set to this value while the scenario is built
	// and run. Build2 (instead of Build): scenarios that share a cached base template and add their own transactions before the
	// connection (vc07BuildOpts.pre); skip != "" means that the scenario's input is outside the property (reported as such).
	MaxMsg int
	Build2 func(t testing.TB, dir string) (u *vc07Universe, tpl *vc07Template, script []vc07Phase, opts vc07BuildOpts, skip string)
}

func vc07Seq(from, n int) []int {
	out := make([]int, n)
	for i := range out {
		out[i] = from + i
	}
	return out
}

func vc07SmallPayload(i int, _ *vc07Universe, _ []dag.Transaction) []byte {
	return []byte(fmt.Sprintf("verif-c07 payload %d", i))
}

func vc07Limits(thorough bool) []vc07Limit {
	var out []vc07Limit
	sweep := []string{"drop", "dup-stale", "delay", "lexpire"}
	all := vc07DevKinds
	// --- bursts on one node within one gossip interval -------------------------------------------------------------
	for _, k := range []int{1, 99, 100, 101, 150} {
		k := k
		l := vc07Limit{Name: fmt.Sprintf("burst-one-node-%d", k), Class: fmt.Sprintf("burst-one-node-%d", k), Build: func() (*vc07Universe, [2][]int, []vc07Phase) {
			prevs, ids := vc07Chain([][]int{nil}, 0, k)
			return vc07PayloadUniverse("burst", prevs, vc07SmallPayload), [2][]int{{0}, {0}}, []vc07Phase{{BeforeTicks: [2][]int{ids, nil}}}
		}}
		if k >= 100 {
			l.Kinds = all
		}
		out = append(out, l)
	}
	// --- a burst split over two intervals (the log of received refs and the queue fill up over time) ------------------
	for _, kk := range [][2]int{{100, 1}, {101, 1}, {1, 100}, {99, 2}, {150, 150}} {
		kk := kk
		l := vc07Limit{Name: fmt.Sprintf("burst-two-intervals-%d+%d", kk[0], kk[1]), Class: fmt.Sprintf("burst-two-intervals-%d+%d", kk[0], kk[1]),
			Build: func() (*vc07Universe, [2][]int, []vc07Phase) {
				prevs, a := vc07Chain([][]int{nil}, 0, kk[0])
				prevs, b := vc07Chain(prevs, a[len(a)-1], kk[1])
				return vc07PayloadUniverse("burst2", prevs, vc07SmallPayload), [2][]int{{0}, {0}}, []vc07Phase{{BeforeTicks: [2][]int{a, nil}}, {BeforeTicks: [2][]int{b, nil}}}
			}}
		if kk[0] >= 100 {
			l.Kinds = sweep
			l.Kinds2 = all
		}
		out = append(out, l)
	}
	// --- bursts on both nodes in the same interval (two branches, both queues overflow) -------------------------------
	for _, kk := range [][2]int{{1, 1}, {100, 100}, {101, 101}, {150, 1}, {101, 99}, {150, 150}} {
		kk := kk
		l := vc07Limit{Name: fmt.Sprintf("burst-both-nodes-%d-%d", kk[0], kk[1]), Class: fmt.Sprintf("burst-both-nodes-%d-%d", kk[0], kk[1]),
			Build: func() (*vc07Universe, [2][]int, []vc07Phase) {
				prevs, a := vc07Chain([][]int{nil}, 0, kk[0])
				prevs, b := vc07Chain(prevs, 0, kk[1])
				return vc07PayloadUniverse("burstAB", prevs, vc07SmallPayload), [2][]int{{0}, {0}}, []vc07Phase{{BeforeTicks: [2][]int{a, b}}}
			}}
		if kk[0] >= 100 && kk[1] >= 100 {
			l.Kinds = sweep
			l.Kinds2 = all
		}
		out = append(out, l)
	}
	// --- a burst in the middle of a running exchange: 3 transactions start an exchange, the burst lands after the ticks
	//     or just before the d-th delivery of that round -----------------------------------------------------------------
	for _, k := range []int{101, 150} {
		for d := -1; d <= 8; d++ {
			k, d := k, d
			out = append(out, vc07Limit{Name: fmt.Sprintf("burst-mid-exchange-%d-at-%d", k, d), Class: fmt.Sprintf("burst-mid-exchange-%d", k),
				Build: func() (*vc07Universe, [2][]int, []vc07Phase) {
					prevs, a := vc07Chain([][]int{nil}, 0, 3)
					prevs, b := vc07Chain(prevs, a[2], k)
					ph := vc07Phase{BeforeTicks: [2][]int{a, nil}}
					if d < 0 {
						ph.AfterTicks = [2][]int{b, nil}
					} else {
						ph.AtDelivery = map[int][2][]int{d: {b, nil}}
					}
					return vc07PayloadUniverse("burstMid", prevs, vc07SmallPayload), [2][]int{{0}, {0}}, []vc07Phase{ph}
				}})
		}
	}
	// --- connection churn: sync, the stream drops (both notice / only A / only B), k transactions are created on A while
	//     disconnected, the stream comes back, k2 more are created, fair suffix; with and without node DIDs on the
	//     connections (transport.Peer.Key() differs) ---------------------------------------------------------------------
	for _, withDID := range []bool{false, true} {
		for wi, who := range [][2]bool{{true, true}, {true, false}, {false, true}} {
			for _, k := range []int{1, 101} {
				for _, k2 := range []int{0, 1, 101} {
					withDID, who, k, k2 := withDID, who, k, k2
					name := fmt.Sprintf("reconnect-%s-create-%d-then-%d-did-%v", []string{"both", "only-A", "only-B"}[wi], k, k2, withDID)
					out = append(out, vc07Limit{Name: name, Class: fmt.Sprintf("reconnect-%s-create-%d-then-%d", []string{"both", "only-A", "only-B"}[wi], k, k2), WithDID: withDID,
						Build: func() (*vc07Universe, [2][]int, []vc07Phase) {
							prevs, a := vc07Chain([][]int{nil}, 0, k)
							prevs, b := vc07Chain(prevs, a[len(a)-1], k2)
							return vc07PayloadUniverse("churn", prevs, vc07SmallPayload), [2][]int{{0}, {0}}, []vc07Phase{
								{},
								{Disconnect: who, BeforeTicks: [2][]int{a, nil}, NoReconnect: true},
								{Reconnect: [2]bool{true, true}, BeforeTicks: [2][]int{b, nil}},
							}
						}})
				}
			}
			// the stream drops in the middle of an exchange (3 transactions under way), just before the d-th delivery
			for d := 0; d <= 7; d++ {
				withDID, who, d := withDID, who, d
				name := fmt.Sprintf("drop-stream-%s-at-delivery-%d-did-%v", []string{"both", "only-A", "only-B"}[wi], d, withDID)
				out = append(out, vc07Limit{Name: name, Class: fmt.Sprintf("drop-stream-%s-mid-exchange", []string{"both", "only-A", "only-B"}[wi]), WithDID: withDID,
					Build: func() (*vc07Universe, [2][]int, []vc07Phase) {
						prevs, a := vc07Chain([][]int{nil}, 0, 3)
						prevs, b := vc07Chain(prevs, a[2], 2)
						return vc07PayloadUniverse("churnMid", prevs, vc07SmallPayload), [2][]int{{0}, {0}}, []vc07Phase{
							{BeforeTicks: [2][]int{a, nil}, DisconnectAt: map[int][2]bool{d: who}},
							{Reconnect: [2]bool{true, true}, BeforeTicks: [2][]int{b, nil}},
						}
					}})
			}
		}
	}
	// --- TransactionList chunk boundary: B is ahead by 40 transactions whose list takes exactly max-1 / max / max+1 bytes
	//     (chunkTransactionList counts len(payload)+len(data)+9 per transaction against MaxMessageSizeInBytes-512) --------
	max := grpc.MaxMessageSizeInBytes - transactionListMessageOverhead
	for _, delta := range []int{-1, 0, 1} {
		delta := delta
		out = append(out, vc07Limit{Name: fmt.Sprintf("list-chunk-boundary-max%+d", delta), Class: fmt.Sprintf("list-chunk-boundary-max%+d", delta), Kinds: all,
			Build: func() (*vc07Universe, [2][]int, []vc07Phase) {
				const m = 40
				prevs, ids := vc07Chain([][]int{nil}, 0, m)
				per := max / m
				var u *vc07Universe
				for attempt := 0; ; attempt++ {
					u = vc07PayloadUniverse("chunk", prevs, func(i int, u *vc07Universe, ptx []dag.Transaction) []byte {
						if i == 0 {
							return []byte("root")
						}
						size := per - 800
						if i == m {
							// size of everything before + own data (independent of the payload: measured on a probe)
							total := 0
							for j := 1; j < m; j++ {
								total += len(u.Payloads[j]) + len(u.Txs[j].Data()) + transactionListTXOverhead
							}
							probe := vc07SignPayload([]byte("probe"), ptx...)
							size = max + delta - total - len(probe.Data()) - transactionListTXOverhead
						}
						p := make([]byte, size)
						for j := range p {
							p[j] = byte('a' + (i+j)%26)
						}
						return p
					})
					total := 0
					for j := 1; j <= m; j++ {
						total += len(u.Payloads[j]) + len(u.Txs[j].Data()) + transactionListTXOverhead
					}
					if total == max+delta {
						break
					}
					if attempt > 20 {
						panic(fmt.Sprintf("chunk boundary scenario: list is %d bytes, wanted %d", total, max+delta))
					}
				}
				return u, [2][]int{{0}, append([]int{0}, ids...)}, nil
			}})
	}
	out = append(out, vc07Limit{Name: "list-three-chunks", Class: "list-three-chunks", Kinds: all,
		Build: func() (*vc07Universe, [2][]int, []vc07Phase) {
			prevs, ids := vc07Chain([][]int{nil}, 0, 40)
			u := vc07PayloadUniverse("chunk3", prevs, func(i int, _ *vc07Universe, _ []dag.Transaction) []byte {
				p := make([]byte, 30000)
				for j := range p {
					p[j] = byte('a' + (i+j)%26)
				}
				return p
			})
			return u, [2][]int{{0}, append([]int{0}, ids...)}, nil
		}})
	// --- storage faults on LOCAL CREATION in the middle of a running exchange: 3 transactions are under way from A; then node c
	//     (A, the sender, or B, the receiver) creates one more transaction (before the ticks / just before the d-th delivery of the
	//     round) and the k-th KV step of that State.Add fails: the creator sees the error and repeats the creation in the next round.
	//     k runs over every step of the Add (the read of the presence check, begin, every put, commit); a k beyond the trace
	//     is a run without fault (trivial) -----------------------------------------------------------------------------------
	for c := 0; c < 2; c++ {
		for d := -1; d <= 5; d++ {
			if !thorough && d > 3 {
				continue
			}
			for k := 1; k <= 13; k++ {
				c, d, k := c, d, k
				out = append(out, vc07Limit{Name: fmt.Sprintf("create-fault-node-%s-at-delivery-%d-kv-step-%d", []string{"A", "B"}[c], d, k),
					Class: fmt.Sprintf("create-fault-node-%s", []string{"A", "B"}[c]), KVStep: true,
					Build: func() (*vc07Universe, [2][]int, []vc07Phase) {
						prevs, a := vc07Chain([][]int{nil}, 0, 3)
						prevs, b := vc07Chain(prevs, 0, 1) // a second branch from the root: either node can create it at any moment
						var again [2][]int
						again[c] = b
						return vc07PayloadUniverse("createFault", prevs, vc07SmallPayload), [2][]int{{0}, {0}}, []vc07Phase{
							{BeforeTicks: [2][]int{a, nil}, FailCreate: &vc07FailCreate{Node: c, ID: b[0], At: k, Delivery: d}},
							{BeforeTicks: again},
						}
					}})
			}
		}
	}
	// --- message-size boundary sweep: the ESTIMATED size (sum of len(payload)+len(data)+9, what chunkTransactionList counts) of the
	//     first k transactions of a TransactionList answer takes every value v in [max-600, max+600] (max = message size - 512) in
	//     steps of 16 (thorough: 4), for k = 1, 2, 3, for an answer to a TransactionListQuery (refs from an IBLT decode / refs from a
	//     gossip message) and to a TransactionRangeQuery (the requester has page 0 complete, the answer starts exactly at the page
	//     boundary LC 512: page boundary x message-size boundary). The product's message size is a package variable: it is set to
	//     64 KiB (the smallest power of two that holds the TransactionSet message with its 1024-bucket IBLT) so that the sweep
	//     is cheap; thorough repeats the list-query sweep with the shipped 512 KiB. The stream refuses what exceeds the limit (collect).
	step := 16
	if thorough {
		step = 4
	}
	type sizeCfg struct {
		limit int
		paths []string
		step  int
	}
	cfgs := []sizeCfg{{64 * 1024, []string{"list-query", "gossip-list-query", "range-query"}, step}}
	if thorough {
		cfgs = append(cfgs, sizeCfg{512 * 1024, []string{"list-query"}, 16})
	}
	for _, cfg := range cfgs {
		for _, path := range cfg.paths {
			for k := 1; k <= 3; k++ {
				for dv := -600; dv <= 600; dv += cfg.step {
					cfg, path, k, dv := cfg, path, k, dv
					out = append(out, vc07Limit{Name: fmt.Sprintf("msg-size-%dk-%s-first-%d-estimate-max%+d", cfg.limit/1024, path, k, dv),
						Class: fmt.Sprintf("msg-size-boundary-%s-first-%d", path, k), MaxMsg: cfg.limit,
						Build2: func(t testing.TB, dir string) (*vc07Universe, *vc07Template, []vc07Phase, vc07BuildOpts, string) {
							return vc07SizeScenario(t, dir, path, k, cfg.limit-transactionListMessageOverhead+dv)
						}})
				}
			}
		}
	}
	// --- page boundary x decodability: a shared chain up to LC h-1; the lower side adds one transaction at LC h (its height is
	//     EXACTLY h); the other side adds d transactions at LC h and one at h+1. d = 5 decodes, d = 750 is more than one IBLT of
	//     1024 buckets decodes, so the page-by-page fallback of handleTransactionSet runs with minLC = h ------------------------
	boundary := map[string]*vc07Universe{} // shared by the two "which side is lower" variants
	for _, h := range []int{511, 512, 513, 1023, 1024, 1025} {
		for _, d := range []int{5, 750} {
			for lower := 0; lower < 2; lower++ {
				h, d, lower := h, d, lower
				dec := "decodable"
				if d > 700 {
					dec = "undecodable"
				}
				out = append(out, vc07Limit{Name: fmt.Sprintf("lower-height-%d-%s-lower-%s", h, dec, []string{"A", "B"}[lower]),
					Class: fmt.Sprintf("lower-height-%d-%s", h, dec),
					Build: func() (*vc07Universe, [2][]int, []vc07Phase) {
						prevs, c := vc07Chain([][]int{nil}, 0, h-1)
						tip := c[len(c)-1]
						prevs = append(prevs, []int{tip})
						own := len(prevs) - 1
						var fan []int
						for i := 0; i < d; i++ {
							prevs = append(prevs, []int{tip})
							fan = append(fan, len(prevs)-1)
						}
						prevs = append(prevs, []int{fan[0]})
						top := len(prevs) - 1
						shared := append([]int{0}, c...)
						var init [2][]int
						init[lower] = append(append([]int{}, shared...), own)
						init[1-lower] = append(append(append([]int{}, shared...), fan...), top)
						key := fmt.Sprintf("%d-%d", h, d)
						if len(boundary) > 1 {
							for k := range boundary {
								if k != key {
									delete(boundary, k)
								}
							}
						}
						if boundary[key] == nil {
							boundary[key] = vc07NewUniverse("boundary", prevs)
						}
						return boundary[key], init, nil
					}})
			}
		}
	}
	// --- page boundaries: one side behind by exactly L transactions ----------------------------------------------------
	for _, n := range []int{511, 512, 513, 1023, 1024, 1025} {
		n := n
		l := vc07Limit{Name: fmt.Sprintf("behind-by-%d", n), Class: fmt.Sprintf("behind-by-%d", n), Build: func() (*vc07Universe, [2][]int, []vc07Phase) {
			prevs, ids := vc07Chain([][]int{nil}, 0, n)
			return vc07NewUniverse("page", prevs), [2][]int{{0}, append([]int{0}, ids...)}, nil
		}}
		if thorough {
			l.Kinds = []string{"drop", "delay"}
		}
		out = append(out, l)
	}
	return out
}

// ---------------------------------------------------------------------------------------------------------
// message-size boundary scenarios

type vc07SizeBase struct {
	u   *vc07Universe
	tpl *vc07Template
}

var vc07SizeBases = map[string]*vc07SizeBase{}

// vc07SizeBaseFor: the shared start of a size scenario, built once per process. "range-query": both nodes hold the same chain
// with clocks 0..511 (page 0 complete); otherwise both hold the root only.
func vc07SizeBaseFor(t testing.TB, dir string, path string) *vc07SizeBase {
	key := "root"
	if path == "range-query" {
		key = "page0"
	}
	if b := vc07SizeBases[key]; b != nil {
		return b
	}
	prevs := [][]int{nil}
	all := []int{0}
	if key == "page0" {
		var c []int
		prevs, c = vc07Chain(prevs, 0, int(dag.PageSize)-1)
		all = append(all, c...)
	}
	u := vc07NewUniverse("size-base-"+key, prevs)
	b := &vc07SizeBase{u: u, tpl: vc07MakeTemplate(t, dir, u, [2][]int{all, all})}
	vc07SizeBases[key] = b
	return b
}

func vc07Filler(n, salt int) []byte {
	p := make([]byte, n)
	for j := range p {
		p[j] = byte('a' + (salt+j)%26)
	}
	return p
}

func vc07Estimate(u *vc07Universe, i int) int {
	return len(u.Payloads[i]) + len(u.Txs[i].Data()) + transactionListTXOverhead
}

// vc07SizeScenario: node B is ahead by a chain of k+2 transactions on top of the base; the estimated sizes of the first k add up
// to exactly target, the next one (2000 bytes of payload) fits with them in no message, the last one is small.
func vc07SizeScenario(t testing.TB, dir string, path string, k int, target int) (*vc07Universe, *vc07Template, []vc07Phase, vc07BuildOpts, string) {
	base := vc07SizeBaseFor(t, dir, path)
	var u *vc07Universe
	var ids []int
	for attempt := 0; ; attempt++ {
		u = &vc07Universe{Name: "size", idx: map[hash.SHA256Hash]int{}}
		u.Prevs = append(u.Prevs, base.u.Prevs...)
		u.Txs = append(u.Txs, base.u.Txs...)
		u.Payloads = append(u.Payloads, base.u.Payloads...)
		u.Clock = append(u.Clock, base.u.Clock...)
		for h, i := range base.u.idx {
			u.idx[h] = i
		}
		ids = nil
		sum := 0
		for j := 0; j < k+2; j++ {
			prev := len(u.Txs) - 1
			size := 10
			switch {
			case j < k-1:
				size = target/k - 700
			case j == k-1:
				probe := vc07SignPayload([]byte("probe"), u.Txs[prev])
				size = target - sum - len(probe.Data()) - transactionListTXOverhead
			case j == k:
				size = 2000
			}
			if size < 1 {
				return nil, nil, nil, vc07BuildOpts{}, "the target size leaves no room for a payload"
			}
			payload := vc07Filler(size, j+attempt)
			tx := vc07SignPayload(payload, u.Txs[prev])
			i := len(u.Txs)
			u.Prevs = append(u.Prevs, []int{prev})
			u.Txs = append(u.Txs, tx)
			u.Payloads = append(u.Payloads, payload)
			u.Clock = append(u.Clock, tx.Clock())
			u.idx[tx.Ref()] = i
			ids = append(ids, i)
			if j < k {
				sum += vc07Estimate(u, i)
			}
		}
		if sum == target {
			break
		}
		if attempt > 20 {
			panic(fmt.Sprintf("size scenario: the first %d transactions take %d bytes, wanted %d", k, sum, target))
		}
	}
	// input validity: every transaction, alone in a TransactionList message, must fit the message size — a transaction that no
	// single message can carry cannot be delivered by any schedule (outside "provided messages are eventually delivered")
	for _, i := range ids {
		alone := &Envelope{Message: &Envelope_TransactionList{TransactionList: &TransactionList{ConversationID: make([]byte, 36),
			Transactions: []*Transaction{{Data: u.Txs[i].Data(), Payload: u.Payloads[i]}}, TotalMessages: 127, MessageNumber: 127}}}
		if proto.Size(alone) > grpc.MaxMessageSizeInBytes {
			return nil, nil, nil, vc07BuildOpts{}, "a single transaction is larger than any one message may be"
		}
	}
	if path == "gossip-list-query" {
		// created after the connection: the refs travel in a gossip message and are requested by reference
		return u, base.tpl, []vc07Phase{{BeforeTicks: [2][]int{nil, ids}}}, vc07BuildOpts{}, ""
	}
	return u, base.tpl, nil, vc07BuildOpts{pre: [2][]int{nil, ids}}, ""
}

type vc07LimitReplay struct {
	Limit string    `json:"limit"`
	Devs  []vc07Dev `json:"devs"`
}

func TestVerifC07Limits(t *testing.T) {
	vc07Quiet()
	r := ev.Start(t, "C07")
	defer r.Finish()
	dir, err := os.MkdirTemp("", "c07x")
	if err != nil {
		t.Fatal(err)
	}
	defer os.RemoveAll(dir)
	const rmax = 12
	limits := vc07Limits(r.Thorough())
	// execution order: cheapest families first (as in part small): 0 = a handful of transactions, fair run only (size sweep,
	// creation faults); 1 = the other scenarios; 2 = page-sized DAGs (500-1800 transactions); see also the two passes below
	costClass := func(l vc07Limit) int {
		switch {
		case strings.HasPrefix(l.Name, "lower-height") || strings.HasPrefix(l.Name, "behind-by"):
			return 2
		case l.MaxMsg > 0 || l.KVStep:
			return 0
		}
		return 1
	}
	sort.SliceStable(limits, func(a, b int) bool { return costClass(limits[a]) < costClass(limits[b]) })
	outcome := func(o string) { r.Outcome(o) }
	sig := func(l vc07Limit, clause string, devs []vc07Dev) string {
		return vc07LargeSig(l.Class, clause, devs)[len("C07|large:"):]
	}

	var lrc vc07LineReplay
	if r.ReplayCase(&lrc) && lrc.Line != "" {
		if mk, ok := vc07LineScenarios()[lrc.Line]; ok {
			u, init := mk()
			res := vc07RunLine(t, dir, u, init, rmax)
			t.Logf("line %s: rounds=%d counts=%v clause=%q %s", lrc.Line, res.rounds, res.counts, res.clause, res.detail)
			if res.clause != "" {
				r.Violation("C07|limits:"+lrc.Line+"|"+res.clause+"|no-fault", lrc.Line+": "+res.detail, lrc)
			}
			r.Eval(lrc.Line)
			r.States(1)
			r.Transitions(res.steps)
		}
		return
	}
	// prepare builds a scenario (setting the configured message size for scenarios that ask for it; restore() puts it back)
	prepare := func(l vc07Limit) (u *vc07Universe, tpl *vc07Template, script []vc07Phase, opts vc07BuildOpts, skip string, restore func()) {
		prev := grpc.MaxMessageSizeInBytes
		restore = func() { grpc.MaxMessageSizeInBytes = prev }
		if l.MaxMsg > 0 {
			grpc.MaxMessageSizeInBytes = l.MaxMsg
		}
		if l.Build2 != nil {
			u, tpl, script, opts, skip = l.Build2(t, dir)
		} else {
			var init [2][]int
			u, init, script = l.Build()
			tpl = vc07MakeTemplate(t, dir, u, init)
		}
		opts.withDID = l.WithDID
		return
	}
	var rc vc07LimitReplay
	if r.ReplayCase(&rc) {
		for _, l := range limits {
			if l.Name != rc.Limit {
				continue
			}
			u, tpl, script, opts, skip, restore := prepare(l)
			if skip != "" {
				restore()
				t.Logf("scenario skipped: %s", skip)
				continue
			}
			res := vc07RunScriptOpt(t, dir, u, tpl, script, rc.Devs, rmax, outcome, opts)
			restore()
			t.Logf("rounds=%d deliveries=%d clause=%q %s messages=%v largest envelopes=%v refused as too large=%d storage fault fired=%v %s", res.rounds, res.deliveries, res.clause, res.detail, res.kinds, res.maxEnvelope, res.oversize, res.fired, res.firedLabel)
			if res.clause != "" {
				sg := "C07|limits:" + sig(l, res.clause, rc.Devs)
				if res.fired && len(rc.Devs) == 0 {
					sg = fmt.Sprintf("C07|limits:%s|%s|cfail(%s)", l.Class, res.clause, res.firedLabel)
				}
				r.Violation(sg, res.detail, rc)
			}
			r.Eval(rc.Limit)
			r.States(res.checked)
			r.Transitions(res.steps)
		}
		return
	}
	if os.Getenv("VERIF_REPLAY") != "" {
		return
	}
	r.Rule("structured limit-crossing scenarios on two connected nodes, transactions CREATED through the real State.Add while connected: bursts of 1/99/100/101/150 within one gossip " +
		"interval (gossip queue and log limit 100) on one node, split over two intervals, on both nodes, and landing at every point of a running exchange; a transaction list of exactly " +
		"max-1/max/max+1 bytes of one message and a three-message list; one side behind by 511/512/513/1023/1024/1025 (page size 512); the lower of the two DAG heights exactly 511/512/513/1023/1024/1025 x a difference on the boundary page that one IBLT decodes (5) / does not (750) x which side is lower; private transactions relayed along a three-node line; connection churn (the stream drops for both / one side, 1 or 101 transactions created while disconnected and 0/1/101 after the reconnect; the stream dropping before every delivery of a running exchange), with and without node DIDs on the connections. Each scenario: scripted rounds, then the fair suffix; " +
		"limit-crossing scenarios additionally with every single deviation of the listed kinds at every delivery position. A case is (scenario, deviation).")
	r.Bound("limit_scenarios", len(limits))
	r.Bound("R_max_allowed_limits", rmax)
	shard, nsh := r.Shard()
	var states, trans int64
	maxR, unit := 0, 0
	largest := map[string]int{} // largest serialized envelope seen per message kind (every one is checked against the message size)
	// two passes with identical unit numbering: first the fair run of EVERY scenario (breadth), then the deviation sweeps over
	// every position (depth) — a wall-budget cut on an overloaded machine then costs sweeps, not whole scenario families
	for pass := 0; pass < 2; pass++ {
		unit = 0
		for _, l := range limits {
			kinds := append([]string{""}, l.Kinds...)
			if r.Thorough() {
				for _, k := range l.Kinds2 {
					dupl := false
					for _, x := range kinds {
						dupl = dupl || x == k
					}
					if !dupl {
						kinds = append(kinds, k)
					}
				}
			}
			var u *vc07Universe
			var tpl *vc07Template
			var script []vc07Phase
			var opts vc07BuildOpts
			restore := func() {}
			positions := -1
			for _, kind := range kinds {
				// one unit of work = (scenario, deviation kind); units are dealt round-robin
				unit++
				if ((unit-1)/2)%nsh != shard || r.Expired() || r.Violations() > 0 { // consecutive units (e.g. the two sides swapped) stay together
					continue
				}
				if (kind == "") != (pass == 0) {
					continue
				}
				if u == nil {
					var skip string
					u, tpl, script, opts, skip, restore = prepare(l)
					if skip != "" {
						// outside the property's premise (e.g. a transaction that no single message can carry): counted, not judged
						r.Eval("")
						r.AddExtra("limit_scenarios_skipped_input_outside_premise", 1)
						r.Outcome("skipped:" + skip)
						u = nil
						break
					}
				}
				run := func(devs []vc07Dev) vc07LargeResult {
					res := vc07RunScriptOpt(t, dir, u, tpl, script, devs, rmax, outcome, opts)
					states += res.checked
					trans += res.steps
					if l.KVStep && !res.fired {
						r.Eval("") // the planned KV step does not exist in this creation: a run without fault
					} else {
						r.Eval(fmt.Sprintf("%s %v", l.Name, devs))
					}
					for k, v := range res.maxEnvelope {
						if v > largest[k] {
							largest[k] = v
						}
					}
					if l.MaxMsg > 0 {
						r.Outcome(fmt.Sprintf("size-sweep-messages:%d", res.kinds["TransactionList"]))
					}
					if res.clause != "" {
						what := fmt.Sprintf("%s: %s", l.Name, res.detail)
						if res.oversize > 0 {
							what += fmt.Sprintf(" (the stream refused %d message(s) of kind %s whose serialized size exceeds the message size %d)", res.oversize, res.oversizeKind, grpc.MaxMessageSizeInBytes)
						}
						if res.fired {
							what += " (storage fault at step " + res.firedLabel + ")"
						}
						sg := "C07|limits:" + sig(l, res.clause, devs)
						if res.fired && len(devs) == 0 {
							sg = fmt.Sprintf("C07|limits:%s|%s|cfail(%s)", l.Class, res.clause, res.firedLabel)
						}
						r.Violation(sg, what, vc07LimitReplay{Limit: l.Name, Devs: devs})
					} else {
						r.Outcome(fmt.Sprintf("limits-rounds:%d", res.rounds))
						r.AddExtra(fmt.Sprintf("limit_runs_converging_in_%d_rounds", res.rounds), 1)
						if res.rounds > maxR {
							maxR = res.rounds
						}
					}
					return res
				}
				if kind == "" {
					res := run(nil)
					r.Sample(map[string]any{"scenario": l.Name, "transactions": len(u.Txs), "fair_rounds_after_script": res.rounds, "deliveries": res.deliveries, "messages": res.kinds})
					continue
				}
				if positions < 0 {
					positions = vc07RunScriptOpt(t, dir, u, tpl, script, nil, rmax, nil, opts).deliveries
				}
				for pos := 0; pos < positions && !r.Expired() && r.Violations() == 0; pos++ {
					run([]vc07Dev{{Pos: pos, Kind: kind}})
				}
			}
			restore()
		}
	}
	// the three-node line (one unit of work per scenario)
	lineNames := []string{"line-public", "line-private-payload-at-owner", "line-private-relay-already-synced"}
	for _, name := range lineNames {
		unit++
		if ((unit-1)/2)%nsh != shard || r.Expired() || r.Violations() > 0 {
			continue
		}
		u, init := vc07LineScenarios()[name]()
		res := vc07RunLine(t, dir, u, init, rmax)
		states += int64(res.rounds + 1)
		trans += res.steps
		r.Eval(name)
		if res.clause != "" {
			r.Violation("C07|limits:"+name+"|"+res.clause+"|no-fault", name+": "+res.detail, vc07LineReplay{Line: name})
		} else {
			r.Outcome(fmt.Sprintf("line-rounds:%d", res.rounds))
			r.AddExtra(fmt.Sprintf("line_runs_converging_in_%d_rounds", res.rounds), 1)
		}
	}
	r.Bound("R_max_observed_limits", maxR)
	r.Bound("largest_envelope_bytes_seen_by_kind", largest)
	var ru syscall.Rusage
	_ = syscall.Getrusage(syscall.RUSAGE_SELF, &ru)
	r.Extra("cpu_seconds", float64(ru.Utime.Sec+ru.Stime.Sec)+float64(ru.Utime.Usec+ru.Stime.Usec)/1e6)
	r.Bound("cpu_seconds_of_this_worker", int(ru.Utime.Sec+ru.Stime.Sec))
	r.States(states)
	r.Transitions(trans)
}
