//go:build verif

package gossip

import (
	"github.com/nuts-foundation/nuts-node/crypto/hash"
	"github.com/nuts-foundation/nuts-node/network/transport"
)

// VerifTick fires one gossip round for the given peer exactly as the ticker goroutine of PeerConnected
// would (callSenders on the peer's queue with the registered senders). Returns false if the peer is unknown.
func VerifTick(m Manager, peer transport.Peer) bool {
	mm := m.(*manager)
	mm.mutex.RLock()
	pq, ok := mm.peers[peer.Key()]
	senders := mm.messageSenders
	mm.mutex.RUnlock()
	if !ok {
		return false
	}
	callSenders(peer, pq, senders)
	return true
}

// VerifQueue is a copy of the gossip administration kept for one peer.
type VerifQueue struct {
	Queue []hash.SHA256Hash
	Log   []hash.SHA256Hash
	XOR   hash.SHA256Hash
	Clock uint32
}

// VerifSnapshot returns a copy of the gossip administration of the given peer.
func VerifSnapshot(m Manager, peer transport.Peer) (VerifQueue, bool) {
	mm := m.(*manager)
	mm.mutex.RLock()
	pq, ok := mm.peers[peer.Key()]
	mm.mutex.RUnlock()
	if !ok {
		return VerifQueue{}, false
	}
	var out VerifQueue
	pq.do(func() {
		out.Queue = pq.queue.Values()
		out.Log = pq.log.Values()
		out.XOR = pq.xor
		out.Clock = pq.clock
	})
	return out, true
}
