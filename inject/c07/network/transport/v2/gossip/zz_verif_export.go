//go:build verif

package gossip

import (
	"github.com/nuts-foundation/nuts-node/crypto/hash"
	"github.com/nuts-foundation/nuts-node/network/transport"
)

// VerifHandle stands for the ticker goroutine that PeerConnected started for one peer queue. The goroutine lives until
// the queue's context is cancelled (peerQueue.unregister, called by PeerDisconnected); the harness cannot see that
// context, so VerifAfterConnect wraps the queue's cancel function to record the cancellation.
type VerifHandle struct {
	pq        *peerQueue
	cancelled bool
}

// VerifAfterConnect must be called right after every PeerConnected. It returns the handle of the queue that now exists
// for the peer: a new one for a queue it has not seen, the existing one otherwise (PeerConnected ignores a peer that
// already has a queue and then starts NO new ticker goroutine), nil if there is no queue.
func VerifAfterConnect(m Manager, peer transport.Peer, known []*VerifHandle) *VerifHandle {
	mm := m.(*manager)
	mm.mutex.RLock()
	pq, ok := mm.peers[peer.Key()]
	mm.mutex.RUnlock()
	if !ok {
		return nil
	}
	for _, h := range known {
		if h.pq == pq {
			return h
		}
	}
	h := &VerifHandle{pq: pq}
	orig := pq.cancelFunc
	pq.cancelFunc = func() {
		h.cancelled = true
		if orig != nil {
			orig()
		}
	}
	return h
}

// VerifTick fires one gossip round for the given peer exactly as the ticker goroutine of PeerConnected would
// (callSenders on the peer's queue with the registered senders) — provided that goroutine still exists.
// Result: "sent" (round executed), "no-queue" (peer unknown), "no-ticker" (the queue's ticker goroutine has been
// cancelled and nothing restarted it: no gossip will ever be sent from this queue).
func VerifTick(m Manager, peer transport.Peer, known []*VerifHandle) string {
	mm := m.(*manager)
	mm.mutex.RLock()
	pq, ok := mm.peers[peer.Key()]
	senders := mm.messageSenders
	mm.mutex.RUnlock()
	if !ok {
		return "no-queue"
	}
	for _, h := range known {
		if h.pq == pq {
			if h.cancelled {
				return "no-ticker"
			}
			callSenders(peer, pq, senders)
			return "sent"
		}
	}
	panic("verif: gossip queue without a handle (VerifAfterConnect was not called after PeerConnected)")
}

// VerifTickerAlive tells whether the queue that exists for the peer still has its ticker goroutine.
func VerifTickerAlive(m Manager, peer transport.Peer, known []*VerifHandle) (exists bool, alive bool) {
	mm := m.(*manager)
	mm.mutex.RLock()
	pq, ok := mm.peers[peer.Key()]
	mm.mutex.RUnlock()
	if !ok {
		return false, false
	}
	for _, h := range known {
		if h.pq == pq {
			return true, !h.cancelled
		}
	}
	return true, true
}

// VerifQueue is a copy of the gossip administration kept for one peer.
type VerifQueue struct {
	Queue []hash.SHA256Hash
	Log   []hash.SHA256Hash
	XOR   hash.SHA256Hash
	Clock uint32
}

// VerifSnapshot returns a copy of the gossip administration of the given peer.
func VerifSnapshot(m Manager, peer transport.Peer) (VerifQueue, bool) {
	mm := m.(*manager)
	mm.mutex.RLock()
	pq, ok := mm.peers[peer.Key()]
	mm.mutex.RUnlock()
	if !ok {
		return VerifQueue{}, false
	}
	var out VerifQueue
	pq.do(func() {
		out.Queue = pq.queue.Values()
		out.Log = pq.log.Values()
		out.XOR = pq.xor
		out.Clock = pq.clock
	})
	return out, true
}
