//go:build verif

// C07 — one structured THREE-node scenario: a line A – B – C. B relays: what C learns it learns from B only. With private
// transactions B is a non-participant relay that holds them WITHOUT their payload.
package v2

import (
	"context"
	"fmt"
	"os"
	"path/filepath"
	"sync/atomic"
	"testing"
	"time"

	"github.com/nuts-foundation/go-did/did"
	"github.com/nuts-foundation/go-stoabs"
	"github.com/nuts-foundation/go-stoabs/bbolt"
	"github.com/nuts-foundation/nuts-node/core"
	"github.com/nuts-foundation/nuts-node/network/dag"
	"github.com/nuts-foundation/nuts-node/network/transport"
	"github.com/nuts-foundation/nuts-node/network/transport/grpc"
	"github.com/nuts-foundation/nuts-node/network/transport/v2/gossip"
	vtime "github.com/nuts-foundation/nuts-node/verifshim/vtime"
	"google.golang.org/protobuf/proto"
)

// vc07Conns is a connection list with several stub connections (the repository's StubConnectionList holds one).
type vc07Conns struct{ conns []*grpc.StubConnection }

func (l *vc07Conns) Get(query ...grpc.Predicate) grpc.Connection {
outer:
	for _, c := range l.conns {
		for _, q := range query {
			if !q.Match(c) {
				continue outer
			}
		}
		return c
	}
	return nil
}
func (l *vc07Conns) All() []grpc.Connection {
	var out []grpc.Connection
	for _, c := range l.conns {
		out = append(out, c)
	}
	return out
}
func (l *vc07Conns) AllMatching(query ...grpc.Predicate) []grpc.Connection {
	var out []grpc.Connection
outer:
	for _, c := range l.conns {
		for _, q := range query {
			if !q.Match(c) {
				continue outer
			}
		}
		out = append(out, c)
	}
	return out
}

type vc07LineNode struct {
	name    string
	path    string
	db      stoabs.KVStore
	state   dag.State
	p       *protocol
	conns   map[int]*grpc.StubConnection // by index of the neighbour
	peers   map[int]transport.Peer
	handles []*gossip.VerifHandle
}

type vc07LineMsg struct {
	from, to int
	raw      []byte
}

type vc07LineResult struct {
	rounds int
	steps  int64
	clause string
	detail string
	counts [3]int
}

// vc07RunLine: nodes 0 – 1 – 2 in a line; init[n] lists the universe transactions node n starts with (payload as in the universe).
func vc07RunLine(t testing.TB, dir string, u *vc07Universe, init [3][]int, rmax int) vc07LineResult {
	vtime.Freeze(vc07Base)
	res := vc07LineResult{rounds: -1}
	names := []string{"lineA", "lineB", "lineC"}
	links := [][2]int{{0, 1}, {1, 2}}
	var nodes [3]*vc07LineNode
	defer func() {
		for _, n := range nodes {
			if n != nil {
				n.p.cancel()
				_ = n.state.Shutdown()
				_ = n.db.Close(context.Background())
				_ = os.Remove(n.path)
			}
		}
	}()
	for i := 0; i < 3; i++ {
		path := filepath.Join(dir, fmt.Sprintf("line_%d_%d.db", atomic.AddInt64(&vc07FileCounter, 1), i))
		db, err := bbolt.CreateBBoltStore(path, stoabs.WithNoSync(), stoabs.WithLockAcquireTimeout(time.Hour))
		if err != nil {
			t.Fatal(err)
		}
		st, err := dag.NewState(db, dag.NewPrevTransactionsVerifier(), dag.NewTransactionSignatureVerifier(nil))
		if err != nil {
			t.Fatal(err)
		}
		if err := st.Configure(core.ServerConfig{}); err != nil {
			t.Fatal(err)
		}
		for _, x := range init[i] {
			if err := st.Add(context.Background(), u.Txs[x], u.Payloads[x]); err != nil {
				t.Fatalf("line set-up: %v", err)
			}
		}
		cfg := Config{GossipInterval: 3600 * 1000, DiagnosticsInterval: 0, PayloadRetryDelay: time.Hour}
		p := New(cfg, did.DID{}, st, nil, nil, func() transport.Diagnostics { return transport.Diagnostics{} }, db).(*protocol)
		if err := p.Configure(transport.PeerID(names[i])); err != nil {
			t.Fatal(err)
		}
		p.cMan = newConversationManager(maxValidity)
		nodes[i] = &vc07LineNode{name: names[i], path: path, db: db, state: st, p: p, conns: map[int]*grpc.StubConnection{}, peers: map[int]transport.Peer{}}
	}
	for _, l := range links {
		for _, dir := range [][2]int{{l[0], l[1]}, {l[1], l[0]}} {
			n, o := nodes[dir[0]], dir[1]
			peer := transport.Peer{ID: transport.PeerID(names[o]), Address: names[o] + ".test:5555"}
			n.peers[o] = peer
			n.conns[o] = grpc.NewStubConnection(peer)
		}
	}
	for _, n := range nodes {
		list := &vc07Conns{}
		for o := 0; o < 3; o++ {
			if c, ok := n.conns[o]; ok {
				list.conns = append(list.conns, c)
			}
		}
		n.p.connectionList = list
		for o := 0; o < 3; o++ {
			if peer, ok := n.peers[o]; ok {
				n.p.connectionStateCallback(peer, transport.StateConnected, n.p)
				if h := gossip.VerifAfterConnect(n.p.gManager, peer, n.handles); h != nil {
					n.handles = append(n.handles, h)
				}
			}
		}
	}
	var pool []vc07LineMsg
	collect := func() {
		for i, n := range nodes {
			for o := 0; o < 3; o++ {
				c, ok := n.conns[o]
				if !ok {
					continue
				}
				for _, m := range c.SentMsgs {
					raw, err := proto.MarshalOptions{Deterministic: true}.Marshal(m.(*Envelope))
					if err != nil {
						panic(err)
					}
					pool = append(pool, vc07LineMsg{from: i, to: o, raw: raw})
				}
				c.SentMsgs = nil
			}
		}
	}
	sets := func() (ok bool, clause, detail string) {
		ok = true
		for i, n := range nodes {
			txs, err := n.state.FindBetweenLC(context.Background(), 0, dag.MaxLamportClock)
			if err != nil {
				panic(err)
			}
			res.counts[i] = len(txs)
			for _, tx := range txs {
				if _, known := u.idx[tx.Ref()]; !known {
					return false, "safety-subset", fmt.Sprintf("node %s stores a transaction that no node started with", n.name)
				}
			}
			if len(txs) != len(u.Txs) {
				ok = false
			}
		}
		x0, _ := nodes[0].state.XOR(dag.MaxLamportClock)
		for _, n := range nodes[1:] {
			if x, _ := n.state.XOR(dag.MaxLamportClock); !x.Equals(x0) {
				ok = false
			}
		}
		return ok, "", ""
	}
	offset := time.Duration(0)
	for round := 0; ; round++ {
		done, clause, detail := sets()
		if clause != "" {
			res.clause, res.detail = clause, detail
			return res
		}
		if done && len(pool) == 0 {
			res.rounds = round
			return res
		}
		if round >= rmax {
			res.clause = "liveness-rmax"
			res.detail = fmt.Sprintf("after %d fair rounds the three nodes hold %v of %d transactions", rmax, res.counts, len(u.Txs))
			return res
		}
		offset += maxValidity + time.Second
		vtime.Freeze(vc07Base)
		vtime.Advance(offset)
		for _, n := range nodes {
			n.p.cMan.evict()
		}
		for _, n := range nodes {
			for o := 0; o < 3; o++ {
				if peer, ok := n.peers[o]; ok {
					gossip.VerifTick(n.p.gManager, peer, n.handles)
					res.steps++
				}
			}
		}
		collect()
		for guard := 0; len(pool) > 0; guard++ {
			if guard > 20000 {
				res.clause, res.detail = "liveness-endless-round", "a round does not end"
				return res
			}
			m := pool[0]
			pool = pool[1:]
			n := nodes[m.to]
			env := vc07Decode(m.raw)
			conn := n.conns[m.from]
			ctx := n.p.ctx
			switch env.Message.(type) {
			case *Envelope_Gossip:
				_ = n.p.handleGossip(ctx, conn, env)
			case *Envelope_State:
				_ = n.p.handleState(ctx, conn, env)
			case *Envelope_TransactionSet:
				_ = n.p.handleTransactionSet(ctx, conn, env)
			case *Envelope_TransactionListQuery:
				_ = n.p.handleTransactionListQuery(ctx, conn, env)
			case *Envelope_TransactionRangeQuery:
				_ = n.p.handleTransactionRangeQuery(ctx, conn, env)
			case *Envelope_TransactionList:
				_ = n.p.handleTransactionList(ctx, conn, env)
			default:
				panic("unexpected message kind on the line")
			}
			res.steps++
			collect()
		}
	}
}

type vc07LineReplay struct {
	Line string `json:"line"`
}

func vc07LineScenarios() map[string]func() (*vc07Universe, [3][]int) {
	chain := func(private string) (*vc07Universe, []int) {
		prevs, ids := vc07Chain([][]int{nil}, 0, 3)
		return vc07NewUniversePrivate("line", prevs, private), ids
	}
	return map[string]func() (*vc07Universe, [3][]int){
		// A owns root <- tx1 <- tx2 <- tx3; B and C start with the root
		"line-public": func() (*vc07Universe, [3][]int) {
			u, ids := chain("")
			return u, [3][]int{append([]int{0}, ids...), {0}, {0}}
		},
		// the same with private transactions whose payload A holds: B relays them without payload
		"line-private-payload-at-owner": func() (*vc07Universe, [3][]int) {
			u, ids := chain("payload-at-holder")
			return u, [3][]int{append([]int{0}, ids...), {0}, {0}}
		},
		// nobody holds the payloads; B already has the transactions (relay that synced earlier), C has the root
		"line-private-relay-already-synced": func() (*vc07Universe, [3][]int) {
			u, ids := chain("no-payload")
			return u, [3][]int{append([]int{0}, ids...), append([]int{0}, ids...), {0}}
		},
	}
}
