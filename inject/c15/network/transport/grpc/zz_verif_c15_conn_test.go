//go:build verif

// C15 (connections part) — connection HISTORIES through the real connection manager (handleInboundStream → authenticate →
// getOrRegister → registerStream → observers) with the package's own stream stubs and the real tlsAuthenticator.
// A connection may be marked Authenticated with DID D only if, AT THE TIME OF THAT CONNECTION, D resolves, is active, has a
// NutsComm service, and the certificate that vouches for THIS stream covers that service's host — whatever happened before.
// Three families of histories:
//
//	tls         direct TLS, static documents: who connects under which peer ID / DID / certificate, in which order
//	documents   the victim's DID document changes between connection events (endpoint moved, service removed, deactivated,
//	            resolver error)
//	offloading  tls.offload=incoming: the real tlsOffloadingAuthenticator interceptor in front of the connection manager; the
//	            client-certificate header carries a set of values. Model: the TLS terminator appends exactly ONE trusted value
//	            (the last); anything before it was put there by the client.
package grpc

import (
	"context"
	"crypto/x509"
	"encoding/base64"
	"encoding/pem"
	"errors"
	"fmt"
	"hash/crc32"
	"net"
	"net/url"
	"os"
	"strings"
	"sync"
	"testing"
	"time"

	ssi "github.com/nuts-foundation/go-did"
	"github.com/nuts-foundation/go-did/did"
	"github.com/nuts-foundation/nuts-node/network/transport"
	"github.com/nuts-foundation/nuts-node/pki"
	"github.com/nuts-foundation/nuts-node/vdr/resolver"
	ggrpc "google.golang.org/grpc"
	"google.golang.org/grpc/metadata"
	"google.golang.org/grpc/peer"

	"verif/ev"
)

// vc15Docs is the stateful service resolver: the victim's document has a history.
type vc15Docs struct {
	mu     sync.Mutex
	victim string // normal | moved | service-removed | deactivated | resolver-error
}

func (d *vc15Docs) set(s string) { d.mu.Lock(); d.victim = s; d.mu.Unlock() }

// hostNow: the host of the NutsComm service the DID has right now ("" = none / not resolvable / not active).
func (d *vc15Docs) hostNow(id string) string {
	d.mu.Lock()
	defer d.mu.Unlock()
	switch id {
	case "did:nuts:victim":
		switch d.victim {
		case "normal":
			return "victim.example.com"
		case "moved":
			return "victim-new.example.com"
		}
		return ""
	case "did:nuts:attacker":
		return "attacker.example.org"
	}
	return ""
}

func (d *vc15Docs) Resolve(query ssi.URI, _ int) (did.Service, error) {
	q := query.String()
	id := ""
	switch {
	case strings.Contains(q, "did:nuts:victim"):
		id = "did:nuts:victim"
		d.mu.Lock()
		st := d.victim
		d.mu.Unlock()
		switch st {
		case "service-removed":
			return did.Service{}, resolver.ErrServiceNotFound
		case "deactivated":
			return did.Service{}, resolver.ErrDeactivated
		case "resolver-error":
			return did.Service{}, errors.New("verif: document store unavailable")
		}
	case strings.Contains(q, "did:nuts:attacker"):
		id = "did:nuts:attacker"
	default:
		return did.Service{}, resolver.ErrNotFound
	}
	return did.Service{Type: transport.NutsCommServiceType, ServiceEndpoint: "grpc://" + d.hostNow(id) + ":5555"}, nil
}

func (d *vc15Docs) ResolveEx(_ ssi.URI, _ int, _ int, _ map[string]*did.Document) (did.Service, error) {
	return did.Service{}, errors.New("not used")
}

// vc15PKI: revocation checking is outside this part; only CheckCRL is reached.
type vc15PKI struct{ pki.Validator }

func (vc15PKI) CheckCRL(_ []*x509.Certificate) error { return nil }

// vc15Step is one event of a history.
type vc15Step struct {
	Kind   string   `json:"kind"` // toggle | doc
	Name   string   `json:"name"` // actor name / document state
	PeerID string   `json:"peer_id,omitempty"`
	DID    string   `json:"did,omitempty"`    // claimed node DID header
	Cert   string   `json:"cert,omitempty"`   // direct TLS: the certificate of the TLS session
	Header []string `json:"header,omitempty"` // offloading: labels of the header values, in order (last = appended by the terminator)
}

type vc15Stream struct {
	cancel func()
	done   chan error
}

func vc15OffloadStream(peerID, nodeDID, headerKey string, values []string) (*stubServerStream, context.CancelFunc) {
	md := metadata.New(map[string]string{peerIDHeader: peerID})
	if nodeDID != "" {
		md.Set(nodeDIDHeader, nodeDID)
	}
	if values != nil {
		md.Append(headerKey, values...) // metadata lower-cases the key, as HTTP/2 does on the wire
	}
	grpcPeer := &peer.Peer{Addr: &net.TCPAddr{IP: net.ParseIP("127.0.0.1"), Port: int(crc32.ChecksumIEEE([]byte(peerID))%9000 + 1000)}}
	ctx := metadata.NewIncomingContext(context.Background(), md)
	ctx = peer.NewContext(ctx, grpcPeer)
	ctx = ggrpc.NewContextWithServerTransportStream(ctx, &stubServerTransportStream{method: "/unit/test"})
	ctx, cancel := context.WithCancel(ctx)
	return &stubServerStream{ctx: ctx, cancelFunc: cancel}, cancel
}

func TestVerifC15ConnectionHistories(t *testing.T) {
	r := ev.Start(t, "C15")
	defer r.Finish()
	var rc struct {
		Family  string     `json:"family"`
		History []vc15Step `json:"history"`
		Casing  string     `json:"casing"`
	}
	replaying := r.ReplayCase(&rc) && rc.Family != ""
	if !replaying && os.Getenv("VERIF_REPLAY") != "" {
		return
	}
	r.Rule("connection histories on a fresh real grpcConnectionManager per history (handleInboundStream with the package's stream stubs, real tlsAuthenticator). " +
		"tls: every sequence of depth <= 3 of toggle(actor) over {victim, victim restarted, attacker claiming the victim's DID / using its peer ID / both, attacker under its own DID}. " +
		"documents: depth <= 3 over toggle(actor) for {victim, holder of a certificate for the victim's NEW host claiming its DID, attacker claiming the DID} and document events " +
		"{normal, endpoint moved, service removed, deactivated, resolver error}. offloading: the real tlsOffloadingAuthenticator interceptor in front, header value sets " +
		"{none, own, victim's public certificate, [victim's, own], [own, victim's], empty, garbage, [garbage, own]} x encodings {URL-escaped PEM, base64 DER} x claimed DID {victim, own, none} x " +
		"configured header name casing, alone and after a legitimate victim session (open / closed). Every newly accepted stream is judged at the time of its connection.")
	certDesc := map[string]vc15Cert{
		"victim":   {Name: "victim", CN: "x", DNS: []string{"victim.example.com"}},
		"newhost":  {Name: "newhost", CN: "x", DNS: []string{"victim-new.example.com"}},
		"attacker": {Name: "attacker", CN: "x", DNS: []string{"attacker.example.org", "*.attacker.example.org"}},
	}
	certs := map[string]*x509.Certificate{}
	for k, c := range certDesc {
		certs[k] = vc15MakeCert(t, c)
	}
	encode := func(label, enc string) string {
		switch label {
		case "empty":
			return ""
		case "garbage":
			return "this-is-not-a-certificate"
		}
		c := certs[label]
		if enc == "der" {
			return base64.StdEncoding.EncodeToString(c.Raw)
		}
		return url.QueryEscape(string(pem.EncodeToMemory(&pem.Block{Type: "CERTIFICATE", Bytes: c.Raw})))
	}

	type history struct {
		family string
		steps  []vc15Step
		casing string
		enc    string
	}
	var histories []history
	// --- tls ---------------------------------------------------------------------------------------------------------------
	tlsActors := []vc15Step{
		{Kind: "toggle", Name: "victim", PeerID: "peer-victim", DID: "did:nuts:victim", Cert: "victim"},
		{Kind: "toggle", Name: "victim-restarted", PeerID: "peer-victim-2", DID: "did:nuts:victim", Cert: "victim"},
		{Kind: "toggle", Name: "attacker-claims-did", PeerID: "peer-attacker", DID: "did:nuts:victim", Cert: "attacker"},
		{Kind: "toggle", Name: "attacker-uses-peer-id", PeerID: "peer-victim", DID: "", Cert: "attacker"},
		{Kind: "toggle", Name: "attacker-claims-both", PeerID: "peer-victim", DID: "did:nuts:victim", Cert: "attacker"},
		{Kind: "toggle", Name: "attacker-own-did", PeerID: "peer-attacker", DID: "did:nuts:attacker", Cert: "attacker"},
	}
	var rec func(family string, alphabet []vc15Step, prefix []vc15Step)
	rec = func(family string, alphabet []vc15Step, prefix []vc15Step) {
		if len(prefix) > 0 {
			histories = append(histories, history{family: family, steps: append([]vc15Step{}, prefix...)})
		}
		if len(prefix) == 3 {
			return
		}
		for _, a := range alphabet {
			rec(family, alphabet, append(prefix, a))
		}
	}
	rec("tls", tlsActors, nil)
	// --- documents ---------------------------------------------------------------------------------------------------------
	docAlphabet := []vc15Step{
		{Kind: "toggle", Name: "victim", PeerID: "peer-victim", DID: "did:nuts:victim", Cert: "victim"},
		{Kind: "toggle", Name: "new-host-certificate-claims-did", PeerID: "peer-newhost", DID: "did:nuts:victim", Cert: "newhost"},
		{Kind: "toggle", Name: "old-host-certificate-other-peer", PeerID: "peer-other", DID: "did:nuts:victim", Cert: "victim"},
		{Kind: "toggle", Name: "attacker-claims-did", PeerID: "peer-attacker", DID: "did:nuts:victim", Cert: "attacker"},
		{Kind: "doc", Name: "normal"}, {Kind: "doc", Name: "moved"}, {Kind: "doc", Name: "service-removed"}, {Kind: "doc", Name: "deactivated"}, {Kind: "doc", Name: "resolver-error"},
	}
	rec("documents", docAlphabet, nil)
	// --- offloading --------------------------------------------------------------------------------------------------------
	legit := vc15Step{Kind: "toggle", Name: "victim-through-terminator", PeerID: "peer-victim", DID: "did:nuts:victim", Header: []string{"victim"}}
	for _, casing := range []string{"x-ssl-cert", "X-Ssl-Cert", "X-SSL-CERT"} {
		for _, enc := range []string{"pem", "der"} {
			for _, hv := range [][]string{nil, {"attacker"}, {"victim"}, {"victim", "attacker"}, {"attacker", "victim"}, {"empty"}, {"garbage"}, {"garbage", "attacker"}, {"attacker", "garbage"}} {
				for _, claimed := range []string{"did:nuts:victim", "did:nuts:attacker", ""} {
					v := vc15Step{Kind: "toggle", Name: fmt.Sprintf("header%v-claims-%q", hv, claimed), PeerID: "peer-attacker", DID: claimed, Header: hv}
					if hv == nil {
						v.Header = []string{}
					}
					for _, prefix := range [][]vc15Step{nil, {legit}, {legit, legit}} {
						histories = append(histories, history{family: "offloading", steps: append(append([]vc15Step{}, prefix...), v), casing: casing, enc: enc})
					}
				}
			}
		}
	}
	if replaying {
		histories = []history{{family: rc.Family, steps: rc.History, casing: rc.Casing, enc: "pem"}}
	}
	r.Bound("histories", len(histories))
	pkiMock := vc15PKI{}
	localDID := did.MustParseDID("did:nuts:local")
	for hi, h := range histories {
		if !replaying && (!r.Mine(hi) || r.Expired()) {
			continue
		}
		func() {
			docs := &vc15Docs{victim: "normal"}
			cm, err := NewGRPCConnectionManager(Config{peerID: "server-peer-id"}, nil, localDID, NewTLSAuthenticator(docs))
			if err != nil {
				t.Fatal(err)
			}
			var mu sync.Mutex
			var observed []transport.Peer
			connected := make(chan struct{}, 16)
			cm.RegisterObserver(func(p transport.Peer, state transport.StreamState, _ transport.Protocol) {
				if state == transport.StateConnected {
					mu.Lock()
					observed = append(observed, p)
					mu.Unlock()
					connected <- struct{}{}
				}
			})
			protocol := &TestProtocol{}
			live := map[string]*vc15Stream{}
			defer func() {
				for _, l := range live {
					l.cancel()
					<-l.done
				}
				cm.Stop()
			}()
			var names []string
			priorAuth := map[string]bool{}
			for _, st := range h.steps {
				if st.Kind == "doc" {
					docs.set(st.Name)
					names = append(names, "document("+st.Name+")")
					r.Eval(h.family + ":" + strings.Join(names, ","))
					continue
				}
				if l, open := live[st.Name]; open {
					names = append(names, "disconnect("+st.Name+")")
					l.cancel()
					select {
					case <-l.done:
					case <-time.After(30 * time.Second):
						t.Fatalf("harness: stream of %s did not end", st.Name)
					}
					delete(live, st.Name)
					r.Eval(h.family + ":" + strings.Join(names, ","))
					continue
				}
				names = append(names, "connect("+st.Name+")")
				// what vouches for this stream: the TLS session's certificate, or the value the terminator appended
				vouched := st.Cert
				l := &vc15Stream{done: make(chan error, 1)}
				if h.family == "offloading" {
					vouched = ""
					if len(st.Header) > 0 {
						if last := st.Header[len(st.Header)-1]; certs[last] != nil {
							vouched = last
						}
					}
					var values []string
					for _, label := range st.Header {
						values = append(values, encode(label, h.enc))
					}
					stream, cancel := vc15OffloadStream(st.PeerID, st.DID, strings.ToLower(h.casing), values)
					l.cancel = cancel
					interceptor := newAuthenticationInterceptor(h.casing, pkiMock)
					go func() {
						l.done <- interceptor(nil, stream, nil, func(_ interface{}, ss ggrpc.ServerStream) error { return cm.handleInboundStream(protocol, ss) })
					}()
				} else {
					stream := newServerStream(transport.PeerID(st.PeerID), st.DID, certs[st.Cert])
					l.cancel = stream.cancelFunc
					go func() { l.done <- cm.handleInboundStream(protocol, stream) }()
				}
				accepted := false
				select {
				case err := <-l.done:
					msg := fmt.Sprint(err)
					if i := strings.Index(msg, "desc = "); i >= 0 {
						msg = msg[i+7:]
					}
					r.Outcome(h.family + " refused: " + msg)
				case <-connected:
					live[st.Name] = l
					accepted = true
					r.Outcome(h.family + " accepted")
				case <-time.After(30 * time.Second):
					t.Fatalf("harness: stream of %s neither accepted nor refused", st.Name)
				}
				mu.Lock()
				obs := append([]transport.Peer{}, observed...)
				observed = nil
				mu.Unlock()
				if accepted && len(obs) == 0 {
					t.Fatalf("harness: accepted stream without observer notification")
				}
				for _, p := range obs {
					key := p.ID.String() + "/" + p.NodeDID.String()
					if !p.Authenticated {
						continue
					}
					host := docs.hostNow(p.NodeDID.String())
					ok := vouched != "" && host != "" && vc15Covers(certDesc[vouched], host)
					// the certificate the connection manager attached must be the vouched one as well
					if ok && (p.Certificate == nil || !p.Certificate.Equal(certs[vouched])) {
						ok = false
					}
					if ok {
						r.Outcome(h.family + " authenticated with a covering certificate")
						priorAuth[key], priorAuth["*/"+p.NodeDID.String()] = true, true
						continue
					}
					class := "fresh"
					switch {
					case h.family == "offloading":
						class = fmt.Sprintf("header-values-%d", len(st.Header))
						if len(st.Header) > 1 {
							class += "-client-supplied-first"
						}
					case host == "":
						class = "did-has-no-nutscomm-host-now:" + docs.victim
					case priorAuth[key]:
						class = "same-peer-id-and-did-authenticated-earlier"
					case priorAuth["*/"+p.NodeDID.String()]:
						class = "same-did-authenticated-earlier"
					}
					var dns []string
					if p.Certificate != nil {
						dns = p.Certificate.DNSNames
					}
					r.Violation("C15|connection-history:"+h.family+"|authenticated-without-covering-certificate|"+class,
						fmt.Sprintf("after %v a stream is authenticated as %s although what vouches for it (%q, attached certificate %v) does not cover the DID's NutsComm host now (%q)",
							names, p.NodeDID, vouched, dns, host),
						map[string]any{"family": h.family, "history": h.steps, "casing": h.casing})
					priorAuth[key], priorAuth["*/"+p.NodeDID.String()] = true, true
				}
				r.Eval(h.family + ":" + h.casing + h.enc + ":" + strings.Join(names, ","))
			}
		}()
	}
}
