//go:build verif

// C15 (authenticator part) — "Authenticated" is set only when the peer's TLS certificate covers the host of the
// NutsComm endpoint in the DID document of the claimed node DID.
//
// Seam: the REAL tlsAuthenticator.Authenticate and the REAL grpcConnectionManager.authenticate with generated
// certificates and a stub service resolver (the DID document side is C09/C18's business).
// Product: certificate SAN sets x NutsComm endpoint forms. Reference predicate: an independent, deliberately
// simple reading of "certificate covers host" (exact DNS SAN, single left-most wildcard label, IP SAN for IP hosts;
// the common name never counts) over a host extracted by an independent few-line URL reader.
package grpc

import (
	"crypto/ecdsa"
	"crypto/elliptic"
	"crypto/rand"
	"crypto/x509"
	"crypto/x509/pkix"
	"errors"
	"fmt"
	"math/big"
	"net"
	"os"
	"strings"
	"sync"
	"testing"
	"time"

	ssi "github.com/nuts-foundation/go-did"
	"github.com/nuts-foundation/go-did/did"
	"github.com/nuts-foundation/nuts-node/network/transport"

	"verif/ev"
)

type vc15Svc struct {
	endpoint interface{}
	err      error
	queries  []string
}

func (s *vc15Svc) Resolve(query ssi.URI, _ int) (did.Service, error) {
	s.queries = append(s.queries, query.String())
	if s.err != nil {
		return did.Service{}, s.err
	}
	return did.Service{Type: transport.NutsCommServiceType, ServiceEndpoint: s.endpoint}, nil
}

func (s *vc15Svc) ResolveEx(_ ssi.URI, _ int, _ int, _ map[string]*did.Document) (did.Service, error) {
	return did.Service{}, errors.New("not used")
}

type vc15Cert struct {
	Name string
	CN   string
	DNS  []string
	IPs  []string
}

func vc15MakeCert(t *testing.T, c vc15Cert) *x509.Certificate {
	key, err := ecdsa.GenerateKey(elliptic.P256(), rand.Reader)
	if err != nil {
		t.Fatal(err)
	}
	tpl := &x509.Certificate{SerialNumber: big.NewInt(1), Subject: pkix.Name{CommonName: c.CN}, NotBefore: time.Now().Add(-time.Hour),
		NotAfter: time.Now().Add(24 * time.Hour), DNSNames: c.DNS, KeyUsage: x509.KeyUsageDigitalSignature}
	for _, ip := range c.IPs {
		tpl.IPAddresses = append(tpl.IPAddresses, net.ParseIP(ip))
	}
	der, err := x509.CreateCertificate(rand.Reader, tpl, tpl, &key.PublicKey, key)
	if err != nil {
		t.Fatal(err)
	}
	cert, err := x509.ParseCertificate(der)
	if err != nil {
		t.Fatal(err)
	}
	return cert
}

// vc15Host reads the host of an endpoint the way the statement means it: scheme://[userinfo@]host[:port][/...].
// ok=false: the form is outside what this reader understands (then nothing may be authenticated on a host we
// cannot name; such cases are judged only by "must not authenticate").
func vc15Host(endpoint string) (host string, ok bool) {
	i := strings.Index(endpoint, "://")
	if i <= 0 {
		return "", false
	}
	rest := endpoint[i+3:]
	if j := strings.IndexAny(rest, "/?#"); j >= 0 {
		rest = rest[:j]
	}
	if j := strings.LastIndex(rest, "@"); j >= 0 {
		rest = rest[j+1:]
	}
	if strings.HasPrefix(rest, "[") {
		j := strings.Index(rest, "]")
		if j < 0 {
			return "", false
		}
		return rest[1:j], true
	}
	if j := strings.LastIndex(rest, ":"); j >= 0 {
		rest = rest[:j]
	}
	if rest == "" || strings.ContainsAny(rest, "% ") {
		return "", false
	}
	return rest, true
}

// vc15Covers is the reference reading of "the certificate covers this host".
func vc15Covers(c vc15Cert, host string) bool {
	if ip := net.ParseIP(host); ip != nil {
		for _, s := range c.IPs {
			if net.ParseIP(s).Equal(ip) {
				return true
			}
		}
		return false
	}
	h := strings.ToLower(host)
	for _, san := range c.DNS {
		s := strings.ToLower(san)
		if s == h {
			return true
		}
		if strings.HasPrefix(s, "*.") {
			if dot := strings.Index(h, "."); dot > 0 && h[dot+1:] == s[2:] {
				return true
			}
		}
	}
	return false
}

func TestVerifC15Authenticator(t *testing.T) {
	r := ev.Start(t, "C15")
	defer r.Finish()
	r.Rule("tlsAuthenticator.Authenticate and grpcConnectionManager.authenticate on the product of certificate SAN sets (exact, wildcard, parent wildcard, other host, IP, " +
		"several names, common name only, mixed case, none) x NutsComm endpoint forms (exact host, host under the wildcard, two labels under the wildcard, other host, IPv4, IPv6, " +
		"userinfo trick, mixed case, without scheme, empty, unparsable, object instead of string, list of one string, service missing) x {certificate present, absent}. " +
		"A case is non-trivial when a certificate and a resolvable service are present.")
	certs := []vc15Cert{
		{Name: "exact", CN: "x", DNS: []string{"nuts.example.com"}},
		{Name: "wildcard", CN: "x", DNS: []string{"*.example.com"}},
		{Name: "parent-wildcard", CN: "x", DNS: []string{"*.com"}},
		{Name: "other-host", CN: "x", DNS: []string{"evil.example.org"}},
		{Name: "ipv4", CN: "x", IPs: []string{"10.1.2.3"}},
		{Name: "ipv6", CN: "x", IPs: []string{"2001:db8::1"}},
		{Name: "several", CN: "x", DNS: []string{"a.example.org", "nuts.example.com", "b.example.org"}, IPs: []string{"10.9.9.9"}},
		{Name: "cn-only", CN: "nuts.example.com"},
		{Name: "mixed-case", CN: "x", DNS: []string{"NUTS.Example.COM"}},
		{Name: "no-names", CN: ""},
		{Name: "suffix-lookalike", CN: "x", DNS: []string{"nuts.example.com.evil.org", "xnuts.example.com"}},
	}
	type ep struct {
		Name string
		Val  interface{}
		Err  error
	}
	eps := []ep{
		{Name: "exact", Val: "grpc://nuts.example.com:5555"},
		{Name: "under-wildcard", Val: "grpc://node1.example.com:5555"},
		{Name: "two-labels-under-wildcard", Val: "grpc://a.b.example.com:5555"},
		{Name: "bare-domain", Val: "grpc://example.com:5555"},
		{Name: "other-host", Val: "grpc://evil.example.org:5555"},
		{Name: "ipv4", Val: "grpc://10.1.2.3:5555"},
		{Name: "other-ipv4", Val: "grpc://10.1.2.4:5555"},
		{Name: "ipv6", Val: "grpc://[2001:db8::1]:5555"},
		{Name: "userinfo-trick", Val: "grpc://nuts.example.com@evil.example.org:5555"},
		{Name: "userinfo-trick-reverse", Val: "grpc://evil.example.org@nuts.example.com:5555"},
		{Name: "mixed-case", Val: "grpc://Nuts.EXAMPLE.com:5555"},
		{Name: "no-port", Val: "grpc://nuts.example.com"},
		{Name: "with-path", Val: "grpc://nuts.example.com:5555/x/y"},
		{Name: "no-scheme", Val: "nuts.example.com:5555"},
		{Name: "empty", Val: ""},
		{Name: "unparsable", Val: "grpc://%zz:5555"},
		{Name: "control-char", Val: "grpc://nuts.example.com\x7f:5555"},
		{Name: "object", Val: map[string]interface{}{"url": "grpc://nuts.example.com:5555"}},
		{Name: "list-of-one", Val: []interface{}{"grpc://nuts.example.com:5555"}},
		{Name: "list-of-two", Val: []interface{}{"grpc://evil.example.org:5555", "grpc://nuts.example.com:5555"}},
		{Name: "service-missing", Err: errors.New("service not found")},
	}
	nodeDID := did.MustParseDID("did:nuts:ClaimedNode")
	made := map[string]*x509.Certificate{}
	for _, c := range certs {
		made[c.Name] = vc15MakeCert(t, c)
	}
	idx := 0
	for _, c := range append(certs, vc15Cert{Name: "absent"}) {
		for _, e := range eps {
			for _, via := range []string{"authenticator", "connection-manager"} {
				idx++
				if !r.Mine(idx) {
					continue
				}
				svc := &vc15Svc{endpoint: e.Val, err: e.Err}
				in := transport.Peer{ID: "peer", Address: "1.2.3.4:5555", Certificate: made[c.Name]}
				var out transport.Peer
				var err error
				if via == "authenticator" {
					out, err = NewTLSAuthenticator(svc).Authenticate(nodeDID, in)
				} else {
					cm := &grpcConnectionManager{authenticator: NewTLSAuthenticator(svc)}
					out, err = cm.authenticate(nodeDID, in)
				}
				// reference
				want := false
				endpointStr, isString := e.Val.(string)
				if l, ok := e.Val.([]interface{}); ok && len(l) == 1 {
					endpointStr, isString = l[0].(string)
				}
				host, hostOK := "", false
				if isString && e.Err == nil {
					host, hostOK = vc15Host(endpointStr)
				}
				if c.Name != "absent" && hostOK {
					want = vc15Covers(c, host)
				}
				key := ""
				if c.Name != "absent" && e.Err == nil {
					key = c.Name + "|" + e.Name + "|" + via
				}
				r.Eval(key)
				got := out.Authenticated
				r.Outcome(fmt.Sprintf("authenticated=%v err=%v", got, err != nil))
				if got && !want {
					r.Violation(fmt.Sprintf("C15|authenticator|authenticated-without-covering-certificate|cert:%s+endpoint:%s", c.Name, e.Name),
						fmt.Sprintf("%s set Authenticated for a certificate (%+v) that does not cover the NutsComm endpoint %v", via, c, e.Val),
						map[string]any{"cert": c, "endpoint": e.Name, "via": via})
				}
				if got && !out.NodeDID.Equals(nodeDID) {
					r.Violation("C15|authenticator|authenticated-as-other-did|"+via, "Authenticated set with a node DID other than the verified one",
						map[string]any{"cert": c, "endpoint": e.Name, "via": via})
				}
				if err != nil && got {
					r.Violation("C15|authenticator|authenticated-although-error|"+via, "an error was returned together with an authenticated peer",
						map[string]any{"cert": c, "endpoint": e.Name, "via": via})
				}
				if !got && want {
					// converse direction: not demanded by the statement (e.g. stricter matching) — observation only
					r.Observation("covering certificate not accepted", map[string]any{"cert": c.Name, "endpoint": e.Name})
				}
				if len(svc.queries) > 0 && !strings.Contains(svc.queries[0], nodeDID.String()) {
					t.Fatalf("harness: service resolved for another DID: %v", svc.queries)
				}
			}
		}
	}
	// without a claimed node DID the connection manager leaves the peer unauthenticated and anonymous
	cm := &grpcConnectionManager{authenticator: NewTLSAuthenticator(&vc15Svc{endpoint: "grpc://nuts.example.com:5555"})}
	out, err := cm.authenticate(did.DID{}, transport.Peer{ID: "peer", Certificate: made["exact"]})
	r.Eval("no-claimed-did")
	if err != nil || out.Authenticated || !out.NodeDID.Empty() {
		if out.Authenticated {
			r.Violation("C15|authenticator|authenticated-without-claimed-did|connection-manager", "peer authenticated although it claimed no node DID", nil)
		}
	}
	// vacuity guard: the plain honest case authenticates
	ok, err := NewTLSAuthenticator(&vc15Svc{endpoint: "grpc://nuts.example.com:5555"}).Authenticate(nodeDID, transport.Peer{Certificate: made["exact"]})
	if err != nil || !ok.Authenticated {
		t.Fatalf("vacuity: exact certificate for the exact endpoint is not authenticated: %v", err)
	}
}

// ---------------------------------------------------------------------------------------------------------------------
// connection HISTORIES through the real connection manager (handleInboundStream -> authenticate -> getOrRegister ->
// registerStream -> observers), with the package's own stream stubs. A connection may be marked Authenticated with DID D only
// if ITS OWN certificate covers D's NutsComm endpoint host — whatever happened on earlier connections.

type vc15Actor struct {
	Name   string
	PeerID transport.PeerID
	DID    string // node DID header ("" = none)
	Cert   string // key of the certificate
}

type vc15DIDSvc struct{}

func (vc15DIDSvc) Resolve(query ssi.URI, _ int) (did.Service, error) {
	q := query.String()
	switch {
	case strings.Contains(q, "did:nuts:victim"):
		return did.Service{Type: transport.NutsCommServiceType, ServiceEndpoint: "grpc://victim.example.com:5555"}, nil
	case strings.Contains(q, "did:nuts:attacker"):
		return did.Service{Type: transport.NutsCommServiceType, ServiceEndpoint: "grpc://attacker.example.org:5555"}, nil
	}
	return did.Service{}, errors.New("service not found")
}

func (vc15DIDSvc) ResolveEx(_ ssi.URI, _ int, _ int, _ map[string]*did.Document) (did.Service, error) {
	return did.Service{}, errors.New("not used")
}

type vc15Live struct {
	stream *stubServerStream
	done   chan error
}

func TestVerifC15ConnectionHistories(t *testing.T) {
	r := ev.Start(t, "C15")
	defer r.Finish()
	if os.Getenv("VERIF_REPLAY") != "" {
		var any map[string]any
		if !r.ReplayCase(&any) || any["history"] == nil {
			return
		}
	}
	r.Rule("connection histories of depth <= 3 on a fresh real grpcConnectionManager (handleInboundStream with the package's stream stubs, real tlsAuthenticator): every sequence of " +
		"toggle(actor) — connect if the actor has no open stream, disconnect otherwise — over actors {victim with its own certificate, victim restarted (new peer ID), attacker with another " +
		"valid certificate claiming the victim's DID / using the victim's peer ID without a DID / both, attacker under its own DID}. After every event every registered connection and every " +
		"peer handed to the stream observers is judged: Authenticated with DID D only if the certificate of THAT stream covers D's NutsComm host.")
	certDesc := map[string]vc15Cert{
		"victim":   {Name: "victim", CN: "x", DNS: []string{"victim.example.com"}},
		"attacker": {Name: "attacker", CN: "x", DNS: []string{"attacker.example.org", "*.attacker.example.org"}},
	}
	certs := map[string]*x509.Certificate{}
	for k, c := range certDesc {
		certs[k] = vc15MakeCert(t, c)
	}
	hostOf := map[string]string{"did:nuts:victim": "victim.example.com", "did:nuts:attacker": "attacker.example.org"}
	actors := []vc15Actor{
		{"victim", "peer-victim", "did:nuts:victim", "victim"},
		{"victim-restarted", "peer-victim-2", "did:nuts:victim", "victim"},
		{"attacker-claims-did", "peer-attacker", "did:nuts:victim", "attacker"},
		{"attacker-uses-peer-id", "peer-victim", "", "attacker"},
		{"attacker-claims-both", "peer-victim", "did:nuts:victim", "attacker"},
		{"attacker-own-did", "peer-attacker", "did:nuts:attacker", "attacker"},
	}
	var histories [][]int
	var rec func(prefix []int)
	rec = func(prefix []int) {
		if len(prefix) > 0 {
			histories = append(histories, append([]int{}, prefix...))
		}
		if len(prefix) == 3 {
			return
		}
		for i := range actors {
			rec(append(prefix, i))
		}
	}
	rec(nil)
	r.Bound("histories", len(histories))
	localDID := did.MustParseDID("did:nuts:local")
	honest := false
	for hi, hist := range histories {
		if !r.Mine(hi) || r.Expired() {
			continue
		}
		func() {
			cm, err := NewGRPCConnectionManager(Config{peerID: "server-peer-id"}, nil, localDID, NewTLSAuthenticator(vc15DIDSvc{}))
			if err != nil {
				t.Fatal(err)
			}
			var mu sync.Mutex
			var observed []transport.Peer
			connected := make(chan struct{}, 16)
			cm.RegisterObserver(func(peer transport.Peer, state transport.StreamState, _ transport.Protocol) {
				if state == transport.StateConnected {
					mu.Lock()
					observed = append(observed, peer)
					mu.Unlock()
					connected <- struct{}{}
				}
			})
			protocol := &TestProtocol{}
			live := map[int]*vc15Live{}
			defer func() {
				for _, l := range live {
					l.stream.cancelFunc()
					<-l.done
				}
				cm.Stop()
			}()
			var names []string
			priorAuth := map[string]bool{} // peerID/DID combinations authenticated earlier in this history
			for _, ai := range hist {
				a := actors[ai]
				if l, open := live[ai]; open {
					names = append(names, "disconnect("+a.Name+")")
					l.stream.cancelFunc()
					select {
					case <-l.done:
					case <-time.After(30 * time.Second):
						t.Fatalf("harness: stream of %s did not end", a.Name)
					}
					delete(live, ai)
				} else {
					names = append(names, "connect("+a.Name+")")
					l := &vc15Live{stream: newServerStream(a.PeerID, a.DID, certs[a.Cert]), done: make(chan error, 1)}
					go func() { l.done <- cm.handleInboundStream(protocol, l.stream) }()
					select {
					case err := <-l.done:
						r.Outcome("refused: " + fmt.Sprint(err))
					case <-connected:
						live[ai] = l
						r.Outcome("accepted")
					case <-time.After(30 * time.Second):
						t.Fatalf("harness: stream of %s neither accepted nor refused", a.Name)
					}
				}
				// judge everything registered and everything the observers were told
				mu.Lock()
				obs := append([]transport.Peer{}, observed...)
				observed = nil
				mu.Unlock()
				var peers []transport.Peer
				for _, c := range cm.connections.All() {
					peers = append(peers, c.Peer())
				}
				peers = append(peers, obs...)
				for _, p := range peers {
					if !p.Authenticated {
						continue
					}
					covers := false
					if p.Certificate != nil && !p.NodeDID.Empty() {
						for k, c := range certs {
							if c.Equal(p.Certificate) {
								covers = vc15Covers(certDesc[k], hostOf[p.NodeDID.String()])
							}
						}
					}
					if covers {
						if p.NodeDID.String() == "did:nuts:victim" {
							honest = true
						}
						continue
					}
					class := "fresh"
					if priorAuth[p.ID.String()+"/"+p.NodeDID.String()] {
						class = "same-peer-id-and-did-authenticated-earlier"
					} else if priorAuth["*/"+p.NodeDID.String()] {
						class = "same-did-authenticated-earlier"
					}
					r.Violation("C15|connection-history|authenticated-without-covering-certificate|"+class,
						fmt.Sprintf("after %v a connection is registered as authenticated with node DID %s although its own certificate (%v) does not cover %s",
							names, p.NodeDID, p.Certificate.DNSNames, hostOf[p.NodeDID.String()]),
						map[string]any{"history": names})
				}
				for _, p := range peers {
					if p.Authenticated {
						priorAuth[p.ID.String()+"/"+p.NodeDID.String()] = true
						priorAuth["*/"+p.NodeDID.String()] = true
					}
				}
				r.Eval(strings.Join(names, ","))
			}
		}()
	}
	if !honest && !r.Expired() {
		nsh := 0
		_, nsh = r.Shard()
		if nsh == 1 {
			t.Fatalf("vacuity: the victim with its own certificate was never authenticated")
		}
	}
}
