//go:build verif

// C15 (authenticator part) — "Authenticated" is set only when the peer's TLS certificate covers the host of the
// NutsComm endpoint in the DID document of the claimed node DID.
//
// Seam: the REAL tlsAuthenticator.Authenticate and the REAL grpcConnectionManager.authenticate with generated
// certificates and a stub service resolver (the DID document side is C09/C18's business).
// Product: certificate SAN sets x NutsComm endpoint forms. Reference predicate: an independent, deliberately
// simple reading of "certificate covers host" (exact DNS SAN, single left-most wildcard label, IP SAN for IP hosts;
// the common name never counts) over a host extracted by an independent few-line URL reader.
package grpc

import (
	"crypto/ecdsa"
	"crypto/elliptic"
	"crypto/rand"
	"crypto/x509"
	"crypto/x509/pkix"
	"errors"
	"fmt"
	"math/big"
	"net"
	"strings"
	"testing"
	"time"

	ssi "github.com/nuts-foundation/go-did"
	"github.com/nuts-foundation/go-did/did"
	"github.com/nuts-foundation/nuts-node/network/transport"

	"verif/ev"
)

type vc15Svc struct {
	endpoint interface{}
	err      error
	queries  []string
}

func (s *vc15Svc) Resolve(query ssi.URI, _ int) (did.Service, error) {
	s.queries = append(s.queries, query.String())
	if s.err != nil {
		return did.Service{}, s.err
	}
	return did.Service{Type: transport.NutsCommServiceType, ServiceEndpoint: s.endpoint}, nil
}

func (s *vc15Svc) ResolveEx(_ ssi.URI, _ int, _ int, _ map[string]*did.Document) (did.Service, error) {
	return did.Service{}, errors.New("not used")
}

type vc15Cert struct {
	Name string
	CN   string
	DNS  []string
	IPs  []string
}

func vc15MakeCert(t *testing.T, c vc15Cert) *x509.Certificate {
	key, err := ecdsa.GenerateKey(elliptic.P256(), rand.Reader)
	if err != nil {
		t.Fatal(err)
	}
	tpl := &x509.Certificate{SerialNumber: big.NewInt(1), Subject: pkix.Name{CommonName: c.CN}, NotBefore: time.Now().Add(-time.Hour),
		NotAfter: time.Now().Add(24 * time.Hour), DNSNames: c.DNS, KeyUsage: x509.KeyUsageDigitalSignature}
	for _, ip := range c.IPs {
		tpl.IPAddresses = append(tpl.IPAddresses, net.ParseIP(ip))
	}
	der, err := x509.CreateCertificate(rand.Reader, tpl, tpl, &key.PublicKey, key)
	if err != nil {
		t.Fatal(err)
	}
	cert, err := x509.ParseCertificate(der)
	if err != nil {
		t.Fatal(err)
	}
	return cert
}

// vc15Host reads the host of an endpoint the way the statement means it: scheme://[userinfo@]host[:port][/...].
// ok=false: the form is outside what this reader understands (then nothing may be authenticated on a host we
// cannot name; such cases are judged only by "must not authenticate").
func vc15Host(endpoint string) (host string, ok bool) {
	i := strings.Index(endpoint, "://")
	if i <= 0 {
		return "", false
	}
	rest := endpoint[i+3:]
	if j := strings.IndexAny(rest, "/?#"); j >= 0 {
		rest = rest[:j]
	}
	if j := strings.LastIndex(rest, "@"); j >= 0 {
		rest = rest[j+1:]
	}
	if strings.HasPrefix(rest, "[") {
		j := strings.Index(rest, "]")
		if j < 0 {
			return "", false
		}
		return rest[1:j], true
	}
	if j := strings.LastIndex(rest, ":"); j >= 0 {
		rest = rest[:j]
	}
	if rest == "" || strings.ContainsAny(rest, "% ") {
		return "", false
	}
	return rest, true
}

// vc15Covers is the reference reading of "the certificate covers this host".
func vc15Covers(c vc15Cert, host string) bool {
	if ip := net.ParseIP(host); ip != nil {
		for _, s := range c.IPs {
			if net.ParseIP(s).Equal(ip) {
				return true
			}
		}
		return false
	}
	h := strings.ToLower(host)
	for _, san := range c.DNS {
		s := strings.ToLower(san)
		if s == h {
			return true
		}
		if strings.HasPrefix(s, "*.") {
			if dot := strings.Index(h, "."); dot > 0 && h[dot+1:] == s[2:] {
				return true
			}
		}
	}
	return false
}

func TestVerifC15Authenticator(t *testing.T) {
	r := ev.Start(t, "C15")
	defer r.Finish()
	r.Rule("tlsAuthenticator.Authenticate and grpcConnectionManager.authenticate on the product of certificate SAN sets (exact, wildcard, parent wildcard, other host, IP, " +
		"several names, common name only, mixed case, none) x NutsComm endpoint forms (exact host, host under the wildcard, two labels under the wildcard, other host, IPv4, IPv6, " +
		"userinfo trick, mixed case, without scheme, empty, unparsable, object instead of string, list of one string, service missing) x {certificate present, absent}. " +
		"A case is non-trivial when a certificate and a resolvable service are present.")
	certs := []vc15Cert{
		{Name: "exact", CN: "x", DNS: []string{"nuts.example.com"}},
		{Name: "wildcard", CN: "x", DNS: []string{"*.example.com"}},
		{Name: "parent-wildcard", CN: "x", DNS: []string{"*.com"}},
		{Name: "other-host", CN: "x", DNS: []string{"evil.example.org"}},
		{Name: "ipv4", CN: "x", IPs: []string{"10.1.2.3"}},
		{Name: "ipv6", CN: "x", IPs: []string{"2001:db8::1"}},
		{Name: "several", CN: "x", DNS: []string{"a.example.org", "nuts.example.com", "b.example.org"}, IPs: []string{"10.9.9.9"}},
		{Name: "cn-only", CN: "nuts.example.com"},
		{Name: "mixed-case", CN: "x", DNS: []string{"NUTS.Example.COM"}},
		{Name: "no-names", CN: ""},
		{Name: "suffix-lookalike", CN: "x", DNS: []string{"nuts.example.com.evil.org", "xnuts.example.com"}},
	}
	type ep struct {
		Name string
		Val  interface{}
		Err  error
	}
	eps := []ep{
		{Name: "exact", Val: "grpc://nuts.example.com:5555"},
		{Name: "under-wildcard", Val: "grpc://node1.example.com:5555"},
		{Name: "two-labels-under-wildcard", Val: "grpc://a.b.example.com:5555"},
		{Name: "bare-domain", Val: "grpc://example.com:5555"},
		{Name: "other-host", Val: "grpc://evil.example.org:5555"},
		{Name: "ipv4", Val: "grpc://10.1.2.3:5555"},
		{Name: "other-ipv4", Val: "grpc://10.1.2.4:5555"},
		{Name: "ipv6", Val: "grpc://[2001:db8::1]:5555"},
		{Name: "userinfo-trick", Val: "grpc://nuts.example.com@evil.example.org:5555"},
		{Name: "userinfo-trick-reverse", Val: "grpc://evil.example.org@nuts.example.com:5555"},
		{Name: "mixed-case", Val: "grpc://Nuts.EXAMPLE.com:5555"},
		{Name: "no-port", Val: "grpc://nuts.example.com"},
		{Name: "with-path", Val: "grpc://nuts.example.com:5555/x/y"},
		{Name: "no-scheme", Val: "nuts.example.com:5555"},
		{Name: "empty", Val: ""},
		{Name: "unparsable", Val: "grpc://%zz:5555"},
		{Name: "control-char", Val: "grpc://nuts.example.com\x7f:5555"},
		{Name: "object", Val: map[string]interface{}{"url": "grpc://nuts.example.com:5555"}},
		{Name: "list-of-one", Val: []interface{}{"grpc://nuts.example.com:5555"}},
		{Name: "list-of-two", Val: []interface{}{"grpc://evil.example.org:5555", "grpc://nuts.example.com:5555"}},
		{Name: "service-missing", Err: errors.New("service not found")},
	}
	nodeDID := did.MustParseDID("did:nuts:ClaimedNode")
	made := map[string]*x509.Certificate{}
	for _, c := range certs {
		made[c.Name] = vc15MakeCert(t, c)
	}
	idx := 0
	for _, c := range append(certs, vc15Cert{Name: "absent"}) {
		for _, e := range eps {
			for _, via := range []string{"authenticator", "connection-manager"} {
				idx++
				if !r.Mine(idx) {
					continue
				}
				svc := &vc15Svc{endpoint: e.Val, err: e.Err}
				in := transport.Peer{ID: "peer", Address: "1.2.3.4:5555", Certificate: made[c.Name]}
				var out transport.Peer
				var err error
				if via == "authenticator" {
					out, err = NewTLSAuthenticator(svc).Authenticate(nodeDID, in)
				} else {
					cm := &grpcConnectionManager{authenticator: NewTLSAuthenticator(svc)}
					out, err = cm.authenticate(nodeDID, in)
				}
				// reference
				want := false
				endpointStr, isString := e.Val.(string)
				if l, ok := e.Val.([]interface{}); ok && len(l) == 1 {
					endpointStr, isString = l[0].(string)
				}
				host, hostOK := "", false
				if isString && e.Err == nil {
					host, hostOK = vc15Host(endpointStr)
				}
				if c.Name != "absent" && hostOK {
					want = vc15Covers(c, host)
				}
				key := ""
				if c.Name != "absent" && e.Err == nil {
					key = c.Name + "|" + e.Name + "|" + via
				}
				r.Eval(key)
				got := out.Authenticated
				r.Outcome(fmt.Sprintf("authenticated=%v err=%v", got, err != nil))
				if got && !want {
					r.Violation(fmt.Sprintf("C15|authenticator|authenticated-without-covering-certificate|cert:%s+endpoint:%s", c.Name, e.Name),
						fmt.Sprintf("%s set Authenticated for a certificate (%+v) that does not cover the NutsComm endpoint %v", via, c, e.Val),
						map[string]any{"cert": c, "endpoint": e.Name, "via": via})
				}
				if got && !out.NodeDID.Equals(nodeDID) {
					r.Violation("C15|authenticator|authenticated-as-other-did|"+via, "Authenticated set with a node DID other than the verified one",
						map[string]any{"cert": c, "endpoint": e.Name, "via": via})
				}
				if err != nil && got {
					r.Violation("C15|authenticator|authenticated-although-error|"+via, "an error was returned together with an authenticated peer",
						map[string]any{"cert": c, "endpoint": e.Name, "via": via})
				}
				if !got && want {
					// converse direction: not demanded by the statement (e.g. stricter matching) — observation only
					r.Observation("covering certificate not accepted", map[string]any{"cert": c.Name, "endpoint": e.Name})
				}
				if len(svc.queries) > 0 && !strings.Contains(svc.queries[0], nodeDID.String()) {
					t.Fatalf("harness: service resolved for another DID: %v", svc.queries)
				}
			}
		}
	}
	// without a claimed node DID the connection manager leaves the peer unauthenticated and anonymous
	cm := &grpcConnectionManager{authenticator: NewTLSAuthenticator(&vc15Svc{endpoint: "grpc://nuts.example.com:5555"})}
	out, err := cm.authenticate(did.DID{}, transport.Peer{ID: "peer", Certificate: made["exact"]})
	r.Eval("no-claimed-did")
	if err != nil || out.Authenticated || !out.NodeDID.Empty() {
		if out.Authenticated {
			r.Violation("C15|authenticator|authenticated-without-claimed-did|connection-manager", "peer authenticated although it claimed no node DID", nil)
		}
	}
	// vacuity guard: the plain honest case authenticates
	ok, err := NewTLSAuthenticator(&vc15Svc{endpoint: "grpc://nuts.example.com:5555"}).Authenticate(nodeDID, transport.Peer{Certificate: made["exact"]})
	if err != nil || !ok.Authenticated {
		t.Fatalf("vacuity: exact certificate for the exact endpoint is not authenticated: %v", err)
	}
}
