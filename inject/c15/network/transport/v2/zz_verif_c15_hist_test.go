//go:build verif

// C15 part "histories" — QUERY HISTORIES on one persistent node.
//
// The product part (zz_verif_c15_test.go) asks every question once, of a fresh protocol instance. Whatever the node keeps
// BETWEEN messages (caches of decrypted participant lists, conversation state, pooled response objects, the persistent
// retry jobs) and whatever an envelope turns into AFTER it was handed to Connection.Send is outside that enumeration.
// This part keeps ONE real v2.protocol (real dag.State on bbolt, real key store behind the real decryptPAL) alive
// through a whole history of events sent by SEVERAL peers over their own connections, over DAGs in which the
// transactions SHARE material: an authenticated network member that is not on the victim transaction's participant
// list publishes transactions of its own whose participant-list header is every recombination (bounded length) of the
// victim's header entries and entries of its own making.
//
// Connection seam: the real grpc connection only QUEUES the envelope pointer in the peer's outbox; a sender goroutine
// serialises it later. The harness connection does the same: it keeps the pointer (and the wire bytes as of the Send
// call) and serialises every queued envelope again after EVERY later event of the history — that is, at every
// position at which the outbox could be flushed. The oracle is applied to all of these serialisations.
//
// Oracle (unchanged): the payload bytes of private transaction T (the canary) are in an envelope for peer X only if
// that envelope is a TransactionPayload, X's connection is authenticated and X's node DID is on the list T was
// published under (and the local node is on it). In every state of every history.
package v2

import (
	"bytes"
	"context"
	"crypto/ecdsa"
	"fmt"
	"io"
	"os"
	"path/filepath"
	"sort"
	"strings"
	"sync"
	"sync/atomic"
	"testing"
	"time"

	"github.com/nuts-foundation/go-did/did"
	"github.com/nuts-foundation/go-stoabs"
	"github.com/nuts-foundation/go-stoabs/bbolt"
	"github.com/nuts-foundation/nuts-node/core"
	nutsCrypto "github.com/nuts-foundation/nuts-node/crypto"
	"github.com/nuts-foundation/nuts-node/crypto/hash"
	"github.com/nuts-foundation/nuts-node/network/dag"
	"github.com/nuts-foundation/nuts-node/network/transport"
	"github.com/nuts-foundation/nuts-node/network/transport/grpc"
	vsync "github.com/nuts-foundation/nuts-node/verifshim/vsync"
	"github.com/sirupsen/logrus"
	"google.golang.org/protobuf/proto"

	"verif/ev"
	"verif/sched"
)

var (
	vh15L = did.MustParseDID("did:nuts:ListedParticipantL")
	vh15M = did.MustParseDID("did:nuts:ListedParticipantM")
	vh15A = did.MustParseDID("did:nuts:UnlistedMemberA")
)

// vh15Peer is one remote party with its own connection to V.
type vh15Peer struct {
	Name   string
	DID    did.DID
	Auth   bool
	PeerID string // transport peer ID the remote side asserts ("" = one of its own)
}

// L: on T1's list. M: on T3's list (two-victims family). A: authenticated network member on no victim list (it makes
// the recombined transactions). U: an UNAUTHENTICATED connection that claims L's node DID. I (two-victims family): the
// unlisted member on a second connection, authenticated under its own DID, asserting L's transport PEER ID (peer IDs are
// chosen by the remote side).
func vh15Peers(family string) []vh15Peer {
	if family == "two-victims" {
		return []vh15Peer{{"L", vh15L, true, ""}, {"M", vh15M, true, ""}, {"A", vh15A, true, ""}, {"U", vh15L, false, ""}, {"I", vh15A, true, "peer-L"}}
	}
	return []vh15Peer{{"L", vh15L, true, ""}, {"A", vh15A, true, ""}, {"U", vh15L, false, ""}}
}

// vh15Dag is one DAG configuration.
type vh15Dag struct {
	Family  string   `json:"family"`         // recombined | two-victims
	T1Order string   `json:"t1_order"`       // LV | VL: order of the entries of the victim's participant-list header
	Att     []string `json:"att,omitempty"`  // header of the unlisted member's transaction TX2: e0,e1 = the victim's entries, oV = own entry encrypted for V naming {A,V}, oA = own entry V cannot decrypt
	Att2    []string `json:"att2,omitempty"` // header of a second transaction TX3 of the same member (thorough)
	Offer   string   `json:"offer,omitempty"`
	Holds   bool     `json:"holds"` // V holds the victim payload(s) from the start
}

func (d vh15Dag) String() string {
	return fmt.Sprintf("%s t1=%s tx2=[%s] tx3=[%s] offer=%s holds=%v", d.Family, d.T1Order, strings.Join(d.Att, ","), strings.Join(d.Att2, ","), d.Offer, d.Holds)
}

// vh15Event is one step of a history.
type vh15Event struct {
	Kind string `json:"kind"` // payload-query | list-query | gossip | payload-response | range-query | retry | restart | publish
	Peer string `json:"peer,omitempty"`
	Tx   string `json:"tx,omitempty"` // T1 | T3 | TX2 | TX3
}

func (e vh15Event) String() string {
	s := e.Kind
	if e.Peer != "" || e.Tx != "" {
		s += "(" + e.Peer
		if e.Tx != "" {
			s += "," + e.Tx
		}
		s += ")"
	}
	return s
}

type vh15Replay struct {
	Dag     vh15Dag     `json:"dag"`
	History []vh15Event `json:"history"`
}

// ---------------------------------------------------------------- connections

type vh15Queued struct {
	env    *Envelope // the pointer handed to Send (NOT a copy)
	atSend []byte    // its wire bytes at that moment
	cause  int       // index of the history event during which it was sent
	judged map[string]bool
}

type vh15Conn struct {
	*grpc.StubConnection
	peer   vh15Peer
	mu     sync.Mutex
	queued []*vh15Queued
	cur    *int32 // index of the event being executed
	own    int32  // schedules part: index of the query this peer's handler thread is executing (-1 = use cur)
}

func (c *vh15Conn) Send(_ grpc.Protocol, envelope interface{}, _ bool) error {
	sched.Point("conn.Send")
	env := envelope.(*Envelope)
	raw, err := proto.Marshal(env)
	if err != nil {
		return err
	}
	cause := int(atomic.LoadInt32(c.cur))
	if own := atomic.LoadInt32(&c.own); own >= 0 {
		cause = int(own)
	}
	c.mu.Lock()
	c.queued = append(c.queued, &vh15Queued{env: env, atSend: raw, cause: cause, judged: map[string]bool{}})
	c.mu.Unlock()
	return nil
}

func (c *vh15Conn) snapshot() []*vh15Queued {
	c.mu.Lock()
	defer c.mu.Unlock()
	return append([]*vh15Queued{}, c.queued...)
}

type vh15ConnList struct{ conns []*vh15Conn }

func (l *vh15ConnList) Get(query ...grpc.Predicate) grpc.Connection {
	for _, c := range l.conns {
		ok := true
		for _, q := range query {
			if !q.Match(c) {
				ok = false
				break
			}
		}
		if ok {
			return c
		}
	}
	return nil
}

func (l *vh15ConnList) All() []grpc.Connection {
	var out []grpc.Connection
	for _, c := range l.conns {
		out = append(out, c)
	}
	return out
}

func (l *vh15ConnList) AllMatching(query ...grpc.Predicate) []grpc.Connection {
	var out []grpc.Connection
	for _, c := range l.conns {
		ok := true
		for _, q := range query {
			if !q.Match(c) {
				ok = false
				break
			}
		}
		if ok {
			out = append(out, c)
		}
	}
	return out
}

// ---------------------------------------------------------------- world (one DAG configuration, built once)

type vh15Keys struct {
	*vc15Keys
	lPub, mPub, aPub *ecdsa.PublicKey
	canary2          []byte
}

func vh15NewKeys(t *testing.T, seed int64) *vh15Keys {
	k := &vh15Keys{vc15Keys: vc15NewKeys(t, seed)}
	for _, dst := range []**ecdsa.PublicKey{&k.lPub, &k.mPub, &k.aPub} {
		key, err := nutsCrypto.GenerateJWK()
		if err != nil {
			t.Fatal(err)
		}
		var raw ecdsa.PrivateKey
		if err := key.Raw(&raw); err != nil {
			t.Fatal(err)
		}
		*dst = &raw.PublicKey
	}
	k.canary2 = append([]byte("SECOND-"), k.canary...)
	k.canary2 = append(k.canary2, []byte("-2")...)
	// neither canary may contain the other
	if bytes.Contains(k.canary2, k.canary) {
		k.canary2 = bytes.ReplaceAll(k.canary2, []byte("CANARY"), []byte("CNRY-II"))
	}
	return k
}

func vh15Ecies(pub *ecdsa.PublicKey, dids ...did.DID) []byte {
	var s []string
	for _, d := range dids {
		s = append(s, d.String())
	}
	ct, err := nutsCrypto.EciesEncrypt(pub, []byte(strings.Join(s, "\n")))
	if err != nil {
		panic(err)
	}
	return ct
}

type vh15World struct {
	cfg      vh15Dag
	k        *vh15Keys
	peers    []vh15Peer
	txs      map[string]dag.Transaction
	victims  []string            // names of the victim transactions
	lists    map[string][]string // victim name -> peer names on its list (besides V)
	canaries map[string][]byte
	attLoad  map[string][]byte // payload of the unlisted member's own transactions
	image    []byte            // the bbolt file of V after the set-up
	head     dag.Transaction
}

func (w *vh15World) victimPAL(first, second *ecdsa.PublicKey, other did.DID) [][]byte {
	// the list names `other` and V; one ECIES cipher text of the same plain text per participant
	eO := vh15Ecies(first, other, vc15V)
	eV := vh15Ecies(w.k.vPub, other, vc15V)
	_ = second
	if w.cfg.T1Order == "VL" {
		return [][]byte{eV, eO}
	}
	return [][]byte{eO, eV}
}

func (w *vh15World) recombine(tokens []string) [][]byte {
	t1 := w.txs["T1"].PAL()
	var out [][]byte
	for _, tok := range tokens {
		switch tok {
		case "e0":
			out = append(out, append([]byte{}, t1[0]...))
		case "e1":
			out = append(out, append([]byte{}, t1[1]...))
		case "oV":
			out = append(out, vh15Ecies(w.k.vPub, vh15A, vc15V))
		case "oA":
			out = append(out, vh15Ecies(w.k.aPub, vh15A))
		default:
			panic("unknown header token " + tok)
		}
	}
	return out
}

// vh15Inst is the running node V.
type vh15Inst struct {
	w     *vh15World
	path  string
	db    stoabs.KVStore
	state dag.State
	p     *protocol
	list  *vh15ConnList
	cur   int32
}

func vh15Open(t testing.TB, w *vh15World, path string, list *vh15ConnList) *vh15Inst {
	in := &vh15Inst{w: w, path: path, list: list}
	db, err := bbolt.CreateBBoltStore(path, stoabs.WithNoSync(), stoabs.WithLockAcquireTimeout(time.Hour))
	if err != nil {
		t.Fatal(err)
	}
	in.db = db
	in.state, err = dag.NewState(db, dag.NewPrevTransactionsVerifier(), dag.NewTransactionSignatureVerifier(nil))
	if err != nil {
		t.Fatal(err)
	}
	if err := in.state.Configure(core.ServerConfig{}); err != nil {
		t.Fatal(err)
	}
	cfg := Config{GossipInterval: 3600 * 1000, DiagnosticsInterval: 0, PayloadRetryDelay: time.Hour}
	in.p = New(cfg, vc15V, in.state, vc15Resolver{}, w.k.ks, func() transport.Diagnostics { return transport.Diagnostics{} }, db).(*protocol)
	if err := in.p.Configure("V"); err != nil {
		t.Fatal(err)
	}
	in.p.cMan = newConversationManager(maxValidity)
	in.p.connectionList = list
	for _, c := range list.conns {
		in.p.connectionStateCallback(c.Peer(), transport.StateConnected, in.p)
	}
	return in
}

func (in *vh15Inst) close() {
	in.p.cancel()
	if in.p.privatePayloadReceiver != nil {
		_ = in.p.privatePayloadReceiver.Close()
	}
	_ = in.state.Shutdown()
	_ = in.db.Close(context.Background())
}

func vh15NewConns(peers []vh15Peer, cur *int32) *vh15ConnList {
	l := &vh15ConnList{}
	for i, p := range peers {
		id := p.PeerID
		if id == "" {
			id = fmt.Sprintf("peer-%s", p.Name)
		}
		tp := transport.Peer{ID: transport.PeerID(id), Address: fmt.Sprintf("%s.test:%d", strings.ToLower(p.Name), 5550+i), NodeDID: p.DID, Authenticated: p.Auth}
		l.conns = append(l.conns, &vh15Conn{StubConnection: grpc.NewStubConnection(tp), peer: p, cur: cur, own: -1})
	}
	return l
}

var vh15Serial int64

// vh15Build makes the transactions of one DAG configuration and the image of V's store after the set-up
// (root, a public transaction, the victim transaction(s) with their payloads).
func vh15Build(t testing.TB, dir string, k *vh15Keys, cfg vh15Dag) *vh15World {
	w := &vh15World{cfg: cfg, k: k, peers: vh15Peers(cfg.Family), txs: map[string]dag.Transaction{}, lists: map[string][]string{},
		canaries: map[string][]byte{}, attLoad: map[string][]byte{}}
	rootPayload := []byte("verif-c15 root payload")
	root := vc15Sign(hash.SHA256Sum(rootPayload), nil)
	tpub := vc15Sign(hash.SHA256Sum(k.pubLoad), nil, root)
	w.txs["T1"] = vc15Sign(hash.SHA256Sum(k.canary), w.victimPAL(k.lPub, nil, vh15L), tpub)
	w.victims = []string{"T1"}
	w.lists["T1"] = []string{"L"}
	w.canaries["T1"] = k.canary
	w.head = w.txs["T1"]
	if cfg.Family == "two-victims" {
		w.txs["T3"] = vc15Sign(hash.SHA256Sum(k.canary2), w.victimPAL(k.mPub, nil, vh15M), w.head)
		w.victims = append(w.victims, "T3")
		w.lists["T3"] = []string{"M"}
		w.canaries["T3"] = k.canary2
		w.head = w.txs["T3"]
	}
	for i, tokens := range [][]string{cfg.Att, cfg.Att2} {
		if len(tokens) == 0 {
			continue
		}
		name := []string{"TX2", "TX3"}[i]
		w.attLoad[name] = []byte(fmt.Sprintf("verif-c15 payload of the unlisted member's own transaction %s", name))
		w.txs[name] = vc15Sign(hash.SHA256Sum(w.attLoad[name]), w.recombine(tokens), w.head)
	}
	path := filepath.Join(dir, fmt.Sprintf("c15h_img_%d.db", atomic.AddInt64(&vh15Serial, 1)))
	var cur int32
	in := vh15Open(t, w, path, vh15NewConns(nil, &cur))
	ctx := context.Background()
	add := func(tx dag.Transaction, payload []byte) {
		if err := in.state.Add(ctx, tx, payload); err != nil {
			t.Fatalf("set-up add: %v", err)
		}
	}
	add(root, rootPayload)
	add(tpub, k.pubLoad)
	for _, v := range w.victims {
		if cfg.Holds {
			add(w.txs[v], w.canaries[v])
		} else {
			add(w.txs[v], nil)
		}
	}
	in.close()
	img, err := os.ReadFile(path)
	if err != nil {
		t.Fatal(err)
	}
	_ = os.Remove(path)
	w.image = img
	return w
}

// ---------------------------------------------------------------- running one history

type vh15Run struct {
	t       *testing.T
	r       *ev.Run
	dir     string
	k       *vh15Keys
	part    string
	deliver int64 // canary deliveries to entitled peers (vacuity)
	refused int64
	changed int64
}

func vh15TxClass(tx string) string {
	switch tx {
	case "T1", "T3":
		return "victim-tx"
	case "TX2", "TX3":
		return "unlisted-members-tx"
	case "":
		return "none"
	}
	return tx
}

// judge serialises every envelope queued for every peer NOW and applies the disclosure oracle to the bytes as of the
// Send call and to the bytes as of now.
func (x *vh15Run) judge(w *vh15World, list *vh15ConnList, hist []vh15Event, scope string, replayCase ...func() any) {
	for _, c := range list.conns {
		for _, q := range c.snapshot() {
			now, err := proto.Marshal(q.env)
			if err != nil {
				now = nil
			}
			for phase, raw := range map[string][]byte{"at-send": q.atSend, "changed-after-send": now} {
				if phase == "changed-after-send" && bytes.Equal(now, q.atSend) {
					continue
				}
				for _, victim := range w.victims {
					if !bytes.Contains(raw, w.canaries[victim]) {
						continue
					}
					if q.judged[phase+victim] {
						continue
					}
					q.judged[phase+victim] = true
					var why []string
					kind := "TransactionPayload"
					if phase == "at-send" {
						e := &Envelope{}
						if proto.Unmarshal(raw, e) == nil {
							kind = vc15Kind(e)
						}
					} else {
						kind = vc15Kind(q.env)
					}
					if kind != "TransactionPayload" {
						why = append(why, "in-"+kind)
					}
					if !c.peer.Auth {
						why = append(why, "dest-unauthenticated")
					}
					if !vc15Has(w.lists[victim], c.peer.Name) {
						why = append(why, "dest-not-on-list")
					}
					if len(why) == 0 {
						atomic.AddInt64(&x.deliver, 1)
						x.r.Outcome("payload delivered to an entitled peer (" + phase + ")")
						continue
					}
					cause := vh15Event{Kind: "set-up"}
					if q.cause >= 0 && q.cause < len(hist) {
						cause = hist[q.cause]
					}
					sig := fmt.Sprintf("C15|%s|%s|%s(%s)|%s|%s", scope, w.cfg.Family, cause.Kind, vh15TxClass(cause.Tx), strings.Join(why, "+"), phase)
					var hs []string
					for _, e := range hist {
						hs = append(hs, e.String())
					}
					x.r.Violation(sig, fmt.Sprintf("the payload of private transaction %s (participants %v and the local node) is in a %s envelope queued for peer %s (authenticated=%v, node DID %s) in answer to %s; "+
						"bytes %s; DAG: %s; history: %s", victim, w.lists[victim], kind, c.peer.Name, c.peer.Auth, c.peer.DID, cause, phase, w.cfg, strings.Join(hs, " ; ")),
						func() any {
							if len(replayCase) > 0 {
								return replayCase[0]()
							}
							return vh15Replay{Dag: w.cfg, History: hist}
						}())
				}
			}
			if now != nil && !bytes.Equal(now, q.atSend) {
				if atomic.AddInt64(&x.changed, 1) == 1 {
					x.r.Observation("envelope-changed-after-send", map[string]any{"peer": c.peer.Name, "kind": vc15Kind(q.env), "dag": w.cfg.String()})
				}
			}
		}
	}
}

func (x *vh15Run) handle(in *vh15Inst, c *vh15Conn, env *Envelope) error {
	raw, err := proto.Marshal(env)
	if err != nil {
		panic(err)
	}
	msg := &Envelope{}
	if err := proto.Unmarshal(raw, msg); err != nil {
		panic(err)
	}
	ctx := in.p.ctx
	switch msg.Message.(type) {
	case *Envelope_Gossip:
		return in.p.handleGossip(ctx, c, msg)
	case *Envelope_TransactionListQuery:
		return in.p.handleTransactionListQuery(ctx, c, msg)
	case *Envelope_TransactionRangeQuery:
		return in.p.handleTransactionRangeQuery(ctx, c, msg)
	case *Envelope_TransactionList:
		return in.p.handleTransactionList(ctx, c, msg)
	case *Envelope_TransactionPayloadQuery:
		return in.p.handleTransactionPayloadQuery(ctx, c, msg)
	case *Envelope_TransactionPayload:
		return in.p.handleTransactionPayload(ctx, c, msg)
	}
	panic("unknown message kind")
}

func vh15Conn4(list *vh15ConnList, name string) *vh15Conn {
	for _, c := range list.conns {
		if c.peer.Name == name {
			return c
		}
	}
	return nil
}

// publish: the unlisted member A announces its transaction(s) by gossip, V asks for them (real handlers), A answers with a
// TransactionList carrying them with or without their payload.
func (x *vh15Run) publish(in *vh15Inst, w *vh15World) string {
	a := vh15Conn4(in.list, "A")
	var names []string
	for _, n := range []string{"TX2", "TX3"} {
		if w.txs[n] != nil {
			names = append(names, n)
		}
	}
	if len(names) == 0 {
		return "nothing"
	}
	xor, _ := in.state.XOR(dag.MaxLamportClock)
	var refs [][]byte
	lc := uint32(0)
	for _, n := range names {
		xor = xor.Xor(w.txs[n].Ref())
		refs = append(refs, vc15RefBytes(w.txs[n]))
		lc = w.txs[n].Clock()
	}
	before := len(a.snapshot())
	_ = x.handle(in, a, &Envelope{Message: &Envelope_Gossip{Gossip: &Gossip{XOR: xor.Slice(), LC: lc, Transactions: refs}}})
	var cid []byte
	for _, q := range a.snapshot()[before:] {
		if lq := q.env.GetTransactionListQuery(); lq != nil {
			cid = lq.ConversationID
		}
	}
	if cid == nil {
		return "not-asked-for"
	}
	var entries []*Transaction
	for _, n := range names {
		e := &Transaction{Data: w.txs[n].Data()}
		if w.cfg.Offer != "without-payload" {
			e.Payload = w.attLoad[n]
		}
		entries = append(entries, e)
	}
	err := x.handle(in, a, &Envelope{Message: &Envelope_TransactionList{TransactionList: &TransactionList{ConversationID: cid, Transactions: entries, TotalMessages: 1, MessageNumber: 1}}})
	if err != nil {
		return "refused"
	}
	return "admitted"
}

func vh15ErrClass(err error) string {
	if err == nil {
		return "ok"
	}
	s := err.Error()
	if i := strings.IndexAny(s, "(:"); i > 0 {
		s = s[:i]
	}
	return strings.TrimSpace(s)
}

// runHistory executes one history from the stored image and judges every state.
func (x *vh15Run) runHistory(w *vh15World, hist []vh15Event) {
	path := filepath.Join(x.dir, fmt.Sprintf("c15h_%d.db", atomic.AddInt64(&vh15Serial, 1)))
	if err := os.WriteFile(path, w.image, 0o600); err != nil {
		x.t.Fatal(err)
	}
	defer os.Remove(path)
	vsync.VerifResetPools()
	var cur int32 = -1
	list := vh15NewConns(w.peers, &cur)
	in := vh15Open(x.t, w, path, list)
	defer func() { in.close() }()
	other := hash.SHA256Sum([]byte("some other xor"))
	for i, e := range hist {
		atomic.StoreInt32(&cur, int32(i))
		c := vh15Conn4(list, e.Peer)
		var tx dag.Transaction
		if e.Tx != "" {
			tx = w.txs[e.Tx]
			if tx == nil {
				continue // the configuration has no such transaction
			}
		}
		res := "ok"
		switch e.Kind {
		case "payload-query":
			res = vh15ErrClass(x.handle(in, c, &Envelope{Message: &Envelope_TransactionPayloadQuery{TransactionPayloadQuery: &TransactionPayloadQuery{TransactionRef: vc15RefBytes(tx)}}}))
		case "list-query":
			res = vh15ErrClass(x.handle(in, c, &Envelope{Message: &Envelope_TransactionListQuery{TransactionListQuery: &TransactionListQuery{ConversationID: []byte(fmt.Sprintf("c-%d", i)), Refs: [][]byte{vc15RefBytes(tx)}}}}))
		case "range-query":
			res = vh15ErrClass(x.handle(in, c, &Envelope{Message: &Envelope_TransactionRangeQuery{TransactionRangeQuery: &TransactionRangeQuery{ConversationID: []byte(fmt.Sprintf("c-%d", i)), Start: 0, End: 1000}}}))
		case "gossip":
			res = vh15ErrClass(x.handle(in, c, &Envelope{Message: &Envelope_Gossip{Gossip: &Gossip{XOR: other.Slice(), LC: tx.Clock(), Transactions: [][]byte{vc15RefBytes(tx)}}}}))
		case "payload-response":
			// the peer offers what it legitimately knows; anything else it can only guess
			data := []byte("verif-c15 guessed payload bytes")
			if v, ok := w.canaries[e.Tx]; ok && vc15Has(w.lists[e.Tx], e.Peer) && c.peer.Auth {
				data = v
			}
			if v, ok := w.attLoad[e.Tx]; ok && e.Peer == "A" {
				data = v
			}
			res = vh15ErrClass(x.handle(in, c, &Envelope{Message: &Envelope_TransactionPayload{TransactionPayload: &TransactionPayload{TransactionRef: vc15RefBytes(tx), Data: data}}}))
		case "retry":
			// V's own retry job for a private transaction (what the notifier calls with its back-off)
			if present, _ := in.state.IsPresent(context.Background(), tx.Ref()); present {
				_, err := in.p.handlePrivateTxRetry(in.p.ctx, dag.Event{Type: dag.TransactionEventType, Hash: tx.Ref(), Transaction: tx})
				res = vh15ErrClass(err)
			} else {
				res = "absent"
			}
		case "publish":
			res = x.publish(in, w)
		case "restart":
			// what is still queued when the process stops is judged, then it is gone with the process
			x.judge(w, list, hist[:i+1], x.part)
			in.close()
			for _, c := range list.conns {
				c.mu.Lock()
				c.queued = nil
				c.mu.Unlock()
			}
			vsync.VerifResetPools()
			in = vh15Open(x.t, w, path, list)
		default:
			panic("unknown event kind " + e.Kind)
		}
		x.r.Outcome(e.Kind + "(" + vh15TxClass(e.Tx) + ") -> " + res)
		x.judge(w, list, hist[:i+1], x.part)
	}
	atomic.StoreInt32(&cur, int32(len(hist)))
	x.r.Transitions(int64(len(hist)))
}

// ---------------------------------------------------------------- enumeration

// vh15Headers lists every header (sequence of tokens) of length 1..maxLen.
func vh15Headers(maxLen int, needShared bool) [][]string {
	toks := []string{"e0", "e1", "oV", "oA"}
	var out [][]string
	var rec func(cur []string)
	rec = func(cur []string) {
		if len(cur) > 0 {
			shared := false
			for _, t := range cur {
				if t[0] == 'e' {
					shared = true
				}
			}
			if shared || !needShared {
				out = append(out, append([]string{}, cur...))
			}
		}
		if len(cur) == maxLen {
			return
		}
		for _, t := range toks {
			rec(append(cur, t))
		}
	}
	rec(nil)
	sort.SliceStable(out, func(a, b int) bool { return len(out[a]) < len(out[b]) })
	return out
}

type vh15Plan struct {
	name   string
	dags   []vh15Dag
	events func(w *vh15World) []vh15Event
	depth  int
	intro  bool // place the publication of the unlisted member's transaction(s) at every position
}

func vh15Queries(peers []vh15Peer, txs []string, kinds ...string) []vh15Event {
	var out []vh15Event
	for _, k := range kinds {
		for _, p := range peers {
			if k == "range-query" {
				out = append(out, vh15Event{Kind: k, Peer: p.Name})
				continue
			}
			for _, tx := range txs {
				out = append(out, vh15Event{Kind: k, Peer: p.Name, Tx: tx})
			}
		}
	}
	return out
}

func (w *vh15World) txNames() []string {
	var out []string
	for _, n := range []string{"T1", "T3", "TX2", "TX3"} {
		if w.txs[n] != nil {
			out = append(out, n)
		}
	}
	return out
}

func vh15Plans(thorough bool) []vh15Plan {
	core := func(w *vh15World) []vh15Event {
		return append(vh15Queries(w.peers, w.txNames(), "payload-query"), vh15Event{Kind: "restart"})
	}
	wide := func(w *vh15World) []vh15Event {
		evs := vh15Queries(w.peers, w.txNames(), "payload-query", "list-query", "gossip", "payload-response", "range-query")
		if w.cfg.Offer == "without-payload" {
			for _, n := range w.txNames() {
				if strings.HasPrefix(n, "TX") {
					evs = append(evs, vh15Event{Kind: "retry", Tx: n})
				}
			}
		}
		if !w.cfg.Holds {
			for _, n := range w.victims {
				evs = append(evs, vh15Event{Kind: "retry", Tx: n})
			}
		}
		return append(evs, vh15Event{Kind: "restart"})
	}
	var plans []vh15Plan
	orders := []string{"LV", "VL"}
	// (1) recombined headers, payload queries + restart, deep
	var d1 []vh15Dag
	for _, o := range orders {
		for _, h := range vh15Headers(2, false) {
			d1 = append(d1, vh15Dag{Family: "recombined", T1Order: o, Att: h, Offer: "with-payload", Holds: true})
		}
	}
	depth1 := 3
	if thorough {
		depth1 = 4
	}
	plans = append(plans, vh15Plan{name: "recombined/queries", dags: d1, events: core, depth: depth1, intro: true})
	if thorough {
		// (1b) headers of length 3
		var d1b []vh15Dag
		for _, o := range orders {
			for _, h := range vh15Headers(3, false) {
				if len(h) == 3 {
					d1b = append(d1b, vh15Dag{Family: "recombined", T1Order: o, Att: h, Offer: "with-payload", Holds: true})
				}
			}
		}
		plans = append(plans, vh15Plan{name: "recombined-length-3/queries", dags: d1b, events: core, depth: 3, intro: true})
	}
	// (2) recombined headers that share material with the victim, every event kind, shallower
	var d2 []vh15Dag
	for _, o := range orders {
		for _, h := range vh15Headers(2, true) {
			d2 = append(d2, vh15Dag{Family: "recombined", T1Order: o, Att: h, Offer: "with-payload", Holds: true})
		}
	}
	depth2 := 2
	if thorough {
		depth2 = 3
	}
	plans = append(plans, vh15Plan{name: "recombined/all-events", dags: d2, events: wide, depth: depth2, intro: true})
	if thorough {
		// (2b) the same with the transaction offered WITHOUT its payload (V's retry job decrypts its header) and / or V not yet holding the victim payload
		var d2b []vh15Dag
		for _, o := range orders {
			for _, h := range vh15Headers(2, true) {
				for _, oh := range []struct {
					offer string
					holds bool
				}{{"without-payload", true}, {"with-payload", false}, {"without-payload", false}} {
					d2b = append(d2b, vh15Dag{Family: "recombined", T1Order: o, Att: h, Offer: oh.offer, Holds: oh.holds})
				}
			}
		}
		plans = append(plans, vh15Plan{name: "recombined/all-events/offer-and-holding-variants", dags: d2b, events: wide, depth: 2, intro: true})
	}
	// (3) two victim transactions with disjoint lists
	var d3 []vh15Dag
	for _, o := range orders {
		d3 = append(d3, vh15Dag{Family: "two-victims", T1Order: o, Holds: true})
	}
	depth3, depth3w := 3, 2
	if thorough {
		depth3, depth3w = 5, 3
	}
	plans = append(plans, vh15Plan{name: "two-victims/queries", dags: d3, events: core, depth: depth3})
	plans = append(plans, vh15Plan{name: "two-victims/all-events", dags: d3, events: wide, depth: depth3w})
	if thorough {
		// (4) ALL PAIRS of recombined headers (length <= 2) as two transactions of the unlisted member
		var d4 []vh15Dag
		hs := vh15Headers(2, false)
		for _, o := range orders {
			for _, h1 := range hs {
				for _, h2 := range hs {
					shared := false
					for _, t := range append(append([]string{}, h1...), h2...) {
						if t[0] == 'e' {
							shared = true
						}
					}
					if shared {
						d4 = append(d4, vh15Dag{Family: "recombined", T1Order: o, Att: h1, Att2: h2, Offer: "with-payload", Holds: true})
					}
				}
			}
		}
		plans = append(plans, vh15Plan{name: "recombined-pairs/queries", dags: d4, events: core, depth: 3, intro: true})
	}
	return plans
}

// vh15Sequences calls f for every sequence over evs of exactly the given depth, with the publication placed at every
// position 0..depth-1 when intro is set (position = number of events before it).
func vh15Sequences(evs []vh15Event, depth int, intro bool, f func(first int, hist []vh15Event) bool) {
	idx := make([]int, depth)
	for {
		positions := []int{-1}
		if intro {
			positions = positions[:0]
			for p := 0; p < depth; p++ {
				positions = append(positions, p)
			}
		}
		for _, pos := range positions {
			var hist []vh15Event
			for i, k := range idx {
				if i == pos {
					hist = append(hist, vh15Event{Kind: "publish", Peer: "A"})
				}
				hist = append(hist, evs[k])
			}
			if !f(idx[0], hist) {
				return
			}
		}
		i := depth - 1
		for ; i >= 0; i-- {
			idx[i]++
			if idx[i] < len(evs) {
				break
			}
			idx[i] = 0
		}
		if i < 0 {
			return
		}
	}
}

func TestVerifC15Histories(t *testing.T) {
	logrus.SetOutput(io.Discard)
	logrus.SetLevel(logrus.PanicLevel)
	vc15SilenceAudit()
	r := ev.Start(t, "C15")
	defer r.Finish()
	dir, err := os.MkdirTemp("", "c15h")
	if err != nil {
		t.Fatal(err)
	}
	defer os.RemoveAll(dir)
	x := &vh15Run{t: t, r: r, dir: dir, k: vh15NewKeys(t, r.Seed()), part: "history"}

	var rc vh15Replay
	if r.ReplayCase(&rc) {
		if rc.Dag.Family == "" {
			return
		}
		x.runHistory(vh15Build(t, dir, x.k, rc.Dag), rc.History)
		return
	}
	if os.Getenv("VERIF_REPLAY") != "" {
		return
	}
	r.Rule("query histories on ONE persistent node V (real v2.protocol, dag.State on bbolt, key store) with one connection per peer {L: authenticated, on the victim's list; " +
		"M: authenticated, on the second victim's list; A: authenticated network member on no list; U: unauthenticated connection claiming L's node DID; I: A on a second connection asserting L's transport peer ID}. DAG alphabet: victim transaction T1 " +
		"(payload = canary, list {L,V}, header entries in both orders) plus transactions the unlisted member A publishes through the real gossip -> list query -> list path whose participant-list HEADER is " +
		"every sequence (length 1..2, thorough 1..3; thorough also all pairs of two such transactions) over {T1's first entry, T1's second entry, own entry encrypted for V naming {A,V}, own entry V cannot decrypt} " +
		"— whole list, first entry only, subsets, reordered, duplicated, each with and without own entries; or a second victim T3 (other canary, list {M,V}). Events: payload query / list query / gossip / " +
		"unsolicited payload response (with what that peer legitimately knows) by every peer about every transaction, range query by every peer, V's own payload retry job, restart (fresh protocol instance, same store), " +
		"and the publication at every position. Plans: payload queries + restart to depth 3 (thorough 4 for headers up to length 2, 3 for length 3 and for pairs, 5 for two victims); all event kinds to depth 2 (thorough 3). Every envelope V hands to Send stays QUEUED " +
		"(pointer kept, as the real connection does) and is serialised again after every later event = at every flush position; the canary oracle is applied to the bytes at Send and to every later serialisation. " +
		"A case is one history of one DAG configuration")
	r.Assume("the connection's Authenticated flag and node DID are what the authenticator established")
	r.Assume("LIFO reuse of pooled objects (vsync.Pool) when the code under test pools; sync.Pool permits any reuse order")
	plans := vh15Plans(r.Thorough())
	unit := 0
	total := int64(0)
	stop := false
	for _, pl := range plans {
		var planCases int64
		for _, cfg := range pl.dags {
			if stop {
				break
			}
			var w *vh15World
			var evs []vh15Event
			// one unit of work = (configuration, first event)
			probe := vh15Build(t, dir, x.k, cfg)
			evs = pl.events(probe)
			mine := false
			for f := range evs {
				if r.Mine(unit + f) {
					mine = true
				}
			}
			if mine {
				w = probe
			}
			base := unit
			unit += len(evs)
			if w == nil {
				continue
			}
			n := 0
			vh15Sequences(evs, pl.depth, pl.intro, func(first int, hist []vh15Event) bool {
				if !r.Mine(base + first) {
					return true
				}
				if n%64 == 0 && r.Expired() {
					stop = true
					return false
				}
				n++
				x.runHistory(w, hist)
				var hs []string
				for _, e := range hist {
					hs = append(hs, e.String())
				}
				r.Eval(pl.name + "|" + cfg.String() + "|" + strings.Join(hs, ";"))
				return true
			})
			planCases += int64(n)
			if planCases > 0 && total == 0 {
				r.Sample(map[string]any{"plan": pl.name, "dag": cfg.String(), "events": len(evs), "depth": pl.depth})
			}
			total += int64(n)
		}
		r.Bound("plan:"+pl.name, map[string]any{"configurations": len(pl.dags), "depth": pl.depth, "histories_this_worker": planCases})
	}
	r.AddExtra("histories", total)
	r.AddExtra("entitled_deliveries", atomic.LoadInt64(&x.deliver))
	if total > 0 && atomic.LoadInt64(&x.deliver) == 0 {
		// vacuity guard (converse direction, never an alarm on its own): some history must deliver the canary to L
		r.Observation("vacuity: no history delivered the victim payload to its listed participant", nil)
		r.NotExhaustive("no entitled delivery observed")
	}
}
