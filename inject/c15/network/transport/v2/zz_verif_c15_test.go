//go:build verif

// C15 — Private transaction payloads go only to authenticated listed participants.
//
// Seam: one REAL v2.protocol ("V", the node under test) over a REAL dag.State on bbolt, the REAL key store
// (crypto.Crypto with in-memory key material) behind the REAL decryptPAL, a stub DID resolver that serves V's
// document (keyAgreement key id), and the repository's stub connection standing for the requesting peer.
// Every envelope V hands to Send is marshalled to wire bytes and scanned for the CANARY: the payload bytes
// of private transaction T1. The oracle speaks about the canary's OWN participant list (the list T1 was
// published under), not about the transaction a query happens to name.
package v2

import (
	"bytes"
	"context"
	"crypto/ecdsa"
	"crypto/sha256"
	"encoding/hex"
	"fmt"
	"io"
	"os"
	"path/filepath"
	"sort"
	"strings"
	"sync"
	"sync/atomic"
	"testing"
	"time"

	"github.com/lestrrat-go/jwx/v2/jwk"
	"github.com/nuts-foundation/go-did/did"
	"github.com/nuts-foundation/go-stoabs"
	"github.com/nuts-foundation/go-stoabs/bbolt"
	"github.com/nuts-foundation/nuts-node/audit"
	"github.com/nuts-foundation/nuts-node/core"
	nutsCrypto "github.com/nuts-foundation/nuts-node/crypto"
	"github.com/nuts-foundation/nuts-node/crypto/hash"
	"github.com/nuts-foundation/nuts-node/network/dag"
	"github.com/nuts-foundation/nuts-node/network/dag/tree"
	"github.com/nuts-foundation/nuts-node/network/transport"
	"github.com/nuts-foundation/nuts-node/network/transport/grpc"
	"github.com/nuts-foundation/nuts-node/vdr/resolver"
	vtime "github.com/nuts-foundation/nuts-node/verifshim/vtime"
	"github.com/sirupsen/logrus"
	"google.golang.org/protobuf/proto"

	"verif/ev"
)

var (
	vc15V = did.MustParseDID("did:nuts:VictimNodeV")
	vc15P = did.MustParseDID("did:nuts:PeerP")
	vc15Q = did.MustParseDID("did:nuts:ThirdPartyQ")
	vc15X = did.MustParseDID("did:nuts:NamelessPeerX")
)

const vc15KAK = "did:nuts:VictimNodeV#kak"

type vc15Resolver struct{ fail bool }

func (r vc15Resolver) Resolve(id did.DID, _ *resolver.ResolveMetadata) (*did.Document, *resolver.DocumentMetadata, error) {
	if r.fail || !id.Equals(vc15V) {
		return nil, nil, resolver.ErrNotFound
	}
	kid := did.MustParseDIDURL(vc15KAK)
	doc := &did.Document{ID: vc15V}
	doc.KeyAgreement = did.VerificationRelationships{{VerificationMethod: &did.VerificationMethod{ID: kid}}}
	return doc, &resolver.DocumentMetadata{}, nil
}

// vc15Scenario is one point of the product.
type vc15Scenario struct {
	Local      string   `json:"local"`       // key | key-missing | doc-unresolvable | no-node-did
	PAL        []string `json:"pal"`         // T1's participants: non-empty subset of V, P, Q
	PeerDID    string   `json:"peer_did"`    // "P" | "" (connection without node DID)
	PeerAuth   bool     `json:"peer_auth"`   // connection authenticated
	Sibling    string   `json:"sibling"`     // "" | a (PAL {peer,V} made by the peer) | b (PAL {peer}) | c (no PAL)
	HasPayload bool     `json:"has_payload"` // V holds T1's payload
}

func (s vc15Scenario) String() string {
	return fmt.Sprintf("local=%s pal=%v peer=%q auth=%v sibling=%q payload=%v", s.Local, s.PAL, s.PeerDID, s.PeerAuth, s.Sibling, s.HasPayload)
}

type vc15Keys struct {
	ks      *nutsCrypto.Crypto // holds V's keyAgreement key
	empty   *nutsCrypto.Crypto // holds nothing ("key missing")
	vPub    *ecdsa.PublicKey
	pPub    *ecdsa.PublicKey
	qPub    *ecdsa.PublicKey
	canary  []byte
	p0      []byte // payload of T0 (private, V does not hold it)
	pubLoad []byte
}

func vc15DID(name string) did.DID {
	switch name {
	case "V":
		return vc15V
	case "P":
		return vc15P
	case "Q":
		return vc15Q
	}
	return vc15X
}

func (k *vc15Keys) pub(name string) *ecdsa.PublicKey {
	switch name {
	case "V":
		return k.vPub
	case "P":
		return k.pPub
	}
	return k.qPub
}

// encryptPAL does what dag.PAL.Encrypt does (one ECIES cipher text of the joined list per participant key)
// without needing resolvable documents for the harness's own parties.
func (k *vc15Keys) encryptPAL(names []string, extra ...did.DID) [][]byte {
	var dids []string
	for _, n := range names {
		dids = append(dids, vc15DID(n).String())
	}
	for _, d := range extra {
		dids = append(dids, d.String())
	}
	plain := []byte(strings.Join(dids, "\n"))
	var out [][]byte
	for _, n := range names {
		ct, err := nutsCrypto.EciesEncrypt(k.pub(n), plain)
		if err != nil {
			panic(err)
		}
		out = append(out, ct)
	}
	return out
}

var vc15Counter int64

func vc15Sign(payloadHash hash.SHA256Hash, pal [][]byte, prevs ...dag.Transaction) dag.Transaction {
	var ph []hash.SHA256Hash
	lc := uint32(0)
	for _, p := range prevs {
		ph = append(ph, p.Ref())
		if p.Clock()+1 > lc {
			lc = p.Clock() + 1
		}
	}
	unsigned, err := dag.NewTransaction(payloadHash, "application/verif+json", ph, pal, lc)
	if err != nil {
		panic(err)
	}
	key, err := nutsCrypto.GenerateJWK()
	if err != nil {
		panic(err)
	}
	kid := fmt.Sprintf("k%d", atomic.AddInt64(&vc15Counter, 1))
	_ = key.Set(jwk.KeyIDKey, kid)
	pubJWK, _ := key.PublicKey()
	var raw interface{}
	if err := pubJWK.Raw(&raw); err != nil {
		panic(err)
	}
	tx, err := dag.NewTransactionSigner(nutsCrypto.MemoryJWTSigner{Key: key}, kid, raw).Sign(audit.TestContext(), unsigned, time.Date(2024, 1, 1, 0, 0, 0, 0, time.UTC))
	if err != nil {
		panic(err)
	}
	return tx
}

// vc15Conn is the repository's stub connection with a locked Send: V's private-payload notifier retries from a
// goroutine of its own (its first retry attempt runs at once), so Send can be called concurrently with the harness.
type vc15Conn struct {
	*grpc.StubConnection
	mu   sync.Mutex
	sent []*Envelope
}

func (c *vc15Conn) Send(_ grpc.Protocol, envelope interface{}, _ bool) error {
	c.mu.Lock()
	defer c.mu.Unlock()
	c.sent = append(c.sent, proto.Clone(envelope.(*Envelope)).(*Envelope))
	return nil
}

type vc15ConnList struct{ conn *vc15Conn }

func (l vc15ConnList) Get(query ...grpc.Predicate) grpc.Connection {
	for _, q := range query {
		if !q.Match(l.conn) {
			return nil
		}
	}
	return l.conn
}
func (l vc15ConnList) All() []grpc.Connection                            { return []grpc.Connection{l.conn} }
func (l vc15ConnList) AllMatching(q ...grpc.Predicate) []grpc.Connection { return l.All() }

type vc15Node struct {
	sc      vc15Scenario
	k       *vc15Keys
	path    string
	db      stoabs.KVStore
	state   dag.State
	p       *protocol
	conn    *vc15Conn
	peer    transport.Peer
	root    dag.Transaction
	tpub    dag.Transaction
	t1      dag.Transaction
	t0      dag.Transaction
	sibling dag.Transaction
	head    dag.Transaction
	watch   map[hash.SHA256Hash]bool // payload-store keys under observation
	evMu    sync.Mutex
	events  []vc15PayloadEvent
}

type vc15PayloadEvent struct{ ok bool }

func vc15Has(list []string, s string) bool {
	for _, x := range list {
		if x == s {
			return true
		}
	}
	return false
}

func vc15Build(t testing.TB, dir string, k *vc15Keys, sc vc15Scenario) *vc15Node {
	n := &vc15Node{sc: sc, k: k}
	n.path = filepath.Join(dir, fmt.Sprintf("c15_%d.db", atomic.AddInt64(&vc15Counter, 1)))
	db, err := bbolt.CreateBBoltStore(n.path, stoabs.WithNoSync(), stoabs.WithLockAcquireTimeout(time.Hour))
	if err != nil {
		t.Fatal(err)
	}
	n.db = db
	n.state, err = dag.NewState(db, dag.NewPrevTransactionsVerifier(), dag.NewTransactionSignatureVerifier(nil))
	if err != nil {
		t.Fatal(err)
	}
	if err := n.state.Configure(core.ServerConfig{}); err != nil {
		t.Fatal(err)
	}
	nodeDID := vc15V
	var dec nutsCrypto.Decrypter = k.ks
	res := vc15Resolver{}
	switch sc.Local {
	case "key-missing":
		dec = k.empty
	case "doc-unresolvable":
		res.fail = true
	case "no-node-did":
		nodeDID = did.DID{}
	}
	cfg := Config{GossipInterval: 3600 * 1000, DiagnosticsInterval: 0, PayloadRetryDelay: time.Hour}
	n.p = New(cfg, nodeDID, n.state, res, dec, func() transport.Diagnostics { return transport.Diagnostics{} }, db).(*protocol)
	if err := n.p.Configure("V"); err != nil {
		t.Fatal(err)
	}
	n.p.cMan = newConversationManager(maxValidity)
	n.watch = map[hash.SHA256Hash]bool{}
	if _, err := n.state.Notifier("verif-c15-payload", func(e dag.Event) (bool, error) {
		n.evMu.Lock()
		n.events = append(n.events, vc15PayloadEvent{ok: e.Transaction != nil && hash.SHA256Sum(e.Payload).Equals(e.Transaction.PayloadHash())})
		n.evMu.Unlock()
		return true, nil
	}, dag.WithSelectionFilter(func(e dag.Event) bool { return e.Type == dag.PayloadEventType })); err != nil {
		t.Fatal(err)
	}
	n.peer = transport.Peer{ID: "peer", Address: "peer.test:5555", Authenticated: sc.PeerAuth}
	if sc.PeerDID != "" {
		n.peer.NodeDID = vc15DID(sc.PeerDID)
	}
	n.conn = &vc15Conn{StubConnection: grpc.NewStubConnection(n.peer)}
	n.p.connectionList = vc15ConnList{conn: n.conn}
	n.p.connectionStateCallback(n.peer, transport.StateConnected, n.p)

	ctx := context.Background()
	add := func(tx dag.Transaction, payload []byte) {
		if err := n.state.Add(ctx, tx, payload); err != nil {
			t.Fatalf("setup add: %v", err)
		}
		n.head = tx
		n.watch[tx.PayloadHash()] = true
	}
	rootPayload := []byte("verif-c15 root payload")
	n.root = vc15Sign(hash.SHA256Sum(rootPayload), nil)
	add(n.root, rootPayload)
	n.tpub = vc15Sign(hash.SHA256Sum(k.pubLoad), nil, n.root)
	add(n.tpub, k.pubLoad)
	n.t1 = vc15Sign(hash.SHA256Sum(k.canary), k.encryptPAL(sc.PAL), n.tpub)
	if sc.HasPayload {
		add(n.t1, k.canary)
	} else {
		add(n.t1, nil)
	}
	n.t0 = vc15Sign(hash.SHA256Sum(k.p0), k.encryptPAL(sc.PAL), n.t1)
	add(n.t0, nil)
	return n
}

func (n *vc15Node) close() {
	n.p.cancel()
	if n.p.privatePayloadReceiver != nil {
		_ = n.p.privatePayloadReceiver.Close()
	}
	_ = n.state.Shutdown()
	_ = n.db.Close(context.Background())
	_ = os.Remove(n.path)
}

func vc15Kind(env *Envelope) string {
	return strings.TrimPrefix(fmt.Sprintf("%T", env.Message), "*v2.Envelope_")
}

// send hands one wire-realistic message (marshalled and unmarshalled) to the real handler body.
func (n *vc15Node) send(env *Envelope) (errClass string) {
	raw, err := proto.Marshal(env)
	if err != nil {
		panic(err)
	}
	in := &Envelope{}
	if err := proto.Unmarshal(raw, in); err != nil {
		panic(err)
	}
	ctx := n.p.ctx
	switch in.Message.(type) {
	case *Envelope_Gossip:
		err = n.p.handleGossip(ctx, n.conn, in)
	case *Envelope_State:
		err = n.p.handleState(ctx, n.conn, in)
	case *Envelope_TransactionSet:
		err = n.p.handleTransactionSet(ctx, n.conn, in)
	case *Envelope_TransactionListQuery:
		err = n.p.handleTransactionListQuery(ctx, n.conn, in)
	case *Envelope_TransactionRangeQuery:
		err = n.p.handleTransactionRangeQuery(ctx, n.conn, in)
	case *Envelope_TransactionList:
		err = n.p.handleTransactionList(ctx, n.conn, in)
	case *Envelope_TransactionPayloadQuery:
		err = n.p.handleTransactionPayloadQuery(ctx, n.conn, in)
	case *Envelope_TransactionPayload:
		if n.p.privatePayloadReceiver == nil {
			// DESIGN §4 row 28 (C19): without a node DID this handler dereferences a nil receiver after storing.
			// That crash belongs to C19; here the call is guarded so that C15 can still judge what was stored.
			func() {
				defer func() {
					if r := recover(); r != nil {
						err = fmt.Errorf("panic (row 28, judged by C19)")
					}
				}()
				err = n.p.handleTransactionPayload(ctx, n.conn, in)
			}()
		} else {
			err = n.p.handleTransactionPayload(ctx, n.conn, in)
		}
	case *Envelope_DiagnosticsBroadcast:
		err = n.p.handleDiagnostics(ctx, n.conn, in)
	default:
		panic("unknown message kind")
	}
	if err == nil {
		return "ok"
	}
	s := err.Error()
	if i := strings.IndexAny(s, "(:"); i > 0 {
		s = s[:i]
	}
	return strings.TrimSpace(s)
}

// take returns (and clears) what V handed to Send.
func (n *vc15Node) take() []*Envelope {
	n.conn.mu.Lock()
	defer n.conn.mu.Unlock()
	out := n.conn.sent
	n.conn.sent = nil
	return out
}

type vc15Probe struct {
	Name   string // message kind as a probe name, e.g. payload-query (used in signatures)
	Target string // private-tx | sibling-tx-same-payload-hash | private-tx-without-payload | public-tx | unknown-tx | all | none
	Env    *Envelope
}

type vc15Replay struct {
	Scenario vc15Scenario `json:"scenario"`
	Probe    string       `json:"probe"`
	Target   string       `json:"target"`
}

type vc15Run struct {
	t    *testing.T
	r    *ev.Run
	dir  string
	k    *vc15Keys
	only *vc15Replay
}

func vc15Hex(b []byte) string { return hex.EncodeToString(b) }

// judgeEnvelopes applies the disclosure oracle to everything V sent in answer to one probe.
// canary in an envelope ⇒ it is a TransactionPayload ∧ the destination connection is authenticated ∧ its node DID
// is on T1's participant list ∧ the local node has a node DID that is on T1's participant list.
func (x *vc15Run) judgeEnvelopes(n *vc15Node, probe vc15Probe, envs []*Envelope) (leaked bool) {
	sc := n.sc
	for _, env := range envs {
		raw, err := proto.Marshal(env)
		if err != nil {
			panic(err)
		}
		if !bytes.Contains(raw, x.k.canary) {
			continue
		}
		leaked = true
		var why []string
		if vc15Kind(env) != "TransactionPayload" {
			why = append(why, "in-"+vc15Kind(env))
		}
		if !sc.PeerAuth {
			why = append(why, "dest-unauthenticated")
		}
		if sc.PeerDID == "" || !vc15Has(sc.PAL, sc.PeerDID) {
			why = append(why, "dest-not-on-list")
		}
		if sc.Local == "no-node-did" || !vc15Has(sc.PAL, "V") {
			why = append(why, "local-not-on-list")
		}
		if len(why) == 0 {
			x.r.Outcome("payload sent to an entitled peer (" + probe.Name + " " + probe.Target + ")")
			continue
		}
		cls := strings.Join(why, "+")
		if probe.Target == "sibling-tx-same-payload-hash" && probe.Name == "payload-query" && vc15Kind(env) == "TransactionPayload" &&
			sc.Sibling == "a" && sc.PeerAuth && sc.PeerDID != "" && sc.Local == "key" && sc.HasPayload {
			// DESIGN §4 row 23: every check the handler makes holds for the SIBLING (authenticated requester, list
			// decrypts, requester listed); what is served is T1's payload because payloads are stored by hash alone.
			cls = "requester-on-sibling-pal"
		}
		sig := fmt.Sprintf("C15|%s|%s|%s", probe.Name, probe.Target, cls)
		x.r.Violation(sig, fmt.Sprintf("payload of private transaction T1 (participants %v) left the node in a %s envelope in answer to %s(%s): %s [%s]",
			sc.PAL, vc15Kind(env), probe.Name, probe.Target, strings.Join(why, ", "), sc),
			vc15Replay{Scenario: sc, Probe: probe.Name, Target: probe.Target})
	}
	return
}

// payloadStore snapshots V's payload store at every watched key: the hashes of the monitored byte strings, the payload
// hashes of every transaction the scenario placed or offered (n.watch). Value: sha256 of the bytes stored under the key.
func (x *vc15Run) payloadStore(n *vc15Node, monitored [][]byte) map[string]string {
	out := map[string]string{}
	keys := map[hash.SHA256Hash]bool{}
	for _, d := range monitored {
		keys[hash.SHA256Sum(d)] = true
	}
	for h := range n.watch {
		keys[h] = true
	}
	for h := range keys {
		ok, err := n.state.IsPayloadPresent(context.Background(), h)
		if err != nil {
			panic(err)
		}
		if ok {
			stored, err := n.state.ReadPayload(context.Background(), h)
			if err != nil {
				out[h.String()] = "unreadable"
				continue
			}
			out[h.String()] = hash.SHA256Sum(stored).String()
		}
	}
	return out
}

// judgeStore: bytes that appeared (or changed) under key h ⇒ sha256(bytes) = h and a transaction with payload hash h is
// in the DAG. Also: every payload event emitted since the last call carries bytes that hash to its transaction's payload hash.
func (x *vc15Run) judgeStore(n *vc15Node, probe vc15Probe, before, after map[string]string) {
	for hx, sum := range after {
		if before[hx] == sum {
			continue
		}
		h, _ := hash.ParseHex(hx)
		txs, err := n.state.FindBetweenLC(context.Background(), 0, dag.MaxLamportClock)
		if err != nil {
			panic(err)
		}
		found := false
		for _, tx := range txs {
			if tx.PayloadHash().Equals(h) {
				found = true
			}
		}
		okBytes := sum == hx
		if !found || !okBytes {
			cls := "no-transaction-with-that-payload-hash"
			if found {
				cls = "bytes-do-not-hash-to-key"
			}
			x.r.Violation(fmt.Sprintf("C15|%s|%s|stored-%s", probe.Name, probe.Target, cls),
				fmt.Sprintf("a payload received from the peer was stored although %s [%s]", cls, n.sc),
				vc15Replay{Scenario: n.sc, Probe: probe.Name, Target: probe.Target})
		} else {
			x.r.Outcome("payload stored for a present transaction with matching hash (" + probe.Name + " " + probe.Target + ")")
		}
	}
	n.evMu.Lock()
	events := n.events
	n.events = nil
	n.evMu.Unlock()
	for _, e := range events {
		if !e.ok {
			x.r.Violation(fmt.Sprintf("C15|%s|%s|payload-event-for-bytes-not-matching-hash", probe.Name, probe.Target),
				fmt.Sprintf("a payload event was emitted for bytes that do not hash to the transaction's payload hash [%s]", n.sc),
				vc15Replay{Scenario: n.sc, Probe: probe.Name, Target: probe.Target})
		}
	}
}

func vc15RefBytes(tx dag.Transaction) []byte { return tx.Ref().Slice() }

// introduceSibling lets the requesting peer publish T2 (same payload hash as T1) through the real
// gossip -> TransactionListQuery -> TransactionList path, so that V's handlers decide whether it is admitted.
func (x *vc15Run) introduceSibling(n *vc15Node) {
	sc := n.sc
	peerDID := vc15X
	if sc.PeerDID != "" {
		peerDID = vc15DID(sc.PeerDID)
	}
	var pal [][]byte
	switch sc.Sibling {
	case "a": // the peer names itself and V, and encrypts the list for V's PUBLIC keyAgreement key
		plain := []byte(peerDID.String() + "\n" + vc15V.String())
		ct, err := nutsCrypto.EciesEncrypt(x.k.vPub, plain)
		if err != nil {
			panic(err)
		}
		pal = [][]byte{ct}
	case "b": // the peer names only itself (encrypted for a key V does not have)
		ct, err := nutsCrypto.EciesEncrypt(x.k.pPub, []byte(peerDID.String()))
		if err != nil {
			panic(err)
		}
		pal = [][]byte{ct}
	case "c": // public sibling
	}
	t2 := vc15Sign(hash.SHA256Sum(x.k.canary), pal, n.head)
	probe := vc15Probe{Name: "sibling-intro", Target: "sibling-tx-same-payload-hash"}
	xor, _ := n.state.XOR(dag.MaxLamportClock)
	n.send(&Envelope{Message: &Envelope_Gossip{Gossip: &Gossip{XOR: xor.Xor(t2.Ref()).Slice(), LC: t2.Clock(), Transactions: [][]byte{vc15RefBytes(t2)}}}})
	envs := n.take()
	x.judgeEnvelopes(n, probe, envs)
	var cid []byte
	for _, e := range envs {
		if q := e.GetTransactionListQuery(); q != nil {
			cid = q.ConversationID
		}
	}
	if cid == nil {
		x.t.Fatalf("vacuity: V did not ask for the announced sibling [%s]", sc)
	}
	// the peer does not know the payload: a public sibling can only be offered without or with a wrong payload
	offers := [][]byte{nil}
	if sc.Sibling == "c" {
		offers = [][]byte{nil, []byte("guessed payload")}
	}
	for _, payload := range offers {
		n.send(&Envelope{Message: &Envelope_TransactionList{TransactionList: &TransactionList{ConversationID: cid,
			Transactions: []*Transaction{{Data: t2.Data(), Payload: payload}}, TotalMessages: 1, MessageNumber: 1}}})
		x.judgeEnvelopes(n, probe, n.take())
	}
	present, _ := n.state.IsPresent(context.Background(), t2.Ref())
	x.r.Outcome(fmt.Sprintf("sibling %s admitted=%v", sc.Sibling, present))
	n.sibling = t2
	if present {
		n.head = t2
	}
}

// probes lists every message the peer sends after the set-up: all query kinds addressed at every transaction class,
// then every response kind unsolicited, with mismatching hash, for an unknown transaction, and empty.
func (x *vc15Run) probes(n *vc15Node) []vc15Probe {
	var ps []vc15Probe
	unknown := hash.SHA256Sum([]byte("no such transaction")).Slice()
	targets := []struct {
		name string
		ref  []byte
	}{{"private-tx", vc15RefBytes(n.t1)}, {"private-tx-without-payload", vc15RefBytes(n.t0)}, {"public-tx", vc15RefBytes(n.tpub)}, {"unknown-tx", unknown}}
	if n.sibling != nil {
		targets = append(targets, struct {
			name string
			ref  []byte
		}{"sibling-tx-same-payload-hash", vc15RefBytes(n.sibling)})
	}
	for _, tg := range targets {
		ps = append(ps, vc15Probe{"payload-query", tg.name, &Envelope{Message: &Envelope_TransactionPayloadQuery{TransactionPayloadQuery: &TransactionPayloadQuery{TransactionRef: tg.ref}}}})
		ps = append(ps, vc15Probe{"payload-query", tg.name, &Envelope{Message: &Envelope_TransactionPayloadQuery{TransactionPayloadQuery: &TransactionPayloadQuery{TransactionRef: tg.ref, ConversationID: []byte("c-1")}}}})
		ps = append(ps, vc15Probe{"list-query", tg.name, &Envelope{Message: &Envelope_TransactionListQuery{TransactionListQuery: &TransactionListQuery{ConversationID: []byte("c-2"), Refs: [][]byte{tg.ref}}}}})
	}
	var all [][]byte
	for _, tg := range targets {
		all = append(all, tg.ref)
	}
	ps = append(ps, vc15Probe{"list-query", "all", &Envelope{Message: &Envelope_TransactionListQuery{TransactionListQuery: &TransactionListQuery{ConversationID: []byte("c-3"), Refs: all}}}})
	ps = append(ps, vc15Probe{"range-query", "all", &Envelope{Message: &Envelope_TransactionRangeQuery{TransactionRangeQuery: &TransactionRangeQuery{ConversationID: []byte("c-4"), Start: 0, End: 1000}}}})
	ps = append(ps, vc15Probe{"range-query", "private-tx", &Envelope{Message: &Envelope_TransactionRangeQuery{TransactionRangeQuery: &TransactionRangeQuery{ConversationID: []byte("c-5"), Start: n.t1.Clock(), End: n.t1.Clock() + 1}}}})
	other := hash.SHA256Sum([]byte("some other xor"))
	ps = append(ps, vc15Probe{"state", "all", &Envelope{Message: &Envelope_State{State: &State{ConversationID: []byte("c-6"), XOR: other.Slice(), LC: dag.MaxLamportClock}}}})
	ps = append(ps, vc15Probe{"state", "private-tx", &Envelope{Message: &Envelope_State{State: &State{ConversationID: []byte("c-7"), XOR: other.Slice(), LC: n.t1.Clock()}}}})
	ps = append(ps, vc15Probe{"gossip", "private-tx", &Envelope{Message: &Envelope_Gossip{Gossip: &Gossip{XOR: other.Slice(), LC: n.t1.Clock(), Transactions: [][]byte{vc15RefBytes(n.t1)}}}}})
	ps = append(ps, vc15Probe{"gossip", "unknown-tx", &Envelope{Message: &Envelope_Gossip{Gossip: &Gossip{XOR: other.Slice(), LC: 99, Transactions: [][]byte{unknown}}}}})
	ps = append(ps, vc15Probe{"gossip", "none", &Envelope{Message: &Envelope_Gossip{Gossip: &Gossip{XOR: other.Slice(), LC: 2}}}})
	ps = append(ps, vc15Probe{"diagnostics", "none", &Envelope{Message: &Envelope_DiagnosticsBroadcast{DiagnosticsBroadcast: &Diagnostics{Uptime: 1, Peers: []string{"x"}}}}})
	// responses nobody asked for
	ib, _ := tree.NewIblt(dag.IbltNumBuckets).MarshalBinary()
	ps = append(ps, vc15Probe{"set-unsolicited", "none", &Envelope{Message: &Envelope_TransactionSet{TransactionSet: &TransactionSet{ConversationID: []byte("c-8"), LCReq: 1, LC: 1, IBLT: ib}}}})
	ps = append(ps, vc15Probe{"list-unsolicited", "private-tx", &Envelope{Message: &Envelope_TransactionList{TransactionList: &TransactionList{ConversationID: []byte("c-9"),
		Transactions: []*Transaction{{Data: n.t1.Data(), Payload: []byte("guess")}}, TotalMessages: 1, MessageNumber: 1}}}})
	wrong := []byte("verif-c15 wrong payload bytes")
	ps = append(ps, vc15Probe{"payload-empty", "private-tx", &Envelope{Message: &Envelope_TransactionPayload{TransactionPayload: &TransactionPayload{TransactionRef: vc15RefBytes(n.t1)}}}})
	ps = append(ps, vc15Probe{"payload-mismatch", "private-tx", &Envelope{Message: &Envelope_TransactionPayload{TransactionPayload: &TransactionPayload{TransactionRef: vc15RefBytes(n.t1), Data: wrong}}}})
	ps = append(ps, vc15Probe{"payload-mismatch", "private-tx-without-payload", &Envelope{Message: &Envelope_TransactionPayload{TransactionPayload: &TransactionPayload{TransactionRef: vc15RefBytes(n.t0), Data: wrong}}}})
	ps = append(ps, vc15Probe{"payload-mismatch", "public-tx", &Envelope{Message: &Envelope_TransactionPayload{TransactionPayload: &TransactionPayload{TransactionRef: vc15RefBytes(n.tpub), Data: x.k.p0}}}})
	ps = append(ps, vc15Probe{"payload-unknown-tx", "unknown-tx", &Envelope{Message: &Envelope_TransactionPayload{TransactionPayload: &TransactionPayload{TransactionRef: unknown, Data: wrong}}}})
	ps = append(ps, vc15Probe{"payload-no-ref", "none", &Envelope{Message: &Envelope_TransactionPayload{TransactionPayload: &TransactionPayload{Data: wrong}}}})
	ps = append(ps, vc15Probe{"payload-unsolicited-matching", "private-tx-without-payload", &Envelope{Message: &Envelope_TransactionPayload{TransactionPayload: &TransactionPayload{TransactionRef: vc15RefBytes(n.t0), Data: x.k.p0}}}})
	// after T0's payload was accepted, ask for it as well (second private payload, same list)
	ps = append(ps, vc15Probe{"payload-query", "private-tx-without-payload", &Envelope{Message: &Envelope_TransactionPayloadQuery{TransactionPayloadQuery: &TransactionPayloadQuery{TransactionRef: vc15RefBytes(n.t0)}}}})
	// a solicited list (V asks after a gossip) that carries a NEW private transaction with matching / mismatching payload
	return ps
}

// solicited runs the exchange gossip -> V's TransactionListQuery -> TransactionList with a new private transaction of the peer
// whose payload is offered matching (stored: allowed) or mismatching (must not be stored).
func (x *vc15Run) solicited(n *vc15Node, monitored [][]byte) {
	for _, variant := range []string{"mismatching", "matching"} {
		// a refused list leaves V's blocking conversation open until it expires: let (virtual) time pass
		vtime.Advance(maxValidity + time.Second)
		n.p.cMan.evict()
		payload := []byte("verif-c15 new private payload " + variant)
		offered := payload
		if variant == "mismatching" {
			offered = []byte("verif-c15 not the announced payload")
		}
		ct, _ := nutsCrypto.EciesEncrypt(x.k.vPub, []byte(vc15V.String()))
		tn := vc15Sign(hash.SHA256Sum(payload), [][]byte{ct}, n.head)
		probe := vc15Probe{Name: "list-solicited-" + variant, Target: "new-private-tx"}
		xor, _ := n.state.XOR(dag.MaxLamportClock)
		before := x.payloadStore(n, monitored)
		n.send(&Envelope{Message: &Envelope_Gossip{Gossip: &Gossip{XOR: xor.Xor(tn.Ref()).Slice(), LC: tn.Clock(), Transactions: [][]byte{vc15RefBytes(tn)}}}})
		envs := n.take()
		x.judgeEnvelopes(n, probe, envs)
		var cid []byte
		for _, e := range envs {
			if q := e.GetTransactionListQuery(); q != nil {
				cid = q.ConversationID
			}
		}
		if cid == nil {
			x.t.Fatalf("vacuity: V did not ask for the announced transaction (%s) [%s]", variant, n.sc)
		}
		res := n.send(&Envelope{Message: &Envelope_TransactionList{TransactionList: &TransactionList{ConversationID: cid,
			Transactions: []*Transaction{{Data: tn.Data(), Payload: offered}}, TotalMessages: 1, MessageNumber: 1}}})
		x.r.Outcome(probe.Name + " -> " + res)
		x.judgeEnvelopes(n, probe, n.take())
		x.judgeStore(n, probe, before, x.payloadStore(n, monitored))
		x.r.Eval(n.sc.String() + "|" + probe.Name)
		if present, _ := n.state.IsPresent(context.Background(), tn.Ref()); present {
			n.head = tn
		}
	}
}

// listEntries: "a payload received from a peer" also arrives inside TransactionList entries. Every carrier
// (answer to V's own range query, unsolicited list, list under a live conversation V opened for something else, answer to
// V's list query) x transaction status {unknown, present without payload, present with payload} x offered bytes
// {matching, mismatching, empty}; the handlers decide, the payload store and the payload events are judged.
func (x *vc15Run) listEntries(n *vc15Node, monitored [][]byte) {
	ctx := context.Background()
	undecodable := tree.NewIblt(dag.IbltNumBuckets)
	for i := 0; i < 3000; i++ {
		undecodable.Insert(hash.SHA256Sum([]byte(fmt.Sprintf("noise %d", i))))
	}
	noise, _ := undecodable.MarshalBinary()
	other := hash.SHA256Sum([]byte("some other xor"))
	palForV := func() [][]byte {
		ct, _ := nutsCrypto.EciesEncrypt(x.k.vPub, []byte(vc15V.String()))
		return [][]byte{ct}
	}
	serial := 0
	for _, carrier := range []string{"list-range-solicited", "list-unsolicited", "list-other-conversation", "list-solicited"} {
		for _, status := range []string{"unknown-tx", "present-without-payload", "present-with-payload"} {
			if carrier == "list-solicited" && status != "unknown-tx" {
				continue // V only asks for transactions it does not have
			}
			for _, offer := range []string{"mismatching", "empty", "matching"} {
				serial++
				vtime.Advance(maxValidity + time.Second)
				n.p.cMan.evict()
				// the transaction the entry is about, and its true payload
				truth := []byte(fmt.Sprintf("verif-c15 list entry payload %s %s %s %d", carrier, status, offer, serial))
				var tx dag.Transaction
				switch status {
				case "unknown-tx":
					tx = vc15Sign(hash.SHA256Sum(truth), palForV(), n.head)
				case "present-without-payload":
					tx = vc15Sign(hash.SHA256Sum(truth), palForV(), n.head)
					if err := n.state.Add(ctx, tx, nil); err != nil {
						x.t.Fatalf("placing a private transaction without payload: %v", err)
					}
					n.head = tx
				case "present-with-payload":
					tx, truth = n.tpub, x.k.pubLoad
				}
				n.watch[tx.PayloadHash()] = true
				var bytesOffered []byte
				switch offer {
				case "matching":
					bytesOffered = truth
				case "mismatching":
					bytesOffered = []byte(fmt.Sprintf("verif-c15 arbitrary bytes %d", serial))
				}
				if bytesOffered != nil {
					n.watch[hash.SHA256Sum(bytesOffered)] = true
				}
				probe := vc15Probe{Name: carrier, Target: status + "-" + offer}
				before := x.payloadStore(n, monitored)
				n.evMu.Lock()
				n.events = nil
				n.evMu.Unlock()
				entry := []*Transaction{{Data: tx.Data(), Payload: bytesOffered}}
				var cid []byte
				xor, clock := n.state.XOR(dag.MaxLamportClock)
				switch carrier {
				case "list-range-solicited":
					// gossip with a foreign XOR and no refs -> V asks for State; an undecodable TransactionSet -> V asks for range [0, PageSize)
					n.send(&Envelope{Message: &Envelope_Gossip{Gossip: &Gossip{XOR: other.Slice(), LC: clock}}})
					var stateCID []byte
					for _, e := range n.take() {
						if st := e.GetState(); st != nil {
							stateCID = st.ConversationID
						}
					}
					if stateCID == nil {
						x.t.Fatalf("vacuity: V did not send State after a gossip with a foreign XOR [%s]", n.sc)
					}
					n.send(&Envelope{Message: &Envelope_TransactionSet{TransactionSet: &TransactionSet{ConversationID: stateCID, LCReq: clock, LC: clock, IBLT: noise}}})
					for _, e := range n.take() {
						if q := e.GetTransactionRangeQuery(); q != nil {
							cid = q.ConversationID
						}
					}
					if cid == nil {
						x.t.Fatalf("vacuity: V did not send a range query after an undecodable TransactionSet [%s]", n.sc)
					}
				case "list-unsolicited":
					cid = []byte("nobody-asked")
				case "list-other-conversation", "list-solicited":
					asked := tx
					if carrier == "list-other-conversation" {
						asked = vc15Sign(hash.SHA256Sum([]byte(fmt.Sprintf("decoy %d", serial))), palForV(), n.head)
					}
					n.send(&Envelope{Message: &Envelope_Gossip{Gossip: &Gossip{XOR: xor.Xor(asked.Ref()).Slice(), LC: asked.Clock(), Transactions: [][]byte{vc15RefBytes(asked)}}}})
					for _, e := range n.take() {
						if q := e.GetTransactionListQuery(); q != nil {
							cid = q.ConversationID
						}
					}
					if cid == nil {
						x.t.Fatalf("vacuity: V did not ask for an announced transaction (%s) [%s]", carrier, n.sc)
					}
				}
				res := n.send(&Envelope{Message: &Envelope_TransactionList{TransactionList: &TransactionList{ConversationID: cid, Transactions: entry, TotalMessages: 1, MessageNumber: 1}}})
				x.r.Outcome(carrier + " " + status + " " + offer + " -> " + res)
				x.judgeEnvelopes(n, probe, n.take())
				x.judgeStore(n, probe, before, x.payloadStore(n, monitored))
				x.r.Eval(n.sc.String() + "|" + carrier + "|" + status + "|" + offer)
				if present, _ := n.state.IsPresent(ctx, tx.Ref()); present && status == "unknown-tx" {
					n.head = tx
				}
			}
		}
	}
}

func (x *vc15Run) runScenario(sc vc15Scenario) {
	n := vc15Build(x.t, x.dir, x.k, sc)
	defer n.close()
	setup := vc15Probe{Name: "setup", Target: "none"}
	x.judgeEnvelopes(n, setup, n.take())
	if sc.Sibling != "" {
		x.introduceSibling(n)
	}
	monitored := [][]byte{x.k.canary, x.k.p0, x.k.pubLoad, []byte("verif-c15 wrong payload bytes"), []byte("guess"), []byte("guessed payload"),
		[]byte("verif-c15 new private payload matching"), []byte("verif-c15 new private payload mismatching"), []byte("verif-c15 not the announced payload")}
	honest := sc.Local == "key" && vc15Has(sc.PAL, "V") && sc.PeerAuth && sc.PeerDID != "" && vc15Has(sc.PAL, sc.PeerDID) && sc.HasPayload
	for _, p := range x.probes(n) {
		if x.only != nil && (x.only.Probe != p.Name || x.only.Target != p.Target) && x.only.Probe != "sibling-intro" && !strings.HasPrefix(x.only.Probe, "list-solicited") {
			continue
		}
		before := x.payloadStore(n, monitored)
		res := n.send(p.Env)
		envs := n.take()
		leaked := x.judgeEnvelopes(n, p, envs)
		x.judgeStore(n, p, before, x.payloadStore(n, monitored))
		x.r.Outcome(p.Name + " -> " + res)
		key := ""
		if p.Target == "private-tx" || p.Target == "sibling-tx-same-payload-hash" || p.Target == "all" || strings.HasPrefix(p.Name, "payload") {
			key = sc.String() + "|" + p.Name + "|" + p.Target
		}
		x.r.Eval(key)
		// vacuity guard (converse direction, never an alarm): the entitled peer does get the payload it asks for
		if honest && p.Name == "payload-query" && p.Target == "private-tx" && !leaked {
			x.t.Fatalf("vacuity: entitled peer did not receive T1's payload on a payload query [%s]", sc)
		}
	}
	x.solicited(n, monitored)
	if x.only == nil || strings.HasPrefix(x.only.Probe, "list-") {
		x.listEntries(n, monitored)
	}
	// whatever the notifier's own goroutine sent in the meantime is judged too
	x.judgeEnvelopes(n, vc15Probe{Name: "background", Target: "none"}, n.take())
}

func vc15Subsets() [][]string {
	names := []string{"V", "P", "Q"}
	var out [][]string
	for m := 1; m < 8; m++ {
		var s []string
		for i, nm := range names {
			if m&(1<<uint(i)) != 0 {
				s = append(s, nm)
			}
		}
		out = append(out, s)
	}
	sort.SliceStable(out, func(a, b int) bool { return len(out[a]) < len(out[b]) })
	return out
}

func vc15Scenarios() []vc15Scenario {
	var out []vc15Scenario
	for _, local := range []string{"key", "key-missing", "doc-unresolvable", "no-node-did"} {
		for _, pal := range vc15Subsets() {
			for _, peerDID := range []string{"P", ""} {
				for _, auth := range []bool{true, false} {
					for _, sib := range []string{"", "a", "b", "c"} {
						for _, has := range []bool{true, false} {
							out = append(out, vc15Scenario{Local: local, PAL: pal, PeerDID: peerDID, PeerAuth: auth, Sibling: sib, HasPayload: has})
						}
					}
				}
			}
		}
	}
	return out
}

func vc15NewKeys(t *testing.T, seed int64) *vc15Keys {
	k := &vc15Keys{ks: nutsCrypto.NewMemoryCryptoInstance(t), empty: nutsCrypto.NewMemoryCryptoInstance(t)}
	_, pub, err := k.ks.New(audit.TestContext(), nutsCrypto.StringNamingFunc(vc15KAK))
	if err != nil {
		t.Fatal(err)
	}
	k.vPub = pub.(*ecdsa.PublicKey)
	for _, dst := range []**ecdsa.PublicKey{&k.pPub, &k.qPub} {
		key, err := nutsCrypto.GenerateJWK()
		if err != nil {
			t.Fatal(err)
		}
		var raw ecdsa.PrivateKey
		if err := key.Raw(&raw); err != nil {
			t.Fatal(err)
		}
		*dst = &raw.PublicKey
	}
	mk := func(tag string) []byte {
		h := sha256.Sum256([]byte(fmt.Sprintf("%s-%d", tag, seed)))
		return []byte("VERIF-C15-" + tag + "-" + hex.EncodeToString(h[:]))
	}
	k.canary, k.p0, k.pubLoad = mk("CANARY"), mk("P0"), mk("PUBLIC")
	return k
}

// vc15SilenceAudit makes the audit logger (created on first use with the os.Stderr of that moment) write to
// /dev/null: one line per signed transaction would otherwise flood the worker log.
func vc15SilenceAudit() {
	null, err := os.OpenFile(os.DevNull, os.O_WRONLY, 0)
	if err != nil {
		return
	}
	old := os.Stderr
	os.Stderr = null
	vc15Sign(hash.SHA256Sum([]byte("warm-up")), nil)
	os.Stderr = old
}

func TestVerifC15(t *testing.T) {
	logrus.SetOutput(io.Discard)
	logrus.SetLevel(logrus.PanicLevel)
	vc15SilenceAudit()
	r := ev.Start(t, "C15")
	defer r.Finish()
	dir, err := os.MkdirTemp("", "c15")
	if err != nil {
		t.Fatal(err)
	}
	defer os.RemoveAll(dir)
	x := &vc15Run{t: t, r: r, dir: dir, k: vc15NewKeys(t, r.Seed())}

	var rc vc15Replay
	if r.ReplayCase(&rc) {
		if rc.Scenario.Local == "" {
			return
		}
		x.only = &rc
		x.runScenario(rc.Scenario)
		return
	}
	if os.Getenv("VERIF_REPLAY") != "" {
		return
	}
	r.Rule("full product of: local node {holds its keyAgreement key, key missing, own document unresolvable, no node DID} x participant list of the private transaction T1 " +
		"(every non-empty subset of {local node V, peer P, third party Q}: sizes 1-3) x connection {node DID P, no node DID} x {authenticated, not} x sibling transaction made by the " +
		"requesting peer with T1's payload hash {none, (a) list {peer,V} encrypted by the peer for V's public key, (b) list {peer}, (c) public} introduced through the real " +
		"gossip -> list query -> list path x {V holds T1's payload, not}; in every scenario every query kind (payload query, list query, range query, state, gossip, diagnostics) " +
		"addressed at every transaction class (T1, private without payload, public, unknown, sibling) and every response kind unsolicited / mismatching / unknown / empty / solicited. " +
		"Canary = T1's payload bytes, scanned for in the wire bytes of every envelope handed to Send. A case is non-trivial when it addresses T1, the sibling, all transactions, or offers a payload.")
	scs := vc15Scenarios()
	r.Bound("scenarios", len(scs))
	r.Assume("the connection's Authenticated flag and node DID are what the authenticator established (the authenticator is judged by its own part)")
	r.Assume("T1's participant list is what its publisher encrypted (same plaintext for every participant)")
	for i, sc := range scs {
		if !r.Mine(i) {
			continue
		}
		if r.Expired() {
			break
		}
		x.runScenario(sc)
		if i%97 == 0 {
			r.Sample(map[string]any{"scenario": sc.String()})
		}
	}
}
