//go:build verif

// C15 part "schedules" — CONCURRENT payload queries on one node.
//
// The real node handles every received message in a goroutine of its own (handleASync), and the connection only queues
// what the handlers hand to Send. This part runs 2–3 handler threads (a refused and a granted query, two granted
// queries for different transactions, ...) plus a FLUSHER thread under the baton scheduler (verif/sched) and explores
// every interleaving at the scheduling points: the vsync shim operations that the overlay substitutes for package
// sync in network/transport/v2/*.go (Mutex, RWMutex, Map, WaitGroup and Pool.Get / Pool.Put), Connection.Send and the
// flush. The flusher serialises, at its (arbitrary) position in the schedule, every envelope queued so far for every
// peer; everything is serialised once more when all threads are done. The disclosure oracle of the histories part is
// applied to the bytes as of Send and to every later serialisation.
package v2

import (
	"fmt"
	"io"
	"os"
	"path/filepath"
	"strconv"
	"sync/atomic"
	"testing"
	"time"

	vsync "github.com/nuts-foundation/nuts-node/verifshim/vsync"
	"github.com/sirupsen/logrus"

	"verif/ev"
	"verif/sched"
)

type vs15Query struct{ Peer, Tx, Kind string } // Kind "" = payload-query

type vs15Scenario struct {
	Name    string
	Threads [][]vs15Query
	Tier    string
}

func vs15Scenarios() []vs15Scenario {
	return []vs15Scenario{
		{Name: "unlisted+granted", Threads: [][]vs15Query{{{"A", "T1", ""}}, {{"L", "T1", ""}}}},
		{Name: "unauthenticated+granted", Threads: [][]vs15Query{{{"U", "T1", ""}}, {{"L", "T1", ""}}}},
		{Name: "two-granted-different-tx", Threads: [][]vs15Query{{{"L", "T1", ""}}, {{"M", "T3", ""}}}},
		{Name: "unlisted-twice+granted", Threads: [][]vs15Query{{{"A", "T1", ""}, {"A", "T1", ""}}, {{"L", "T1", ""}}}},
		{Name: "granted-twice+unlisted", Threads: [][]vs15Query{{{"L", "T1", ""}, {"L", "T1", ""}}, {{"A", "T1", ""}}}},
		{Name: "cross-queries", Threads: [][]vs15Query{{{"L", "T3", ""}, {"L", "T1", ""}}, {{"M", "T1", ""}, {"M", "T3", ""}}}},
		{Name: "unknown-tx+granted", Threads: [][]vs15Query{{{"A", "unknown", ""}}, {{"L", "T1", ""}}}},
		{Name: "list-query+granted", Threads: [][]vs15Query{{{"A", "T1", "list-query"}}, {{"L", "T1", ""}}}},
		{Name: "range-query+granted", Threads: [][]vs15Query{{{"U", "", "range-query"}}, {{"L", "T1", ""}}}},
		{Name: "unlisted+granted+granted", Threads: [][]vs15Query{{{"A", "T1", ""}}, {{"L", "T1", ""}}, {{"M", "T3", ""}}}},
		{Name: "unauthenticated+unlisted+granted", Threads: [][]vs15Query{{{"U", "T1", ""}}, {{"A", "T3", ""}}, {{"L", "T1", ""}}}, Tier: "thorough"},
		{Name: "three-granted", Threads: [][]vs15Query{{{"L", "T1", ""}}, {{"M", "T3", ""}}, {{"L", "T1", ""}}}, Tier: "thorough"},
		{Name: "cross-queries-x3", Threads: [][]vs15Query{{{"L", "T3", ""}, {"L", "T1", ""}}, {{"M", "T1", ""}, {"M", "T3", ""}}, {{"A", "T1", ""}, {"A", "T3", ""}}}, Tier: "thorough"},
	}
}

type vs15Replay struct {
	Scenario string `json:"sched_scenario"`
	Schedule []int  `json:"schedule"`
}

func TestVerifC15Schedules(t *testing.T) {
	logrus.SetOutput(io.Discard)
	logrus.SetLevel(logrus.PanicLevel)
	vc15SilenceAudit()
	r := ev.Start(t, "C15")
	defer r.Finish()
	dir, err := os.MkdirTemp("", "c15s")
	if err != nil {
		t.Fatal(err)
	}
	defer os.RemoveAll(dir)
	x := &vh15Run{t: t, r: r, dir: dir, k: vh15NewKeys(t, r.Seed()), part: "schedule"}

	var rc vs15Replay
	replay := r.ReplayCase(&rc)
	if replay && rc.Scenario == "" {
		return
	}
	if os.Getenv("VERIF_REPLAY") != "" && !replay {
		return
	}
	r.Rule("schedules: for each scenario 2–3 threads call the real handleTransactionPayloadQuery concurrently on ONE node (unlisted + granted, unauthenticated + granted, two granted for different transactions with " +
		"disjoint lists, repeated and crossed queries, unknown transaction + granted, list / range query + granted), plus a flusher thread that serialises every queued envelope of every peer at its position in the schedule; stateless depth-first " +
		"search over all interleavings at the scheduling points {vsync shim operations of network/transport/v2/*.go incl. Pool.Get/Pool.Put (LIFO reuse), Connection.Send, flush} with preemption bounding; " +
		"fresh node (image of the store) per execution; canary oracle on the bytes at Send, at the flush and after all threads finished. A case is one schedule of one scenario")
	r.Assume("code between two scheduling points runs atomically (dag.State and the key store are not instrumented)")
	w := vh15Build(t, dir, x.k, vh15Dag{Family: "two-victims", T1Order: "LV", Holds: true})
	shard, nsh := r.Shard()
	budget := 120
	if v, err := strconv.Atoi(os.Getenv("VERIF_BUDGET_S")); err == nil && v > 0 {
		budget = v
	}
	start := time.Now()
	var scs []vs15Scenario
	for _, sc := range vs15Scenarios() {
		if sc.Tier == "thorough" && !r.Thorough() {
			continue
		}
		scs = append(scs, sc)
	}
	unknown := []byte("verif-c15 no such transaction 0123456789")[:32]
	for si, sc := range scs {
		if replay && sc.Name != rc.Scenario {
			continue
		}
		sc := sc
		var maxPoints int
		setup := func(e *sched.Exec) func(e *sched.Exec) {
			path := filepath.Join(dir, fmt.Sprintf("c15s_%d.db", atomic.AddInt64(&vh15Serial, 1)))
			if err := os.WriteFile(path, w.image, 0o600); err != nil {
				t.Fatal(err)
			}
			vsync.VerifResetPools()
			var cur int32
			list := vh15NewConns(w.peers, &cur)
			in := vh15Open(t, w, path, list)
			// the "history" named in a report: the queries in thread order
			var hist []vh15Event
			for _, th := range sc.Threads {
				for _, q := range th {
					kind := q.Kind
					if kind == "" {
						kind = "payload-query"
					}
					hist = append(hist, vh15Event{Kind: kind, Peer: q.Peer, Tx: q.Tx})
				}
			}
			scope := "schedule|" + sc.Name
			asReplay := func() any { return vs15Replay{Scenario: sc.Name, Schedule: e.Choices()} }
			res := make([][]string, len(sc.Threads))
			qi := 0
			for ti, th := range sc.Threads {
				ti, th, first := ti, th, qi
				qi += len(th)
				e.Go(fmt.Sprintf("handler%d", ti), func() {
					for k, q := range th {
						ref := unknown
						if tx := w.txs[q.Tx]; tx != nil {
							ref = vc15RefBytes(tx)
						}
						c := vh15Conn4(list, q.Peer)
						atomic.StoreInt32(&c.own, int32(first+k))
						var err error
						switch q.Kind {
						case "list-query":
							err = in.p.handleTransactionListQuery(in.p.ctx, c, &Envelope{Message: &Envelope_TransactionListQuery{TransactionListQuery: &TransactionListQuery{ConversationID: []byte("c-sched"), Refs: [][]byte{ref}}}})
						case "range-query":
							err = in.p.handleTransactionRangeQuery(in.p.ctx, c, &Envelope{Message: &Envelope_TransactionRangeQuery{TransactionRangeQuery: &TransactionRangeQuery{ConversationID: []byte("c-sched"), Start: 0, End: 1000}}})
						default:
							err = in.p.handleTransactionPayloadQuery(in.p.ctx, c, &Envelope{Message: &Envelope_TransactionPayloadQuery{TransactionPayloadQuery: &TransactionPayloadQuery{TransactionRef: ref}}})
						}
						res[ti] = append(res[ti], vh15ErrClass(err))
					}
				})
			}
			e.Go("flusher", func() {
				// the thread's start is its scheduling point: the flush happens wherever the explorer first runs this thread
				x.judge(w, list, hist, scope, asReplay)
			})
			return func(e *sched.Exec) {
				defer os.Remove(path)
				defer in.close()
				if len(e.Points) > maxPoints {
					maxPoints = len(e.Points)
				}
				for i, pv := range e.Panics() {
					if pv != nil {
						msg := fmt.Sprint(pv)
						if len(msg) > 200 {
							msg = msg[:200]
						}
						r.Observation("panic in a handler thread (not judged by C15): "+sc.Name, map[string]any{"thread": i, "panic": msg})
					}
				}
				if e.Deadlock {
					r.Observation("deadlock:"+sc.Name, map[string]any{"trace": e.Trace})
				}
				x.judge(w, list, hist, scope, asReplay)
				r.Outcome(sc.Name + ":" + fmt.Sprint(res))
			}
		}
		bound := -1
		if len(sc.Threads) > 2 {
			bound = 3
			if r.Thorough() {
				bound = 4
			}
		}
		o := sched.Options{Bound: bound, Shard: shard, NSh: nsh, SelfCheck: true, MaxSteps: 5000}
		remaining := time.Duration(budget)*time.Second - time.Since(start)
		if remaining < time.Second {
			remaining = time.Second
		}
		o.Deadline = time.Now().Add(remaining / time.Duration(len(scs)-si))
		if replay {
			o.Replay = rc.Schedule
			if o.Replay == nil {
				o.Replay = []int{}
			}
		}
		res := sched.Explore(o, setup)
		for _, e := range res.Errors {
			// never a verdict: a scheduler hiccup (unmanaged goroutine, horizon) only makes the run non-exhaustive
			r.Observation("scheduler machinery: "+sc.Name, e)
			r.NotExhaustive("scheduler machinery error in " + sc.Name)
		}
		if !res.Exhaustive {
			r.NotExhaustive("schedules of " + sc.Name + " not exhausted: " + res.Capped)
		}
		for i := int64(0); i < res.Executions; i++ {
			r.Eval("sched|" + sc.Name + "#" + strconv.FormatInt(int64(shard)*1e9+i, 10))
		}
		r.Transitions(res.Executions)
		r.AddExtra("schedules_executed", res.Executions)
		r.Bound("max_choice_points:"+sc.Name, maxPoints)
		r.Bound("preemption_bound:"+sc.Name, bound)
	}
	r.AddExtra("entitled_deliveries", atomic.LoadInt64(&x.deliver))
}
