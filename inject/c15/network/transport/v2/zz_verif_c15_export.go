//go:build verif

package v2

import (
	"context"
	"errors"

	"github.com/nuts-foundation/nuts-node/network/transport"
	"github.com/nuts-foundation/nuts-node/network/transport/grpc"
)

// VerifPrepare does what Start/Register do for a protocol that is driven synchronously by a harness of another
// package: a conversation manager without its eviction ticker, and the given connection list.
func VerifPrepare(p transport.Protocol, list grpc.ConnectionList) {
	pr := p.(*protocol)
	pr.cMan = newConversationManager(maxValidity)
	pr.connectionList = list
}

// VerifHandleSync calls the real handler body for the envelope's message kind synchronously (Handle would start a
// goroutine per message).
func VerifHandleSync(p transport.Protocol, conn grpc.Connection, env *Envelope) error {
	pr := p.(*protocol)
	var ctx context.Context = pr.ctx
	switch env.Message.(type) {
	case *Envelope_Gossip:
		return pr.handleGossip(ctx, conn, env)
	case *Envelope_State:
		return pr.handleState(ctx, conn, env)
	case *Envelope_TransactionSet:
		return pr.handleTransactionSet(ctx, conn, env)
	case *Envelope_TransactionListQuery:
		return pr.handleTransactionListQuery(ctx, conn, env)
	case *Envelope_TransactionRangeQuery:
		return pr.handleTransactionRangeQuery(ctx, conn, env)
	case *Envelope_TransactionList:
		return pr.handleTransactionList(ctx, conn, env)
	case *Envelope_TransactionPayloadQuery:
		return pr.handleTransactionPayloadQuery(ctx, conn, env)
	case *Envelope_TransactionPayload:
		return pr.handleTransactionPayload(ctx, conn, env)
	case *Envelope_DiagnosticsBroadcast:
		return pr.handleDiagnostics(ctx, conn, env)
	}
	return errors.New("unknown message kind")
}

// VerifStop cancels the protocol's context and closes its private-payload notifier.
func VerifStop(p transport.Protocol) {
	pr := p.(*protocol)
	pr.cancel()
	if pr.privatePayloadReceiver != nil {
		_ = pr.privatePayloadReceiver.Close()
	}
}
