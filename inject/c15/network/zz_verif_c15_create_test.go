//go:build verif

// C15 (creation part) — the statement is about "the payload of a transaction addressed to a participant list", and
// being addressed begins when the transaction is CREATED. Seam: the REAL Network.CreateTransaction → PAL.Encrypt → the
// real resolver.DIDKeyResolver (over a stub DID resolver that serves one document / error per participant kind) → the
// real transaction signer and key store → a real dag.State on bbolt, with the real v2.protocol behind it answering peers.
// Product: every participant list of size 1-3 over participant kinds x every peer kind x every query kind.
// Oracle, evaluated on what was ASKED (the template's participant list, not the header that came out): if creation
// succeeds, the canary payload reaches a peer only in a TransactionPayload envelope, only over an authenticated
// connection whose node DID is on the REQUESTED list, and only if the serving node is on that list. A refused creation
// is always fine.
package network

import (
	"bytes"
	"context"
	"crypto/ecdsa"
	"crypto/ed25519"
	"crypto/elliptic"
	"crypto/rand"
	"crypto/sha256"
	"encoding/hex"
	"errors"
	"fmt"
	"io"
	"os"
	"path/filepath"
	"strings"
	"sync"
	"sync/atomic"
	"testing"
	"time"

	ssi "github.com/nuts-foundation/go-did"
	"github.com/nuts-foundation/go-did/did"
	"github.com/nuts-foundation/go-stoabs"
	"github.com/nuts-foundation/go-stoabs/bbolt"
	"github.com/nuts-foundation/nuts-node/audit"
	"github.com/nuts-foundation/nuts-node/core"
	nutsCrypto "github.com/nuts-foundation/nuts-node/crypto"
	"github.com/nuts-foundation/nuts-node/crypto/hash"
	"github.com/nuts-foundation/nuts-node/network/dag"
	"github.com/nuts-foundation/nuts-node/network/transport"
	"github.com/nuts-foundation/nuts-node/network/transport/grpc"
	v2 "github.com/nuts-foundation/nuts-node/network/transport/v2"
	"github.com/nuts-foundation/nuts-node/vdr/resolver"
	"github.com/sirupsen/logrus"
	"google.golang.org/protobuf/proto"

	"verif/ev"
)

var vc15nV = did.MustParseDID("did:nuts:LocalNodeV")
var vc15nX = did.MustParseDID("did:nuts:UnlistedPeerX")

const vc15nKAK = "did:nuts:LocalNodeV#kak"

var vc15nKinds = []string{"active", "deactivated", "unknown", "no-kak", "resolver-error", "local", "non-ec-key"}

// vc15nDocs is the stub DID resolver: one behaviour per participant kind, encoded in the DID itself.
type vc15nDocs struct {
	vPub    *ecdsa.PublicKey
	partPub *ecdsa.PublicKey
	edPub   ed25519.PublicKey
}

func vc15nKindOf(id did.DID) string {
	if id.Equals(vc15nV) {
		return "local"
	}
	s := id.ID
	if i := strings.Index(s, "X"); i >= 0 { // did:nuts:slot<i>X<kind>
		return s[i+1:]
	}
	return "unknown"
}

func (r vc15nDocs) Resolve(id did.DID, _ *resolver.ResolveMetadata) (*did.Document, *resolver.DocumentMetadata, error) {
	doc := &did.Document{ID: id}
	add := func(key interface{}) error {
		kid := did.DIDURL{DID: id, Fragment: "kak"}
		vm, err := did.NewVerificationMethod(kid, ssi.JsonWebKey2020, id, key)
		if err != nil {
			return err
		}
		doc.KeyAgreement.Add(vm)
		return nil
	}
	switch vc15nKindOf(id) {
	case "local":
		if err := add(r.vPub); err != nil {
			return nil, nil, err
		}
	case "active":
		if err := add(r.partPub); err != nil {
			return nil, nil, err
		}
	case "non-ec-key":
		if err := add(r.edPub); err != nil {
			return nil, nil, err
		}
	case "no-kak":
	case "deactivated":
		return nil, nil, resolver.ErrDeactivated
	case "resolver-error":
		return nil, nil, errors.New("verif: document store unavailable")
	default:
		return nil, nil, resolver.ErrNotFound
	}
	return doc, &resolver.DocumentMetadata{}, nil
}

func vc15nSlotDID(slot int, kind string) did.DID {
	if kind == "local" {
		return vc15nV
	}
	return did.MustParseDID(fmt.Sprintf("did:nuts:slot%dX%s", slot, kind))
}

// vc15nConn: the repository's stub connection with a locked Send (the private-payload notifier has its own goroutine).
type vc15nConn struct {
	*grpc.StubConnection
	mu   sync.Mutex
	sent []*v2.Envelope
}

func (c *vc15nConn) Send(_ grpc.Protocol, envelope interface{}, _ bool) error {
	c.mu.Lock()
	defer c.mu.Unlock()
	c.sent = append(c.sent, proto.Clone(envelope.(*v2.Envelope)).(*v2.Envelope))
	return nil
}

func (c *vc15nConn) take() []*v2.Envelope {
	c.mu.Lock()
	defer c.mu.Unlock()
	out := c.sent
	c.sent = nil
	return out
}

type vc15nConnList struct{ conn *vc15nConn }

func (l *vc15nConnList) Get(query ...grpc.Predicate) grpc.Connection {
	if l.conn == nil {
		return nil
	}
	for _, q := range query {
		if !q.Match(l.conn) {
			return nil
		}
	}
	return l.conn
}
func (l *vc15nConnList) All() []grpc.Connection {
	if l.conn == nil {
		return nil
	}
	return []grpc.Connection{l.conn}
}
func (l *vc15nConnList) AllMatching(_ ...grpc.Predicate) []grpc.Connection { return l.All() }

type vc15nReplay struct {
	Participants []string `json:"participants"` // kinds, by slot
	Peer         string   `json:"peer"`
	Auth         bool     `json:"auth"`
	Probe        string   `json:"probe"`
}

var vc15nCounter int64

func TestVerifC15Creation(t *testing.T) {
	logrus.SetOutput(io.Discard)
	logrus.SetLevel(logrus.PanicLevel)
	r := ev.Start(t, "C15")
	defer r.Finish()
	var rc vc15nReplay
	replaying := r.ReplayCase(&rc)
	if replaying && len(rc.Participants) == 0 {
		return
	}
	if !replaying && os.Getenv("VERIF_REPLAY") != "" {
		return
	}
	dir, err := os.MkdirTemp("", "c15n")
	if err != nil {
		t.Fatal(err)
	}
	defer os.RemoveAll(dir)

	// fixed keys per run; the audit logger is created on first use with the os.Stderr of that moment: point it at /dev/null
	null, _ := os.OpenFile(os.DevNull, os.O_WRONLY, 0)
	oldStderr := os.Stderr
	if null != nil {
		os.Stderr = null
	}
	ks := nutsCrypto.NewMemoryCryptoInstance(t)
	ctx := audit.TestContext()
	_, signPub, err := ks.New(ctx, nutsCrypto.StringNamingFunc("signing-key"))
	if err != nil {
		t.Fatal(err)
	}
	_, vPubRaw, err := ks.New(ctx, nutsCrypto.StringNamingFunc(vc15nKAK))
	if err != nil {
		t.Fatal(err)
	}
	os.Stderr = oldStderr
	partKey, _ := ecdsa.GenerateKey(elliptic.P256(), rand.Reader)
	edPub, _, _ := ed25519.GenerateKey(rand.Reader)
	docs := vc15nDocs{vPub: vPubRaw.(*ecdsa.PublicKey), partPub: &partKey.PublicKey, edPub: edPub}
	h := sha256.Sum256([]byte(fmt.Sprintf("c15-creation-%d", r.Seed())))
	canary := []byte("VERIF-C15-CREATED-CANARY-" + hex.EncodeToString(h[:]))

	r.Rule("creation part: every participant list of size 1-3 (ordered, full product) over participant kinds {active with keyAgreement key, deactivated, unknown DID, " +
		"no keyAgreement key, resolver error, the local node itself, keyAgreement key that is not an EC key}; a transaction with the canary payload is created for each list through " +
		"the real Network.CreateTransaction; then every peer kind (node DID of each listed slot / an unlisted DID / none) x {authenticated, not} sends every query kind (payload query, " +
		"list query, range query, state, gossip) addressed at it to the real v2 handlers. A case is (list, peer, query); non-trivial when creation succeeded.")

	var lists [][]string
	var rec func(prefix []string)
	rec = func(prefix []string) {
		if len(prefix) > 0 {
			lists = append(lists, append([]string{}, prefix...))
		}
		if len(prefix) == 3 {
			return
		}
		for _, k := range vc15nKinds {
			rec(append(prefix, k))
		}
	}
	rec(nil)
	if replaying {
		lists = [][]string{rc.Participants}
	}
	r.Bound("participant_lists", len(lists))
	r.Bound("participant_kinds", vc15nKinds)
	honestSeen := false
	// every worker also runs the plain honest list, so that its vacuity guard is exercised whatever the sharding
	honestIdx := -1
	for i, l := range lists {
		if len(l) == 2 && l[0] == "local" && l[1] == "active" {
			honestIdx = i
		}
	}
	for li, kinds := range lists {
		if !replaying && !r.Mine(li) && li != honestIdx {
			continue
		}
		if r.Expired() {
			break
		}
		func() {
			// --- fresh node ------------------------------------------------------------------------------------------------
			path := filepath.Join(dir, fmt.Sprintf("n%d.db", atomic.AddInt64(&vc15nCounter, 1)))
			db, err := bbolt.CreateBBoltStore(path, stoabs.WithNoSync(), stoabs.WithLockAcquireTimeout(time.Hour))
			if err != nil {
				t.Fatal(err)
			}
			state, err := dag.NewState(db, dag.NewPrevTransactionsVerifier(), dag.NewTransactionSignatureVerifier(nil))
			if err != nil {
				t.Fatal(err)
			}
			if err := state.Configure(core.ServerConfig{}); err != nil {
				t.Fatal(err)
			}
			cfg := v2.Config{GossipInterval: 3600 * 1000, DiagnosticsInterval: 0, PayloadRetryDelay: time.Hour}
			prot := v2.New(cfg, vc15nV, state, docs, ks, func() transport.Diagnostics { return transport.Diagnostics{} }, db)
			if err := prot.Configure("V"); err != nil {
				t.Fatal(err)
			}
			connList := &vc15nConnList{}
			v2.VerifPrepare(prot, connList)
			defer func() {
				v2.VerifStop(prot)
				_ = state.Shutdown()
				_ = db.Close(context.Background())
				_ = os.Remove(path)
			}()
			n := &Network{state: state, keyStore: ks, keyResolver: resolver.DIDKeyResolver{Resolver: docs}, nodeDID: vc15nV, protocols: []transport.Protocol{prot}}

			// a public root first, then the addressed transaction
			if _, err := n.CreateTransaction(ctx, TransactionTemplate("application/verif+json", []byte("verif-c15 public root"), "signing-key").WithAttachKey(signPub)); err != nil {
				t.Fatalf("creating the public root: %v", err)
			}
			var participants []did.DID
			for slot, k := range kinds {
				participants = append(participants, vc15nSlotDID(slot, k))
			}
			tx, err := n.CreateTransaction(ctx, TransactionTemplate("application/verif+json", canary, "signing-key").WithAttachKey(signPub).WithPrivate(participants))
			if err != nil {
				r.Outcome("creation refused: " + vc15nErrClass(err))
				r.Eval("")
				return
			}
			header := "pal-header"
			if len(tx.PAL()) == 0 {
				header = "no-pal-header"
			} else if len(tx.PAL()) != len(participants) {
				r.Observation("created with fewer cipher texts than participants", map[string]any{"participants": kinds, "ciphertexts": len(tx.PAL())})
			}
			r.Outcome("created " + header)
			localListed := false
			for _, k := range kinds {
				localListed = localListed || k == "local"
			}

			// --- peers x queries ---------------------------------------------------------------------------------------------
			type peerKind struct {
				name   string
				id     did.DID
				listed bool
			}
			peers := []peerKind{{name: "unlisted", id: vc15nX}, {name: "anonymous"}}
			for slot, k := range kinds {
				if k != "local" {
					peers = append(peers, peerKind{name: fmt.Sprintf("slot%d:%s", slot, k), id: vc15nSlotDID(slot, k), listed: true})
				}
			}
			ref := tx.Ref().Slice()
			other := hash.SHA256Sum([]byte("some other xor")).Slice()
			probes := []struct {
				name string
				env  *v2.Envelope
			}{
				{"payload-query", &v2.Envelope{Message: &v2.Envelope_TransactionPayloadQuery{TransactionPayloadQuery: &v2.TransactionPayloadQuery{TransactionRef: ref}}}},
				{"list-query", &v2.Envelope{Message: &v2.Envelope_TransactionListQuery{TransactionListQuery: &v2.TransactionListQuery{ConversationID: []byte("c-1"), Refs: [][]byte{ref}}}}},
				{"range-query", &v2.Envelope{Message: &v2.Envelope_TransactionRangeQuery{TransactionRangeQuery: &v2.TransactionRangeQuery{ConversationID: []byte("c-2"), Start: 0, End: 100}}}},
				{"state", &v2.Envelope{Message: &v2.Envelope_State{State: &v2.State{ConversationID: []byte("c-3"), XOR: other, LC: dag.MaxLamportClock}}}},
				{"gossip", &v2.Envelope{Message: &v2.Envelope_Gossip{Gossip: &v2.Gossip{XOR: other, LC: tx.Clock(), Transactions: [][]byte{ref}}}}},
			}
			for _, pk := range peers {
				for _, auth := range []bool{true, false} {
					if replaying && (rc.Peer != pk.name || rc.Auth != auth) {
						continue
					}
					peer := transport.Peer{ID: "peer", Address: "peer.test:5555", NodeDID: pk.id, Authenticated: auth}
					conn := &vc15nConn{StubConnection: grpc.NewStubConnection(peer)}
					connList.conn = conn
					for _, p := range probes {
						if replaying && rc.Probe != p.name {
							continue
						}
						raw, _ := proto.Marshal(p.env)
						in := &v2.Envelope{}
						if err := proto.Unmarshal(raw, in); err != nil {
							t.Fatal(err)
						}
						herr := v2.VerifHandleSync(prot, conn, in)
						r.Outcome(p.name + " -> " + vc15nErrClass(herr))
						r.Eval(fmt.Sprintf("%v|%s|%v|%s", kinds, pk.name, auth, p.name))
						got := false
						for _, env := range conn.take() {
							out, _ := proto.Marshal(env)
							if !bytes.Contains(out, canary) {
								continue
							}
							got = true
							kind := strings.TrimPrefix(fmt.Sprintf("%T", env.Message), "*v2.Envelope_")
							var why []string
							if kind != "TransactionPayload" {
								why = append(why, "in-"+kind)
							}
							if !auth {
								why = append(why, "dest-unauthenticated")
							}
							if !pk.listed {
								why = append(why, "dest-not-on-requested-list")
							}
							if !localListed {
								why = append(why, "local-not-on-requested-list")
							}
							if len(why) == 0 {
								r.Outcome("payload sent to an entitled peer (" + p.name + ")")
								continue
							}
							r.Violation(fmt.Sprintf("C15|creation|%s|%s+%s", p.name, header, strings.Join(why, "+")),
								fmt.Sprintf("payload of a transaction created for participants %v (%s) left the node in a %s envelope in answer to %s from peer %s authenticated=%v: %s",
									kinds, header, kind, p.name, pk.name, auth, strings.Join(why, ", ")),
								vc15nReplay{Participants: kinds, Peer: pk.name, Auth: auth, Probe: p.name})
						}
						// vacuity guard (converse, never an alarm): a listed active peer on an authenticated connection gets the payload
						// from a node that is on the list itself
						if p.name == "payload-query" && localListed && pk.listed && auth && strings.HasSuffix(pk.name, ":active") {
							if !got {
								t.Fatalf("vacuity: entitled peer %s did not receive the payload of the transaction created for %v", pk.name, kinds)
							}
							honestSeen = true
						}
					}
				}
			}
		}()
	}
	if !replaying && !honestSeen && !r.Expired() {
		t.Fatalf("vacuity: no case in which an entitled peer received the payload")
	}
}

func vc15nErrClass(err error) string {
	if err == nil {
		return "ok"
	}
	s := err.Error()
	// keep the chain of wrapped messages but drop identifiers
	if i := strings.Index(s, "(recipient="); i > 0 {
		j := strings.Index(s[i:], ")")
		if j > 0 {
			s = s[:i] + s[i+j+1:]
		}
	}
	if len(s) > 120 {
		s = s[:120]
	}
	return s
}
