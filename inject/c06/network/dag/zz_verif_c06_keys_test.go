//go:build verif

// C06 part (e) — KEYS: key-id signed transactions judged against the signer's DID-document history as of the referenced
// transactions, on the REAL key resolution path: dag.SourceTXKeyResolver over a real did:nuts store (didstore on bbolt).
//
// Explicit-state search over DID-document histories: two DIDs; every document version is a real DAG transaction (create:
// embedded key; update: signed by key id with a key of the version it is based on and referring to it) that is offered to the real
// State.Add and — once admitted — handed to the real DID store the way the VDR ambassador does (document + transaction
// reference, clock, prevs, signing time), so that the store's source transactions are the DAG's references. Document contents
// range over {key 1; key 1 + key 2; key 2 only; same key id with other key material; deactivated}, bases over EVERY present
// version of the DID (forks: parallel updates that the store merges; thorough: an update that joins two heads).
// In EVERY reachable state the whole candidate menu is offered to the real ParseTransaction + State.Add:
//   signer key  in  every key material that ever appears in any version of either DID + a never-listed key
//   key id      in  {DID 1, DID 2} x {every fragment of either DID, an unknown fragment, no fragment}
//   prevs       in  every ordered tuple (size <= 2) of present transactions (root, versions of DID 1, versions of DID 2) + none
//   clock       =   1 + max clock(prevs)            (+ a few with the embedded key AND the key id)
// and compared in lock-step with the reference admission model whose key clause is evaluated on the documents AS PUBLISHED:
// admitted => one of the referenced transactions published a version of the DID named by the key id in which that exact key
// id denotes a key under which the signature verifies. (A key that is only in a version published by a transaction
// CONCURRENT with the referenced one is admitted with a note: the DID store merges parallel versions.)
package dag

import (
	"context"
	"crypto"
	"crypto/elliptic"
	"crypto/sha256"
	"encoding/hex"
	"encoding/json"
	"fmt"
	"io"
	"os"
	"path/filepath"
	"sort"
	"strings"
	"testing"
	"time"

	"github.com/nuts-foundation/go-did/did"
	"github.com/nuts-foundation/go-stoabs"
	stoabsbbolt "github.com/nuts-foundation/go-stoabs/bbolt"
	"github.com/nuts-foundation/nuts-node/core"
	"github.com/nuts-foundation/nuts-node/storage"
	"github.com/nuts-foundation/nuts-node/vdr/didnuts/didstore"
	"github.com/sirupsen/logrus"

	"verif/ev"
)

// ---------------------------------------------------------------- universe

var vc06KDIDs = []string{"did:nuts:verifD1", "did:nuts:verifD2"}

// fragments and key materials per DID (index 0 / 1)
var vc06KFrags = [][]string{{"a1", "a2"}, {"b1", "b2"}}
var vc06KMats = [][]string{{"KA1", "KA2"}, {"KB1", "KB2"}}

const vc06KNever = "KN" // a key that is never listed in any document
const vc06KRootKey = "KX"

// vc06KEntry: one verification method of a document version.
type vc06KEntry struct {
	Frag   int  // index into the DID's fragments
	Mat    int  // index into the DID's key materials
	CapInv bool // listed under capabilityInvocation (else: assertionMethod only)
}

// document contents (the same alphabet for both DIDs)
var vc06KContents = map[string][]vc06KEntry{
	"c1":  {{0, 0, true}},
	"c12": {{0, 0, true}, {1, 1, false}}, // the second key is added for assertions only
	"c2":  {{1, 1, true}},
	"cr":  {{0, 1, true}}, // the SAME key id, other key material (rotation in place)
	"c0":  {},             // deactivated: no keys, no controller
}
var vc06KContentOrder = []string{"c12", "c2", "cr", "c0", "c1"}

// vc06KDocEv is one DID-document transaction.
type vc06KDocEv struct {
	DID     int      // 0 | 1
	Content string   // key of vc06KContents
	Bases   []string // names of the transactions referred to: ["R"] for a create, one version (or two heads) of the same DID for an update
}

func (e vc06KDocEv) name() string {
	return fmt.Sprintf("D%d.%s(%s)", e.DID+1, e.Content, strings.Join(e.Bases, ","))
}

// vc06KCand is one candidate transaction.
type vc06KCand struct {
	Signer string   // key material that really signs
	Kid    string   // key id as sent
	Prevs  []string // names of the referenced transactions, in the order sent
	Var    string   // "" | jwk+kid
}

func (c vc06KCand) name() string {
	n := "cand[" + c.Signer + "|" + c.Kid + "|" + strings.Join(c.Prevs, ",") + "]"
	if c.Var != "" {
		n += "/" + c.Var
	}
	return n
}

type vc06KDoc struct {
	did     string
	didIdx  int
	content string
	keys    map[string]crypto.PublicKey // full verification method id -> key
	bases   []string
}

type vc06KUniverse struct {
	env     *vc06Env
	bytes   map[string][]byte
	payload map[string][]byte
	refHex  map[string]string
	clock   map[string]int
	docs    map[vc06Ref]*vc06KDoc
	docName map[string]*vc06KDoc
	byRef   map[vc06Ref]string
}

func vc06KNewUniverse() *vc06KUniverse {
	ring := vc06Ring()
	if ring.byName("KA1") == nil {
		for _, n := range []string{"KA1", "KA2", "KB1", "KB2", vc06KNever, vc06KRootKey} {
			ring.all = append(ring.all, vc06ECKey(n, "ES256", elliptic.P256()))
		}
	}
	u := &vc06KUniverse{env: &vc06Env{}, bytes: map[string][]byte{}, payload: map[string][]byte{}, refHex: map[string]string{}, clock: map[string]int{},
		docs: map[vc06Ref]*vc06KDoc{}, docName: map[string]*vc06KDoc{}, byRef: map[vc06Ref]string{}}
	u.env.keysAsOf = u.keysAsOf
	// the root: an unrelated transaction with an embedded key
	k := ring.byName(vc06KRootKey)
	p, ph := vc06PayloadFor("R")
	h := map[string]any{"alg": k.Alg, "cty": "application/x-verif+json", "crit": []string{"sigt", "ver", "prevs", "lc"}, "sigt": 1700000000, "ver": 2,
		"prevs": []string{}, "lc": 0, "jwk": k.pubJWK}
	u.put("R", vc06Spec{HdrJSON: vc06HdrJSON(h), PayloadSeg: ph, Key: k.Name, SignAlg: k.Alg}.bytes(), p, 0)
	return u
}

func (u *vc06KUniverse) put(name string, b, payload []byte, lc int) {
	u.bytes[name], u.payload[name], u.clock[name] = b, payload, lc
	u.refHex[name] = vc06HexRef(b)
	u.byRef[vc06MustRef(u.refHex[name])] = name
}

func vc06KDocJSON(d int, content string) []byte {
	ring := vc06Ring()
	id := vc06KDIDs[d]
	doc := map[string]any{"@context": []any{"https://www.w3.org/ns/did/v1"}, "id": id}
	var vms, capInv, assertion []any
	for _, e := range vc06KContents[content] {
		vmID := id + "#" + vc06KFrags[d][e.Frag]
		vms = append(vms, map[string]any{"id": vmID, "type": "JsonWebKey2020", "controller": id, "publicKeyJwk": ring.byName(vc06KMats[d][e.Mat]).pubJWK})
		if e.CapInv {
			capInv = append(capInv, vmID)
		}
		assertion = append(assertion, vmID)
	}
	if len(vms) > 0 {
		doc["verificationMethod"], doc["assertionMethod"] = vms, assertion
	}
	if len(capInv) > 0 {
		doc["capabilityInvocation"] = capInv
	}
	b, err := json.Marshal(doc)
	if err != nil {
		panic(err)
	}
	return b
}

// makeDoc creates (once per process) the transaction that publishes a document version. The bases must exist.
func (u *vc06KUniverse) makeDoc(e vc06KDocEv) []byte {
	name := e.name()
	if b, ok := u.bytes[name]; ok {
		return b
	}
	ring := vc06Ring()
	lc := 0
	var prevs []string
	for _, bn := range e.Bases {
		if _, ok := u.bytes[bn]; !ok {
			panic("base " + bn + " of " + name + " does not exist")
		}
		if c := u.clock[bn] + 1; c > lc {
			lc = c
		}
		prevs = append(prevs, u.refHex[bn])
	}
	payload := vc06KDocJSON(e.DID, e.Content)
	phb := sha256.Sum256(payload)
	h := map[string]any{"alg": "ES256", "cty": "application/did+json", "crit": []string{"sigt", "ver", "prevs", "lc"}, "sigt": 1700000000, "ver": 2,
		"prevs": prevs, "lc": lc}
	var signer *vc06Key
	if base := u.docName[e.Bases[0]]; base == nil {
		// create: embedded key = the first key of the document
		signer = ring.byName(vc06KMats[e.DID][vc06KContents[e.Content][0].Mat])
		h["jwk"] = signer.pubJWK
	} else {
		// update: signed by key id with the first controlling key of the version it is based on
		var ce *vc06KEntry
		for i := range vc06KContents[base.content] {
			if c := vc06KContents[base.content][i]; c.CapInv {
				ce = &c
				break
			}
		}
		if ce == nil {
			panic("no controlling key in " + e.Bases[0])
		}
		signer = ring.byName(vc06KMats[e.DID][ce.Mat])
		h["kid"] = vc06KDIDs[e.DID] + "#" + vc06KFrags[e.DID][ce.Frag]
	}
	b := vc06Spec{HdrJSON: vc06HdrJSON(h), PayloadSeg: hex.EncodeToString(phb[:]), Key: signer.Name, SignAlg: signer.Alg}.bytes()
	u.put(name, b, payload, lc)
	d := &vc06KDoc{did: vc06KDIDs[e.DID], didIdx: e.DID, content: e.Content, keys: map[string]crypto.PublicKey{}, bases: e.Bases}
	for _, c := range vc06KContents[e.Content] {
		d.keys[d.did+"#"+vc06KFrags[e.DID][c.Frag]] = ring.byName(vc06KMats[e.DID][c.Mat]).pub
	}
	u.docs[vc06MustRef(u.refHex[name])] = d
	u.docName[name] = d
	return b
}

// makeCand signs a candidate (not cached: the ECDSA signature differs per call, the name identifies the case).
func (u *vc06KUniverse) makeCand(c vc06KCand) []byte {
	ring := vc06Ring()
	k := ring.byName(c.Signer)
	lc := 0
	prevs := []string{}
	for _, p := range c.Prevs {
		if cl := u.clock[p] + 1; cl > lc {
			lc = cl
		}
		prevs = append(prevs, u.refHex[p])
	}
	h := map[string]any{"alg": k.Alg, "cty": "application/x-verif+json", "crit": []string{"sigt", "ver", "prevs", "lc"}, "sigt": 1700000000, "ver": 2,
		"prevs": prevs, "lc": lc, "kid": c.Kid}
	if c.Var == "jwk+kid" {
		h["jwk"] = k.pubJWK
	}
	_, ph := vc06PayloadFor(c.name())
	return vc06Spec{HdrJSON: vc06HdrJSON(h), PayloadSeg: ph, Key: k.Name, SignAlg: k.Alg}.bytes()
}

// ---------------------------------------------------------------- reference: the key a key id denotes as of the prevs

func vc06KAncestor(m *vc06Model, anc, of vc06Ref) bool {
	seen := map[vc06Ref]bool{}
	stack := []vc06Ref{of}
	for len(stack) > 0 {
		x := stack[len(stack)-1]
		stack = stack[:len(stack)-1]
		t, ok := m.txs[x]
		if !ok {
			continue
		}
		for _, p := range t.prevs {
			if p == anc {
				return true
			}
			if !seen[p] {
				seen[p] = true
				stack = append(stack, p)
			}
		}
	}
	return false
}

func vc06KDIDOf(kid string) string {
	if i := strings.IndexByte(kid, '#'); i >= 0 {
		return kid[:i]
	}
	return kid
}

// vc06KNormKid drops what a liberal reader of key ids might ignore: a path / query between the DID and the fragment, and
// anything after a second '#'.
func vc06KNormKid(kid string) string {
	i := strings.IndexByte(kid, '#')
	if i < 0 {
		return kid
	}
	d, f := kid[:i], kid[i+1:]
	if j := strings.IndexAny(d, "/?"); j >= 0 {
		d = d[:j]
	}
	if j := strings.IndexByte(f, '#'); j >= 0 {
		f = f[:j]
	}
	return d + "#" + f
}

const (
	vc06KNoteMerged  = "kid-key-only-in-concurrent-document-version"
	vc06KNoteLiberal = "kid-liberal-form"
)

// keysAsOf: strict keys first (the exact key id in the version a referenced transaction published), then the noted ones.
func (u *vc06KUniverse) keysAsOf(m *vc06Model, kid string, prevs []vc06Ref) []vc06KeyAsOf {
	var strict, noted []vc06KeyAsOf
	forms := []string{kid}
	if n := vc06KNormKid(kid); n != kid {
		forms = append(forms, n)
	}
	for fi, form := range forms {
		didPart := vc06KDIDOf(form)
		var others []vc06Ref // every present transaction that published a version of the DID, in a fixed order
		for r, d := range u.docs {
			if _, present := m.txs[r]; present && d.did == didPart {
				others = append(others, r)
			}
		}
		sort.Slice(others, func(i, j int) bool { return hex.EncodeToString(others[i][:]) < hex.EncodeToString(others[j][:]) })
		for _, p := range prevs {
			d := u.docs[p]
			if d == nil || d.did != didPart {
				continue
			}
			if _, present := m.txs[p]; !present {
				continue
			}
			if k, ok := d.keys[form]; ok {
				if fi == 0 {
					strict = append(strict, vc06KeyAsOf{pub: k})
				} else {
					noted = append(noted, vc06KeyAsOf{pub: k, note: vc06KNoteLiberal})
				}
			}
			for _, q := range others {
				if q == p || vc06KAncestor(m, q, p) || vc06KAncestor(m, p, q) {
					continue
				}
				if k, ok := u.docs[q].keys[form]; ok {
					noted = append(noted, vc06KeyAsOf{pub: k, note: vc06KNoteMerged})
				}
			}
		}
	}
	return append(strict, noted...)
}

// anchorClass names how the candidate is anchored to the document history of the DID its key id names (for the signature).
func (u *vc06KUniverse) anchorClass(c vc06KCand) string {
	kid := vc06KNormKid(c.Kid)
	didPart := vc06KDIDOf(kid)
	own, other, withKey, active := 0, 0, 0, 0
	for _, p := range c.Prevs {
		d := u.docName[p]
		switch {
		case d == nil:
		case d.did != didPart:
			other++
		default:
			own++
			if _, ok := d.keys[kid]; ok {
				withKey++
			}
			if len(d.keys) > 0 {
				active++
			}
		}
	}
	switch {
	case own == 0 && other > 0:
		return "anchored-at-another-did-only"
	case own == 0:
		return "not-anchored-at-any-document-version"
	case withKey > 0:
		return "anchored-at-version-with-key"
	case active == 0:
		return "anchored-at-deactivated-version"
	}
	return "anchored-at-version-without-key"
}

// ---------------------------------------------------------------- real instance: DAG + DID store + real resolver

type vc06KInst struct {
	in     *vc06Inst
	sdir   string
	skv    stoabs.KVStore
	store  didstore.Store
	nAdmit int
}

func vc06KNewInst(u *vc06KUniverse) *vc06KInst {
	dir, err := os.MkdirTemp("", "vc06k-")
	if err != nil {
		panic(err)
	}
	kv, err := stoabsbbolt.CreateBBoltStore(filepath.Join(dir, "didstore.db"), stoabs.WithNoSync(), stoabs.WithLockAcquireTimeout(time.Hour))
	if err != nil {
		panic(err)
	}
	s := didstore.New(&storage.StaticKVStoreProvider{Store: kv})
	if err := s.(core.Configurable).Configure(core.ServerConfig{}); err != nil {
		panic(err)
	}
	k := &vc06KInst{sdir: dir, skv: kv, store: s}
	k.in = vc06NewInstRes(u.env, vc06HistSubs, nil, SourceTXKeyResolver{Resolver: s})
	return k
}

func (k *vc06KInst) close() {
	k.in.close()
	_ = k.skv.Close(context.Background())
	_ = os.RemoveAll(k.sdir)
}

// build replays the root and the document history on a fresh instance; every admitted document transaction is handed to
// the DID store (what the VDR ambassador does after the DAG admitted it). Returns "" or why the state could not be built.
func (u *vc06KUniverse) build(hist []vc06KDocEv) (*vc06KInst, []vc06Problem, string) {
	k := vc06KNewInst(u)
	var problems []vc06Problem
	if o := k.in.offer(u.bytes["R"], u.payload["R"], true, false); !o.Admitted {
		return k, nil, fmt.Sprintf("root not admitted: %+v", o)
	}
	for _, e := range hist {
		b := u.makeDoc(e)
		o := k.in.offer(b, u.payload[e.name()], true, true)
		if k.in.poisoned {
			return k, append(problems, vc06Problem{"panic", o.Panic}), "panic"
		}
		problems = append(problems, o.Problems...)
		if !o.Admitted {
			return k, problems, fmt.Sprintf("document transaction %s not admitted (parse=%q add=%q model=%+v)", e.name(), o.ParseErr, o.AddErr, o.V)
		}
		tx, err := ParseTransaction(b)
		if err != nil {
			return k, problems, err.Error()
		}
		var doc did.Document
		if err := json.Unmarshal(u.payload[e.name()], &doc); err != nil {
			return k, problems, "document does not parse: " + err.Error()
		}
		if err := k.store.Add(doc, didstore.Transaction{Clock: tx.Clock(), PayloadHash: tx.PayloadHash(), Previous: tx.Previous(), Ref: tx.Ref(), SigningTime: tx.SigningTime()}); err != nil {
			return k, problems, "DID store refused " + e.name() + ": " + err.Error()
		}
	}
	k.in.lazy = true
	return k, problems, ""
}

// ---------------------------------------------------------------- state space

type vc06KNode struct {
	hist  []vc06KDocEv
	names []string // names of the document transactions, in history order
}

func vc06KCanon(names []string) string {
	c := append([]string{}, names...)
	sort.Strings(c)
	return strings.Join(c, ";")
}

// successors lists the document transactions that extend the state (every one is honestly built, so the model admits it).
func (u *vc06KUniverse) successors(n vc06KNode, max [2]int, join bool) []vc06KDocEv {
	var out []vc06KDocEv
	has := map[string]bool{}
	for _, nm := range n.names {
		has[nm] = true
	}
	for d := 0; d < 2; d++ {
		var mine []string
		for _, nm := range n.names {
			if u.docName[nm].didIdx == d {
				mine = append(mine, nm)
			}
		}
		if len(mine) >= max[d] {
			continue
		}
		if len(mine) == 0 {
			out = append(out, vc06KDocEv{DID: d, Content: "c1", Bases: []string{"R"}})
			continue
		}
		controlled := func(nm string) bool {
			for _, c := range vc06KContents[u.docName[nm].content] {
				if c.CapInv {
					return true
				}
			}
			return false
		}
		for _, base := range mine {
			if !controlled(base) {
				continue // nobody can sign an update of a deactivated version
			}
			for _, c := range vc06KContentOrder {
				if c == u.docName[base].content {
					continue
				}
				out = append(out, vc06KDocEv{DID: d, Content: c, Bases: []string{base}})
			}
		}
		if join {
			// an update that refers to two heads (versions nobody of the DID refers to yet) and so resolves the fork
			isBase := map[string]bool{}
			for _, nm := range mine {
				for _, b := range u.docName[nm].bases {
					isBase[b] = true
				}
			}
			var heads []string
			for _, nm := range mine {
				if !isBase[nm] && controlled(nm) {
					heads = append(heads, nm)
				}
			}
			for i := 0; i < len(heads); i++ {
				for j := 0; j < len(heads); j++ {
					if i == j {
						continue
					}
					for _, c := range []string{"c12", "c2"} {
						out = append(out, vc06KDocEv{DID: d, Content: c, Bases: []string{heads[i], heads[j]}})
					}
				}
			}
		}
	}
	dedup := out[:0]
	for _, e := range out {
		if !has[e.name()] {
			has[e.name()] = true
			dedup = append(dedup, e)
		}
	}
	return dedup
}

var vc06KSigners = []string{"KA1", "KA2", "KB1", "KB2", vc06KNever}

func vc06KKids() []string {
	var kids []string
	for _, d := range vc06KDIDs {
		for _, fr := range vc06KFrags {
			for _, f := range fr {
				kids = append(kids, d+"#"+f)
			}
		}
		kids = append(kids, d+"#zz", d)
	}
	// other spellings of the key id DID 1 # fragment 1 (admitted => observation: the statement does not say how key ids are compared)
	d, f := vc06KDIDs[0], vc06KFrags[0][0]
	kids = append(kids, d+"?versionId=1#"+f, d+"/path#"+f, d+"#"+f+"#x", "did:nuts:VERIFD1#"+f, d+"#")
	return kids
}

// menu: every candidate offered in the state that holds the root and the named document transactions.
func vc06KMenu(names []string) []vc06KCand {
	present := append([]string{"R"}, names...)
	tuples := append([][]string{{}}, vc06Tuples(present, 2, true)...)
	kids := vc06KKids()
	var out []vc06KCand
	for _, p := range tuples {
		for _, kid := range kids {
			for _, s := range vc06KSigners {
				out = append(out, vc06KCand{Signer: s, Kid: kid, Prevs: p})
			}
		}
	}
	// the embedded key AND a key id (anchored at the newest transaction)
	last := []string{present[len(present)-1]}
	for _, kid := range kids {
		for _, s := range vc06KSigners {
			out = append(out, vc06KCand{Signer: s, Kid: kid, Prevs: last, Var: "jwk+kid"})
		}
	}
	return out
}

// honest tells whether the candidate is one that every correct node must admit here (vacuity guard): the history of the DID is a
// chain, the candidate refers to its newest version only, that version is active, lists the key id and the signer holds that key.
func (u *vc06KUniverse) honest(names []string, c vc06KCand) bool {
	if c.Var != "" || len(c.Prevs) != 1 {
		return false
	}
	d := u.docName[c.Prevs[0]]
	if d == nil || d.did != vc06KDIDOf(c.Kid) {
		return false
	}
	k, ok := d.keys[c.Kid]
	if !ok || k != vc06Ring().byName(c.Signer).pub {
		return false
	}
	based := map[string]int{}
	for _, nm := range names {
		o := u.docName[nm]
		if o.didIdx != d.didIdx {
			continue
		}
		if len(o.bases) != 1 {
			return false
		}
		based[o.bases[0]]++
	}
	for _, n := range based {
		if n > 1 {
			return false // a fork
		}
	}
	capInv := false
	for _, e := range vc06KContents[d.content] {
		capInv = capInv || e.CapInv
	}
	return capInv && based[c.Prevs[0]] == 0 // active and the newest version
}

type vc06KeysCase struct {
	History []vc06KDocEv
	Cand    vc06KCand
}

const vc06KRebuildAfter = 16 // admitted candidates after which the instance is rebuilt (keeps the byte-level dump small)

func TestVerifC06Keys(t *testing.T) {
	logrus.SetOutput(io.Discard)
	logrus.SetLevel(logrus.PanicLevel)
	r := ev.Start(t, "C06")
	defer r.Finish()
	max, join := [2]int{3, 1}, false
	if r.Thorough() {
		max, join = [2]int{4, 2}, true
	}
	if v := os.Getenv("VERIF_C06_KEYBOUNDS"); v != "" {
		fmt.Sscanf(v, "%d,%d,%t", &max[0], &max[1], &join)
	}
	r.Rule("keys: explicit-state BFS over DID-document histories of two DIDs on the real dag.State with the REAL dag.SourceTXKeyResolver over a real did:nuts store (bbolt): every version is a DAG transaction " +
		"(create with embedded key; update by key id with a key of the version it is based on), admitted by State.Add and then handed to the DID store as the VDR ambassador does; contents {key 1; key 1 + key 2 (assertion only); key 2 only; " +
		"same key id with other key material; deactivated} x base = every present active version of the DID (parallel updates are merged by the store; thorough: updates joining two heads). In every state the whole candidate menu is offered: " +
		"signer key in {every key material of either DID, a never-listed key} x key id in {DID 1, DID 2} x {every fragment of either DID, unknown fragment, no fragment} x prevs in every ordered tuple (size <= 2) of present transactions and none, " +
		"clock consistent, + embedded key together with a key id; lock-step with the reference model whose key clause reads the documents as published: admitted => a referenced transaction published a version of the DID the key id names " +
		"in which exactly that key id denotes a key that verifies the signature; everything else (stored set, clock index, digests, subscriber log, byte-level dump after a refusal) as in the histories part. A case = (state, candidate)")
	r.Bound("max_versions_did1", max[0])
	r.Bound("max_versions_did2", max[1])
	r.Bound("joining_updates", join)
	r.Bound("max_prevs_of_candidate", 2)
	r.Assume("the DID store is fed with exactly the document transactions the DAG admitted, in admission order (the VDR ambassador's own validation of documents is C09's subject)")
	u := vc06KNewUniverse()
	report := func(hist []vc06KDocEv, c *vc06KCand, ps []vc06Problem) {
		var hs []string
		for _, e := range hist {
			hs = append(hs, e.name())
		}
		rc := vc06KeysCase{History: hist}
		where := " [document history " + strings.Join(hs, " ; ") + "]"
		cls := ""
		if c != nil {
			rc.Cand = *c
			where = " [candidate " + c.name() + "; document history " + strings.Join(hs, " ; ") + "]"
			cls = "|" + u.anchorClass(*c)
		}
		for _, p := range ps {
			sig := "C06|keys|" + p.Sig
			if strings.HasPrefix(p.Sig, "admitted-not-valid|") {
				sig += cls
			}
			r.Violation(sig, p.What+where, rc)
		}
	}
	var rc vc06KeysCase
	if os.Getenv("VERIF_REPLAY") != "" {
		if !r.ReplayCase(&rc) {
			return // the replay file belongs to another part
		}
		for _, e := range rc.History {
			u.makeDoc(e)
		}
		k, ps, why := u.build(rc.History)
		defer k.close()
		report(rc.History, nil, ps)
		if why != "" {
			t.Logf("replay: state not built: %s", why)
			return
		}
		if rc.Cand.Signer != "" {
			o := k.in.offer(u.makeCand(rc.Cand), nil, false, true)
			t.Logf("replay: %s -> admitted=%v parse=%q add=%q model=%+v", rc.Cand.name(), o.Admitted, o.ParseErr, o.AddErr, o.V)
			report(rc.History, &rc.Cand, o.Problems)
		}
		return
	}
	shard, nsh := r.Shard()
	frontier := []vc06KNode{{}}
	seen := map[string]bool{"": true}
	stateNo := 0
	var states, transitions, admitted, refused, honestSeen int64
	exhaustive := true
	maxDepth := 0
	anchorSeen := map[string]bool{}
	var dryMenu int64
	defer func() { t.Logf("DRY states=%d offers=%d", stateNo, dryMenu) }()
	for depth := 0; depth <= max[0]+max[1] && len(frontier) > 0 && exhaustive; depth++ {
		var next []vc06KNode
		for _, n := range frontier {
			for _, e := range n.hist {
				u.makeDoc(e)
			}
			owner := stateNo%nsh == shard && os.Getenv("VERIF_C06_DRY") == ""
			stateNo++
			dryMenu += int64(len(vc06KMenu(n.names)))
			succ := u.successors(n, max, join)
			for _, e := range succ {
				u.makeDoc(e)
				names := append(append([]string{}, n.names...), e.name())
				if c := vc06KCanon(names); !seen[c] {
					seen[c] = true
					next = append(next, vc06KNode{hist: append(append([]vc06KDocEv{}, n.hist...), e), names: names})
					maxDepth = depth + 1
				}
			}
			if !owner || !exhaustive {
				continue
			}
			if r.Expired() {
				exhaustive = false
				continue
			}
			u.env.sigMemo = nil
			k, ps, why := u.build(n.hist)
			report(n.hist, nil, ps)
			if why != "" {
				// the converse direction (an honestly built document transaction refused) is not the property's business
				if len(ps) == 0 {
					linear := true
					for _, e := range n.hist {
						linear = linear && len(e.Bases) == 1
					}
					if linear && len(n.hist) <= 2 {
						k.close()
						t.Fatalf("harness (vacuity guard): state %v cannot be built: %s", n.names, why)
					}
					r.Observation("honest-document-transaction-refused", map[string]any{"history": n.names, "why": why})
				}
				k.close()
				continue
			}
			states++
			for _, c := range vc06KMenu(n.names) {
				c := c
				if k.nAdmit >= vc06KRebuildAfter {
					k.close()
					if k, ps, why = u.build(n.hist); why != "" || len(ps) > 0 {
						k.close()
						t.Fatalf("harness: the state %v was built once and cannot be rebuilt: %s %v", n.names, why, ps)
					}
				}
				o := k.in.offer(u.makeCand(c), nil, false, true)
				transitions++
				if k.in.poisoned {
					report(n.hist, &c, []vc06Problem{{"panic", o.Panic}})
					k.close()
					if k, ps, why = u.build(n.hist); why != "" || len(ps) > 0 {
						k.close()
						t.Fatalf("harness: the state %v was built once and cannot be rebuilt: %s %v", n.names, why, ps)
					}
					continue
				}
				cls := u.anchorClass(c)
				r.Eval(vc06KCanon(n.names) + "<-" + c.name())
				outcome := "refused"
				if o.Admitted {
					outcome = "admitted"
					admitted++
					k.nAdmit++
				} else {
					refused++
				}
				anchorSeen[outcome+"/"+cls] = true
				if o.V.Admit {
					r.Outcome(outcome + "/" + cls + "/model-admits")
				} else {
					r.Outcome(outcome + "/" + cls + "/model-refuses:" + o.V.Clause)
				}
				report(n.hist, &c, o.Problems)
				if o.Admitted && o.V.Admit {
					for _, note := range o.V.Notes {
						if note == vc06KNoteLiberal {
							r.Observation("admitted-with-liberally-read-key-id", map[string]any{"history": n.names, "candidate": c.name()})
						}
						if note == vc06KNoteMerged {
							r.Observation("admitted-with-key-of-a-concurrent-document-version", map[string]any{"history": n.names, "candidate": c.name(),
								"what": "the key id denotes no verifying key in the version published by the referenced transaction itself; the DID store merged a parallel version (not in the causal past of the candidate) into the version it resolved"})
						}
					}
				}
				if u.honest(n.names, c) {
					honestSeen++
					if !o.Admitted {
						k.close()
						t.Fatalf("harness (vacuity guard): the honest candidate %s is refused in state %v: parse=%q add=%q model=%+v", c.name(), n.names, o.ParseErr, o.AddErr, o.V)
					}
				}
				if o.Admitted && len(n.hist) == 2 && admitted%7 == 0 {
					r.Sample(map[string]any{"history": n.names, "candidate": c.name(), "outcome": outcome})
				}
			}
			k.close()
		}
		frontier = next
	}
	r.States(states)
	r.Transitions(transitions)
	r.Bound("depth_reached", maxDepth)
	r.Bound("document_history_states_total", len(seen))
	r.Extra("keys_admitted", admitted)
	r.Extra("keys_refused", refused)
	if !exhaustive {
		r.NotExhaustive("key-history search stopped by the wall-clock budget")
	}
	if states >= 4 && exhaustive {
		if admitted == 0 || refused == 0 || honestSeen == 0 {
			t.Fatalf("harness (vacuity guard): admitted=%d refused=%d honest=%d over %d states", admitted, refused, honestSeen, states)
		}
		for _, want := range []string{"refused/not-anchored-at-any-document-version", "refused/anchored-at-another-did-only", "admitted/anchored-at-version-with-key"} {
			if !anchorSeen[want] && states >= 12 {
				t.Fatalf("harness (vacuity guard): no case %s in %d states", want, states)
			}
		}
	}
}
