//go:build verif

// C06 part (b) — HISTORIES: explicit-state breadth-first search (the scheme of engine/space, level-synchronous and sharded by state) over every DAG that can be
// grown from a finite transaction universe (<= N transactions, two signers — A with an embedded key, B by key id
// under two document versions —, every ordered prevs tuple up to a size, second roots), offering in EVERY reachable
// DAG state the whole candidate menu: valid candidates, wrong clock (+1/-1), wrong signer key, wrong key version,
// a prev that is not present, wrong / no payload, and re-submission of every present transaction.
// A state is the event history reaching it; the successor is a FRESH real dag.State on a fresh bbolt file that
// replays the history plus one event; states are merged on the set of structural transaction names.
package dag

import (
	"context"
	"fmt"
	"io"
	"os"
	"sort"
	"strings"
	"sync"
	"testing"
	"time"

	"github.com/sirupsen/logrus"

	"verif/ev"
)

// vc06Ev is one offer: a transaction named structurally + how its payload is supplied.
type vc06Ev struct {
	Signer string   // A | B1 | B2  (B1/B2: key id of B, signed with key version 1 / 2; the root of B embeds key B1)
	Prevs  []string // names of the referenced transactions, in the order sent
	Var    string   // "" | lc+1 | lc-1 | other-key
	Pay    string   // right | none | wrong
}

func (e vc06Ev) txName() string {
	n := e.Signer + "(" + strings.Join(e.Prevs, ",") + ")"
	if e.Var != "" {
		n += "/" + e.Var
	}
	return n
}
func (e vc06Ev) String() string { return e.txName() + "+" + e.Pay }

// vc06Universe creates every transaction at most once per process, so that the same name means the same bytes
// in every replay (ECDSA signatures are randomised).
type vc06Universe struct {
	mu     sync.Mutex
	env    *vc06Env
	bytes  map[string][]byte
	clock  map[string]int
	byRef  map[vc06Ref]string
	refHex map[string]string
}

func vc06NewUniverse() *vc06Universe {
	return &vc06Universe{env: &vc06Env{}, bytes: map[string][]byte{}, clock: map[string]int{}, byRef: map[vc06Ref]string{}, refHex: map[string]string{}}
}

// make returns the bytes of the named transaction, creating it (and, recursively, what it references) on first use.
func (u *vc06Universe) make(e vc06Ev) []byte {
	name := e.txName()
	if b, ok := u.bytes[name]; ok {
		return b
	}
	if strings.HasPrefix(e.Var, "enc:") {
		// a liberal re-encoding of the signed triple of the transaction of the same name without the variant
		base := e
		base.Var = ""
		bb := u.make(base)
		b := vc06Reencodings(bb)[strings.TrimPrefix(e.Var, "enc:")]
		if b == nil {
			b = append(append([]byte{}, bb...), '\n')
		}
		u.bytes[name] = b
		u.clock[name] = u.clock[base.txName()]
		u.refHex[name] = vc06HexRef(b)
		u.byRef[vc06MustRef(u.refHex[name])] = name
		return b
	}
	ring := vc06Ring()
	lc := 0
	var prevs []string
	for _, p := range e.Prevs {
		pe := vc06ParseName(p)
		u.make(pe)
		if c := u.clock[p] + 1; c > lc {
			lc = c
		}
		prevs = append(prevs, u.refHex[p])
	}
	if prevs == nil {
		prevs = []string{}
	}
	declared := lc
	switch e.Var {
	case "lc+1":
		declared = lc + 1
	case "lc-1":
		declared = lc - 1
	}
	var k *vc06Key
	useKid := false
	var pal any
	switch e.Signer {
	case "A":
		k = ring.A
	case "B1": // key version 1 of B (a P-256 key here: the algorithm lattice is part (a)'s business, speed matters in the search)
		k, useKid = ring.A2, len(e.Prevs) > 0
	case "B2":
		k, useKid = ring.B2, true
		pal = []string{"QUJDRA=="}
	}
	hdr := vc06Hdr(k, useKid, prevs, declared, 2, pal)
	_, ph := vc06PayloadFor(name)
	if e.Var == "samepl" && len(e.Prevs) > 0 {
		_, ph = vc06PayloadFor(e.Prevs[0]) // declares the payload of its first prev: the hash is in the payload store when that prev came with its payload
	}
	spec := vc06Spec{HdrJSON: vc06HdrJSON(hdr), PayloadSeg: ph, Key: k.Name, SignAlg: k.Alg}
	if e.Var == "other-key" {
		spec.Key, spec.SignAlg = ring.E.Name, ring.E.Alg
	}
	b := spec.bytes()
	u.bytes[name] = b
	u.clock[name] = lc
	u.refHex[name] = vc06HexRef(b)
	ref := vc06MustRef(u.refHex[name])
	u.byRef[ref] = name
	// environment: A's root creates version 1 of B's document (key B1); every transaction signed by B creates a
	// version that holds key B2 (B rotates its key with its first own transaction)
	if e.Var == "" {
		if name == "A()" {
			u.env.set(vc06KidB, ref, ring.A2.pub)
		} else if e.Signer != "A" {
			u.env.set(vc06KidB, ref, ring.B2.pub)
		}
	}
	return b
}

func vc06ParseName(n string) vc06Ev {
	e := vc06Ev{}
	if i := strings.LastIndex(n, ")/"); i >= 0 {
		e.Var = n[i+2:]
		n = n[:i+1]
	}
	i := strings.Index(n, "(")
	e.Signer = n[:i]
	inner := n[i+1 : len(n)-1]
	depth, start := 0, 0
	for j := 0; j < len(inner); j++ {
		switch inner[j] {
		case '(':
			depth++
		case ')':
			depth--
		case ',':
			if depth == 0 {
				e.Prevs = append(e.Prevs, inner[start:j])
				start = j + 1
			}
		}
	}
	if len(inner) > 0 {
		e.Prevs = append(e.Prevs, inner[start:])
	}
	return e
}

func (u *vc06Universe) payload(e vc06Ev) ([]byte, bool) {
	switch e.Pay {
	case "none":
		return nil, false
	case "wrong":
		return []byte("wrong payload bytes"), true
	case "empty":
		return []byte{}, true
	}
	if e.Var == "samepl" && len(e.Prevs) > 0 {
		p, _ := vc06PayloadFor(e.Prevs[0])
		return p, true
	}
	if strings.HasPrefix(e.Var, "enc:") {
		e.Var = "" // the payload of the transaction whose signed content is re-encoded
	}
	p, _ := vc06PayloadFor(e.txName())
	return p, true
}

// vc06HInst is a real instance + what the lock-step comparison found while replaying.
type vc06HInst struct {
	in       *vc06Inst
	names    []string // names of the stored transactions as the NODE reports them, admission order of this history
	problems []vc06Problem
	last     vc06Out
	bad      bool
}

func (u *vc06Universe) build(hist []vc06Ev) *vc06HInst {
	u.mu.Lock()
	defer u.mu.Unlock()
	h := &vc06HInst{}
	for _, e := range hist { // create the bytes first: the environment table must be complete before the node runs
		u.make(e)
	}
	t0 := time.Now()
	h.in = vc06NewInst(u.env, vc06HistSubs, nil)
	vc06TNew += time.Since(t0)
	defer func(t1 time.Time) { vc06TOffer += time.Since(t1) }(time.Now())
	for i, e := range hist {
		b := u.make(e)
		p, has := u.payload(e)
		o := h.in.offer(b, p, has, i == len(hist)-1)
		if h.in.poisoned {
			h.bad = true
			h.problems = append(h.problems, vc06Problem{"panic", o.Panic})
			return h
		}
		h.last = o
		h.problems = append(h.problems, o.Problems...)
		if o.Admitted {
			h.names = append(h.names, e.txName())
		}
	}
	return h
}

// canon: the sorted structural names of the stored transactions, read back from the real store.
func (u *vc06Universe) canon(h *vc06HInst) string {
	txs, err := h.in.st.FindBetweenLC(vc06Ctx, 0, MaxLamportClock)
	if err != nil {
		return "error:" + err.Error()
	}
	var names []string
	u.mu.Lock()
	for _, t := range txs {
		n, ok := u.byRef[vc06Ref(t.Ref())]
		if !ok {
			n = "?" + t.Ref().String()
		}
		names = append(names, n)
	}
	u.mu.Unlock()
	sort.Strings(names)
	return strings.Join(names, ";")
}

func vc06Tuples(names []string, max int, bothOrders bool) [][]string {
	var out [][]string
	n := len(names)
	for i := 0; i < n; i++ {
		out = append(out, []string{names[i]})
	}
	if max >= 2 {
		for i := 0; i < n; i++ {
			for j := i + 1; j < n; j++ {
				out = append(out, []string{names[i], names[j]})
				if bothOrders {
					out = append(out, []string{names[j], names[i]})
				}
			}
		}
	}
	if max >= 3 {
		for i := 0; i < n; i++ {
			for j := i + 1; j < n; j++ {
				for k := j + 1; k < n; k++ {
					out = append(out, []string{names[i], names[j], names[k]})
				}
			}
		}
	}
	return out
}

func vc06IndexOf(l []string, s string) int {
	for i, x := range l {
		if x == s {
			return i
		}
	}
	return -1
}

// menu lists every offer made in the state holding the named transactions.
func vc06Menu(present []string, maxTx, maxPrevs int, bothOrders bool) []vc06Ev {
	var out []vc06Ev
	has := map[string]bool{}
	for _, n := range present {
		has[n] = true
	}
	if len(present) < maxTx {
		// roots (second roots when one exists)
		for _, s := range []string{"A", "B1"} {
			for _, pay := range []string{"right", "none", "wrong"} {
				out = append(out, vc06Ev{Signer: s, Pay: pay})
			}
			out = append(out, vc06Ev{Signer: s, Var: "lc+1", Pay: "right"})
			out = append(out, vc06Ev{Signer: s, Var: "other-key", Pay: "right"})
		}
		for _, p := range vc06Tuples(present, maxPrevs, bothOrders) {
			for _, s := range []string{"A", "B1", "B2"} {
				if s == "A" && len(p) == 2 && vc06IndexOf(present, p[0]) > vc06IndexOf(present, p[1]) {
					continue // the order of prevs only matters for key-id resolution (signer B): A gets one order per pair
				}
				for _, pay := range []string{"right", "none", "wrong"} {
					out = append(out, vc06Ev{Signer: s, Prevs: p, Pay: pay})
				}
				out = append(out, vc06Ev{Signer: s, Prevs: p, Var: "lc+1", Pay: "right"})
				out = append(out, vc06Ev{Signer: s, Prevs: p, Var: "lc-1", Pay: "right"})
				out = append(out, vc06Ev{Signer: s, Prevs: p, Var: "other-key", Pay: "right"})
			}
		}
		// a transaction declaring the payload hash of a PRESENT transaction (already in the payload store), offered with other bytes
		for _, n := range present {
			if strings.Contains(n, "/") {
				continue
			}
			out = append(out, vc06Ev{Signer: "A", Prevs: []string{n}, Var: "samepl", Pay: "wrong"}, vc06Ev{Signer: "A", Prevs: []string{n}, Var: "samepl", Pay: "empty"})
		}
		// causally incomplete: a prev that is not (yet) present — the child of the newest transaction, and a grandchild
		if len(present) > 0 {
			last := present[len(present)-1]
			missing := vc06Ev{Signer: "A", Prevs: []string{last}}.txName()
			if !has[missing] {
				out = append(out, vc06Ev{Signer: "A", Prevs: []string{missing}, Pay: "right"})
				out = append(out, vc06Ev{Signer: "A", Prevs: []string{last, missing}, Pay: "right"})
				out = append(out, vc06Ev{Signer: "B2", Prevs: []string{missing, last}, Pay: "none"})
			}
		} else {
			out = append(out, vc06Ev{Signer: "A", Prevs: []string{"A()"}, Pay: "right"})
			out = append(out, vc06Ev{Signer: "B1", Prevs: []string{"A()"}, Pay: "right"})
		}
	}
	// re-submission of everything present, byte-identical and as liberal re-encodings of the same signed content
	for _, n := range present {
		e := vc06ParseName(n)
		for _, pay := range []string{"right", "none", "wrong"} {
			e.Pay = pay
			out = append(out, e)
		}
		if e.Var == "" {
			for _, enc := range vc06HistEncodings {
				out = append(out, vc06Ev{Signer: e.Signer, Prevs: e.Prevs, Var: "enc:" + enc, Pay: "right"})
			}
		}
	}
	dedup := out[:0]
	seen := map[string]bool{}
	for _, e := range out {
		if k := e.String(); !seen[k] {
			seen[k] = true
			dedup = append(dedup, e)
		}
	}
	return dedup
}

var vc06Ctx = context.Background()

// re-encodings offered for every present transaction in every state (the input part offers the whole list)
var vc06HistEncodings = []string{"lf-after", "crlf-inside-seg0", "cr-end-seg1", "padded-seg2", "trailing-dot", "json-flattened"}

// one subscriber of each kind (the input part runs all five)
var vc06HistSubs = []vc06Sub{{"vc06all", []string{"transaction", "payload"}, false}, {"vc06ptx", []string{"transaction"}, true}, {"vc06pl", []string{"payload"}, false}}

var vc06TNew, vc06TOffer, vc06TClose time.Duration

type vc06HistCase struct {
	History []string
}

func TestVerifC06Histories(t *testing.T) {
	logrus.SetOutput(io.Discard)
	logrus.SetLevel(logrus.PanicLevel)
	r := ev.Start(t, "C06")
	defer r.Finish()
	maxTx, maxPrevs, both := 4, 3, true
	if r.Thorough() {
		maxTx = 5
	}
	if v := os.Getenv("VERIF_C06_BOUNDS"); v != "" {
		fmt.Sscanf(v, "%d,%d,%t", &maxTx, &maxPrevs, &both)
	}
	r.Rule("histories: BFS (engine/space) over all DAGs of <= N transactions grown from the universe {signer A (embedded jwk), signer B (kid; key version 1 as of A's root, " +
		"version 2 as of any transaction of B; B's root embeds its key)} x every ordered prevs tuple of present transactions up to size P; in every reachable state the whole menu is offered: " +
		"valid candidates x payload {right, none, wrong}, declared clock +1/-1, signature by another key, the other key version, second roots, prevs that are not present, " +
		"and re-submission of every present transaction x payload {right, none, wrong} and as 6 liberal re-encodings of its signed content (CR/LF, padding, trailing dot, JSON serialisation). A state = set of structural transaction names read back from the real store; " +
		"each transition = fresh bbolt + replay of the history + one offer on the real State.Add, compared in lock-step with the reference model")
	r.Bound("max_transactions", maxTx)
	r.Bound("max_prevs", maxPrevs)
	r.Bound("signers", 2)
	u := vc06NewUniverse()
	var rc vc06HistCase
	if os.Getenv("VERIF_REPLAY") != "" && !r.ReplayCase(&rc) {
		return // the replay file belongs to another part
	}
	if r.ReplayCase(&rc) {
		var hist []vc06Ev
		for _, s := range rc.History {
			i := strings.LastIndex(s, "+")
			e := vc06ParseName(s[:i])
			e.Pay = s[i+1:]
			hist = append(hist, e)
		}
		h := u.build(hist)
		for _, p := range h.problems {
			r.Violation("C06|histories|"+p.Sig, p.What+" [history "+strings.Join(rc.History, " ; ")+"]", rc)
		}
		h.in.close()
		return
	}
	shard, nsh := r.Shard()
	honestSeen := map[string]bool{}
	// Level-synchronous explicit-state search. Every worker generates the whole frontier with the reference model
	// (cheap); the worker that OWNS a state (state number modulo workers) executes every offer of that state's menu on a
	// fresh real instance and compares. Any disagreement on admission is reported (violation, or harness error for the
	// converse on these honestly built candidates), so a clean run means the model's graph IS the implementation's graph.
	type node struct {
		hist  []vc06Ev
		names []string
	}
	canonOf := func(names []string) string {
		c := append([]string{}, names...)
		sort.Strings(c)
		return strings.Join(c, ";")
	}
	modelOf := func(hist []vc06Ev) *vc06Model {
		m := vc06NewModel(u.env, vc06HistSubs)
		for _, e := range hist {
			b := u.make(e)
			p, has := u.payload(e)
			m.offer(b, p, has, true)
		}
		return m
	}
	frontier := []node{{}}
	var dryMenu int64
	var stateNo int
	defer func() { t.Logf("DRY states=%d offers=%d", stateNo, dryMenu) }()
	seen := map[string]bool{"": true}
	var states, transitions int64
	maxDepth := 0
	exhaustive := true
	for depth := 1; depth <= maxTx+1 && len(frontier) > 0 && exhaustive; depth++ {
		var next []node
		for _, n := range frontier {
			owner := stateNo%nsh == shard && os.Getenv("VERIF_C06_DRY") == ""
			if os.Getenv("VERIF_C06_DRY") != "" {
				dryMenu += int64(len(vc06Menu(n.names, maxTx, maxPrevs, both)))
			}
			stateNo++
			if owner {
				states++
			}
			for _, e := range n.hist {
				u.make(e)
			}
			m := modelOf(n.hist)
			for _, e := range vc06Menu(n.names, maxTx, maxPrevs, both) {
				b := u.make(e)
				p, has := u.payload(e)
				v := m.offer(b, p, has, false)
				hist := append(append([]vc06Ev{}, n.hist...), e)
				if owner {
					if r.Expired() {
						exhaustive = false
						break
					}
					h := u.build(hist)
					transitions++
					hs := make([]string, len(hist))
					for i, x := range hist {
						hs[i] = x.String()
					}
					o := h.last
					r.Eval(strings.Join(hs, ";"))
					outcome := "refused"
					switch {
					case o.Admitted:
						outcome = "admitted"
					case o.WasPresent:
						outcome = "already-present"
					}
					r.Outcome(outcome + "/" + map[bool]string{true: "model-admits", false: "model-refuses:" + o.V.Clause}[o.V.Admit || o.V.Present])
					for _, pr := range h.problems {
						r.Violation("C06|histories|"+pr.Sig, pr.What+" [history "+strings.Join(hs, " ; ")+"]", vc06HistCase{History: hs})
					}
					if !o.Admitted && !o.WasPresent && o.V.Admit {
						// converse direction: vacuity guard — every candidate here is honestly built, so a refusal means the harness is wrong
						t.Fatalf("harness (vacuity guard): model admits %s but the node refused it (parse=%q add=%q) after %v", e, o.ParseErr, o.AddErr, hs[:len(hs)-1])
					}
					if o.V.Admit != v.Admit || o.V.Present != v.Present {
						t.Fatalf("harness: the model is not deterministic for %v", hs)
					}
					wantNames := n.names
					if o.Admitted {
						wantNames = append(append([]string{}, n.names...), e.txName())
						honestSeen[e.Signer+fmt.Sprint(len(e.Prevs))] = true
					}
					if got := u.canon(h); got != canonOf(wantNames) && len(h.problems) == 0 {
						t.Fatalf("harness: the store holds {%s} after %v, expected {%s}", got, hs, canonOf(wantNames))
					}
					if len(hist) == 3 && o.Admitted {
						r.Sample(map[string]any{"history": hs, "outcome": outcome})
					}
					h.in.close()
				}
				if v.Admit {
					names := append(append([]string{}, n.names...), e.txName())
					if c := canonOf(names); !seen[c] {
						seen[c] = true
						next = append(next, node{hist: hist, names: names})
						if depth > maxDepth {
							maxDepth = depth
						}
					}
				}
			}
		}
		frontier = next
	}
	r.States(states)
	r.Transitions(transitions)
	r.Bound("depth_reached", maxDepth)
	r.Bound("dag_states_total", len(seen))
	if !exhaustive {
		r.NotExhaustive("history search stopped by the wall-clock budget")
	}
	if nsh == 1 {
		for _, want := range []string{"A0", "B10", "A1", "B11", "B21", "A2"} {
			if !honestSeen[want] {
				t.Fatalf("harness (vacuity guard): no admitted transaction of shape %s in the whole search", want)
			}
		}
	}
}
