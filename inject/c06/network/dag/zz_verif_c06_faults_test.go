//go:build verif

// C06 part (d) — STORAGE FAULTS: "a rejected transaction leaves no trace in storage, digests or subscriber queues" also when the
// rejection is a storage failure. For a few valid transactions every step of the write transaction of State.Add (begin, every
// Put / Delete with its shelf, commit — numbered by engine/fault.KV on the real bbolt store) is made to fail once. After the
// failed Add: stored set, clock index, payload shelf, XOR (every clock) / IBLT, highest clock (memory and store), transaction
// count and the subscriber log equal the pre-state and the byte-level dump is unchanged — in memory AND after the in-memory state
// is rebuilt from the store; offering the same transaction again then admits it exactly once.
package dag

import (
	"fmt"
	"io"
	"os"
	"testing"

	"github.com/nuts-foundation/go-stoabs"
	"github.com/sirupsen/logrus"

	"verif/ev"
	"verif/fault"
)

type vc06FaultCase struct {
	Template string
	Step     int    // number of the failing step of the Add (1-based)
	Label    string // structural label of that step
	Order    string // "memory-first" | "reopen-first"
}

func TestVerifC06Faults(t *testing.T) {
	logrus.SetOutput(io.Discard)
	logrus.SetLevel(logrus.PanicLevel)
	r := ev.Start(t, "C06")
	defer r.Finish()
	var rc vc06FaultCase
	isReplay := false
	if os.Getenv("VERIF_REPLAY") != "" {
		if !r.ReplayCase(&rc) {
			return // the replay file belongs to another part
		}
		isReplay = true
	}
	r.Rule("faults: for 5 valid transactions (root on the empty DAG, merge with payload, kid update, private without payload, sibling declaring a stored payload) " +
		"every step of the write transaction of State.Add on the real bbolt store (begin, each Put / Delete per shelf, commit) fails once (engine/fault.KV, error mode); " +
		"after the failed Add the lock-step comparison (stored set, clock index, payload shelf, XOR at every clock, IBLT, highest clock in memory and store, transaction count, subscriber log, byte-level dump) " +
		"must equal the pre-state both on the live instance and after the in-memory state is rebuilt from the store, and re-offering the transaction admits it exactly once. A case = (transaction, failing step, order of the two checks)")
	b := vc06MakeBase()
	ring := vc06Ring()
	want := map[string]bool{"root-jwk": true, "merge-jwk": true, "update-kid-v2key": true, "private-pal": true, "same-payload-as-present-tx": true}
	idx := 0
	var transitions int64
	for _, tpl := range vc06Templates(b) {
		if !want[tpl.Name] {
			continue
		}
		spec := vc06Spec{HdrJSON: vc06HdrJSON(tpl.Hdr), PayloadSeg: tpl.PayloadSeg, Key: tpl.Key, SignAlg: ring.byName(tpl.Key).Alg, Payload: tpl.Payload, HasPayload: tpl.HasPayload}
		by := spec.bytes()
		build := func() (*vc06Inst, *fault.KV) {
			var kv *fault.KV
			in := vc06NewInst(b.env, vc06SubDefs, func(raw stoabs.KVStore) stoabs.KVStore { kv = fault.Wrap(raw); return kv })
			if tpl.State != "empty" {
				for _, s := range []struct {
					spec vc06Spec
					by   []byte
				}{{b.R, b.bR}, {b.A1, b.bA1}, {b.B1, b.bB1}} {
					if o := in.offer(s.by, s.spec.Payload, true, false); !o.Admitted {
						t.Fatalf("harness: base transaction %s not admitted: %+v", s.spec.Desc, o)
					}
				}
			}
			return in, kv
		}
		// the steps of an undisturbed Add
		in, kv := build()
		kv.Arm(fault.Plan{})
		if o := in.offer(by, spec.Payload, spec.HasPayload, true); !o.Admitted || len(o.Problems) > 0 {
			t.Fatalf("harness (vacuity guard): %s is not admitted without faults: %+v", tpl.Name, o)
		}
		trace := kv.Trace()
		in.close()
		r.Bound("steps_of_add:"+tpl.Name, len(trace))
		for _, st := range trace {
			if st.Tx != 1 || !fault.Applicable(st.Kind, fault.Error) {
				continue // later transactions belong to the subscribers' bookkeeping after the commit; callbacks cannot fail
			}
			for _, order := range []string{"memory-first", "reopen-first"} {
				c := vc06FaultCase{Template: tpl.Name, Step: st.N, Label: st.Label(), Order: order}
				idx++
				if isReplay && (rc.Template != c.Template || rc.Step != c.Step || rc.Order != c.Order) {
					continue
				}
				if !isReplay && !r.Mine(idx) {
					continue
				}
				if r.Expired() {
					return
				}
				in, kv := build()
				report := func(stage string, ps []vc06Problem) {
					for _, p := range ps {
						r.Violation("C06|faults|"+stage+"|"+p.Sig+"|error-at:"+c.Label, fmt.Sprintf("%s [%s: %s, storage error at step %d (%s), %s]", p.What, stage, c.Template, c.Step, c.Label, c.Order), c)
					}
				}
				kv.Arm(fault.Plan{Mode: fault.Error, At: st.N})
				o := in.offer(by, spec.Payload, spec.HasPayload, true)
				kv.Disarm()
				fired, _ := kv.Fired()
				transitions++
				r.Eval(fmt.Sprintf("%s|%d|%s|%s", c.Template, c.Step, c.Label, order))
				switch {
				case in.poisoned:
					r.Observation("panic-under-storage-fault", map[string]any{"case": c, "panic": o.Panic})
					continue
				case !fired:
					t.Fatalf("harness: the fault at step %d (%s) of %s did not fire", c.Step, c.Label, c.Template)
				case o.Admitted:
					r.Outcome("fault-absorbed:" + c.Label)
					// the Add went through although a step failed: judged like any admission by the comparison above
					report("after-failed-add", o.Problems)
					in.close()
					continue
				}
				r.Outcome("refused:" + c.Label)
				report("after-failed-add", o.Problems) // live instance: model untouched, dump unchanged
				if order == "reopen-first" {
					in.reopen()
					report("after-reopen", in.compare())
				}
				// the same transaction again, no fault: admitted exactly once
				o2 := in.offer(by, spec.Payload, spec.HasPayload, true)
				transitions++
				if !o2.Admitted {
					r.Violation("C06|faults|re-offer-refused|error-at:"+c.Label, fmt.Sprintf("after a storage error at step %d (%s) the same valid transaction %s is refused: %s", c.Step, c.Label, c.Template, o2.AddErr), c)
				}
				report("after-re-offer", o2.Problems)
				in.reopen()
				report("after-re-offer-and-reopen", in.compare())
				in.close()
			}
		}
	}
	r.Transitions(transitions)
}
