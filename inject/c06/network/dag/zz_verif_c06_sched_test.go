//go:build verif

// C06 part (c) — SCHEDULES: sched.Explore over 2–3 threads calling the real State.Add concurrently (same transaction,
// siblings, parent + child, competing roots, with / without / wrong payload). Scheduling points: the vsync / vatomic
// shims that the overlay substitutes for sync / sync/atomic in network/dag (treeStore mutex, lamportClockHigh, the
// notifier sync.Map) and the begin / end of every KV transaction through the thin wrapper below. go-stoabs takes its
// own RW lock with a real-time acquisition timeout, so the wrapper serialises Read / Write through a VIRTUAL RW lock
// (a thread that would block is simply not enabled) and runs the AfterCommit / OnRollback callbacks itself, after
// releasing the lock, exactly where go-stoabs runs them.
package dag

import (
	"context"
	"fmt"
	"io"
	"os"
	"sort"
	"strconv"
	"strings"
	"sync"
	"testing"
	"time"

	"github.com/nuts-foundation/go-stoabs"
	"github.com/nuts-foundation/nuts-node/crypto/hash"
	"github.com/sirupsen/logrus"

	"verif/ev"
	"verif/sched"
)

// ---------------------------------------------------------------- scheduled KV wrapper

type vc06KV struct {
	inner stoabs.KVStore
	mu    sync.Mutex
	w     bool
	r     int
}

func (k *vc06KV) lock(label string) {
	sched.Acquire(label, func() bool {
		k.mu.Lock()
		defer k.mu.Unlock()
		if k.w || k.r > 0 {
			return false
		}
		k.w = true
		return true
	}, func() bool { k.mu.Lock(); defer k.mu.Unlock(); return !k.w && k.r == 0 })
}
func (k *vc06KV) unlock(label string) { k.mu.Lock(); k.w = false; k.mu.Unlock(); sched.Point(label) }
func (k *vc06KV) rlock(label string) {
	sched.Acquire(label, func() bool {
		k.mu.Lock()
		defer k.mu.Unlock()
		if k.w {
			return false
		}
		k.r++
		return true
	}, func() bool { k.mu.Lock(); defer k.mu.Unlock(); return !k.w })
}
func (k *vc06KV) runlock(label string) { k.mu.Lock(); k.r--; k.mu.Unlock(); sched.Point(label) }

type vc06RTx struct {
	stoabs.ReadTx
	k *vc06KV
}

func (t vc06RTx) Store() stoabs.KVStore { return t.k }

type vc06WTx struct {
	stoabs.WriteTx
	k *vc06KV
}

func (t vc06WTx) Store() stoabs.KVStore { return t.k }

func (k *vc06KV) Close(ctx context.Context) error { return k.inner.Close(ctx) }

func (k *vc06KV) Read(ctx context.Context, fn func(stoabs.ReadTx) error) error {
	k.rlock("kv.Read")
	err := k.inner.Read(ctx, func(tx stoabs.ReadTx) error { return fn(vc06RTx{tx, k}) })
	k.runlock("kv.Read.end")
	return err
}

func (k *vc06KV) ReadShelf(ctx context.Context, shelf string, fn func(stoabs.Reader) error) error {
	k.rlock("kv.ReadShelf")
	err := k.inner.ReadShelf(ctx, shelf, fn)
	k.runlock("kv.ReadShelf.end")
	return err
}

func (k *vc06KV) WriteShelf(ctx context.Context, shelf string, fn func(stoabs.Writer) error) error {
	k.lock("kv.WriteShelf")
	err := k.inner.WriteShelf(ctx, shelf, fn)
	k.unlock("kv.WriteShelf.end")
	return err
}

func (k *vc06KV) Write(ctx context.Context, fn func(stoabs.WriteTx) error, opts ...stoabs.TxOption) error {
	var pass []stoabs.TxOption
	for _, o := range opts {
		switch o.(type) {
		case *stoabs.AfterCommitOption, *stoabs.OnRollbackOption:
		default:
			pass = append(pass, o)
		}
	}
	k.lock("kv.Write")
	err := k.inner.Write(ctx, func(tx stoabs.WriteTx) error { return fn(vc06WTx{tx, k}) }, pass...)
	k.unlock("kv.Write.end")
	// go-stoabs/bbolt: unlock, then OnRollback (application error or failed commit) or AfterCommit
	if err != nil {
		stoabs.OnRollbackOption{}.Invoke(opts)
	} else {
		stoabs.AfterCommitOption{}.Invoke(opts)
	}
	return err
}

// ---------------------------------------------------------------- scenarios

type vc06Scenario struct {
	Name    string
	Base    []vc06Ev   // admitted before the threads start
	Threads [][]vc06Ev // what each thread offers, in order
	Tier    string     // "" = both tiers, "thorough" = thorough only
}

func vc06E(name, pay string) vc06Ev { e := vc06ParseName(name); e.Pay = pay; return e }

func vc06Scenarios() []vc06Scenario {
	root := vc06E("A()", "right")
	c1 := "A(A())"
	c2 := "B1(A())"
	return []vc06Scenario{
		{Name: "same-tx-x2", Base: []vc06Ev{root}, Threads: [][]vc06Ev{{vc06E(c1, "right")}, {vc06E(c1, "right")}}},
		{Name: "same-root-x2", Threads: [][]vc06Ev{{root}, {root}}},
		{Name: "competing-roots", Threads: [][]vc06Ev{{root}, {vc06E("B1()", "right")}}},
		{Name: "siblings", Base: []vc06Ev{root}, Threads: [][]vc06Ev{{vc06E(c1, "right")}, {vc06E(c2, "right")}}},
		{Name: "parent+child", Base: []vc06Ev{root}, Threads: [][]vc06Ev{{vc06E(c1, "right")}, {vc06E("A("+c1+")", "right")}}},
		{Name: "same-tx-payload-vs-none", Base: []vc06Ev{root, vc06E(c2, "right")}, Threads: [][]vc06Ev{{vc06E("B2("+c2+")", "right")}, {vc06E("B2("+c2+")", "none")}}},
		{Name: "same-tx-right-vs-wrong-payload", Base: []vc06Ev{root}, Threads: [][]vc06Ev{{vc06E(c1, "right")}, {vc06E(c1, "wrong")}}},
		{Name: "root+child", Threads: [][]vc06Ev{{root}, {vc06E(c1, "right")}}},
		{Name: "merge+its-prev", Base: []vc06Ev{root, vc06E(c1, "right")}, Threads: [][]vc06Ev{{vc06E(c2, "right")}, {vc06E("A("+c1+","+c2+")", "right")}}},
		{Name: "same-tx-x3", Base: []vc06Ev{root}, Threads: [][]vc06Ev{{vc06E(c1, "right")}, {vc06E(c1, "right")}, {vc06E(c1, "none")}}, Tier: "thorough"},
		{Name: "parent+child+child", Base: []vc06Ev{root}, Threads: [][]vc06Ev{{vc06E(c1, "right")}, {vc06E("A("+c1+")", "right")}, {vc06E("A("+c1+")", "right")}}, Tier: "thorough"},
		{Name: "three-siblings", Base: []vc06Ev{root}, Threads: [][]vc06Ev{{vc06E(c1, "right")}, {vc06E(c2, "right")}, {vc06E("A(A())/lc+1", "right")}}, Tier: "thorough"},
		{Name: "resubmit-vs-child", Base: []vc06Ev{root, vc06E(c1, "right")}, Threads: [][]vc06Ev{{vc06E(c1, "wrong")}, {vc06E("A("+c1+")", "right")}}},
	}
}

type vc06SchedCase struct {
	Scenario string
	Schedule []int
}

// serialOutcomes runs every interleaving of the threads' offers (each thread's order preserved) through the model.
func vc06SerialOutcomes(u *vc06Universe, sc vc06Scenario) map[string]*vc06Model {
	out := map[string]*vc06Model{}
	base := vc06NewModel(u.env, vc06SchedSubs)
	for _, e := range sc.Base {
		p, has := u.payload(e)
		base.offer(u.make(e), p, has, true)
	}
	var rec func(m *vc06Model, pos []int, res [][]string)
	rec = func(m *vc06Model, pos []int, res [][]string) {
		done := true
		for ti, th := range sc.Threads {
			if pos[ti] >= len(th) {
				continue
			}
			done = false
			e := th[pos[ti]]
			m2 := m.clone()
			p, has := u.payload(e)
			v := m2.offer(u.make(e), p, has, true)
			r := "err"
			if v.Admit || v.Present {
				r = "ok"
			}
			pos2 := append([]int{}, pos...)
			pos2[ti]++
			res2 := make([][]string, len(res))
			for i := range res {
				res2[i] = append([]string{}, res[i]...)
			}
			res2[ti] = append(res2[ti], r)
			rec(m2, pos2, res2)
		}
		if done {
			out[vc06OutcomeKey(res, m)] = m
		}
	}
	rec(base, make([]int, len(sc.Threads)), make([][]string, len(sc.Threads)))
	return out
}

func vc06OutcomeKey(res [][]string, m *vc06Model) string {
	var refs []string
	for r := range m.txs {
		s := fmt.Sprintf("%x", r[:6])
		if _, ok := m.payloads[m.txs[r].payload]; ok {
			s += "+p"
		}
		refs = append(refs, s)
	}
	sort.Strings(refs)
	n := append([]string{}, m.notified...)
	sort.Strings(n)
	return fmt.Sprint(res) + "|" + strings.Join(refs, ",") + "|" + strings.Join(vc06Short(n), ",")
}

var vc06SchedSubs = []vc06Sub{{"vc06all", []string{"transaction", "payload"}, false}, {"vc06ptx", []string{"transaction"}, true}}

func TestVerifC06Schedules(t *testing.T) {
	logrus.SetOutput(io.Discard)
	logrus.SetLevel(logrus.PanicLevel)
	r := ev.Start(t, "C06")
	defer r.Finish()
	bound := 2
	if r.Thorough() {
		bound = 3
	}
	if v, err := strconv.Atoi(os.Getenv("VERIF_C06_BOUND")); err == nil {
		bound = v
	}
	r.Rule("schedules: for each scenario (2–3 threads calling the real State.Add with the same transaction / siblings / parent+child / competing roots / with, without or with a wrong payload) " +
		"a stateless depth-first search over all interleavings at the scheduling points {begin/end of every KV read / write transaction, treeStore mutex, lamportClockHigh atomics, notifier map} " +
		"with iterative preemption bounding; every execution runs on a fresh bbolt file; the outcome (results, stored set, payloads, notifications) must equal that of SOME serial order computed by the reference model, " +
		"digests must equal the fold over the stored set and nobody is notified twice. A case is one distinct schedule of one scenario")
	r.Assume("lock granularity: code between two scheduling points runs atomically; bbolt's MVCC and go-stoabs' RW lock are represented by the virtual RW lock of the wrapper")
	r.Bound("preemption_bound", bound)
	u := vc06NewUniverse()
	shard, nsh := r.Shard()
	budget := 300
	if v, err := strconv.Atoi(os.Getenv("VERIF_BUDGET_S")); err == nil && v > 0 {
		budget = v
	}
	start := time.Now()
	var scs []vc06Scenario
	for _, sc := range vc06Scenarios() {
		if sc.Tier == "thorough" && !r.Thorough() {
			continue
		}
		scs = append(scs, sc)
	}
	var rc vc06SchedCase
	replay := r.ReplayCase(&rc)
	if os.Getenv("VERIF_REPLAY") != "" && !replay {
		return // the replay file belongs to another part
	}
	for si, sc := range scs {
		if replay && sc.Name != rc.Scenario {
			continue
		}
		// create every transaction (and the environment table) before anything runs
		for _, e := range sc.Base {
			u.make(e)
		}
		for _, th := range sc.Threads {
			for _, e := range th {
				u.make(e)
			}
		}
		allowed := vc06SerialOutcomes(u, sc)
		r.Bound("serial_outcomes:"+sc.Name, len(allowed))
		outcomes := map[string]bool{}
		var points int
		setup := func(x *sched.Exec) func(x *sched.Exec) {
			in := vc06NewInst(u.env, vc06SchedSubs, func(raw stoabs.KVStore) stoabs.KVStore { return &vc06KV{inner: raw} })
			for _, e := range sc.Base {
				p, has := u.payload(e)
				if o := in.offer(u.make(e), p, has, false); !o.Admitted {
					panic(fmt.Sprintf("harness: base transaction %s not admitted: %+v", e, o))
				}
			}
			res := make([][]string, len(sc.Threads))
			type parsed struct {
				tx      Transaction
				payload []byte
			}
			for ti, th := range sc.Threads {
				ti := ti
				var todo []parsed
				for _, e := range th {
					tx, err := ParseTransaction(u.make(e))
					if err != nil {
						panic(err)
					}
					p, has := u.payload(e)
					if !has {
						p = nil
					}
					todo = append(todo, parsed{tx, p})
				}
				x.Go(fmt.Sprintf("adder%d", ti), func() {
					for _, w := range todo {
						if err := in.st.Add(context.Background(), w.tx, w.payload); err != nil {
							res[ti] = append(res[ti], "err")
						} else {
							res[ti] = append(res[ti], "ok")
						}
					}
				})
			}
			return func(x *sched.Exec) {
				defer in.close()
				replayCase := vc06SchedCase{Scenario: sc.Name, Schedule: x.Choices()}
				if len(x.Points) > points {
					points = len(x.Points)
				}
				for i, pv := range x.Panics() {
					if pv != nil {
						in.poisoned = true
						r.Violation("C06|schedules|"+sc.Name+"|panic", fmt.Sprintf("thread %d panicked: %v", i, pv), replayCase)
						return
					}
				}
				if x.Deadlock {
					in.poisoned = true
					r.Observation("deadlock:"+sc.Name, map[string]any{"trace": x.Trace})
					return
				}
				// what the node holds now
				txs, _ := in.st.FindBetweenLC(context.Background(), 0, MaxLamportClock)
				var best *vc06Model
				var stored []string
				for _, tx := range txs {
					stored = append(stored, tx.Ref().String())
				}
				sort.Strings(stored)
				// the serial order with exactly this outcome; failing that, one with the same stored set (to name what differs)
				key0 := vc06OutcomeKeyImpl(res, in)
				resultMatch := false
				if m, ok := allowed[key0]; ok {
					best, resultMatch = m, true
				} else {
					keys := make([]string, 0, len(allowed))
					for k := range allowed {
						keys = append(keys, k)
					}
					sort.Strings(keys)
					for _, k := range keys {
						m := allowed[k]
						var ms []string
						for ref := range m.txs {
							ms = append(ms, hash.SHA256Hash(ref).String())
						}
						sort.Strings(ms)
						if strings.Join(ms, ",") == strings.Join(stored, ",") {
							best = m
							break
						}
					}
				}
				key := vc06OutcomeKeyImpl(res, in)
				outcomes[fmt.Sprint(res)] = true
				r.Outcome(sc.Name + ":" + fmt.Sprint(res))
				if best == nil {
					r.Violation("C06|schedules|"+sc.Name+"|not-serialisable|stored-set", fmt.Sprintf("the stored set after the concurrent calls equals that of no serial order (results %v, %d stored)", res, len(stored)), replayCase)
					return
				}
				in.model = best.clone()
				in.logSeen, in.modSeen = 0, 0
				in.refs = map[vc06Ref][]byte{}
				for ref, mt := range in.model.txs {
					in.refs[ref] = mt.data
				}
				for ph := range in.model.payloads {
					in.pays[ph] = true
				}
				probs := in.compare()
				for _, p := range probs {
					r.Violation("C06|schedules|"+sc.Name+"|"+p.Sig, p.What+fmt.Sprintf(" (results %v)", res), replayCase)
				}
				// nobody is told twice about the same event
				seen := map[string]int{}
				in.mu.Lock()
				for _, l := range in.log {
					seen[l]++
				}
				in.mu.Unlock()
				for l, n := range seen {
					if n > 1 {
						r.Violation("C06|schedules|"+sc.Name+"|notified-more-than-once", fmt.Sprintf("%s delivered %d times (results %v)", strings.Join(vc06Short([]string{l}), ""), n, res), replayCase)
					}
				}
				if !resultMatch && len(probs) == 0 {
					r.Violation("C06|schedules|"+sc.Name+"|not-serialisable|results", fmt.Sprintf("outcome %s equals that of no serial order", key), replayCase)
				}
			}
		}
		o := sched.Options{Bound: bound, Shard: shard, NSh: nsh, SelfCheck: true, MaxSteps: 5000}
		// share of the wall budget for this scenario
		remaining := time.Duration(budget)*time.Second - time.Since(start)
		left := len(scs) - si
		if remaining < time.Second {
			remaining = time.Second
		}
		o.Deadline = time.Now().Add(remaining / time.Duration(left))
		if replay {
			o.Replay = rc.Schedule
			if o.Replay == nil {
				o.Replay = []int{}
			}
		}
		res := sched.Explore(o, setup)
		for _, e := range res.Errors {
			t.Fatalf("scheduler machinery error in %s: %s", sc.Name, e)
		}
		for i := int64(0); i < res.Executions; i++ {
			r.Eval(sc.Name + "#" + strconv.FormatInt(int64(shard)*1e9+i, 10))
		}
		r.Transitions(res.Executions)
		r.AddExtra("schedules_executed", res.Executions)
		r.Bound("max_choice_points:"+sc.Name, points)
		if !res.Exhaustive {
			r.NotExhaustive("schedule search of " + sc.Name + " stopped: " + res.Capped)
		}
		if !replay && shard == 0 && len(outcomes) == 0 {
			t.Fatalf("harness: no execution of %s", sc.Name)
		}
		if si == 0 {
			r.Sample(map[string]any{"scenario": sc.Name, "executions": res.Executions, "max_choice_points": res.MaxPoints, "bound": bound})
		}
	}
}

// vc06OutcomeKeyImpl renders the implementation's outcome in the format of vc06OutcomeKey.
func vc06OutcomeKeyImpl(res [][]string, in *vc06Inst) string {
	ctx := context.Background()
	txs, _ := in.st.FindBetweenLC(ctx, 0, MaxLamportClock)
	var refs []string
	for _, tx := range txs {
		r := tx.Ref()
		s := fmt.Sprintf("%x", r[:6])
		if _, err := in.st.ReadPayload(ctx, tx.PayloadHash()); err == nil {
			s += "+p"
		}
		refs = append(refs, s)
	}
	sort.Strings(refs)
	in.mu.Lock()
	n := append([]string{}, in.log...)
	in.mu.Unlock()
	sort.Strings(n)
	return fmt.Sprint(res) + "|" + strings.Join(refs, ",") + "|" + strings.Join(vc06Short(n), ",")
}
