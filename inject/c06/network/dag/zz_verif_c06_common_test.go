//go:build verif

// C06 — shared harness machinery: key material, transaction construction with full control over every protected
// header / payload segment / signature / serialisation, the real dag.State on bbolt with registered subscribers,
// the lock-step comparison with the reference model, and the byte-level KV dump.
package dag

import (
	"bytes"
	"context"
	"crypto"
	"crypto/ecdsa"
	"crypto/ed25519"
	"crypto/elliptic"
	"crypto/hmac"
	"crypto/rand"
	"crypto/rsa"
	"crypto/sha256"
	"crypto/x509"
	"encoding/base64"
	"encoding/hex"
	"encoding/json"
	"fmt"
	"math/big"
	"os"
	"path/filepath"
	"sort"
	"strings"
	"sync"

	"github.com/lestrrat-go/jwx/v2/jwa"
	"github.com/lestrrat-go/jwx/v2/jwk"
	"github.com/lestrrat-go/jwx/v2/jws"
	"github.com/nuts-foundation/go-stoabs"
	stoabsbbolt "github.com/nuts-foundation/go-stoabs/bbolt"
	"github.com/nuts-foundation/nuts-node/core"
	"github.com/nuts-foundation/nuts-node/crypto/hash"
	"github.com/nuts-foundation/nuts-node/network/dag/tree"
	"github.com/nuts-foundation/nuts-node/vdr/resolver"
	"go.etcd.io/bbolt"
)

// ---------------------------------------------------------------- keys

type vc06Key struct {
	Name    string
	Alg     string // the algorithm that fits the key
	priv    any
	pub     crypto.PublicKey
	pubJWK  map[string]any
	privJWK map[string]any
}

func vc06JWKMap(raw any) map[string]any {
	k, err := jwk.FromRaw(raw)
	if err != nil {
		panic(err)
	}
	b, _ := json.Marshal(k)
	var m map[string]any
	_ = json.Unmarshal(b, &m)
	return m
}

func vc06ECKey(name, alg string, c elliptic.Curve) *vc06Key {
	p, err := ecdsa.GenerateKey(c, rand.Reader)
	if err != nil {
		panic(err)
	}
	return &vc06Key{Name: name, Alg: alg, priv: p, pub: &p.PublicKey, pubJWK: vc06JWKMap(&p.PublicKey), privJWK: vc06JWKMap(p)}
}

type vc06KeyRing struct {
	A, A2, B1, B2, C, D, E *vc06Key
	edJWK, octJWK          map[string]any
	all                    []*vc06Key
}

var (
	vc06RingOnce sync.Once
	vc06RingVal  *vc06KeyRing
)

// vc06Ring generates the key material once per process (fixed for the whole run).
func vc06Ring() *vc06KeyRing {
	vc06RingOnce.Do(func() {
		r := &vc06KeyRing{}
		r.A = vc06ECKey("A", "ES256", elliptic.P256())
		r.A2 = vc06ECKey("A2", "ES256", elliptic.P256())
		r.B1 = vc06ECKey("B1", "ES384", elliptic.P384())
		r.B2 = vc06ECKey("B2", "ES256", elliptic.P256())
		r.D = vc06ECKey("D", "ES512", elliptic.P521())
		rk, err := rsa.GenerateKey(rand.Reader, 2048)
		if err != nil {
			panic(err)
		}
		r.C = &vc06Key{Name: "C", Alg: "PS256", priv: rk, pub: &rk.PublicKey, pubJWK: vc06JWKMap(&rk.PublicKey), privJWK: vc06JWKMap(rk)}
		r.E = vc06ECKey("E", "ES256", elliptic.P256())
		edPub, _, _ := ed25519.GenerateKey(rand.Reader)
		r.edJWK = vc06JWKMap(edPub)
		r.octJWK = vc06JWKMap([]byte("0123456789abcdef0123456789abcdef"))
		r.all = []*vc06Key{r.A, r.A2, r.B1, r.B2, r.C, r.D, r.E}
		vc06RingVal = r
	})
	return vc06RingVal
}

func (r *vc06KeyRing) byName(n string) *vc06Key {
	for _, k := range r.all {
		if k.Name == n {
			return k
		}
	}
	return nil
}

const vc06KidB = "did:nuts:verifB#key-1"

// ---------------------------------------------------------------- signing with full control

func vc06B64Enc(b []byte) string { return base64.RawURLEncoding.EncodeToString(b) }

// vc06RawSign signs the given signing input with jwx's low-level signer of algorithm alg. When the
// algorithm does not fit the key a signature of plausible length is fabricated. genuine reports which.
func vc06RawSign(alg string, k *vc06Key, input []byte) (sig []byte, genuine bool) {
	switch alg {
	case "none", "":
		return nil, false
	case "HS256", "HS384", "HS512":
		// algorithm confusion: MAC keyed with the public key encoding
		der, _ := x509.MarshalPKIXPublicKey(k.pub)
		h := map[string]crypto.Hash{"HS256": crypto.SHA256, "HS384": crypto.SHA384, "HS512": crypto.SHA512}[alg]
		mac := hmac.New(h.New, der)
		mac.Write(input)
		return mac.Sum(nil), false
	}
	s, err := jws.NewSigner(jwa.SignatureAlgorithm(alg))
	if err == nil {
		if sig, err = s.Sign(input, k.priv); err == nil {
			return sig, true
		}
	}
	return bytes.Repeat([]byte{1}, 64), false
}

// vc06Spec describes one byte string offered as a transaction, and the payload offered with it.
type vc06Spec struct {
	Desc       string
	HdrJSON    string // protected header JSON text exactly as sent
	PayloadSeg string // JWS payload (before base64url), normally the 64-hex payload hash
	Key        string // name of the key that really signs
	SignAlg    string // algorithm really used for signing
	Mangle     string // "", flip-sig, trunc-sig, empty-sig, high-s, flip-hdr-after-sign, flip-payload-after-sign
	Form       string // serialisation, see bytes()
	Payload    []byte `json:",omitempty"`
	HasPayload bool
}

func vc06HdrJSON(h map[string]any) string {
	b, err := json.Marshal(h)
	if err != nil {
		panic(err)
	}
	return string(b)
}

// bytes renders the spec. For JSON forms with two signatures the second signer is key E.
func (s vc06Spec) bytes() []byte {
	ring := vc06Ring()
	k := ring.byName(s.Key)
	prot := vc06B64Enc([]byte(s.HdrJSON))
	pay := vc06B64Enc([]byte(s.PayloadSeg))
	if s.Form == "compact-b64-unencoded" {
		pay = s.PayloadSeg
	}
	sigb, _ := vc06RawSign(s.SignAlg, k, []byte(prot+"."+pay))
	switch s.Mangle {
	case "flip-sig":
		if len(sigb) > 0 {
			sigb[len(sigb)/2] ^= 1
		}
	case "trunc-sig":
		if len(sigb) > 1 {
			sigb = sigb[:len(sigb)-1]
		}
	case "empty-sig":
		sigb = nil
	case "high-s": // (r, n-s) is a second valid ECDSA signature
		if ek, ok := k.priv.(*ecdsa.PrivateKey); ok && len(sigb) == 2*((ek.Params().BitSize+7)/8) {
			half := len(sigb) / 2
			sv := new(big.Int).SetBytes(sigb[half:])
			if sv.Sign() == 0 || sv.Cmp(ek.Params().N) >= 0 {
				break
			}
			sv.Sub(ek.Params().N, sv)
			out := make([]byte, half)
			sv.FillBytes(out)
			sigb = append(append([]byte{}, sigb[:half]...), out...)
		}
	case "flip-hdr-after-sign":
		hb := []byte(s.HdrJSON)
		if i := bytes.IndexByte(hb, ':'); i > 1 { // rename the first member: a different header, same length
			if hb[i-2] == 'x' {
				hb[i-2] = 'y'
			} else {
				hb[i-2] = 'x'
			}
		}
		prot = vc06B64Enc(hb)
	case "flip-payload-after-sign":
		pb := []byte(s.PayloadSeg)
		if len(pb) > 0 {
			if pb[0] == '0' {
				pb[0] = '1'
			} else {
				pb[0] = '0'
			}
		}
		pay = vc06B64Enc(pb)
	}
	sig := vc06B64Enc(sigb)
	other := func() (string, string) {
		h := map[string]any{"alg": "ES256", "cty": "application/did+json", "crit": []string{"sigt", "ver", "prevs", "lc"},
			"sigt": 1700000000, "ver": 2, "prevs": []string{}, "lc": 0, "jwk": ring.E.pubJWK}
		p2 := vc06B64Enc([]byte(vc06HdrJSON(h)))
		s2, _ := vc06RawSign("ES256", ring.E, []byte(p2+"."+pay))
		return p2, vc06B64Enc(s2)
	}
	j := func(v any) []byte { b, _ := json.Marshal(v); return b }
	switch s.Form {
	case "", "compact", "compact-b64-unencoded":
		return []byte(prot + "." + pay + "." + sig)
	case "compact-4-segments":
		return []byte(prot + "." + pay + "." + sig + ".AAAA")
	case "compact-4-segments-empty":
		return []byte(prot + "." + pay + "." + sig + ".")
	case "compact-2-segments":
		return []byte(prot + "." + pay)
	case "compact-leading-space":
		return []byte(" " + prot + "." + pay + "." + sig)
	case "compact-trailing-newline":
		return []byte(prot + "." + pay + "." + sig + "\n")
	case "compact-inner-newline":
		return []byte(prot[:4] + "\n" + prot[4:] + "." + pay + "." + sig)
	case "compact-padded":
		pad := func(x string) string { return x + strings.Repeat("=", (4-len(x)%4)%4) }
		return []byte(pad(prot) + "." + pad(pay) + "." + pad(sig))
	case "compact-std-alphabet":
		std := func(x string) string { return strings.NewReplacer("-", "+", "_", "/").Replace(x) }
		return []byte(std(prot) + "." + std(pay) + "." + std(sig))
	case "flattened":
		return j(map[string]any{"payload": pay, "protected": prot, "signature": sig})
	case "flattened-unprotected-header":
		return j(map[string]any{"payload": pay, "protected": prot, "signature": sig, "header": map[string]any{"lc": 99, "x": "y"}})
	case "general-1":
		return j(map[string]any{"payload": pay, "signatures": []any{map[string]any{"protected": prot, "signature": sig}}})
	case "general-1-unprotected-header":
		return j(map[string]any{"payload": pay, "signatures": []any{map[string]any{"protected": prot, "signature": sig, "header": map[string]any{"kid": "x"}}}})
	case "general-0":
		return j(map[string]any{"payload": pay, "signatures": []any{}})
	case "general-2-valid-first":
		p2, s2 := other()
		return j(map[string]any{"payload": pay, "signatures": []any{map[string]any{"protected": prot, "signature": sig}, map[string]any{"protected": p2, "signature": s2}}})
	case "general-2-valid-last":
		p2, s2 := other()
		return j(map[string]any{"payload": pay, "signatures": []any{map[string]any{"protected": p2, "signature": s2}, map[string]any{"protected": prot, "signature": sig}}})
	case "general-2-same-twice":
		one := map[string]any{"protected": prot, "signature": sig}
		return j(map[string]any{"payload": pay, "signatures": []any{one, one}})
	case "flattened-and-general":
		return j(map[string]any{"payload": pay, "protected": prot, "signature": sig, "signatures": []any{map[string]any{"protected": prot, "signature": sig}}})
	case "all-headers-unprotected":
		var hm map[string]any
		_ = json.Unmarshal([]byte(s.HdrJSON), &hm)
		return j(map[string]any{"payload": pay, "signature": sig, "header": hm})
	}
	panic("unknown form " + s.Form)
}

// ---------------------------------------------------------------- stub key resolver (environment)

type vc06Resolver struct{ env *vc06Env }

func (r vc06Resolver) ResolvePublicKey(kid string, refs []hash.SHA256Hash) (crypto.PublicKey, error) {
	vs, ok := r.env.versions[kid]
	if !ok {
		return nil, resolver.ErrNotFound
	}
	for _, h := range refs {
		if k, ok := vs[vc06Ref(h)]; ok {
			return k, nil
		}
	}
	return nil, resolver.ErrNotFound
}

// ---------------------------------------------------------------- real instance + lock-step model

var vc06SubDefs = []vc06Sub{
	{"vc06tx", []string{"transaction"}, false},
	{"vc06pl", []string{"payload"}, false},
	{"vc06all", []string{"transaction", "payload"}, false},
	{"vc06ptx", []string{"transaction"}, true},
	{"vc06ppl", []string{"payload"}, true},
}

type vc06Inst struct {
	dir      string
	raw      stoabs.KVStore
	db       stoabs.KVStore
	st       *state
	model    *vc06Model
	mu       sync.Mutex
	log      []string
	logSeen  int
	modSeen  int
	refs     map[vc06Ref][]byte // byte strings whose presence is compared: everything admitted + the last offer
	pays     map[vc06Ref]bool   // payload hashes compared: everything admitted + the last offer
	poisoned bool
	env      *vc06Env
	subs     []vc06Sub
	// keyRes, when set, replaces the stub key resolver: the keys part wires the real SourceTXKeyResolver over a real DID store
	keyRes resolver.NutsKeyResolver
	// lazy (keys part: thousands of refused offers per state on one instance): the dump taken after the previous offer is the
	// "before" of the next one, and after a REFUSED offer the comparison is the byte-level dump and the subscriber log only (the
	// model did not move; the whole lock-step comparison runs again after the next admission)
	lazy     bool
	lastDump string
}

type vc06Problem struct {
	Sig  string // signature suffix: oracle-clause|class
	What string
}

func vc06TypeFilter(types []string) NotificationFilter {
	return func(e Event) bool {
		for _, t := range types {
			if e.Type == t {
				return true
			}
		}
		return false
	}
}

// vc06NewInst builds a fresh real state on a fresh bbolt file. wrap (optional) interposes a KV wrapper.
func vc06NewInst(env *vc06Env, subs []vc06Sub, wrap func(stoabs.KVStore) stoabs.KVStore) *vc06Inst {
	return vc06NewInstRes(env, subs, wrap, nil)
}

// vc06NewInstRes is vc06NewInst with the key resolver the signature verifier is given (nil: the stub table of env).
func vc06NewInstRes(env *vc06Env, subs []vc06Sub, wrap func(stoabs.KVStore) stoabs.KVStore, keyRes resolver.NutsKeyResolver) *vc06Inst {
	dir, err := os.MkdirTemp("", "vc06-")
	if err != nil {
		panic(err)
	}
	raw, err := stoabsbbolt.CreateBBoltStore(filepath.Join(dir, "dag.db"), stoabs.WithNoSync())
	if err != nil {
		panic(err)
	}
	in := &vc06Inst{dir: dir, raw: raw, db: raw, refs: map[vc06Ref][]byte{}, pays: map[vc06Ref]bool{}}
	if wrap != nil {
		in.db = wrap(raw)
	}
	in.env, in.subs, in.keyRes = env, subs, keyRes
	in.openState()
	in.model = vc06NewModel(env, subs)
	return in
}

// openState creates a dag.State on the store (again: a restart is a new State on the same file) and registers the subscribers.
func (in *vc06Inst) openState() {
	var keyRes resolver.NutsKeyResolver = vc06Resolver{in.env}
	if in.keyRes != nil {
		keyRes = in.keyRes
	}
	s, err := NewState(in.db, NewPrevTransactionsVerifier(), NewTransactionSignatureVerifier(keyRes))
	if err != nil {
		panic(err)
	}
	in.st = s.(*state)
	in.st.xorTreeRepair.ticker.Stop()
	for _, sd := range in.subs {
		sd := sd
		recv := func(e Event) (bool, error) {
			in.mu.Lock()
			in.log = append(in.log, sd.name+"|"+e.Hash.String()+"|"+e.Type+"|"+vc06PayloadDigest(e.Payload))
			in.mu.Unlock()
			return true, nil
		}
		opts := []NotifierOption{WithSelectionFilter(vc06TypeFilter(sd.types))}
		if sd.persistent {
			opts = append(opts, WithPersistency(in.db))
		}
		if _, err := in.st.Notifier(sd.name, recv, opts...); err != nil {
			panic(err)
		}
	}
	if err := in.st.Configure(core.ServerConfig{}); err != nil {
		panic(err)
	}
}

// reopen: the in-memory state is thrown away and rebuilt from the store.
func (in *vc06Inst) reopen() {
	_ = in.st.Shutdown()
	in.openState()
}

func (in *vc06Inst) close() {
	if !in.poisoned {
		_ = in.st.Shutdown()
		_ = in.raw.Close(context.Background())
	}
	_ = os.RemoveAll(in.dir)
}

// dump renders every bucket of the bbolt file, byte for byte.
func (in *vc06Inst) dump() string {
	var sb strings.Builder
	err := in.raw.Read(context.Background(), func(tx stoabs.ReadTx) error {
		btx := tx.Unwrap().(*bbolt.Tx)
		return btx.ForEach(func(name []byte, b *bbolt.Bucket) error {
			sb.WriteString("[" + string(name) + "]\n")
			return b.ForEach(func(k, v []byte) error {
				sb.WriteString(hex.EncodeToString(k) + "=" + hex.EncodeToString(v) + "\n")
				return nil
			})
		})
	})
	if err != nil {
		panic(err)
	}
	return sb.String()
}

type vc06Out struct {
	ParseErr   string
	AddErr     string
	Panic      string
	WasPresent bool
	Admitted   bool
	V          vc06Verdict
	Problems   []vc06Problem
	Clock      uint32
}

// offer gives one byte string (+ payload) to the real ParseTransaction + State.Add and to the model, and
// (full=true) compares everything observable afterwards. part names the harness part for the signatures.
func (in *vc06Inst) offer(b []byte, payload []byte, hasPayload bool, full bool) (out vc06Out) {
	ctx := context.Background()
	var before string
	before, in.lastDump = in.lastDump, ""
	if full && (!in.lazy || before == "") {
		before = in.dump()
	}
	if !hasPayload {
		payload = nil
	} else if payload == nil {
		payload = []byte{}
	}
	var tx Transaction
	func() {
		defer func() {
			if r := recover(); r != nil {
				out.Panic = fmt.Sprint(r)
			}
		}()
		var err error
		tx, err = ParseTransaction(b)
		if err != nil {
			out.ParseErr = err.Error()
		}
	}()
	ref := vc06Ref(sha256.Sum256(b))
	for r := range in.refs {
		if _, ok := in.model.txs[r]; !ok {
			delete(in.refs, r)
		}
	}
	for p := range in.pays {
		if _, ok := in.model.payloads[p]; !ok {
			delete(in.pays, p)
		}
	}
	if tx != nil {
		in.refs[ref] = b
		in.pays[vc06Ref(tx.PayloadHash())] = true
		out.Clock = tx.Clock()
		out.WasPresent, _ = in.st.IsPresent(ctx, tx.Ref())
		func() {
			defer func() {
				if r := recover(); r != nil {
					out.Panic = fmt.Sprint(r)
					in.poisoned = true
				}
			}()
			if err := in.st.Add(ctx, tx, payload); err != nil {
				out.AddErr = err.Error()
			}
		}()
		if in.poisoned {
			return
		}
		now, _ := in.st.IsPresent(ctx, tx.Ref())
		out.Admitted = now && !out.WasPresent
	}
	if hasPayload {
		in.pays[vc06Ref(sha256.Sum256(payload))] = true
	}
	out.V = in.model.offer(b, payload, hasPayload, false)
	if out.Admitted && out.V.Admit {
		in.model.admit(out.V.tx, payload, hasPayload)
	}
	problem := func(sig, what string) { out.Problems = append(out.Problems, vc06Problem{sig, what}) }
	if out.Admitted && !out.V.Admit {
		if out.V.Present {
			problem("admitted-not-valid|model-says-present", "harness: model and node disagree on presence")
		} else {
			problem("admitted-not-valid|"+out.V.Clause, fmt.Sprintf("transaction entered the DAG (clock %d) although it fails the requirement %q", out.Clock, out.V.Clause))
		}
		// re-align the model with the node so that the comparison below reports only additional differences
		mt := &vc06MTx{ref: ref, clock: tx.Clock(), payload: vc06Ref(tx.PayloadHash()), data: b}
		for _, p := range tx.Previous() {
			mt.prevs = append(mt.prevs, vc06Ref(p))
		}
		if ins, _ := vc06Interpret(b); len(ins) > 0 {
			mt.content = vc06Content(ins[0])
		} else {
			mt.content = sha256.Sum256(b)
		}
		in.model.admit(mt, payload, hasPayload)
	}
	if out.Admitted && out.AddErr != "" {
		problem("rejected-leaves-trace|error-but-stored", "Add returned an error but the transaction is stored: "+out.AddErr)
	}
	if !full {
		in.logSeen, in.modSeen = len(in.log), len(in.model.notified)
		return
	}
	if in.lazy && !out.Admitted {
		in.mu.Lock()
		n := len(in.log)
		in.mu.Unlock()
		if n != in.logSeen {
			problem("notifications-differ|more-than-expected", fmt.Sprintf("subscribers were called %d time(s) for an offer that was not admitted", n-in.logSeen))
			in.logSeen = n
		}
	} else {
		for _, p := range in.compare() {
			problem(p.Sig, p.What)
		}
	}
	after := ""
	if !out.Admitted || in.lazy {
		after = in.dump()
	}
	if !out.Admitted && after != before {
		cls := "rejected"
		if out.WasPresent {
			cls = "resubmission"
		}
		problem(cls+"-changes-storage|"+vc06DiffBuckets(before, after), "the byte-level dump of the store differs after a "+cls+" (buckets: "+vc06DiffBuckets(before, after)+")")
	}
	if in.lazy {
		in.lastDump = after
	}
	return
}

func vc06DiffBuckets(a, b string) string {
	split := func(s string) map[string]string {
		m := map[string]string{}
		cur := ""
		for _, l := range strings.Split(s, "\n") {
			if strings.HasPrefix(l, "[") {
				cur = l
				m[cur] = ""
			} else {
				m[cur] += l + "\n"
			}
		}
		return m
	}
	ma, mb := split(a), split(b)
	var d []string
	for k, v := range ma {
		if w, ok := mb[k]; !ok || w != v {
			d = append(d, k)
		}
	}
	for k := range mb {
		if _, ok := ma[k]; !ok {
			d = append(d, k)
		}
	}
	sort.Strings(d)
	return strings.Join(d, ",")
}

// compare checks stored set, clock index, payload shelf, digests and the notification log against the model.
func (in *vc06Inst) compare() (ps []vc06Problem) {
	ctx := context.Background()
	problem := func(sig, what string) { ps = append(ps, vc06Problem{sig, what}) }
	// stored set + clock index as the node reports them
	txs, err := in.st.FindBetweenLC(ctx, 0, MaxLamportClock)
	if err != nil {
		problem("state-differs|find-error", err.Error())
	}
	got := map[uint32][]string{}
	n := 0
	for _, t := range txs {
		got[t.Clock()] = append(got[t.Clock()], t.Ref().String())
		n++
	}
	for _, l := range got {
		sort.Strings(l)
	}
	want, xor := in.model.fold()
	if fmt.Sprint(got) != fmt.Sprint(want) {
		problem("state-differs|clock-index", fmt.Sprintf("clock index %v, the admitted set implies %v", got, want))
	}
	for ref, data := range in.refs {
		present, _ := in.st.IsPresent(ctx, hash.SHA256Hash(ref))
		_, inModel := in.model.txs[ref]
		if present != inModel {
			problem("state-differs|stored-set", fmt.Sprintf("IsPresent(%x)=%v, model %v", ref[:4], present, inModel))
		}
		if present {
			t, err := in.st.GetTransaction(ctx, hash.SHA256Hash(ref))
			if err != nil || !bytes.Equal(t.Data(), data) {
				problem("state-differs|stored-bytes", fmt.Sprintf("stored bytes of %x differ from what was offered (%v)", ref[:4], err))
			}
		}
	}
	for ph := range in.pays {
		data, err := in.st.ReadPayload(ctx, hash.SHA256Hash(ph))
		mdata, inModel := in.model.payloads[ph]
		if inModel && len(mdata) == 0 {
			continue // an empty payload is indistinguishable from none in the store; not constrained by the statement
		}
		if (err == nil) != inModel || (inModel && !bytes.Equal(data, mdata)) {
			problem("state-differs|payload-shelf", fmt.Sprintf("payload %x: stored=%v model=%v", ph[:4], err == nil, inModel))
		}
	}
	// highest clock and transaction count as the node serves / stores them
	wantHigh, wantCount := uint32(0), uint64(len(in.model.txs))
	for _, mt := range in.model.txs {
		if mt.clock > wantHigh {
			wantHigh = mt.clock
		}
	}
	if got := in.st.lamportClockHigh.Load(); got != wantHigh {
		problem("state-differs|lc-high", fmt.Sprintf("highest Lamport clock in memory %d, the admitted set implies %d", got, wantHigh))
	}
	var gotCount uint64
	var gotHighDB uint32
	_ = in.raw.Read(ctx, func(tx stoabs.ReadTx) error {
		gotCount = in.st.graph.getNumberOfTransactions(tx)
		gotHighDB = in.st.graph.getHighestClockValue(tx)
		return nil
	})
	if gotCount != wantCount || gotHighDB != wantHigh {
		problem("state-differs|metadata", fmt.Sprintf("stored transaction count %d / highest clock %d, the admitted set implies %d / %d", gotCount, gotHighDB, wantCount, wantHigh))
	}
	// digests (every page: with these clocks all transactions are on the first page, so the root is the page)
	for c := uint32(0); c <= wantHigh+1; c++ {
		wx := vc06Ref{}
		for r, mt := range in.model.txs {
			_ = mt
			for i := range wx {
				wx[i] ^= r[i]
			}
		}
		if h, _ := in.st.XOR(c); vc06Ref(h) != wx {
			problem("state-differs|xor", fmt.Sprintf("XOR(%d) digest %x, the admitted set implies %x", c, h[:4], wx[:4]))
			break
		}
	}
	xh, _ := in.st.XOR(MaxLamportClock)
	if vc06Ref(xh) != xor {
		problem("state-differs|xor", fmt.Sprintf("XOR digest %x, the admitted set implies %x", xh[:4], xor[:4]))
	}
	ib, _ := in.st.IBLT(MaxLamportClock)
	refIblt := tree.NewIblt(IbltNumBuckets)
	for r := range in.model.txs {
		refIblt.Insert(hash.SHA256Hash(r))
	}
	gb, _ := ib.MarshalBinary()
	wb, _ := refIblt.MarshalBinary()
	if !bytes.Equal(gb, wb) {
		problem("state-differs|iblt", "IBLT differs from the fold over the admitted set")
	}
	// notifications since the previous comparison
	in.mu.Lock()
	newLog := append([]string{}, in.log[in.logSeen:]...)
	in.logSeen = len(in.log)
	in.mu.Unlock()
	newMod := append([]string{}, in.model.notified[in.modSeen:]...)
	in.modSeen = len(in.model.notified)
	sort.Strings(newLog)
	sort.Strings(newMod)
	if strings.Join(newLog, ",") != strings.Join(newMod, ",") {
		problem("notifications-differ|"+vc06NotifyClass(newLog, newMod), fmt.Sprintf("subscribers were called %v, expected %v", vc06Short(newLog), vc06Short(newMod)))
	}
	return
}

func vc06Short(l []string) []string {
	o := make([]string, len(l))
	for i, s := range l {
		p := strings.Split(s, "|")
		if len(p) >= 3 && len(p[1]) > 8 {
			p[1] = p[1][:8]
		}
		o[i] = strings.Join(p, "|")
	}
	return o
}

func vc06NotifyClass(got, want []string) string {
	switch {
	case len(got) > len(want):
		return "more-than-expected"
	case len(got) < len(want):
		return "fewer-than-expected"
	}
	return "different"
}

// ---------------------------------------------------------------- liberal re-encodings of one signed triple

const vc06B64URL = "ABCDEFGHIJKLMNOPQRSTUVWXYZabcdefghijklmnopqrstuvwxyz0123456789-_"

// vc06Reencodings renders the SAME signed content (protected header bytes, payload, signature) of a canonical compact
// transaction in every other way a liberal JWS parser may accept. Keys are stable variant names.
func vc06Reencodings(compact []byte) map[string][]byte {
	seg := strings.Split(string(compact), ".")
	if len(seg) != 3 {
		panic("not a compact JWS")
	}
	out := map[string][]byte{}
	join := func(a, b, c string) []byte { return []byte(a + "." + b + "." + c) }
	with := func(i int, v string) []byte {
		x := []string{seg[0], seg[1], seg[2]}
		x[i] = v
		return join(x[0], x[1], x[2])
	}
	for i := 0; i < 3; i++ {
		for wn, w := range map[string]string{"cr": "\r", "lf": "\n", "crlf": "\r\n"} {
			if len(seg[i]) > 5 {
				out[fmt.Sprintf("%s-inside-seg%d", wn, i)] = with(i, seg[i][:5]+w+seg[i][5:])
			}
			out[fmt.Sprintf("%s-start-seg%d", wn, i)] = with(i, w+seg[i])
			out[fmt.Sprintf("%s-end-seg%d", wn, i)] = with(i, seg[i]+w)
		}
		if len(seg[i]) > 5 {
			out[fmt.Sprintf("space-inside-seg%d", i)] = with(i, seg[i][:5]+" "+seg[i][5:])
			out[fmt.Sprintf("lflf-inside-seg%d", i)] = with(i, seg[i][:5]+"\n\n"+seg[i][5:])
		}
		if pad := (4 - len(seg[i])%4) % 4; pad > 0 {
			out[fmt.Sprintf("padded-seg%d", i)] = with(i, seg[i]+strings.Repeat("=", pad))
			// non-zero trailing bits: the last character carries 4 (len%4==2) or 2 (len%4==3) unused low bits
			last := strings.IndexByte(vc06B64URL, seg[i][len(seg[i])-1])
			if last >= 0 && last|1 != last {
				out[fmt.Sprintf("trailing-bits-seg%d", i)] = with(i, seg[i][:len(seg[i])-1]+string(vc06B64URL[last|1]))
			}
		}
		if std := strings.NewReplacer("-", "+", "_", "/").Replace(seg[i]); std != seg[i] {
			out[fmt.Sprintf("std-alphabet-seg%d", i)] = with(i, std)
		}
	}
	c := string(compact)
	pad := func(x string) string { return x + strings.Repeat("=", (4-len(x)%4)%4) }
	out["padded-all"] = join(pad(seg[0]), pad(seg[1]), pad(seg[2]))
	for wn, w := range map[string]string{"space": " ", "tab": "\t", "cr": "\r", "lf": "\n", "crlf": "\r\n"} {
		out[wn+"-before"] = []byte(w + c)
		out[wn+"-after"] = []byte(c + w)
	}
	out["trailing-dot"] = []byte(c + ".")
	out["extra-segment"] = []byte(c + ".AAAA")
	out["extra-empty-segments"] = []byte(c + "..")
	j := func(v any) []byte { b, _ := json.Marshal(v); return b }
	out["json-flattened"] = j(map[string]any{"payload": seg[1], "protected": seg[0], "signature": seg[2]})
	out["json-flattened-unprotected-header"] = j(map[string]any{"payload": seg[1], "protected": seg[0], "signature": seg[2], "header": map[string]any{"x": "y"}})
	out["json-general"] = j(map[string]any{"payload": seg[1], "signatures": []any{map[string]any{"protected": seg[0], "signature": seg[2]}}})
	out["json-general-unprotected-header"] = j(map[string]any{"payload": seg[1], "signatures": []any{map[string]any{"protected": seg[0], "signature": seg[2], "header": map[string]any{"kid": "x"}}}})
	out["json-flattened-spaced"] = []byte("{ \"protected\" : \"" + seg[0] + "\" ,\n \"payload\" : \"" + seg[1] + "\" , \"signature\" : \"" + seg[2] + "\" }")
	out["json-flattened-padded"] = j(map[string]any{"payload": pad(seg[1]), "protected": pad(seg[0]), "signature": pad(seg[2])})
	for k, v := range out {
		if bytes.Equal(v, compact) {
			delete(out, k)
		}
	}
	return out
}
