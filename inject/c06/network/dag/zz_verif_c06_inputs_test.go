//go:build verif

// C06 part (a) — INPUTS: bounded-exhaustive mutation of valid transactions in every protected header, the
// payload segment, the signature, the serialisation and the payload offered alongside; every mutant is
// re-signed over the headers as sent and offered to the real ParseTransaction + State.Add.
package dag

import (
	"context"
	"crypto/sha256"
	"encoding/hex"
	"encoding/json"
	"fmt"
	"io"
	"os"
	"sort"
	"strings"
	"testing"

	"github.com/nuts-foundation/nuts-node/crypto/hash"
	"github.com/sirupsen/logrus"

	"verif/enum"
	"verif/ev"
)

type vc06Base struct {
	env        *vc06Env
	R, A1, B1  vc06Spec
	rR, rA1    string // hex refs
	rB1        string
	bR, bA1    []byte
	bB1        []byte
	unknownRef string
}

func vc06PayloadFor(name string) ([]byte, string) {
	p := []byte("verif payload of " + name)
	h := sha256.Sum256(p)
	return p, hex.EncodeToString(h[:])
}

func vc06Hdr(k *vc06Key, useKid bool, prevs []string, lc any, ver any, pal any) map[string]any {
	h := map[string]any{"alg": k.Alg, "cty": "application/did+json", "crit": []string{"sigt", "ver", "prevs", "lc"},
		"sigt": 1700000000, "ver": ver, "prevs": prevs, "lc": lc}
	if useKid {
		h["kid"] = vc06KidB
	} else {
		j := map[string]any{}
		for a, b := range k.pubJWK {
			j[a] = b
		}
		j["kid"] = "did:nuts:verif" + k.Name + "#key-1"
		h["jwk"] = j
	}
	if pal != nil {
		h["pal"] = pal
	}
	return h
}

func vc06HexRef(b []byte) string { r := sha256.Sum256(b); return hex.EncodeToString(r[:]) }

func vc06MustRef(s string) vc06Ref { r, _ := vc06Hex32(s); return r }

// vc06MakeBase builds the three-transaction DAG  R <- A1, R <- B1  and the key environment:
// kid B denotes key B1 in the document version created by R, and key B2 in the version created by B1.
func vc06MakeBase() *vc06Base {
	ring := vc06Ring()
	b := &vc06Base{env: &vc06Env{}}
	mk := func(name string, k *vc06Key, useKid bool, prevs []string, lc int) vc06Spec {
		p, ph := vc06PayloadFor(name)
		return vc06Spec{Desc: name, HdrJSON: vc06HdrJSON(vc06Hdr(k, useKid, prevs, lc, 2, nil)), PayloadSeg: ph, Key: k.Name, SignAlg: k.Alg,
			Payload: p, HasPayload: true}
	}
	b.R = mk("R", ring.A, false, []string{}, 0)
	b.bR = b.R.bytes()
	b.rR = vc06HexRef(b.bR)
	b.A1 = mk("A1", ring.A, false, []string{b.rR}, 1)
	b.bA1 = b.A1.bytes()
	b.rA1 = vc06HexRef(b.bA1)
	b.env.set(vc06KidB, vc06MustRef(b.rR), ring.B1.pub)
	b.B1 = mk("B1", ring.B1, true, []string{b.rR}, 1)
	b.bB1 = b.B1.bytes()
	b.rB1 = vc06HexRef(b.bB1)
	b.env.set(vc06KidB, vc06MustRef(b.rB1), ring.B2.pub)
	b.unknownRef = vc06HexRef([]byte("not a transaction"))
	return b
}

func (b *vc06Base) inst(t testing.TB, state string) *vc06Inst {
	in := vc06NewInst(b.env, vc06SubDefs, nil)
	if state == "base" || state == "basewp" {
		for _, s := range []struct {
			spec vc06Spec
			by   []byte
		}{{b.R, b.bR}, {b.A1, b.bA1}, {b.B1, b.bB1}} {
			o := in.offer(s.by, s.spec.Payload, true, false)
			if !o.Admitted || !o.V.Admit {
				t.Fatalf("harness: base transaction %s not admitted: parse=%q add=%q model=%+v", s.spec.Desc, o.ParseErr, o.AddErr, o.V)
			}
		}
	}
	if state == "basewp" {
		// a payload arrives later for A1's reference through WritePayload: it is in the payload store before any transaction declaring it is offered
		wp, wh := vc06PayloadFor("written-earlier")
		tx, err := ParseTransaction(b.bA1)
		if err != nil {
			t.Fatal(err)
		}
		if err := in.st.WritePayload(context.Background(), tx, hash.SHA256Hash(vc06MustRef(wh)), wp); err != nil {
			t.Fatalf("harness: WritePayload: %v", err)
		}
		in.model.writePayload(vc06MustRef(b.rA1), vc06MustRef(wh), wp)
		in.logSeen, in.modSeen = len(in.log), len(in.model.notified)
	}
	return in
}

type vc06Template struct {
	Name       string
	PayloadOf  string // the name whose payload this transaction declares (default: its own)
	State      string
	Hdr        map[string]any
	PayloadSeg string
	Key        string
	Payload    []byte
	HasPayload bool
	Expect     int // the correct clock
}

func vc06Templates(b *vc06Base) []vc06Template {
	ring := vc06Ring()
	var out []vc06Template
	payloadOf := ""
	add := func(name, state string, k *vc06Key, useKid bool, prevs []string, lc int, ver int, pal any, withPayload bool) {
		po := name
		if payloadOf != "" {
			po = payloadOf
		}
		p, ph := vc06PayloadFor(po)
		t := vc06Template{Name: name, PayloadOf: po, State: state, Hdr: vc06Hdr(k, useKid, prevs, lc, ver, pal), PayloadSeg: ph, Key: k.Name, Expect: lc}
		if withPayload {
			t.Payload, t.HasPayload = p, true
		}
		out = append(out, t)
	}
	add("root-jwk", "empty", ring.A2, false, []string{}, 0, 2, nil, true)
	add("merge-jwk", "base", ring.A, false, []string{b.rA1, b.rB1}, 2, 2, nil, true)
	add("update-kid-v2key", "base", ring.B2, true, []string{b.rB1, b.rA1}, 2, 2, nil, true)
	add("update-kid-v1key", "base", ring.B1, true, []string{b.rR}, 1, 2, nil, true)
	add("private-pal", "base", ring.A, false, []string{b.rA1}, 2, 2, []string{"QUJDRA==", "RUZHSA=="}, false)
	add("ver1-rsa", "base", ring.C, false, []string{b.rB1}, 2, 1, nil, true)
	add("es512", "base", ring.D, false, []string{b.rR}, 1, 2, nil, true)
	// the declared payload hash is ALREADY in the payload store: a sibling with the payload of A1, and a payload that was
	// written earlier by WritePayload (a private payload that arrived after its transaction)
	payloadOf = "A1"
	add("same-payload-as-present-tx", "base", ring.A, false, []string{b.rA1}, 2, 2, nil, true)
	payloadOf = "written-earlier"
	add("payload-written-earlier", "basewp", ring.A, false, []string{b.rB1}, 2, 2, nil, true)
	return out
}

// vc06Mut is one single mutation of a template.
type vc06Mut struct {
	Field string // header name, or "@payloadseg", "@signature", "@form", "@payload", "@dup"
	Name  string
	apply func(s *vc06Spec, hdr map[string]any)
}

func vc06Raw(s string) json.RawMessage { return json.RawMessage(s) }

func vc06Mutations(b *vc06Base, t vc06Template) []vc06Mut {
	ring := vc06Ring()
	var out []vc06Mut
	setH := func(field, name string, v any) {
		out = append(out, vc06Mut{field, name, func(s *vc06Spec, h map[string]any) { h[field] = v }})
	}
	headers := []string{"alg", "cty", "crit", "sigt", "ver", "prevs", "lc", "pal", "kid", "jwk"}
	for _, f := range headers {
		f := f
		out = append(out, vc06Mut{f, "missing", func(s *vc06Spec, h map[string]any) { delete(h, f) }})
		for _, rv := range enum.Replacements {
			setH(f, "type:"+rv.Name, enum.Clone(rv.V))
		}
		setH(f, "type:false", false)
		setH(f, "type:obj-with-self", map[string]any{f: 1})
	}
	e := float64(t.Expect)
	// alg lattice: header value x how the signature is really made
	for _, a := range []string{"none", "HS256", "HS384", "HS512", "RS256", "RS384", "RS512", "ES256", "ES384", "ES512", "ES256K", "EdDSA",
		"PS256", "PS384", "PS512", "es256", "ES256 ", "A128KW", "XX"} {
		a := a
		out = append(out, vc06Mut{"alg", "alg=" + a + "/signed-with-key-alg", func(s *vc06Spec, h map[string]any) { h["alg"] = a }})
		out = append(out, vc06Mut{"alg", "alg=" + a + "/signed-as-named", func(s *vc06Spec, h map[string]any) { h["alg"] = a; s.SignAlg = a }})
	}
	for _, v := range []string{"a/", "/", "noslash", " / ", "application/did+json; x=1", "APPLICATION/DID+JSON"} {
		setH("cty", "cty="+v, v)
	}
	for _, v := range [][]string{{"sigt"}, {"unknown"}, {"sigt", "ver", "prevs", "lc", "x"}, {"b64"}, {"lc", "prevs", "ver", "sigt"}} {
		setH("crit", "crit="+strings.Join(v, "+"), v)
	}
	setH("crit", "crit=string", "sigt")
	for _, v := range []string{"1.5", "-1", "1e300", `"1700000000"`, "9223372036854775807", "0", "253402300800", "1700000000.0"} {
		setH("sigt", "sigt="+v, vc06Raw(v))
	}
	for _, v := range []string{"1", "2", "3", "0", "1.5", "2.9", "2.0", "-1", `"2"`, "4294967297", "4294967298", "18446744073709551617", "1e0", "0.9999999999999999999"} {
		setH("ver", "ver="+v, vc06Raw(v))
	}
	// prevs
	own, _ := t.Hdr["prevs"].([]string)
	prevSets := map[string][]any{
		"empty": {}, "only-R": {b.rR}, "only-A1": {b.rA1}, "only-B1": {b.rB1}, "A1+A1": {b.rA1, b.rA1}, "A1+B1+A1": {b.rA1, b.rB1, b.rA1},
		"unknown": {b.unknownRef}, "A1+unknown": {b.rA1, b.unknownRef}, "unknown+A1": {b.unknownRef, b.rA1},
		"R+A1+B1": {b.rR, b.rA1, b.rB1}, "B1+R": {b.rB1, b.rR}, "R+B1": {b.rR, b.rB1},
		"short": {"abcd"}, "upper-A1": {strings.ToUpper(b.rA1)}, "emptystr": {""}, "A1-space": {b.rA1 + " "},
		"number": {123}, "nested": {[]any{b.rA1}}, "null-elem": {nil}, "A1+null": {b.rA1, nil}, "66hex": {b.rA1 + "00"},
		"zero-hash": {strings.Repeat("0", 64)},
	}
	if len(own) > 1 {
		rev := []any{}
		for i := len(own) - 1; i >= 0; i-- {
			rev = append(rev, own[i])
		}
		prevSets["reversed"] = rev
	}
	pk := make([]string, 0, len(prevSets))
	for k := range prevSets {
		pk = append(pk, k)
	}
	sort.Strings(pk)
	for _, k := range pk {
		setH("prevs", "prevs="+k, prevSets[k])
	}
	setH("prevs", "prevs=string", b.rA1)
	// self reference: the reference of the honest twin of this very transaction
	twin := vc06Spec{HdrJSON: vc06HdrJSON(t.Hdr), PayloadSeg: t.PayloadSeg, Key: t.Key, SignAlg: ring.byName(t.Key).Alg}
	setH("prevs", "prevs=honest-twin", []any{vc06HexRef(twin.bytes())})
	// lc: the declared clock around the correct value e (= 1 + highest clock among the honest prevs)
	lcs := map[string]string{
		"e": fmt.Sprint(int64(e)), "e.0": fmt.Sprintf("%d.0", int64(e)), "e-exp": fmt.Sprintf("%de0", int64(e)),
		"e+0.5": fmt.Sprint(e + 0.5), "e+0.9999": fmt.Sprint(e + 0.9999), "e+1": fmt.Sprint(int64(e) + 1), "e+2": fmt.Sprint(int64(e) + 2),
		"e-1": fmt.Sprint(int64(e) - 1), "e-0.5": fmt.Sprint(e - 0.5),
		"2^32+e": fmt.Sprint(int64(4294967296) + int64(e)), "-(2^32-e)": fmt.Sprint(int64(e) - 4294967296),
		"-1": "-1", "1.5": "1.5", "1.9999": "1.9999", "2^32": "4294967296", "2^32+1": "4294967297", "2^32-1": "4294967295",
		"str-e": fmt.Sprintf(`"%d"`, int64(e)), "str-1": `"1"`, "1e300": "1e300", "-0": "-0", "0": "0", "1": "1", "2": "2", "3": "3",
		"e+tiny": fmt.Sprintf("%d.00000000000000001", int64(e)), "0.9999999999999999999": "0.9999999999999999999",
	}
	lcs["2^64+e"] = "1844674407370955161" + fmt.Sprint(6+int64(e)) // 2^64 + e as a literal
	lk := make([]string, 0, len(lcs))
	for k := range lcs {
		lk = append(lk, k)
	}
	sort.Strings(lk)
	for _, k := range lk {
		setH("lc", "lc="+k, vc06Raw(lcs[k]))
	}
	// pal
	pals := map[string]any{"empty-list": []any{}, "one": []any{"QUJDRA=="}, "two": []any{"QUJDRA==", "RUZHSA=="}, "not-base64": []any{"not base64!"},
		"url-alphabet": []any{"-_-_"}, "unpadded": []any{"QUJDRA"}, "number": []any{123}, "null-elem": []any{nil}, "string": "QUJDRA==",
		"nested": []any{[]any{}}, "obj-elem": []any{map[string]any{"a": 1}}, "good+bad": []any{"QUJDRA==", "!"}, "empty-elem": []any{""}}
	pk = pk[:0]
	for k := range pals {
		pk = append(pk, k)
	}
	sort.Strings(pk)
	for _, k := range pk {
		setH("pal", "pal="+k, pals[k])
	}
	// kid
	for _, v := range []string{vc06KidB, "did:nuts:verifUnknown#key-1", "did:nuts:verifB#other", "did:nuts:verifB", "#", "not a did", strings.ToUpper(vc06KidB)} {
		setH("kid", "kid="+v, v)
	}
	// jwk
	withKid := func(m map[string]any) map[string]any {
		o := map[string]any{}
		for k, v := range m {
			o[k] = v
		}
		return o
	}
	signer := ring.byName(t.Key)
	jwks := map[string]any{
		"signer-public": signer.pubJWK, "signer-PRIVATE": signer.privJWK, "other-public": ring.E.pubJWK, "other-PRIVATE": ring.E.privJWK,
		"rsa-public": ring.C.pubJWK, "rsa-PRIVATE": ring.C.privJWK, "ed25519": ring.edJWK, "oct": ring.octJWK, "string": "jwk",
	}
	noY := withKid(signer.pubJWK)
	delete(noY, "y")
	delete(noY, "e")
	jwks["signer-missing-coordinate"] = noY
	wrongCrv := withKid(signer.pubJWK)
	if wrongCrv["kty"] == "EC" {
		wrongCrv["crv"] = "P-521"
		if signer.Alg == "ES512" {
			wrongCrv["crv"] = "P-256"
		}
	}
	jwks["signer-wrong-crv"] = wrongCrv
	noKty := withKid(signer.pubJWK)
	delete(noKty, "kty")
	jwks["signer-no-kty"] = noKty
	pk = pk[:0]
	for k := range jwks {
		pk = append(pk, k)
	}
	sort.Strings(pk)
	for _, k := range pk {
		setH("jwk", "jwk="+k, jwks[k])
	}
	// both key references / swapped key reference
	out = append(out, vc06Mut{"kid", "kid+jwk-both", func(s *vc06Spec, h map[string]any) { h["kid"] = vc06KidB; h["jwk"] = signer.pubJWK }})
	out = append(out, vc06Mut{"kid", "kid-empty+jwk", func(s *vc06Spec, h map[string]any) { h["kid"] = ""; h["jwk"] = signer.pubJWK }})
	out = append(out, vc06Mut{"jwk", "swap-to-jwk-of-signer", func(s *vc06Spec, h map[string]any) { delete(h, "kid"); h["jwk"] = signer.pubJWK }})
	out = append(out, vc06Mut{"kid", "swap-to-kid", func(s *vc06Spec, h map[string]any) { delete(h, "jwk"); h["kid"] = vc06KidB }})
	setH("b64", "b64=false", false)
	setH("b64", "b64=true", true)
	setH("b64", "b64=string", "no")
	setH("jku", "jku=url", "https://example.com/keys")
	setH("x5c", "x5c=list", []string{"AAAA"})
	setH("verifUndefined", "unknown-header", "x")
	// signer: signed by another key although the key reference names the honest one
	for _, k := range []string{"E", "B1", "B2", "C"} {
		k := k
		if k == t.Key {
			continue
		}
		out = append(out, vc06Mut{"@signature", "signed-by-" + k, func(s *vc06Spec, h map[string]any) { s.Key = k; s.SignAlg = ring.byName(k).Alg }})
	}
	for _, m := range []string{"flip-sig", "trunc-sig", "empty-sig", "high-s", "flip-hdr-after-sign", "flip-payload-after-sign"} {
		m := m
		out = append(out, vc06Mut{"@signature", m, func(s *vc06Spec, h map[string]any) { s.Mangle = m }})
	}
	// payload segment
	_, otherHash := vc06PayloadFor("some other payload")
	segs := map[string]string{"empty": "", "63hex": t.PayloadSeg[:63], "66hex": t.PayloadSeg + "00", "upper": strings.ToUpper(t.PayloadSeg),
		"nonhex": strings.Repeat("z", 64), "other-hash": otherHash, "json": `{"a":1}`, "zero-hash": strings.Repeat("0", 64), "space": t.PayloadSeg + " "}
	pk = pk[:0]
	for k := range segs {
		pk = append(pk, k)
	}
	sort.Strings(pk)
	for _, k := range pk {
		v := segs[k]
		out = append(out, vc06Mut{"@payloadseg", "payloadseg=" + k, func(s *vc06Spec, h map[string]any) { s.PayloadSeg = v }})
	}
	// payload offered with the transaction
	hp, _ := vc06PayloadFor(t.PayloadOf)
	out = append(out, vc06Mut{"@payload", "payload=none", func(s *vc06Spec, h map[string]any) { s.Payload, s.HasPayload = nil, false }})
	out = append(out, vc06Mut{"@payload", "payload=right", func(s *vc06Spec, h map[string]any) { s.Payload, s.HasPayload = hp, true }})
	out = append(out, vc06Mut{"@payload", "payload=wrong", func(s *vc06Spec, h map[string]any) { s.Payload, s.HasPayload = []byte("wrong bytes"), true }})
	out = append(out, vc06Mut{"@payload", "payload=empty", func(s *vc06Spec, h map[string]any) { s.Payload, s.HasPayload = []byte{}, true }})
	out = append(out, vc06Mut{"@payload", "payload=right+byte", func(s *vc06Spec, h map[string]any) {
		s.Payload, s.HasPayload = append(append([]byte{}, hp...), 0), true
	}})
	out = append(out, vc06Mut{"@payload", "payload=the-hash-hex", func(s *vc06Spec, h map[string]any) { s.Payload, s.HasPayload = []byte(t.PayloadSeg), true }})
	// serialisation
	for _, f := range []string{"compact-4-segments", "compact-4-segments-empty", "compact-2-segments", "compact-leading-space", "compact-trailing-newline",
		"compact-inner-newline", "compact-padded", "compact-std-alphabet", "compact-b64-unencoded", "flattened", "flattened-unprotected-header",
		"general-1", "general-1-unprotected-header", "general-0", "general-2-valid-first", "general-2-valid-last", "general-2-same-twice",
		"flattened-and-general", "all-headers-unprotected"} {
		f := f
		out = append(out, vc06Mut{"@form", "form=" + f, func(s *vc06Spec, h map[string]any) { s.Form = f }})
	}
	return out
}

// vc06DupHeaders renders protected-header texts in which one member occurs twice (a decoded map cannot say that).
func vc06DupHeaders(b *vc06Base, t vc06Template) map[string]string {
	ring := vc06Ring()
	alts := map[string]any{"alg": "none", "lc": t.Expect + 1, "prevs": []string{}, "kid": "did:nuts:verifUnknown#key-1", "jwk": ring.E.pubJWK,
		"cty": "x", "ver": 3, "sigt": "x", "crit": []string{}, "pal": []string{"!"}}
	honest := []byte(vc06HdrJSON(t.Hdr))
	out := map[string]string{}
	for f, alt := range alts {
		if _, ok := t.Hdr[f]; !ok {
			continue
		}
		ab, _ := json.Marshal(alt)
		for i, v := range enum.DuplicateMembers(honest, string(ab)) {
			// DuplicateMembers duplicates EVERY member with the same alternative; keep those that duplicate f
			if vc06TopLevelDup(v, f) {
				out[fmt.Sprintf("dup-%s-%d", f, i%2)] = string(v)
			}
		}
	}
	return out
}

func vc06TopLevelDup(b []byte, f string) bool {
	dec := json.NewDecoder(strings.NewReader(string(b)))
	if tok, err := dec.Token(); err != nil || tok != json.Delim('{') {
		return false
	}
	n := 0
	for dec.More() {
		kt, err := dec.Token()
		if err != nil {
			return false
		}
		var raw json.RawMessage
		if dec.Decode(&raw) != nil {
			return false
		}
		if kt == f {
			n++
		}
	}
	return n == 2
}

type vc06Case struct {
	Template string
	State    string
	Desc     string
	Spec     vc06Spec
	Bytes    string `json:",omitempty"` // exact bytes offered (replay)
	PreBytes string `json:",omitempty"` // the honest transaction that is added FIRST (re-encoding cases)
	PrePay   string `json:",omitempty"` // name of the payload offered with it
	Honest   bool
}

func vc06CloneHdr(h map[string]any) map[string]any {
	return enum.Clone(vc06Normalise(h)).(map[string]any)
}

// vc06Normalise turns typed values into plain decoded-JSON values so that enum.Clone deep-copies them.
func vc06Normalise(h map[string]any) map[string]any {
	b, _ := json.Marshal(h)
	var m map[string]any
	dec := json.NewDecoder(strings.NewReader(string(b)))
	dec.UseNumber()
	_ = dec.Decode(&m)
	return m
}

func vc06BuildCases(b *vc06Base, pairs bool) []vc06Case {
	ring := vc06Ring()
	var out []vc06Case
	for _, t := range vc06Templates(b) {
		base := vc06Spec{PayloadSeg: t.PayloadSeg, Key: t.Key, SignAlg: ring.byName(t.Key).Alg, Payload: t.Payload, HasPayload: t.HasPayload}
		hs := base
		hs.HdrJSON = vc06HdrJSON(t.Hdr)
		hs.Desc = t.Name + "|honest"
		out = append(out, vc06Case{Template: t.Name, State: t.State, Desc: "honest", Spec: hs, Honest: true})
		muts := vc06Mutations(b, t)
		mk := func(ms ...vc06Mut) vc06Case {
			h := vc06CloneHdr(t.Hdr)
			s := base
			names := []string{}
			for _, m := range ms {
				m.apply(&s, h)
				names = append(names, m.Field+":"+m.Name)
			}
			s.HdrJSON = vc06HdrJSON(h)
			d := strings.Join(names, " & ")
			s.Desc = t.Name + "|" + d
			return vc06Case{Template: t.Name, State: t.State, Desc: d, Spec: s}
		}
		for _, m := range muts {
			out = append(out, mk(m))
		}
		dups := vc06DupHeaders(b, t)
		dk := make([]string, 0, len(dups))
		for k := range dups {
			dk = append(dk, k)
		}
		sort.Strings(dk)
		for _, k := range dk {
			s := base
			s.HdrJSON = dups[k]
			s.Desc = t.Name + "|" + k
			out = append(out, vc06Case{Template: t.Name, State: t.State, Desc: k, Spec: s})
		}
		// liberal re-encodings of the SAME signed triple: offered after the transaction itself was added ("exactly once": must be
		// refused, nothing changes, nobody is told), and offered to a DAG that does not hold it (judged as any other input)
		hb := hs.bytes()
		encs := vc06Reencodings(hb)
		en := make([]string, 0, len(encs))
		for k := range encs {
			en = append(en, k)
		}
		sort.Strings(en)
		hp, _ := vc06PayloadFor(t.PayloadOf)
		for _, k := range en {
			for _, withPayload := range []bool{true, false} {
				sp := vc06Spec{Desc: t.Name + "|re-encoding-after-add:" + k, Payload: hp, HasPayload: withPayload}
				if !withPayload {
					sp.Payload = nil
				}
				out = append(out, vc06Case{Template: t.Name, State: t.State, Desc: fmt.Sprintf("re-encoding-after-add:%s/payload=%v", k, withPayload), Spec: sp,
					Bytes: hex.EncodeToString(encs[k]), PreBytes: hex.EncodeToString(hb), PrePay: t.PayloadOf})
			}
			sp := vc06Spec{Desc: t.Name + "|re-encoding:" + k, Payload: t.Payload, HasPayload: t.HasPayload}
			out = append(out, vc06Case{Template: t.Name, State: t.State, Desc: "re-encoding:" + k, Spec: sp, Bytes: hex.EncodeToString(encs[k])})
		}
		// the honest transaction of the other state's template: a second root / a non-root on the empty DAG
		other := "base"
		if t.State == "base" {
			other = "empty"
		}
		x := hs
		x.Desc = t.Name + "|honest-in-" + other + "-dag"
		out = append(out, vc06Case{Template: t.Name, State: other, Desc: "honest-in-" + other + "-dag", Spec: x})
		if pairs && (t.Name == "update-kid-v2key" || t.Name == "private-pal" || t.Name == "root-jwk") {
			for i := 0; i < len(muts); i++ {
				for j := i + 1; j < len(muts); j++ {
					if muts[i].Field == muts[j].Field {
						continue
					}
					out = append(out, mk(muts[i], muts[j]))
				}
			}
		}
	}
	return out
}

func TestVerifC06Inputs(t *testing.T) {
	logrus.SetOutput(io.Discard)
	logrus.SetLevel(logrus.PanicLevel)
	r := ev.Start(t, "C06")
	defer r.Finish()
	r.Rule("inputs: 9 valid transactions (embedded-jwk root, embedded-jwk merge, kid update under the key of document version 1 and of version 2, " +
		"private with PAL, ver 1 with an RSA-PSS key, ES512, a sibling declaring the payload of a present transaction, a transaction declaring a payload that WritePayload stored earlier) x every single mutation from a finite alphabet per protected header " +
		"(alg,cty,crit,sigt,ver,prevs,lc,pal,kid,jwk + b64/jku/x5c/unknown: missing, 16 type confusions, header-specific extremes), duplicated members, " +
		"payload segment, signature, signer, serialisation (compact re-encodings, flattened/general JSON with 0/1/2 signatures, unprotected headers) and offered payload; " +
		"every mutant is RE-SIGNED over the headers as sent; plus, for every template, ~70 liberal re-encodings of the SAME signed triple (CR / LF / CRLF inside, before and after each segment, " +
		"space / tab around, '=' padding, standard alphabet, non-zero trailing bits, trailing dot, extra segments, flattened / general JSON with and without unprotected header) offered AFTER the transaction itself was added " +
		"(exactly once: the set of admitted signed contents must not grow, storage byte-identical, nobody notified) and to a DAG that does not hold it; thorough: all pairs of mutations of different fields on three templates. " +
		"A case is non-trivial when it is a distinct (template, mutation) pair; each is offered to the real ParseTransaction + State.Add on bbolt")
	r.Assume("jwx (JWS/JWK parsing, signature primitives) and bbolt are exercised, not modelled; the reference model uses encoding/json, encoding/base64 and the Go standard crypto only")
	b := vc06MakeBase()
	cases := vc06BuildCases(b, r.Thorough())
	r.Bound("input_cases", len(cases))
	r.Bound("mutation_depth", map[bool]int{false: 1, true: 2}[r.Thorough()])
	var rc vc06Case
	if os.Getenv("VERIF_REPLAY") != "" && !r.ReplayCase(&rc) {
		return // the replay file belongs to another part
	}
	if r.ReplayCase(&rc) {
		// keys (and with them every reference) are fresh in every process: rebuild the case from its structural description
		sel := []vc06Case{}
		for _, c := range vc06BuildCases(b, strings.Contains(rc.Desc, " & ")) {
			if c.Template == rc.Template && c.State == rc.State && c.Desc == rc.Desc {
				sel = append(sel, c)
				break
			}
		}
		if len(sel) == 0 {
			sel = []vc06Case{rc}
		}
		cases = sel
	}
	insts := map[string]*vc06Inst{}
	get := func(state string) *vc06Inst {
		if insts[state] == nil {
			insts[state] = b.inst(t, strings.SplitN(state, "|", 2)[0])
		}
		return insts[state]
	}
	drop := func(state string) {
		if insts[state] != nil {
			insts[state].close()
			insts[state] = nil
		}
	}
	defer func() {
		for s := range insts {
			drop(s)
		}
	}()
	admitted, transitions := 0, int64(0)
	for idx, c := range cases {
		if !r.Mine(idx) && len(cases) > 1 {
			continue
		}
		if r.Expired() {
			break
		}
		var by []byte
		if c.Bytes != "" {
			by, _ = hex.DecodeString(c.Bytes)
		} else {
			by = c.Spec.bytes()
		}
		key := c.State
		if c.PreBytes != "" {
			key = c.State + "|after:" + c.Template
		}
		if insts[key] == nil && c.PreBytes != "" {
			in := b.inst(t, c.State)
			pre, _ := hex.DecodeString(c.PreBytes)
			hp, _ := vc06PayloadFor(c.PrePay)
			if o := in.offer(pre, hp, true, false); !o.Admitted || !o.V.Admit {
				t.Fatalf("harness: the honest transaction of %s was not admitted before its re-encodings: %+v", c.Template, o)
			}
			insts[key] = in
		}
		in := get(key)
		o := in.offer(by, c.Spec.Payload, c.Spec.HasPayload, true)
		transitions++
		r.Eval(c.Template + "|" + c.State + "|" + c.Desc)
		c.Bytes = hex.EncodeToString(by)
		outcome := "refused-at-parse"
		switch {
		case o.Panic != "":
			outcome = "panic"
			r.Observation("panic-in-parse-or-add", map[string]any{"case": c.Template + "|" + c.Desc, "panic": o.Panic})
		case o.Admitted:
			outcome = "admitted"
			admitted++
		case o.WasPresent:
			outcome = "already-present"
		case o.ParseErr == "" && o.AddErr != "":
			outcome = "refused-by-add"
		case o.ParseErr == "":
			outcome = "add-nil-but-absent"
		}
		r.Outcome(outcome)
		for _, p := range o.Problems {
			t.Logf("PROBLEM %s :: %s|%s|%s", p.Sig, c.Template, c.State, c.Desc)
			r.Violation("C06|inputs|"+p.Sig, fmt.Sprintf("%s [%s in %s DAG: %s]", p.What, c.Template, c.State, c.Desc), c)
		}
		if o.Admitted {
			for _, n := range o.V.Notes {
				r.Observation("admitted-though-odd:"+n, c.Template+"|"+c.Desc)
			}
		}
		if !o.Admitted && !o.WasPresent && o.V.Admit {
			if c.Honest {
				t.Fatalf("harness (vacuity guard): honest transaction %s refused: parse=%q add=%q", c.Template, o.ParseErr, o.AddErr)
			}
			r.Observation("refused-though-model-admits", map[string]any{"case": c.Template + "|" + c.Desc, "parse": o.ParseErr, "add": o.AddErr})
		}
		if c.Honest && !o.Admitted {
			t.Fatalf("harness (vacuity guard): honest transaction %s not admitted: %+v", c.Template, o)
		}
		if idx%211 == 3 || (o.Admitted && !c.Honest && admitted < 4) {
			r.Sample(map[string]any{"template": c.Template, "state": c.State, "mutation": c.Desc, "outcome": outcome, "model_clause": o.V.Clause})
		}
		if o.Admitted || in.poisoned || len(o.Problems) > 0 {
			drop(key)
		}
	}
	r.Transitions(transitions)
	r.Extra("inputs_admitted", int64(admitted))
}
