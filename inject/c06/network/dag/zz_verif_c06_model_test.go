//go:build verif

// C06 reference admission model (DESIGN App. B.1). Deliberately independent of jwx and of the dag
// package's own parser: encoding/json + encoding/base64 + the Go standard crypto primitives only.
//
// The model is PERMISSIVE wherever the property statement is silent (encoding of the serialisation,
// duplicate header members, `crit` contents, `sigt`/`ver` oddities, a private `jwk`): it then admits and
// leaves a note (-> observation). It refuses exactly what the statement forbids:
//   - not a single-signature JWS (compact with exactly three segments, or JSON serialisation with one signature)
//   - alg outside {ES256,ES384,ES512,PS256,PS384,PS512}
//   - a mandatory header (cty with "/", sigt number, ver number in {1,2}, prevs list of 64-hex, lc number) missing / ill-typed
//   - lc not an integer in [0,2^32)            (the DECLARED clock is what the statement constrains)
//   - not exactly one of kid / jwk
//   - JWS payload not a 64-hex payload hash
//   - a prev that is not present; lc != 0 (no prevs) / 1+max clock(prevs); second root
//   - signature not verifying under jwk / under key(kid) as of prevs (environment table)
//   - supplied payload not hashing to the declared hash
package dag

import (
	"bytes"
	"crypto"
	"crypto/ecdsa"
	"crypto/elliptic"
	"crypto/rsa"
	"crypto/sha256"
	"crypto/sha512"
	"encoding/base64"
	"encoding/hex"
	"encoding/json"
	"math"
	"math/big"
	"sort"
	"strings"
)

type vc06Ref = [32]byte

type vc06MTx struct {
	ref     vc06Ref
	clock   uint32
	prevs   []vc06Ref
	payload vc06Ref
	data    []byte
	content [32]byte // identity of the signed content (header bytes, payload, signature), see vc06Content
}

// vc06Env is the environment the stub key resolver and the model share: which public key a key id denotes
// in the signer's DID document version that was created by a given source transaction.
type vc06Env struct {
	// versions[kid][sourceTxRef] = public key
	versions map[string]map[vc06Ref]crypto.PublicKey
	// sigMemo remembers the outcome of a signature verification (pure function of its arguments); the
	// history search offers the same bytes thousands of times
	sigMemo map[[32]byte]bool
	// keysAsOf, when set, replaces the versions table (keys part): the keys the key id denotes in the signer's DID document
	// as of the referenced transactions, computed from the documents that the present transactions published.
	// strict: the key is in the document published by one of the referenced transactions themselves; merged: it is only in a
	// document published by a transaction of the same DID that is CONCURRENT with a referenced one (the DID store merges
	// parallel versions into one version that names all of them as source transactions) — admitted with a note.
	// A key may carry a note: the admission is then recorded as an observation, e.g. "kid-liberal-form" for a key id that only
	// denotes the key after dropping a path / query / second fragment (the statement does not say how key ids are compared).
	keysAsOf func(m *vc06Model, kid string, prevs []vc06Ref) []vc06KeyAsOf
}

type vc06KeyAsOf struct {
	pub  crypto.PublicKey
	note string // "" = the key id denotes this key in the version published by a referenced transaction itself
}

func (e *vc06Env) sigOK(alg string, pub crypto.PublicKey, input, sig []byte) bool {
	h := sha256.New()
	h.Write([]byte(alg))
	switch k := pub.(type) {
	case *ecdsa.PublicKey:
		h.Write([]byte(k.Params().Name))
		h.Write(k.X.Bytes())
		h.Write([]byte{0})
		h.Write(k.Y.Bytes())
	case *rsa.PublicKey:
		h.Write(k.N.Bytes())
	}
	h.Write([]byte{0})
	h.Write(input)
	h.Write([]byte{0})
	h.Write(sig)
	var key [32]byte
	copy(key[:], h.Sum(nil))
	if e.sigMemo == nil {
		e.sigMemo = map[[32]byte]bool{}
	}
	if v, ok := e.sigMemo[key]; ok {
		return v
	}
	v := vc06SigOK(alg, pub, input, sig)
	e.sigMemo[key] = v
	return v
}

func (e *vc06Env) set(kid string, src vc06Ref, pub crypto.PublicKey) {
	if e.versions == nil {
		e.versions = map[string]map[vc06Ref]crypto.PublicKey{}
	}
	if e.versions[kid] == nil {
		e.versions[kid] = map[vc06Ref]crypto.PublicKey{}
	}
	e.versions[kid][src] = pub
}

// keyAsOf is the model's reading of "the key its key id denoted in the signer's DID document as of the
// referenced transactions": the first referenced transaction (in the order sent) that created a version.
func (e *vc06Env) keyAsOf(kid string, prevs []vc06Ref) crypto.PublicKey {
	for _, p := range prevs {
		if k, ok := e.versions[kid][p]; ok {
			return k
		}
	}
	return nil
}

type vc06Sub struct {
	name       string
	types      []string // event types the subscriber's filter selects
	persistent bool
}

type vc06Model struct {
	txs      map[vc06Ref]*vc06MTx
	payloads map[vc06Ref][]byte
	contents map[[32]byte]vc06Ref // signed content -> the transaction that carries it
	notified []string             // "subscriber|ref|type" in admission order
	env      *vc06Env
	subs     []vc06Sub
}

func vc06NewModel(env *vc06Env, subs []vc06Sub) *vc06Model {
	return &vc06Model{txs: map[vc06Ref]*vc06MTx{}, payloads: map[vc06Ref][]byte{}, contents: map[[32]byte]vc06Ref{}, env: env, subs: subs}
}

func (m *vc06Model) clone() *vc06Model {
	c := vc06NewModel(m.env, m.subs)
	for k, v := range m.txs {
		c.txs[k] = v
	}
	for k, v := range m.payloads {
		c.payloads[k] = v
	}
	for k, v := range m.contents {
		c.contents[k] = v
	}
	c.notified = append([]string{}, m.notified...)
	return c
}

func (m *vc06Model) hasRoot() bool {
	for _, t := range m.txs {
		if len(t.prevs) == 0 {
			return true
		}
	}
	return false
}

// vc06Verdict is the model's answer for one offer.
type vc06Verdict struct {
	Present bool     // ref already in S: OK, nothing changes
	Admit   bool     // enters the DAG
	Clause  string   // first failed requirement ("" when Admit or Present)
	Notes   []string // admitted although odd in a way the statement does not forbid
	tx      *vc06MTx
}

// ---------------------------------------------------------------- JWS reader

type vc06Interp struct {
	hdrBytes  []byte // decoded protected header, as signed
	protected map[string]json.RawMessage
	payload   []byte // decoded JWS payload
	sig       []byte
	inputs    [][]byte // candidate signing inputs
	notes     []string
}

func vc06B64(seg string) ([]byte, bool, bool) { // decoded, ok, canonical
	if b, err := base64.RawURLEncoding.Strict().DecodeString(seg); err == nil {
		return b, true, true
	}
	clean := strings.NewReplacer("\r", "", "\n", "").Replace(seg)
	for _, enc := range []*base64.Encoding{base64.RawURLEncoding, base64.URLEncoding, base64.RawStdEncoding, base64.StdEncoding} {
		if b, err := enc.DecodeString(clean); err == nil {
			return b, true, false
		}
	}
	return nil, false, false
}

// vc06Members reads a JSON object keeping duplicate members; returns the first-wins and last-wins views.
func vc06Members(b []byte) (views []map[string]json.RawMessage, dup bool, ok bool) {
	dec := json.NewDecoder(bytes.NewReader(b))
	tok, err := dec.Token()
	if err != nil || tok != json.Delim('{') {
		return nil, false, false
	}
	first, last := map[string]json.RawMessage{}, map[string]json.RawMessage{}
	for dec.More() {
		kt, err := dec.Token()
		if err != nil {
			return nil, false, false
		}
		k, isStr := kt.(string)
		if !isStr {
			return nil, false, false
		}
		var raw json.RawMessage
		if err := dec.Decode(&raw); err != nil {
			return nil, false, false
		}
		if _, seen := first[k]; seen {
			dup = true
		} else {
			first[k] = raw
		}
		last[k] = raw
	}
	if tok, err := dec.Token(); err != nil || tok != json.Delim('}') {
		return nil, false, false
	}
	if dec.More() {
		return nil, false, false
	}
	if dup {
		return []map[string]json.RawMessage{last, first}, true, true
	}
	return []map[string]json.RawMessage{last}, false, true
}

func vc06One(protSeg, paySeg, sigSeg string, extraNotes []string) ([]vc06Interp, string) {
	notes := append([]string{}, extraNotes...)
	hb, ok, canon := vc06B64(protSeg)
	if !ok {
		return nil, "malformed-jws"
	}
	if !canon {
		notes = append(notes, "non-canonical-base64")
	}
	views, dup, ok := vc06Members(hb)
	if !ok {
		return nil, "malformed-jws"
	}
	if dup {
		notes = append(notes, "duplicate-header-member")
	}
	sig, ok, canon := vc06B64(sigSeg)
	if !ok {
		return nil, "malformed-jws"
	}
	if !canon {
		notes = append(notes, "non-canonical-base64")
	}
	var out []vc06Interp
	for _, v := range views {
		type pv struct {
			b    []byte
			note string
		}
		var pays []pv
		b64raw, hasB64 := v["b64"]
		if !hasB64 || string(b64raw) == "true" {
			if pb, ok, canon := vc06B64(paySeg); ok {
				n := ""
				if !canon {
					n = "non-canonical-base64"
				}
				pays = append(pays, pv{pb, n})
			}
		}
		if hasB64 && string(b64raw) != "true" {
			pays = append(pays, pv{[]byte(paySeg), "b64-unencoded-payload"})
		}
		for _, p := range pays {
			in := vc06Interp{hdrBytes: hb, protected: v, payload: p.b, sig: sig, notes: append([]string{}, notes...)}
			if p.note != "" {
				in.notes = append(in.notes, p.note)
			}
			in.inputs = [][]byte{[]byte(protSeg + "." + paySeg),
				[]byte(base64.RawURLEncoding.EncodeToString(hb) + "." + base64.RawURLEncoding.EncodeToString(p.b))}
			out = append(out, in)
		}
	}
	if len(out) == 0 {
		return nil, "malformed-jws"
	}
	return out, ""
}

// vc06Interpret lists the readings of b as a JWS with exactly one signature, or says why there is none.
func vc06Interpret(b []byte) ([]vc06Interp, string) {
	s := string(b)
	trim := strings.TrimLeft(s, " \t\r\n")
	if strings.HasPrefix(trim, "{") {
		views, _, ok := vc06Members([]byte(trim))
		if !ok {
			return nil, "malformed-jws"
		}
		top := views[0]
		str := func(k string) (string, bool) {
			raw, ok := top[k]
			if !ok {
				return "", false
			}
			var v string
			if json.Unmarshal(raw, &v) != nil {
				return "", false
			}
			return v, true
		}
		pay, _ := str("payload")
		notes := []string{"json-serialisation"}
		if _, ok := top["header"]; ok {
			notes = append(notes, "unprotected-header")
		}
		_, hasSig := top["signature"]
		rawSigs, hasSigs := top["signatures"]
		if hasSig && hasSigs {
			return nil, "malformed-jws"
		}
		if hasSig {
			prot, ok1 := str("protected")
			sig, ok2 := str("signature")
			if !ok1 || !ok2 {
				return nil, "malformed-jws"
			}
			return vc06One(prot, pay, sig, notes)
		}
		var sigs []map[string]json.RawMessage
		if !hasSigs || json.Unmarshal(rawSigs, &sigs) != nil {
			return nil, "malformed-jws"
		}
		if len(sigs) != 1 {
			return nil, "not-exactly-one-signature"
		}
		var prot, sig string
		if json.Unmarshal(sigs[0]["protected"], &prot) != nil || json.Unmarshal(sigs[0]["signature"], &sig) != nil {
			return nil, "malformed-jws"
		}
		if _, ok := sigs[0]["header"]; ok {
			notes = append(notes, "unprotected-header")
		}
		return vc06One(prot, pay, sig, notes)
	}
	parts := strings.Split(s, ".")
	if len(parts) != 3 {
		return nil, "compact-not-three-segments"
	}
	var notes []string
	if trim != s || strings.TrimRight(s, " \t\r\n") != s {
		notes = append(notes, "surrounding-whitespace")
	}
	return vc06One(strings.TrimLeft(parts[0], " \t\r\n"), parts[1], strings.TrimRight(parts[2], " \t\r\n"), notes)
}

// ---------------------------------------------------------------- keys and signatures

func vc06JWKPublic(raw json.RawMessage) (pub crypto.PublicKey, private bool, ok bool) {
	var m map[string]any
	if json.Unmarshal(raw, &m) != nil || m == nil {
		return nil, false, false
	}
	bn := func(k string) *big.Int {
		s, _ := m[k].(string)
		b, ok, _ := vc06B64(s)
		if !ok || len(b) == 0 {
			return nil
		}
		return new(big.Int).SetBytes(b)
	}
	_, private = m["d"]
	switch m["kty"] {
	case "EC":
		var c elliptic.Curve
		switch m["crv"] {
		case "P-256":
			c = elliptic.P256()
		case "P-384":
			c = elliptic.P384()
		case "P-521":
			c = elliptic.P521()
		default:
			return nil, private, false
		}
		x, y := bn("x"), bn("y")
		if x == nil || y == nil || !c.IsOnCurve(x, y) {
			return nil, private, false
		}
		return &ecdsa.PublicKey{Curve: c, X: x, Y: y}, private, true
	case "RSA":
		n, e := bn("n"), bn("e")
		if n == nil || e == nil || !e.IsInt64() || e.Int64() > math.MaxInt32 || e.Int64() < 2 {
			return nil, private, false
		}
		return &rsa.PublicKey{N: n, E: int(e.Int64())}, private, true
	}
	return nil, private, false
}

var vc06Allowed = map[string]crypto.Hash{"ES256": crypto.SHA256, "ES384": crypto.SHA384, "ES512": crypto.SHA512,
	"PS256": crypto.SHA256, "PS384": crypto.SHA384, "PS512": crypto.SHA512}

func vc06Digest(h crypto.Hash, in []byte) []byte {
	switch h {
	case crypto.SHA256:
		d := sha256.Sum256(in)
		return d[:]
	case crypto.SHA384:
		d := sha512.Sum384(in)
		return d[:]
	}
	d := sha512.Sum512(in)
	return d[:]
}

func vc06SigOK(alg string, pub crypto.PublicKey, input, sig []byte) bool {
	h, ok := vc06Allowed[alg]
	if !ok {
		return false
	}
	d := vc06Digest(h, input)
	switch k := pub.(type) {
	case *ecdsa.PublicKey:
		if alg[0] != 'E' || len(sig) == 0 || len(sig)%2 != 0 {
			return false
		}
		r, s := new(big.Int).SetBytes(sig[:len(sig)/2]), new(big.Int).SetBytes(sig[len(sig)/2:])
		return ecdsa.Verify(k, d, r, s)
	case *rsa.PublicKey:
		if alg[0] != 'P' {
			return false
		}
		return rsa.VerifyPSS(k, h, d, sig, &rsa.PSSOptions{SaltLength: rsa.PSSSaltLengthAuto}) == nil
	}
	return false
}

func vc06Hex32(s string) (vc06Ref, bool) {
	var r vc06Ref
	b, err := hex.DecodeString(s)
	if err != nil || len(b) != 32 {
		return r, false
	}
	copy(r[:], b)
	return r, true
}

// ---------------------------------------------------------------- admission

func vc06Num(raw json.RawMessage, present bool) (float64, bool) {
	if !present {
		return 0, false
	}
	var v any
	if json.Unmarshal(raw, &v) != nil {
		return 0, false
	}
	f, ok := v.(float64)
	return f, ok
}

// check evaluates every requirement of the statement on one reading; returns the failed clause or "".
func (m *vc06Model) check(in vc06Interp, ref vc06Ref, data []byte, payload []byte, hasPayload bool) (string, *vc06MTx, []string) {
	notes := append([]string{}, in.notes...)
	h := in.protected
	var alg string
	if json.Unmarshal(h["alg"], &alg) != nil {
		return "alg-not-allowed", nil, nil
	}
	if _, ok := vc06Allowed[alg]; !ok {
		return "alg-not-allowed", nil, nil
	}
	var cty string
	if raw, ok := h["cty"]; !ok || json.Unmarshal(raw, &cty) != nil || !strings.Contains(cty, "/") {
		return "cty-invalid", nil, nil
	}
	if sigt, ok := vc06Num(h["sigt"], h["sigt"] != nil); !ok {
		return "sigt-missing-or-not-number", nil, nil
	} else if sigt != math.Trunc(sigt) || sigt < 0 || sigt > 253402300799 {
		notes = append(notes, "sigt-odd-value")
	}
	ver, ok := vc06Num(h["ver"], h["ver"] != nil)
	if !ok {
		return "ver-missing-or-not-number", nil, nil
	}
	if t := math.Trunc(ver); t != 1 && t != 2 {
		return "ver-not-allowed", nil, nil
	}
	if ver != math.Trunc(ver) {
		notes = append(notes, "ver-non-integral")
	}
	var prevStrs []any
	{
		raw, ok := h["prevs"]
		var v any
		if !ok || json.Unmarshal(raw, &v) != nil {
			return "prevs-missing-or-invalid", nil, nil
		}
		prevStrs, ok = v.([]any)
		if !ok {
			return "prevs-missing-or-invalid", nil, nil
		}
	}
	var prevs []vc06Ref
	seen := map[vc06Ref]bool{}
	for _, pa := range prevStrs {
		ps, ok := pa.(string)
		if !ok {
			return "prevs-missing-or-invalid", nil, nil
		}
		p, ok := vc06Hex32(ps)
		if !ok {
			return "prevs-missing-or-invalid", nil, nil
		}
		if seen[p] {
			notes = append(notes, "duplicate-prev")
		}
		seen[p] = true
		prevs = append(prevs, p)
	}
	lc, ok := vc06Num(h["lc"], h["lc"] != nil)
	if !ok {
		return "lc-missing-or-not-number", nil, nil
	}
	if lc != math.Trunc(lc) || lc < 0 || lc > math.MaxUint32 {
		return "lc-not-integer-in-range", nil, nil
	}
	// pal: absent (or null / empty list) or a list of base64 strings
	if raw, ok := h["pal"]; ok && string(raw) != "null" {
		var v any
		if json.Unmarshal(raw, &v) != nil {
			return "pal-invalid", nil, nil
		}
		l, ok := v.([]any)
		if !ok {
			return "pal-invalid", nil, nil
		}
		for _, e := range l {
			s, ok := e.(string)
			if !ok {
				return "pal-invalid", nil, nil
			}
			if _, err := base64.StdEncoding.DecodeString(s); err != nil {
				return "pal-invalid", nil, nil
			}
		}
	} else if ok {
		notes = append(notes, "pal-null")
	}
	if raw, ok := h["crit"]; !ok {
		notes = append(notes, "crit-missing")
	} else {
		var l []string
		if json.Unmarshal(raw, &l) != nil {
			notes = append(notes, "crit-not-a-string-list")
		} else {
			got := map[string]bool{}
			for _, c := range l {
				got[c] = true
			}
			for _, c := range []string{"sigt", "ver", "prevs", "lc"} {
				if !got[c] {
					notes = append(notes, "crit-incomplete")
					break
				}
			}
			if len(l) > 4 {
				notes = append(notes, "crit-names-unknown-header")
			}
		}
	}
	// key reference: exactly one of kid / jwk (an empty-string kid denotes nothing and counts as absent)
	kid, hasKid := "", false
	if raw, ok := h["kid"]; ok {
		if json.Unmarshal(raw, &kid) != nil {
			return "kid-invalid", nil, nil
		}
		if kid == "" {
			notes = append(notes, "kid-empty")
		} else {
			hasKid = true
		}
	}
	_, hasJWK := h["jwk"]
	if hasKid == hasJWK {
		return "not-exactly-one-of-kid-jwk", nil, nil
	}
	// JWS payload = payload hash
	ph, ok := vc06Hex32(string(in.payload))
	if !ok {
		if len(in.payload) == 0 {
			// an absent payload hash is read as the all-zero hash by the node; the statement only constrains a
			// SUPPLIED payload against the declared hash, so this is noted, not refused
			notes = append(notes, "payload-hash-empty")
		} else {
			return "payload-not-a-hash", nil, nil
		}
	}
	for _, p := range prevs {
		if _, ok := m.txs[p]; !ok {
			return "prev-missing", nil, nil
		}
	}
	want := float64(0)
	for _, p := range prevs {
		if c := float64(m.txs[p].clock) + 1; c > want {
			want = c
		}
	}
	if lc != want {
		return "lc-not-max-prev-plus-one", nil, nil
	}
	if len(prevs) == 0 && m.hasRoot() {
		return "second-root", nil, nil
	}
	var pubs []vc06KeyAsOf
	if hasJWK {
		k, private, ok := vc06JWKPublic(h["jwk"])
		if !ok {
			return "jwk-not-a-usable-public-key", nil, nil
		}
		if private {
			notes = append(notes, "jwk-private-key-embedded")
		}
		pubs = []vc06KeyAsOf{{pub: k}}
	} else if m.env.keysAsOf != nil {
		pubs = m.env.keysAsOf(m, kid, prevs)
	} else if k := m.env.keyAsOf(kid, prevs); k != nil {
		pubs = []vc06KeyAsOf{{pub: k}}
	}
	if len(pubs) == 0 {
		return "kid-denotes-no-key-as-of-prevs", nil, nil
	}
	verified := -1
	for i, pub := range pubs {
		for _, input := range in.inputs {
			if m.env.sigOK(alg, pub.pub, input, in.sig) {
				verified = i
				break
			}
		}
		if verified >= 0 {
			break
		}
	}
	if verified < 0 {
		return "signature-does-not-verify", nil, nil
	}
	if pubs[verified].note != "" {
		notes = append(notes, pubs[verified].note)
	}
	if hasPayload {
		if sha256.Sum256(payload) != ph || !ok {
			if _, stored := m.payloads[ph]; stored && ok {
				return "payload-hash-mismatch-declared-hash-already-stored", nil, nil
			}
			return "payload-hash-mismatch", nil, nil
		}
	}
	return "", &vc06MTx{ref: ref, clock: uint32(lc), prevs: prevs, payload: ph, data: data}, notes
}

// offer is B.1's offer(); apply=false only asks for the verdict.
// vc06Content identifies a transaction by its SIGNED CONTENT: the protected header bytes as signed, the JWS payload and the
// signature bytes — whatever the serialisation that carries them.
func vc06Content(in vc06Interp) [32]byte {
	h := sha256.New()
	h.Write(in.hdrBytes)
	h.Write([]byte{0})
	h.Write(in.payload)
	h.Write([]byte{0})
	h.Write(in.sig)
	var k [32]byte
	copy(k[:], h.Sum(nil))
	return k
}

func (m *vc06Model) offer(b []byte, payload []byte, hasPayload bool, apply bool) vc06Verdict {
	ref := sha256.Sum256(b)
	if _, ok := m.txs[ref]; ok {
		return vc06Verdict{Present: true}
	}
	interps, why := vc06Interpret(b)
	if why != "" {
		return vc06Verdict{Clause: why}
	}
	// "exactly once": a byte-different serialisation of the signed content of a transaction that is already present is a
	// re-submission of that transaction; it must not enter the DAG as another one
	for _, in := range interps {
		if other, ok := m.contents[vc06Content(in)]; ok && other != ref {
			return vc06Verdict{Clause: "re-encoding-of-present-transaction"}
		}
	}
	first := ""
	for _, in := range interps {
		clause, tx, notes := m.check(in, ref, b, payload, hasPayload)
		if clause == "" {
			tx.content = vc06Content(in)
			if apply {
				m.admit(tx, payload, hasPayload)
			}
			return vc06Verdict{Admit: true, Notes: notes, tx: tx}
		}
		if first == "" {
			first = clause
		}
	}
	return vc06Verdict{Clause: first}
}

// vc06PayloadDigest names the payload bytes a subscriber is handed ("-" = none).
func vc06PayloadDigest(p []byte) string {
	if len(p) == 0 {
		return "-"
	}
	d := sha256.Sum256(p)
	return hex.EncodeToString(d[:6])
}

// writePayload mirrors State.WritePayload (a private payload received after its transaction): the payload is stored
// and the payload subscribers are told.
func (m *vc06Model) writePayload(ref vc06Ref, h vc06Ref, data []byte) {
	m.payloads[h] = data
	for _, s := range m.subs {
		for _, ty := range s.types {
			if ty == "payload" {
				m.notified = append(m.notified, s.name+"|"+hex.EncodeToString(ref[:])+"|"+ty+"|"+vc06PayloadDigest(data))
			}
		}
	}
}

func (m *vc06Model) admit(tx *vc06MTx, payload []byte, hasPayload bool) {
	m.txs[tx.ref] = tx
	if _, ok := m.contents[tx.content]; !ok {
		m.contents[tx.content] = tx.ref
	}
	if hasPayload {
		m.payloads[tx.payload] = payload
	}
	for _, s := range m.subs {
		for _, ty := range s.types {
			if ty == "payload" && !hasPayload {
				continue
			}
			m.notified = append(m.notified, s.name+"|"+hex.EncodeToString(tx.ref[:])+"|"+ty+"|"+vc06PayloadDigest(payload))
		}
	}
}

// fold returns what the stored set implies: refs by clock, the XOR of all refs.
func (m *vc06Model) fold() (byClock map[uint32][]string, xor vc06Ref) {
	byClock = map[uint32][]string{}
	for r, t := range m.txs {
		byClock[t.clock] = append(byClock[t.clock], hex.EncodeToString(r[:]))
		for i := range xor {
			xor[i] ^= r[i]
		}
	}
	for _, l := range byClock {
		sort.Strings(l)
	}
	return
}
