//go:build verif

package didstore

import (
	"context"
	"errors"
	"fmt"

	"github.com/nuts-foundation/go-did/did"
	"github.com/nuts-foundation/go-stoabs"
	"github.com/nuts-foundation/nuts-node/vdr/resolver"
)

// VerifVersion is one stored version of a DID document as Resolve would return it.
type VerifVersion struct {
	Version  int
	Document did.Document
	Metadata resolver.DocumentMetadata
}

// VerifVersions lists every version of id, from 0 to the latest, reading exactly the records that Resolve walks
// (latest shelf -> metadata record "<did><version>" -> document by metadata hash). Observation aid of the C10 check:
// Resolve can address a version only by hash / time / source transaction, and a walk along previous hashes is
// derailed when two versions have the same hash.
func VerifVersions(s Store, id did.DID) ([]VerifVersion, error) {
	tl, ok := s.(*store)
	if !ok {
		return nil, errors.New("not a *store")
	}
	var out []VerifVersion
	err := tl.db.Read(context.Background(), func(tx stoabs.ReadTx) error {
		latestRef, err := tx.GetShelfReader(latestShelf).Get(stoabs.BytesKey(id.String()))
		if err != nil && !errors.Is(err, stoabs.ErrKeyNotFound) {
			return err
		}
		if latestRef == nil {
			return nil
		}
		latest, err := readMetadata(tx, latestRef)
		if err != nil {
			return err
		}
		for v := 0; v <= latest.Version; v++ {
			md, err := readMetadata(tx, []byte(fmt.Sprintf("%s%d", id.String(), v)))
			if err != nil {
				return fmt.Errorf("version %d: %w", v, err)
			}
			doc, err := readDocument(tx, md.Hash)
			if err != nil {
				return fmt.Errorf("version %d: %w", v, err)
			}
			out = append(out, VerifVersion{Version: md.Version, Document: doc, Metadata: md.asVDRMetadata()})
		}
		return nil
	})
	return out, err
}
