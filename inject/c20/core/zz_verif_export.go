//go:build verif

package core

// VerifRedactedConfigKeys exposes the keys the node masks when it prints its configuration (C20 reports the
// ones that the documented secret rule does not cover as observations).
func VerifRedactedConfigKeys() []string { return append([]string{}, redactedConfigKeys...) }
