//go:build verif

package vcr

import "github.com/nuts-foundation/nuts-node/core"

// VerifOpenID4VCIClients returns the two HTTP clients that Configure built for OpenID4VCI (nil when it is disabled), so that
// C20 can send a request through the very clients the assembled node owns.
func VerifOpenID4VCIClients(i VCR) (issuer core.HTTPRequestDoer, wallet core.HTTPRequestDoer) {
	if c, ok := i.(*vcr); ok {
		return c.issuerHttpClient, c.walletHttpClient
	}
	return nil, nil
}
