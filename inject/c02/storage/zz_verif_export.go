//go:build verif

package storage

import (
	"encoding/json"
	"time"
)

// VerifSessionOp is one operation of the product on a session store, with the store's prefixes and the key
// exactly AS PASSED BY THE CALLER (i.e. before the back-end's key builder sees them).
type VerifSessionOp struct {
	Op       string // put | get | exists | delete | getanddelete
	Prefixes []string
	TTL      time.Duration
	Key      string
	Value    json.RawMessage // put: the value as the store serialises it
	Err      error
}

// VerifSessionRecorder is a SessionDatabase that hands every call through to Inner (the real back-end with
// its real key builder and its real SessionStoreImpl) and reports each store operation to Hook. The C02
// harness uses it to learn the names of all stores of the running node and the keys that are live in them.
type VerifSessionRecorder struct {
	Inner SessionDatabase
	Hook  func(VerifSessionOp)
}

var _ SessionDatabase = (*VerifSessionRecorder)(nil)

func (v *VerifSessionRecorder) GetStore(ttl time.Duration, keys ...string) SessionStore {
	p := append([]string{}, keys...)
	return verifRecordingStore{inner: v.Inner.GetStore(ttl, keys...), prefixes: p, ttl: ttl, rec: v}
}

func (v *VerifSessionRecorder) getFullKey(prefixes []string, key string) string {
	return v.Inner.getFullKey(prefixes, key)
}

func (v *VerifSessionRecorder) Close() { v.Inner.Close() }

// VerifFullKey is the back-end's own key builder (the string the back-end stores the entry under).
func VerifFullKey(db SessionDatabase, prefixes []string, key string) string {
	return db.getFullKey(append(make([]string, 0, len(prefixes)+1), prefixes...), key)
}

type verifRecordingStore struct {
	inner    SessionStore
	prefixes []string
	ttl      time.Duration
	rec      *VerifSessionRecorder
}

func (s verifRecordingStore) report(op, key string, value json.RawMessage, err error) {
	if s.rec.Hook != nil {
		s.rec.Hook(VerifSessionOp{Op: op, Prefixes: s.prefixes, TTL: s.ttl, Key: key, Value: value, Err: err})
	}
}

func (s verifRecordingStore) Delete(key string) error {
	err := s.inner.Delete(key)
	s.report("delete", key, nil, err)
	return err
}

func (s verifRecordingStore) Exists(key string) bool {
	ok := s.inner.Exists(key)
	s.report("exists", key, nil, nil)
	return ok
}

func (s verifRecordingStore) Get(key string, target interface{}) error {
	err := s.inner.Get(key, target)
	s.report("get", key, nil, err)
	return err
}

func (s verifRecordingStore) Put(key string, value interface{}, options ...SessionOption) error {
	err := s.inner.Put(key, value, options...)
	raw, _ := json.Marshal(value)
	s.report("put", key, raw, err)
	return err
}

func (s verifRecordingStore) GetAndDelete(key string, target interface{}) error {
	err := s.inner.GetAndDelete(key, target)
	s.report("getanddelete", key, nil, err)
	return err
}
