//go:build verif

package http

import (
	"github.com/labstack/echo/v4"
	"github.com/nuts-foundation/nuts-node/core"
)

type verifRecorder struct {
	core.EchoRouter
	mw []echo.MiddlewareFunc
}

func (r *verifRecorder) Use(middleware ...echo.MiddlewareFunc) { r.mw = append(r.mw, middleware...) }

// VerifCaptureAuthMiddleware builds the authentication middleware exactly as Configure does (same skipper, audience,
// authorized keys) and returns it instead of installing it, so that a harness can interleave the wrap / run steps of
// several requests on ONE middleware object, as concurrent requests on the engine's listeners do.
func (h *Engine) VerifCaptureAuthMiddleware() ([]echo.MiddlewareFunc, error) {
	rec := &verifRecorder{}
	err := h.applyAuthMiddleware(rec, "/internal", h.config.Internal.Auth)
	return rec.mw, err
}
