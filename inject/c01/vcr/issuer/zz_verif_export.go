//go:build verif

package issuer

import (
	"context"
	"fmt"

	ssi "github.com/nuts-foundation/go-did"
	"github.com/nuts-foundation/nuts-node/vcr/credential"
)

// VerifBuildRevocation lets the node's own issuer build and sign a did:nuts revocation WITHOUT publishing it on the
// network (Revoke = buildRevocation + PublishRevocation; the harness has no network to publish on).
func VerifBuildRevocation(ctx context.Context, i Issuer, credentialID ssi.URI) (*credential.Revocation, error) {
	switch impl := i.(type) {
	case *issuer:
		return impl.buildRevocation(ctx, credentialID)
	case issuer:
		return impl.buildRevocation(ctx, credentialID)
	}
	return nil, fmt.Errorf("unexpected issuer implementation %T", i)
}
