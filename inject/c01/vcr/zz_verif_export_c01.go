//go:build verif

package vcr

import (
	"fmt"

	"github.com/nuts-foundation/nuts-node/network/dag"
)

// VerifC01NodeReceivers returns the receivers that THIS node's ambassador registers with the network notifier for
// credential and revocation transactions (handleNetworkVCs / handleNetworkRevocations, including handleError's
// classification of a failure as recoverable or fatal), bound to the node's own writer (the VCR) and verifier.
// Export seam for the external C01 harness; never part of the shipped tree.
func VerifC01NodeReceivers(v VCR) (vcs, revocations func(dag.Event) (bool, error), err error) {
	impl, ok := v.(*vcr)
	if !ok {
		return nil, nil, fmt.Errorf("unexpected VCR implementation %T", v)
	}
	switch a := impl.ambassador.(type) {
	case *ambassador:
		return a.handleNetworkVCs, a.handleNetworkRevocations, nil
	case ambassador:
		return a.handleNetworkVCs, a.handleNetworkRevocations, nil
	}
	return nil, nil, fmt.Errorf("unexpected ambassador implementation %T (network disabled?)", impl.ambassador)
}
