//go:build verif

// C14 — storage faults that hit ONE subscriber's bookkeeping inside the admission transaction.
//
// state.Add and state.WritePayload save the event of every registered persistent subscriber inside the write transaction
// that admits the transaction / payload (state.saveEvent -> Notifier.Save: a Get of the existing entry and a Put on the
// subscriber's own shelf `_<name>_jobs`). This file enumerates, for subscriber sets of 2 and 3 whose filters overlap, for EVERY
// order in which the state can visit its subscribers (all permutations; the Range of the sync shim is deterministic by name
// and the names carry the rank) and for both admission paths, an error answer at every single numbered step of the
// admitting operation: the verification read, begin, every Get / Iterate and every Put of the write transaction (fault.KV
// numbers the reads inside write transactions with NumberTxReads), the commit, and every read / write step of the
// notifications that follow. Steps are identified by the shelf they touch, so "the step that touches subscriber i's shelf"
// is enumerated for every i and every visiting position (first, middle, last). In addition: an unreadable (corrupt) entry
// that already sits in one subscriber's shelf under the event's key, and a subscriber that registers only after the restart.
//
// Oracle = the statement: an operation that returned nil and whose transaction / payload is stored afterwards (read from the
// store right after the call) is an admission; every subscriber whose filter selects it must have been called with it, or
// still hold it (Run after the restart then delivers it), or list it as failed — the delivery ledger of the main file. The
// caller repeats a failed operation once ("redo"): that second call must admit and deliver like a first one. An operation that
// returns an error but leaves something stored, or returns nil and stores nothing, belongs to other properties (C06/C08):
// recorded as an observation, not judged here.
package dag

import (
	"strconv"
	"strings"

	"github.com/nuts-foundation/nuts-node/crypto/hash"

	"verif/ev"
	"verif/fault"
)

type c14AdmHistory struct {
	ops   []c14Op
	fault int // the operation whose steps fail
}

func c14AdmHistories(thorough bool) []c14AdmHistory {
	hs := []c14AdmHistory{
		{[]c14Op{{Kind: "pub", Ref: 0}, {Kind: "redo", Ref: 0}}, 0},
		{[]c14Op{{Kind: "priv", Ref: 0}, {Kind: "redo", Ref: 0}}, 0},
		{[]c14Op{{Kind: "priv", Ref: 0}, {Kind: "wp", Ref: 0}, {Kind: "redo", Ref: 1}}, 1},
		{[]c14Op{{Kind: "pub", Ref: 0}, {Kind: "pub", Ref: 1}, {Kind: "redo", Ref: 1}}, 1},
	}
	if thorough {
		hs = append(hs,
			c14AdmHistory{[]c14Op{{Kind: "pub", Ref: 0}, {Kind: "priv", Ref: 1}, {Kind: "wp", Ref: 1}, {Kind: "redo", Ref: 2}}, 2},
			c14AdmHistory{[]c14Op{{Kind: "priv", Ref: 0}, {Kind: "wp", Ref: 0}, {Kind: "priv", Ref: 2}, {Kind: "redo", Ref: 2}}, 2},
			c14AdmHistory{[]c14Op{{Kind: "pub", Ref: 0}, {Kind: "pub", Ref: 1, Same: 1}, {Kind: "redo", Ref: 1}}, 1},
			c14AdmHistory{[]c14Op{{Kind: "pub", Ref: 0}, {Kind: "priv", Ref: 1, Same: 1}, {Kind: "wp", Ref: 1}, {Kind: "redo", Ref: 2}}, 2},
		)
	}
	return hs
}

func c14AdmSets(thorough bool) []string {
	sets := []string{"k:tt", "k:pp", "k:tp", "k:ttt", "k:ppp", "product", "pfx:tt", "pfx:pp"}
	if thorough {
		sets = append(sets, "k:ttp", "k:tpp", "generic", "pfx:ttt", "pfx:ppp")
	}
	return sets
}

// c14Perms lists every visiting order of n subscribers as rank strings.
func c14Perms(n int) []string {
	var out []string
	var rec func(cur []byte, used int)
	rec = func(cur []byte, used int) {
		if len(cur) == n {
			out = append(out, string(cur))
			return
		}
		for d := 0; d < n; d++ {
			if used&(1<<d) == 0 {
				rec(append(cur, byte('0'+d)), used|1<<d)
			}
		}
	}
	rec(nil, 0)
	return out
}

func c14OpName(kind string) string {
	switch kind {
	case "pub":
		return "add-with-payload"
	case "priv":
		return "add-without-payload"
	case "wp":
		return "write-payload"
	}
	return kind
}

// c14ShelfOwner returns the subscriber whose job shelf `shelf` is, or "".
func c14ShelfOwner(sc c14Scenario, shelf string) string {
	for _, sp := range c14Subs(sc.Set) {
		if shelf == "_"+c14RegName(sc, sp.name)+"_jobs" {
			return sp.name
		}
	}
	return ""
}

type c14AdmCounters struct {
	variants, errRuns, onJobs, onJobsNotLast, corrupt, foreign, late, inconsistent int64
}

// c14AdmissionFaults is the enumeration described at the top of this file. try runs one scenario (nil = skipped).
func c14AdmissionFaults(r *ev.Run, thorough bool, try func(c14Scenario, []Transaction, [][]byte, map[hash.SHA256Hash]string) *c14Result, runs, skipped *int64) c14AdmCounters {
	var cnt c14AdmCounters
	report := func(sc c14Scenario, res *c14Result) {
		for _, inc := range res.Inconsistent {
			cnt.inconsistent++
			r.Observation("admission-answer-disagrees-with-store|"+inc, sc)
		}
		for _, inc := range res.Inconsistent {
			if strings.HasPrefix(inc, "returned-error-but-stored") {
				return // what was admitted is not defined by this property's statement: not judged
			}
		}
		c14Report(r, sc, res)
	}
	vi := 0
	for _, h := range c14AdmHistories(thorough) {
		txs, pays, names := c14MakeTxs(h.ops)
		_, opKind := c14Target(h.ops, h.fault)
		for _, set := range c14AdmSets(thorough) {
			subs := c14Subs(set)
			perms := c14Perms(len(subs))
			if strings.HasPrefix(set, "pfx:") {
				perms = perms[:1]
			}
			behs := []c14Behaviour{{"", "ok"}}
			if thorough {
				for _, sp := range subs {
					behs = append(behs, c14Behaviour{sp.name, "fail1"})
				}
			}
			for pi, perm := range perms {
				for _, b := range behs {
					vi++
					if !r.Mine(vi) || r.Expired() {
						continue
					}
					sc := c14Scenario{Ops: h.ops, Set: set, Faulty: b.faulty, Script: b.script, Drain: "each", Order: "asc", Perm: perm,
						Reads: true, TxReads: true, Scope: "op"}
					dry := try(sc, txs, pays, names)
					if dry == nil {
						continue
					}
					*runs++
					cnt.variants++
					r.Eval("")
					report(sc, dry)
					if dry.OpErr[h.fault] != "ok" || len(dry.OpStart) <= h.fault+1 {
						r.NotExhaustive("an admission-fault history did not run as planned without a fault")
						continue
					}
					labels := c14Labels(dry)
					from, to := dry.OpStart[h.fault], dry.OpStart[h.fault+1]
					admTx := 0
					jobTx := map[int]string{}
					var selectors []string // subscribers whose shelf the admission transaction touches, in visiting order
					for _, st := range dry.Trace {
						if st.N <= from || st.N > to {
							continue
						}
						if st.Kind == fault.Begin {
							if st.Shelf == "" && admTx == 0 {
								admTx = st.Tx
							} else if strings.HasSuffix(st.Shelf, "_jobs") {
								jobTx[st.Tx] = "write-back"
							}
						}
						if st.Kind == fault.Delete && jobTx[st.Tx] != "" {
							jobTx[st.Tx] = "completion-marking"
						}
						if st.Tx == admTx && admTx != 0 && (st.Kind == fault.Put || st.Kind == fault.Get) {
							if o := c14ShelfOwner(sc, st.Shelf); o != "" && (len(selectors) == 0 || selectors[len(selectors)-1] != o) {
								selectors = append(selectors, o)
							}
						}
					}
					if len(selectors) == 0 && pi > 0 {
						continue // no subscriber of this set selects an event of the operation: the visiting order cannot matter
					}
					lastSel := ""
					if len(selectors) > 0 {
						lastSel = selectors[len(selectors)-1]
					}
					for _, st := range dry.Trace {
						if st.N <= from || st.N > to || !fault.Applicable(st.Kind, fault.Error) {
							continue
						}
						class, errSub := "", ""
						switch {
						case st.Tx == admTx && admTx != 0:
							what := st.Kind
							if st.Shelf != "" {
								what += " " + st.Shelf
							}
							if o := c14ShelfOwner(sc, st.Shelf); o != "" {
								what, errSub = st.Kind+" jobs-shelf", o
							}
							class = "admission:" + c14OpName(opKind) + "|" + what
						case st.Kind == fault.ReadOp && st.Shelf == "":
							class = "admission:" + c14OpName(opKind) + "|verification-read"
						case st.Kind == fault.ReadOp && strings.HasSuffix(st.Shelf, "_jobs"):
							class = "read"
						case jobTx[st.Tx] != "":
							class = jobTx[st.Tx] + "-" + st.Kind
						default:
							continue
						}
						if !strings.HasPrefix(class, "admission:") {
							where := "first-delivery"
							if st.N-1 < len(dry.StepLoops) && dry.StepLoops[st.N-1] >= 0 {
								where = "retry-attempt"
							}
							class = where + "|" + class
						}
						sce := sc
						sce.ErrAt, sce.ErrClass, sce.ErrSub = st.N, class, errSub
						var res *c14Result
						for attempt := 0; attempt < 3 && res == nil; attempt++ {
							x := try(sce, txs, pays, names)
							if x == nil {
								break
							}
							if l := c14Labels(x); x.ErrFired && len(l) >= st.N && c14SamePrefix(l[:st.N], labels) {
								res = x
							}
						}
						if res == nil {
							r.NotExhaustive("some admission-fault cases were not reproducible (skipped)")
							*skipped++
							continue
						}
						*runs++
						cnt.errRuns++
						if errSub != "" {
							cnt.onJobs++
							if errSub != lastSel {
								cnt.onJobsNotLast++
							}
						}
						r.Eval(sce.key() + "|err" + strconv.Itoa(st.N))
						redo := "-"
						if len(res.OpErr) > h.fault+1 {
							redo = res.OpErr[h.fault+1]
						}
						if strings.HasPrefix(class, "admission:") {
							r.Outcome("admission-storage-error: operation " + res.OpErr[h.fault] + ", repeated " + redo)
						} else {
							r.Outcome("storage-error-in-notification")
						}
						report(sce, res)
					}
					// an unreadable entry already sits in one subscriber's shelf under the key of the event
					if b.faulty == "" {
						for _, sp := range subs {
							scc := sc
							scc.Reads, scc.TxReads = false, false
							scc.Corrupt = sp.name + "@" + strconv.Itoa(h.fault)
							res := try(scc, txs, pays, names)
							if res == nil {
								continue
							}
							*runs++
							cnt.corrupt++
							r.Eval(scc.key())
							r.Outcome("corrupt-stored-entry: operation " + res.OpErr[h.fault])
							report(scc, res)
						}
						// one subscriber's Save refuses the event for a reason that is not a storage step: it persists through
						// another store object
						for _, sp := range subs {
							scf := sc
							scf.Reads, scf.TxReads = false, false
							scf.Foreign = sp.name
							res := try(scf, txs, pays, names)
							if res == nil {
								continue
							}
							*runs++
							cnt.foreign++
							r.Eval(scf.key())
							r.Outcome("save-refused-for-one-subscriber: operation " + res.OpErr[h.fault])
							report(scf, res)
						}
					}
				}
			}
			// a subscriber that registers only after the restart (with and without a stop between commit and notification)
			for _, sp := range subs {
				vi++
				if !r.Mine(vi) || r.Expired() {
					continue
				}
				ops := h.ops[:len(h.ops)-1] // without the repetition
				sc := c14Scenario{Ops: ops, Set: set, Script: "ok", Drain: "each", Order: "asc", Late: sp.name}
				dry := try(sc, txs[:len(ops)], pays[:len(ops)], names)
				if dry == nil {
					continue
				}
				*runs++
				cnt.late++
				r.Eval(sc.key())
				r.Outcome("late-subscriber")
				report(sc, dry)
				got := 0
				for _, c := range dry.Calls {
					if c.Sub == sp.name {
						got++
					}
				}
				if got > 0 {
					r.Observation("late-subscriber-received-earlier-admissions", sc)
				} else {
					r.Observation("late-subscriber-received-nothing-of-earlier-admissions", map[string]any{"set": set, "late": sp.name})
				}
				for _, st := range dry.Trace {
					if st.Kind != fault.AfterCommit || st.Idx != 1 {
						continue
					}
					scs := sc
					scs.StopAt = st.N
					res := try(scs, txs[:len(ops)], pays[:len(ops)], names)
					if res == nil || !res.Stopped {
						continue
					}
					*runs++
					cnt.late++
					r.Eval(scs.key() + "|" + strconv.Itoa(st.N))
					report(scs, res)
				}
			}
		}
	}
	return cnt
}
