//go:build verif

// C14 — Admitted transactions reach every persistent subscriber at least once.
//
// In-package harness (form B). Real dag.State + real persistent notifiers on one bbolt file behind
// fault.KV. retry-go's retry.go is replaced through the overlay by a copy with three hook calls
// (retry.VerifHook): every retry loop parks before its first attempt and at every delay, the harness
// releases the loops one at a time, so that before the crash exactly one goroutine runs at any moment and
// the global numbering of write-transaction steps is deterministic: "every stop point" is well defined,
// including the points inside retries. The requested delays are logged, never slept.
package dag

import (
	"context"
	"errors"
	"fmt"
	"io"
	"os"
	"path/filepath"
	"runtime"
	"sort"
	"strconv"
	"strings"
	"sync"
	"testing"
	"time"

	"github.com/avast/retry-go/v4"
	"github.com/nuts-foundation/go-stoabs"
	"github.com/nuts-foundation/go-stoabs/bbolt"
	"github.com/nuts-foundation/nuts-node/core"
	"github.com/nuts-foundation/nuts-node/crypto/hash"
	"github.com/sirupsen/logrus"

	"verif/ev"
	"verif/fault"
)

var c14ctx = context.Background()

// ---------------------------------------------------------------------------------------------- goroutine gate

type c14Loop struct {
	id     int
	delays []time.Duration
	evt    chan string // "parked" | "exit": what the loop did after it was released
}

type c14Parked struct {
	loop    *c14Loop
	kind    string // enter | after
	release chan struct{}
	timer   chan time.Time
}

// c14Sim serialises the retry loops of the notifier. It is process-global because the hook is.
//
// Quiescence is decided without any time window and without counting all goroutines of the process (the
// store spawns short-lived helper goroutines for every lock acquisition and close): the loops that exist are
// counted in a stack dump of all goroutines (every loop goroutine carries "created by …(*notifier).retry"),
// the loops that have reached a gate are counted by the hooks. A loop that was spawned but has not yet
// reached its first gate is therefore visible, and waiting for it needs nothing but CPU for that goroutine.
type c14Sim struct {
	t       testing.TB
	mu      sync.Mutex
	free    bool // after the restart: gates never block, loops run concurrently
	parked  []*c14Parked
	loops   []*c14Loop
	live    int // loops that have entered and not yet left retry.Do
	running int // serial phase: the loop that holds the baton (-1 = main, -2 = nobody: an instance is being abandoned)
	check   bool // a receiver returned on the main goroutine: a loop may have been spawned since
	orphans int  // loop goroutines left behind by a run that did not settle (subtracted from the census)
	bad     error
	buf     []byte
}

const c14SpawnMark = "created by github.com/nuts-foundation/nuts-node/network/dag.(*notifier).retry"

// c14MaxWait only bounds how long a case may hang before it is given up (reported as not exhaustive, never as
// a failure); nothing is decided by it.
const c14MaxWait = 30 * time.Second

func newC14Sim(t testing.TB) *c14Sim {
	s := &c14Sim{t: t, running: -1, buf: make([]byte, 1<<20)}
	retry.VerifHook = &retry.VerifHooks{Enter: s.enter, Exit: s.exit, After: s.after}
	t.Cleanup(func() { retry.VerifHook = nil })
	return s
}

// census counts the retry-loop goroutines that exist right now.
func (s *c14Sim) census() int {
	for {
		n := runtime.Stack(s.buf, true)
		if n < len(s.buf) {
			return strings.Count(string(s.buf[:n]), c14SpawnMark)
		}
		s.buf = make([]byte, 2*len(s.buf))
	}
}

func (s *c14Sim) fail(format string, args ...any) {
	s.mu.Lock()
	if s.bad == nil {
		s.bad = fmt.Errorf(format, args...)
	}
	s.mu.Unlock()
}

func (s *c14Sim) failed() error { s.mu.Lock(); defer s.mu.Unlock(); return s.bad }

// reset prepares for the next run; loops that a failed run left behind are written off.
func (s *c14Sim) reset() {
	s.mu.Lock()
	s.free, s.parked, s.loops, s.running, s.live, s.check, s.bad = false, nil, nil, -1, 0, false, nil
	s.mu.Unlock()
	s.orphans = s.census()
}

func (s *c14Sim) enter() any {
	s.mu.Lock()
	l := &c14Loop{id: len(s.loops), evt: make(chan string, 64)}
	s.loops = append(s.loops, l)
	s.live++
	if s.free {
		s.mu.Unlock()
		return l
	}
	p := &c14Parked{loop: l, kind: "enter", release: make(chan struct{})}
	s.parked = append(s.parked, p)
	s.mu.Unlock()
	<-p.release
	return l
}

func (s *c14Sim) exit(token any) {
	l := token.(*c14Loop)
	s.mu.Lock()
	s.live--
	s.mu.Unlock()
	select {
	case l.evt <- "exit":
	default:
	}
}

func (s *c14Sim) after(token any, d time.Duration) <-chan time.Time {
	l := token.(*c14Loop)
	s.mu.Lock()
	l.delays = append(l.delays, d)
	ch := make(chan time.Time, 1)
	if s.free {
		s.mu.Unlock()
		ch <- time.Time{}
		return ch
	}
	s.parked = append(s.parked, &c14Parked{loop: l, kind: "after", timer: ch})
	s.mu.Unlock()
	select {
	case l.evt <- "parked":
	default:
	}
	return ch
}

func (s *c14Sim) nParked() int { s.mu.Lock(); defer s.mu.Unlock(); return len(s.parked) }

// await polls cond (which needs only CPU for other goroutines to become true) with growing pauses.
func (s *c14Sim) await(what string, cond func() bool) bool {
	var start time.Time
	pause := 20 * time.Microsecond
	for i := 0; ; i++ {
		if cond() {
			return true
		}
		if i < 20 {
			runtime.Gosched()
			continue
		}
		if start.IsZero() {
			start = time.Now()
		}
		time.Sleep(pause)
		if pause < 5*time.Millisecond {
			pause *= 2
		}
		if time.Since(start) > c14MaxWait {
			s.fail("did not settle: %s", what)
			return false
		}
	}
}

// allParked: every loop goroutine that exists has reached a gate and is parked there.
func (s *c14Sim) allParked() bool {
	if s.failed() != nil {
		return true // give up waiting: the run is discarded
	}
	return s.await("a spawned retry loop did not reach its gate", func() bool {
		n := s.census() - s.orphans
		s.mu.Lock()
		defer s.mu.Unlock()
		return n == len(s.parked) && s.live == len(s.parked)
	})
}

// allGone: no retry loop exists any more.
func (s *c14Sim) allGone() bool {
	return s.await("retry loops did not end", func() bool {
		n := s.census() - s.orphans
		s.mu.Lock()
		defer s.mu.Unlock()
		return n <= 0 && s.live == 0
	})
}

// settle: serial phase -> all loops parked; free phase -> all loops gone.
func (s *c14Sim) settle() {
	if s.free {
		s.allGone()
		return
	}
	s.allParked()
}

// onMain is the synchronisation point of the main goroutine in the serial phase. A loop can only have been
// spawned since the last point if a receiver returned on the main goroutine in between (the notifier starts a
// loop after a failed synchronous attempt); then main waits until that loop is parked, which gives it its place
// in the queue before main goes on.
func (s *c14Sim) onMain() {
	if s.free || s.running != -1 || !s.check {
		return
	}
	s.check = false
	s.allParked()
}

// receiverReturned is called by the receiver wrapper when it returns on the main goroutine.
func (s *c14Sim) receiverReturned() {
	if !s.free && s.running == -1 {
		s.check = true
	}
}

// currentLoop is the retry loop that is running (serial phase only; -1 = main).
func (s *c14Sim) currentLoop() int { return s.running }

// releaseOldest lets the longest-parked loop run until it parks again or ends.
func (s *c14Sim) releaseOldest() {
	s.mu.Lock()
	if len(s.parked) == 0 {
		s.mu.Unlock()
		return
	}
	p := s.parked[0]
	s.parked = s.parked[1:]
	s.running = p.loop.id
	s.mu.Unlock()
	for len(p.loop.evt) > 0 {
		<-p.loop.evt
	}
	if p.kind == "enter" {
		close(p.release)
	} else {
		p.timer <- time.Time{}
	}
	select {
	case <-p.loop.evt: // it parked at its next delay, or left retry.Do
	case <-time.After(c14MaxWait):
		s.fail("did not settle: a released retry loop neither parked nor ended")
	}
	s.running = -1
}

// abandon ends every loop of a dead instance: contexts are cancelled by the caller, loops parked before
// their first attempt are released (they return on the cancelled context), loops parked at a delay see the
// cancelled context in their select.
func (s *c14Sim) abandon() {
	s.mu.Lock()
	ps := s.parked
	s.parked = nil
	s.running = -2
	s.mu.Unlock()
	for _, p := range ps {
		if p.kind == "enter" {
			close(p.release)
		}
	}
	s.allGone()
	s.running = -1
}

// ---------------------------------------------------------------------------------------------- scenario

type c14Op struct {
	Kind string `json:"kind"` // pub | priv | wp | dup | bad
	Ref  int    `json:"ref"`  // index of the op that created the transaction this op is about (wp, dup); own index otherwise
	Same int    `json:"same,omitempty"` // creator ops: k > 0 = the payload BYTES equal those of op k-1 (same payload hash, different transaction)
}

type c14Scenario struct {
	Ops     []c14Op `json:"ops"`
	Set     string  `json:"set"`    // product | generic
	Faulty  string  `json:"faulty"` // subscriber with the non-ok behaviour ("" = all ok)
	Script  string  `json:"script"` // ok | fail1 | fail3 | incomplete2 | fatal | failforever | fail9 | fail10 | fail19 | fail20 | fail21
	Drain   string  `json:"drain"`  // each | end
	Order   string  `json:"order"`  // asc | desc: the order in which the state visits its notifiers (deterministic Range of the sync shim, by name)
	StopAt  int     `json:"stop_at"`             // stop immediately before this numbered write step (0 = none)
	StopCall int    `json:"stop_call,omitempty"` // or: stop immediately before the n-th receiver call is made (the subscriber never sees it)
	Restart string  `json:"restart,omitempty"`
	// seeded start state: the operations are admitted by a node without subscribers, then the jobs of the subscriber(s) are
	// written with the notifier's own Save function and SeedRetries persisted tries, as if that many attempts had failed
	// before the process stopped; the run starts with the restart
	Seeded      bool   `json:"seeded,omitempty"`
	SeedRetries int    `json:"seed_retries,omitempty"`
	Only        string `json:"only,omitempty"` // register only this subscriber of the set
	// storage-error runs (deviation bound 1): reads of the store are numbered steps too, and step ErrAt fails with a
	// database error instead of being a stop point
	Reads    bool   `json:"reads,omitempty"`
	ErrAt    int    `json:"err_at,omitempty"`
	ErrClass string `json:"err_class,omitempty"` // where|what of the failing step, from the dry run (signature only)
	// admission-fault runs (zz_verif_c14_adm_test.go): Perm fixes the order in which the state visits its notifiers for ANY
	// permutation (rank of the j-th subscriber of the set = Perm[j]); TxReads numbers the Gets made inside write transactions;
	// Scope "op" = the admission of every operation is read from the store right after it (returned nil AND stored), the
	// operation kind "redo" repeats operation Ref iff that one returned an error (what a caller does after a failure);
	// ErrSub = the subscriber whose own job shelf the failing step touches (signature only); Corrupt "<sub>@<op>" = before
	// operation <op> the job shelf of <sub> already holds an unreadable entry under that operation's event key; Late = this
	// subscriber registers only after the restart
	Perm    string `json:"perm,omitempty"`
	TxReads bool   `json:"tx_reads,omitempty"`
	Scope   string `json:"scope,omitempty"`
	ErrSub  string `json:"err_sub,omitempty"`
	Corrupt string `json:"corrupt,omitempty"`
	Late    string `json:"late,omitempty"`
	// Foreign = this subscriber keeps its jobs through ANOTHER store object (a second wrapper around the same file): its Save
	// refuses every event inside the admission transaction ("trying to save Event on different DB")
	Foreign string `json:"foreign,omitempty"`
}

// c14SubsOf lists the subscribers that a scenario registers.
func c14SubsOf(sc c14Scenario) []c14SubSpec {
	all := c14Subs(sc.Set)
	if sc.Only == "" {
		return all
	}
	for _, sp := range all {
		if sp.name == sc.Only {
			return []c14SubSpec{sp}
		}
	}
	return nil
}

func (sc c14Scenario) key() string {
	ops := make([]string, len(sc.Ops))
	for i, o := range sc.Ops {
		ops[i] = o.Kind + strconv.Itoa(o.Ref)
		if o.Same > 0 {
			ops[i] += "=" + strconv.Itoa(o.Same-1)
		}
	}
	k := strings.Join(ops, ",") + "|" + sc.Set + "|" + sc.Order + "|" + sc.Faulty + ":" + sc.Script + "|" + sc.Drain
	if sc.Seeded {
		k += "|seeded:" + sc.Only + ":" + strconv.Itoa(sc.SeedRetries)
	}
	if sc.Perm != "" {
		k += "|perm:" + sc.Perm
	}
	if sc.Scope != "" {
		k += "|scope:" + sc.Scope
	}
	if sc.Corrupt != "" {
		k += "|corrupt:" + sc.Corrupt
	}
	if sc.Late != "" {
		k += "|late:" + sc.Late
	}
	if sc.Foreign != "" {
		k += "|foreign:" + sc.Foreign
	}
	return k
}

type c14SubSpec struct {
	name   string
	filter func(Event) bool // nil = unfiltered
	delay  time.Duration    // 0 = default
	sel    string           // generated sets: "tx" | "pay" (what the filter selects, for the reference predicate)
}

const c14PubType, c14PrivType = "application/did+json", "application/vc+json"

func c14Subs(set string) []c14SubSpec {
	switch set {
	case "product": // the filters the product registers: nats (payload), vdr (payload of one type), private (transaction with PAL)
		return []c14SubSpec{
			{name: "nats", filter: func(e Event) bool { return e.Type == PayloadEventType }},
			{name: "vdr", filter: func(e Event) bool { return e.Type == PayloadEventType && e.Transaction.PayloadType() == c14PubType }},
			{name: "private", filter: func(e Event) bool { return e.Type == TransactionEventType && e.Transaction.PAL() != nil }, delay: 5 * time.Second},
		}
	case "generic":
		return []c14SubSpec{
			{name: "txs", filter: func(e Event) bool { return e.Type == TransactionEventType }},
			{name: "all"},
		}
	}
	// generated sets: "k:<kinds>" = one subscriber per letter, t = transaction-event filter, p = payload-event filter
	// ("k:tpp" = {t0, p1, p2}); "pfx:<kinds>" = the same with names of which the first is a prefix of the others' shelf
	// names ("q", "q_jobs", "q_jobs_jobs": shelves _q_jobs, _q_jobs_jobs, …)
	gen := ""
	switch {
	case strings.HasPrefix(set, "k:"):
		gen = set[2:]
	case strings.HasPrefix(set, "pfx:"):
		gen = set[4:]
	}
	var out []c14SubSpec
	for j, ch := range gen {
		sp := c14SubSpec{name: string(ch) + strconv.Itoa(j)}
		if strings.HasPrefix(set, "pfx:") {
			sp.name = "q" + strings.Repeat("_jobs", j)
		}
		switch ch {
		case 't':
			sp.sel, sp.filter = "tx", func(e Event) bool { return e.Type == TransactionEventType }
		case 'p':
			sp.sel, sp.filter = "pay", func(e Event) bool { return e.Type == PayloadEventType }
		}
		out = append(out, sp)
	}
	return out
}

// c14RegName is the name under which a subscriber is registered: a sorting prefix fixes the order in which the
// state visits its notifiers.
func c14RegName(sc c14Scenario, sub string) string {
	if strings.HasPrefix(sc.Set, "pfx:") {
		return sub // a name that is a prefix of another sorts first: one visiting order only
	}
	subs := c14Subs(sc.Set)
	for i, sp := range subs {
		if sp.name == sub {
			if len(sc.Perm) == len(subs) {
				i = int(sc.Perm[i] - '0')
			} else if sc.Order == "desc" {
				i = len(subs) - 1 - i
			}
			return string(rune('a'+i)) + "_" + sub
		}
	}
	return sub
}

func c14ScriptResult(script string, n int) string {
	failN := func(k int) string {
		if n < k {
			return "fail"
		}
		return "ok"
	}
	switch script {
	case "", "ok":
		return "ok"
	case "incomplete1", "incomplete2":
		if n < int(script[len(script)-1]-'0') {
			return "incomplete"
		}
		return "ok"
	case "fatal":
		return "fatal"
	case "failforever":
		return "fail"
	}
	if strings.HasPrefix(script, "fail") {
		k, _ := strconv.Atoi(script[4:])
		return failN(k)
	}
	if kind, at, ok := c14ErrScript(script); ok {
		// err:<kind>@<k>: attempts before the k-th fail with the generic error, the k-th returns the error value <kind>, the
		// subscriber is healthy afterwards
		switch {
		case n < at-1:
			return "fail"
		case n == at-1:
			return "err:" + kind
		}
	}
	return "ok"
}

// c14ErrKinds: the error VALUE a subscriber returns is a dimension of its behaviour.
var c14ErrKinds = []string{"generic", "event-fatal", "wrapped-event-fatal", "canceled", "wrapped-canceled", "deadline", "wrapped-deadline",
	"retry-unrecoverable", "text-context-canceled"}

func c14ErrScript(script string) (kind string, at int, ok bool) {
	if !strings.HasPrefix(script, "err:") {
		return "", 0, false
	}
	i := strings.LastIndex(script, "@")
	at, _ = strconv.Atoi(script[i+1:])
	return script[4:i], at, true
}

func c14ErrValue(kind string) error {
	switch kind {
	case "event-fatal":
		return EventFatal{errors.New("subscriber says: fatal")}
	case "wrapped-event-fatal":
		return fmt.Errorf("subscriber wraps: %w", EventFatal{errors.New("subscriber says: fatal")})
	case "canceled":
		return context.Canceled
	case "wrapped-canceled":
		return fmt.Errorf("subscriber: storage took too long: %w", context.Canceled)
	case "deadline":
		return context.DeadlineExceeded
	case "wrapped-deadline":
		return fmt.Errorf("subscriber: storage took too long: %w", context.DeadlineExceeded)
	case "retry-unrecoverable":
		return retry.Unrecoverable(errors.New("subscriber says: try again (wrapped in retry-go's unrecoverable marker)"))
	case "text-context-canceled":
		return errors.New("subscriber says: upstream answered: context canceled")
	}
	return errors.New("subscriber says: try again")
}

// ledger entries
type c14Call struct {
	Sub     string
	TxName  string
	Type    string
	Life    int
	Result  string
	StepsAt int // number of write steps done when the receiver returned (life 0)
	Loop    int // retry loop that made the call (-1 = synchronous Notify / Run)
}

type c14Run struct {
	t      testing.TB
	sim    *c14Sim
	sc     c14Scenario
	dir    string
	txs    []Transaction // by op index (creator ops)
	pays   [][]byte
	names  map[hash.SHA256Hash]string
	calls  []c14Call
	counts map[string]int // script position per sub|tx|type, continues across the restart
	life   int
	kv     *fault.KV
	inner  stoabs.KVStore
	st     *state
	subs   []c14SubSpec
	notifs []Notifier
	opStart []int
	opErr   []string // "ok" | "err" | "stopped" | "not-run"
	runaway bool
	postMortem int
	entries  int // life 0: receiver entries so far
	diedAtCall bool
	diedSteps  int
	mu       sync.Mutex
	stepLoop []int // life 0: which retry loop performed step N (-1 = the main goroutine)
}


// c14Abort ends a run that cannot be judged (machinery trouble, never a verdict); recovered by c14Execute.
type c14Abort struct{ err error }

func c14Fail(format string, args ...any) { panic(c14Abort{fmt.Errorf(format, args...)}) }

func (rn *c14Run) open(path string) {
	inner, err := bbolt.CreateBBoltStore(path, stoabs.WithNoSync(), stoabs.WithLockAcquireTimeout(10*time.Minute))
	if err != nil {
		c14Fail("open store: %v", err)
	}
	rn.inner = inner
	rn.kv = fault.Wrap(inner)
	life0 := rn.life == 0
	rn.kv.Hook = func(fault.Step) {
		if life0 {
			loop := rn.sim.currentLoop()
			rn.mu.Lock()
			rn.stepLoop = append(rn.stepLoop, loop)
			rn.mu.Unlock()
		}
		rn.sim.onMain()
	}
	rn.kv.ReadHook = func(string) { rn.sim.onMain() }
	s, err := NewState(rn.kv, NewPrevTransactionsVerifier(), NewTransactionSignatureVerifier(nil))
	if err != nil {
		c14Fail("set-up: %v", err)
	}
	rn.st = s.(*state)
	if err := rn.st.Configure(core.ServerConfig{}); err != nil {
		c14Fail("set-up: %v", err)
	}
	rn.notifs = nil
	life, kv := rn.life, rn.kv
	for _, sp := range rn.subs {
		sp := sp
		if rn.life == 0 && sp.name == rn.sc.Late {
			rn.notifs = append(rn.notifs, nil) // registers only after the restart
			continue
		}
		opts := []NotifierOption{WithPersistency(rn.kv)}
		if sp.name == rn.sc.Foreign {
			opts = []NotifierOption{WithPersistency(fault.Wrap(rn.inner))}
		}
		if sp.filter != nil {
			opts = append(opts, WithSelectionFilter(sp.filter))
		}
		if sp.delay != 0 {
			opts = append(opts, WithRetryDelay(sp.delay))
		}
		n, err := rn.st.Notifier(c14RegName(rn.sc, sp.name), func(e Event) (bool, error) { return rn.receive(sp, life, kv, e) }, opts...)
		if err != nil {
			c14Fail("set-up: %v", err)
		}
		rn.notifs = append(rn.notifs, n)
	}
}

func (rn *c14Run) receive(sp c14SubSpec, life int, kv *fault.KV, e Event) (bool, error) {
	if kv.Dead() {
		// the process is dead: whatever the abandoned instance still does is an artefact of the emulation
		rn.postMortem++
		return false, errors.New("verif: process stopped")
	}
	rn.sim.onMain()
	if life == 0 && rn.sc.StopCall > 0 {
		rn.mu.Lock()
		rn.entries++
		hit := rn.entries == rn.sc.StopCall
		rn.mu.Unlock()
		if hit {
			// the process dies before the subscriber sees the event
			rn.diedAtCall, rn.diedSteps = true, kv.Steps()
			kv.Kill()
			if rn.sim.currentLoop() < 0 {
				panic(fault.Stopped{}) // no store transaction is open while a receiver is called
			}
			return false, errors.New("verif: process stopped")
		}
	}
	name := rn.names[e.Hash]
	key := sp.name + "|" + name + "|" + e.Type
	loop := rn.sim.currentLoop()
	rn.mu.Lock()
	defer rn.mu.Unlock()
	n := rn.counts[key]
	rn.counts[key]++
	script := "ok"
	if sp.name == rn.sc.Faulty {
		script = rn.sc.Script
	}
	res := c14ScriptResult(script, n)
	if n > 3*maxRetries {
		rn.runaway = true
		res = "ok" // stop a runaway loop; reported as budget violation
	}
	var errValue error
	if strings.HasPrefix(res, "err:") {
		errValue = c14ErrValue(res[4:])
		// the ledger knows two kinds of failure: a FATAL report as the product defines it (its EventFatal type anywhere in
		// the error chain) and everything else
		res = "fail"
		if errors.As(errValue, new(EventFatal)) {
			res = "fatal"
		}
	}
	rn.calls = append(rn.calls, c14Call{Sub: sp.name, TxName: name, Type: e.Type, Life: life, Result: res, StepsAt: kv.Steps(), Loop: loop})
	rn.sim.receiverReturned()
	if errValue != nil {
		return false, errValue
	}
	switch res {
	case "ok":
		return true, nil
	case "incomplete":
		return false, nil
	case "fatal":
		return false, EventFatal{errors.New("subscriber says: fatal")}
	}
	return false, errors.New("subscriber says: try again")
}

func (rn *c14Run) closeInstance() {
	for _, n := range rn.notifs {
		if n != nil {
			_ = n.Close()
		}
	}
	rn.sim.abandon()
	rn.st.xorTreeRepair.ticker.Stop()
	_ = rn.st.Shutdown()
	ctx, cancel := context.WithTimeout(c14ctx, c14MaxWait)
	defer cancel()
	if err := rn.inner.Close(ctx); err != nil {
		c14Fail("closing the store failed: %v", err)
	}
}

// doOp performs one operation of the history on the live instance.
func (rn *c14Run) doOp(i int) error {
	op := rn.sc.Ops[i]
	if op.Kind == "redo" {
		op = rn.sc.Ops[op.Ref] // the caller repeats that operation
		i = op.Ref             // creator operations refer to themselves; wp and dup do not use i
	}
	switch op.Kind {
	case "pub":
		return rn.st.Add(c14ctx, rn.txs[i], rn.pays[i])
	case "priv":
		return rn.st.Add(c14ctx, rn.txs[i], nil)
	case "wp":
		return rn.st.WritePayload(c14ctx, rn.txs[op.Ref], rn.txs[op.Ref].PayloadHash(), rn.pays[op.Ref])
	case "dup":
		if rn.sc.Ops[op.Ref].Kind == "priv" {
			return rn.st.Add(c14ctx, rn.txs[op.Ref], nil)
		}
		return rn.st.Add(c14ctx, rn.txs[op.Ref], rn.pays[op.Ref])
	case "bad":
		return rn.st.Add(c14ctx, rn.txs[i], rn.pays[i])
	}
	c14Fail("unknown op %q", op.Kind)
	return nil
}

// makeTxs signs the transactions of the history: creator ops form a chain; "bad" refers to a parent that is never added.
func c14MakeTxs(ops []c14Op) ([]Transaction, [][]byte, map[hash.SHA256Hash]string) {
	txs := make([]Transaction, len(ops))
	pays := make([][]byte, len(ops))
	names := map[hash.SHA256Hash]string{}
	var last Transaction
	at := time.Date(2024, 1, 1, 0, 0, 0, 0, time.UTC)
	ghost := CreateSignedTestTransaction(999, at, nil, c14PubType, true)
	for i, op := range ops {
		var prevs []Transaction
		if last != nil {
			prevs = []Transaction{last}
		}
		num := uint32(100 + i)
		if op.Same > 0 {
			num = uint32(100 + op.Same - 1) // byte-identical payload, hence the same payload hash, in a different transaction
		}
		pays[i] = make([]byte, 4)
		pays[i][3] = byte(num)
		switch op.Kind {
		case "pub":
			txs[i] = CreateSignedTestTransaction(num, at, nil, c14PubType, true, prevs...)
			last = txs[i]
		case "priv":
			txs[i] = CreateSignedTestTransaction(num, at, [][]byte{{1, 2, 3}}, c14PrivType, true, prevs...)
			last = txs[i]
		case "bad":
			txs[i] = CreateSignedTestTransaction(num, at, nil, c14PubType, true, ghost)
		}
		if txs[i] != nil {
			names[txs[i].Ref()] = "t" + strconv.Itoa(i)
		}
	}
	return txs, pays, names
}

// seedJobs registers the scenario's subscribers on the live (subscriber-less) instance and stores, with the notifier's
// own Save function (which applies the filters), the events of every admitted operation with SeedRetries persisted tries.
func (rn *c14Run) seedJobs() {
	var ns []Notifier
	for _, sp := range rn.subs {
		opts := []NotifierOption{WithPersistency(rn.kv)}
		if sp.filter != nil {
			opts = append(opts, WithSelectionFilter(sp.filter))
		}
		n, err := rn.st.Notifier(c14RegName(rn.sc, sp.name), func(Event) (bool, error) { return false, errors.New("verif: not running") }, opts...)
		if err != nil {
			c14Fail("seeding: %v", err)
		}
		ns = append(ns, n)
	}
	rn.notifs = ns
	err := rn.kv.Write(c14ctx, func(tx stoabs.WriteTx) error {
		for i, op := range rn.sc.Ops {
			if i >= len(rn.opErr) || rn.opErr[i] != "ok" {
				continue
			}
			var evs []Event
			switch op.Kind {
			case "pub":
				evs = []Event{{Type: PayloadEventType, Hash: rn.txs[i].Ref(), Transaction: rn.txs[i], Payload: rn.pays[i]},
					{Type: TransactionEventType, Hash: rn.txs[i].Ref(), Transaction: rn.txs[i], Payload: rn.pays[i]}}
			case "priv":
				evs = []Event{{Type: TransactionEventType, Hash: rn.txs[i].Ref(), Transaction: rn.txs[i]}}
			case "wp":
				evs = []Event{{Type: PayloadEventType, Hash: rn.txs[op.Ref].Ref(), Transaction: rn.txs[op.Ref], Payload: rn.pays[op.Ref]}}
			}
			for _, e := range evs {
				e.Retries = rn.sc.SeedRetries
				for _, n := range ns {
					if err := n.Save(tx, e); err != nil {
						return err
					}
				}
			}
		}
		return nil
	})
	if err != nil {
		c14Fail("seeding: %v", err)
	}
}

// c14Result is everything the oracle needs from one run.
type c14Result struct {
	Trace     []fault.Step // life 0
	Stopped   bool
	StopStep  fault.Step
	Calls     []c14Call
	OpStart   []int
	OpErr     []string
	Pending1  map[string]map[string]int // at restart, before Run: sub -> tx name -> retries
	PendingZ  map[string]map[string]int // at the end
	Failed    map[string]map[string]bool
	Failed1   map[string]map[string]bool // GetFailedEvents right after the restart, before Run
	Delays    map[int][]time.Duration
	Present   map[string]bool // tx name -> present after restart
	PayPresent map[string]bool
	Runaway   bool
	PostMortem int
	StopLoop  int // retry loop that hit the stop (-1 = main goroutine)
	ErrFired  bool  // storage-error runs: the planned error was applied
	StepLoops []int // life 0: the retry loop that performed step N (-1 = main goroutine)
	// Scope "op": admissions as read from the store right after each operation ("t0|transaction" -> count), and what was seen
	// that belongs to other properties (operation returned an error but stored something / returned nil and stored nothing)
	Admit        map[string]int
	Inconsistent []string
}

func (rn *c14Run) pending() map[string]map[string]int {
	out := map[string]map[string]int{}
	for _, sp := range rn.subs {
		m := map[string]int{}
		_ = rn.inner.ReadShelf(c14ctx, "_"+c14RegName(rn.sc, sp.name)+"_jobs", func(r stoabs.Reader) error {
			return r.Iterate(func(k stoabs.Key, v []byte) error {
				var e Event
				if err := e.UnmarshalJSON(v); err != nil {
					m["?"+fmt.Sprintf("%x", k.Bytes()[:4])] = -1
					return nil
				}
				m[rn.names[hash.FromSlice(k.Bytes())]] = e.Retries
				return nil
			}, stoabs.BytesKey{})
		})
		out[sp.name] = m
	}
	return out
}

// c14Stored is what the store holds about the transaction of an operation (read through the unwrapped store: no step).
type c14Stored struct{ tx, pay bool }

// c14Target returns the operation whose transaction operation i is about, and that operation's kind after resolving
// "redo" and "dup" (pub | priv | wp | bad).
func c14Target(ops []c14Op, i int) (ref int, kind string) {
	op := ops[i]
	if op.Kind == "redo" {
		op = ops[op.Ref]
	}
	if op.Kind == "dup" {
		return op.Ref, ops[op.Ref].Kind
	}
	return op.Ref, op.Kind
}

func (rn *c14Run) stored(i int) c14Stored {
	ref, _ := c14Target(rn.sc.Ops, i)
	var out c14Stored
	if rn.txs[ref] == nil {
		return out
	}
	_ = rn.inner.Read(c14ctx, func(tx stoabs.ReadTx) error {
		out.tx = rn.st.graph.isPresent(tx, rn.txs[ref].Ref())
		out.pay = rn.st.payloadStore.isPayloadPresent(tx, rn.txs[ref].PayloadHash())
		return nil
	})
	return out
}

// corruptBefore applies Scenario.Corrupt: the job shelf of one subscriber already holds an unreadable entry under the key
// of the event that operation i is going to save.
func (rn *c14Run) corruptBefore(i int) {
	at := strings.LastIndex(rn.sc.Corrupt, "@")
	if at < 0 || rn.sc.Corrupt[at+1:] != strconv.Itoa(i) {
		return
	}
	ref, _ := c14Target(rn.sc.Ops, i)
	shelf := "_" + c14RegName(rn.sc, rn.sc.Corrupt[:at]) + "_jobs"
	if err := rn.inner.WriteShelf(c14ctx, shelf, func(w stoabs.Writer) error {
		return w.Put(stoabs.BytesKey(rn.txs[ref].Ref().Slice()), []byte(`{"type":"transaction","hash":`))
	}); err != nil {
		c14Fail("writing the corrupt entry: %v", err)
	}
}

// account records the admissions of operation i from its answer and the store: admitted = returned nil AND stored by it.
func (rn *c14Run) account(res *c14Result, i int, err error, before, after c14Stored) {
	ref, kind := c14Target(rn.sc.Ops, i)
	name := "t" + strconv.Itoa(ref)
	if err != nil {
		if before != after {
			res.Inconsistent = append(res.Inconsistent, "returned-error-but-stored|"+kind)
		}
		return
	}
	switch kind {
	case "pub", "priv":
		if !after.tx {
			res.Inconsistent = append(res.Inconsistent, "returned-nil-but-not-stored|"+kind)
			return
		}
		if before.tx {
			return // already there: nothing admitted by this call
		}
		res.Admit[name+"|"+TransactionEventType]++
		if kind == "pub" {
			res.Admit[name+"|"+PayloadEventType]++
		}
	case "wp":
		if !after.pay {
			res.Inconsistent = append(res.Inconsistent, "returned-nil-but-not-stored|"+kind)
			return
		}
		res.Admit[name+"|"+PayloadEventType]++
	}
}

// c14Execute runs one scenario: life 0 with the planned stop (0 = none), restart, Run, quiescence.
var c14T [8]time.Duration

func c14Execute(t testing.TB, sim *c14Sim, sc c14Scenario, txs []Transaction, pays [][]byte, names map[hash.SHA256Hash]string) (result *c14Result, failure error) {
	defer func() {
		if p := recover(); p != nil {
			a, ok := p.(c14Abort)
			if !ok {
				panic(p)
			}
			result, failure = nil, a.err
		}
	}()
	tm := time.Now()
	lap := func(i int) { n := time.Now(); c14T[i] += n.Sub(tm); tm = n }
	dir, err := os.MkdirTemp("", "c14r")
	if err != nil {
		c14Fail("temp dir: %v", err)
	}
	defer os.RemoveAll(dir)
	path := filepath.Join(dir, "dag.db")
	sim.reset()
	sim.settle()
	rn := &c14Run{t: t, sim: sim, sc: sc, dir: dir, txs: txs, pays: pays, names: names, counts: map[string]int{}, subs: c14SubsOf(sc)}
	if sc.Seeded {
		rn.subs = nil // the operations are admitted by a node without subscribers
	}
	rn.open(path)
	lap(0)
	res := &c14Result{}
	mode, at := fault.None, sc.StopAt
	if sc.StopAt > 0 {
		mode = fault.Stop
	}
	if sc.ErrAt > 0 {
		mode, at = fault.Error, sc.ErrAt
	}
	rn.kv.NumberReads(sc.Reads)
	rn.kv.NumberTxReads(sc.TxReads)
	rn.kv.Arm(fault.Plan{Mode: mode, At: at})
	res.Admit = map[string]int{}
	drain := func() {
		for sim.nParked() > 0 && !rn.kv.Dead() {
			sim.releaseOldest()
		}
	}
	rn.opErr = make([]string, len(sc.Ops))
	for i := range rn.opErr {
		rn.opErr[i] = "not-run"
	}
	stopped := fault.Run(func() {
		for _, n := range rn.notifs { // the node runs every notifier at start (empty shelves here)
			if n != nil {
				_ = n.Run()
			}
		}
		for i := range sc.Ops {
			if rn.kv.Dead() {
				return
			}
			rn.opStart = append(rn.opStart, rn.kv.Steps())
			if sc.Ops[i].Kind == "redo" && rn.opErr[sc.Ops[i].Ref] != "err" {
				continue // nothing to repeat: stays "not-run"
			}
			rn.opErr[i] = "stopped"
			var before c14Stored
			if sc.Scope == "op" {
				rn.corruptBefore(i)
				before = rn.stored(i)
			}
			err := rn.doOp(i)
			sim.settle()
			if rn.kv.Dead() {
				return
			}
			if sc.Scope == "op" {
				rn.account(res, i, err, before, rn.stored(i))
			}
			if err != nil {
				rn.opErr[i] = "err"
			} else {
				rn.opErr[i] = "ok"
			}
			if sc.Drain == "each" {
				drain()
			}
		}
		drain()
		if sc.Seeded {
			rn.subs = c14SubsOf(sc)
			rn.seedJobs()
		}
	})
	sim.settle()
	lap(1)
	res.Trace = rn.kv.Trace()
	fired, firedAt := rn.kv.Fired()
	res.Stopped = fired || stopped != nil || rn.kv.Dead()
	res.StopStep = firedAt
	if sc.ErrAt > 0 {
		res.Stopped, res.ErrFired = false, fired
	}
	if sc.StopAt > 0 && !fired {
		res.Stopped = false // the run ended before the planned step
	}
	if sc.StopCall > 0 {
		res.Stopped = rn.diedAtCall
		res.StopStep = fault.Step{N: rn.diedSteps + 1, Kind: "receiver-call"} // every step made so far took effect
	}
	// the restart: abandon the instance, open the file again, re-register, Run
	if !rn.kv.Dead() {
		rn.kv.Kill() // a clean stop after quiescence
	}
	rn.closeInstance()
	lap(2)
	rn.life = 1
	rn.open(path)
	lap(3)
	res.Pending1 = rn.pending()
	res.Failed1 = map[string]map[string]bool{}
	for i, n := range rn.notifs {
		m := map[string]bool{}
		if evs, err := n.GetFailedEvents(); err == nil {
			for _, e := range evs {
				m[names[e.Hash]] = true
			}
		}
		res.Failed1[rn.subs[i].name] = m
	}
	res.Present, res.PayPresent = map[string]bool{}, map[string]bool{}
	for i, tx := range txs {
		if tx == nil {
			continue
		}
		p, _ := rn.st.IsPresent(c14ctx, tx.Ref())
		res.Present["t"+strconv.Itoa(i)] = p
		pp, _ := rn.st.IsPayloadPresent(c14ctx, tx.PayloadHash())
		res.PayPresent["t"+strconv.Itoa(i)] = pp
	}
	sim.mu.Lock()
	sim.free = true
	sim.mu.Unlock()
	for _, n := range rn.notifs {
		if err := n.Run(); err != nil {
			c14Fail("Run failed: %v", err)
		}
	}
	sim.settle()
	lap(4)
	res.PendingZ = rn.pending()
	res.Failed = map[string]map[string]bool{}
	for i, n := range rn.notifs {
		m := map[string]bool{}
		evs, err := n.GetFailedEvents()
		if err != nil {
			c14Fail("GetFailedEvents: %v", err)
		}
		for _, e := range evs {
			m[names[e.Hash]] = true
		}
		res.Failed[rn.subs[i].name] = m
	}
	sim.mu.Lock()
	res.Delays = map[int][]time.Duration{}
	for _, l := range sim.loops {
		res.Delays[l.id] = l.delays
	}
	sim.mu.Unlock()
	rn.kv.Kill()
	rn.closeInstance()
	lap(5)
	res.Calls, res.OpStart, res.OpErr, res.Runaway, res.PostMortem = rn.calls, rn.opStart, rn.opErr, rn.runaway, rn.postMortem
	res.StepLoops = rn.stepLoop
	res.StopLoop = -1
	if res.Stopped && res.StopStep.N >= 1 && res.StopStep.N <= len(rn.stepLoop) {
		res.StopLoop = rn.stepLoop[res.StopStep.N-1]
	}
	// self-check of the admission bookkeeping: a creator operation counts as admitted iff the transaction is stored after the restart
	for i, op := range sc.Ops {
		if (op.Kind == "pub" || op.Kind == "priv") && i < len(res.OpErr) && sc.Scope != "op" {
			committed := res.OpErr[i] == "ok"
			if res.OpErr[i] == "stopped" {
				c := c14CommitAfter(res.Trace, res.OpStart[i], "")
				committed = c > 0 && c < res.StopStep.N
			}
			if committed != res.Present["t"+strconv.Itoa(i)] {
				c14Fail("admission bookkeeping disagrees with the store for op %d of %s stop=%d: committed=%v present=%v", i, sc.key(), sc.StopAt, committed, res.Present["t"+strconv.Itoa(i)])
			}
		}
	}
	if err := sim.failed(); err != nil {
		return nil, err
	}
	return res, nil
}

// ---------------------------------------------------------------------------------------------- oracle (App. B.7)

type c14Finding struct{ clause, sub, detail string }

// c14Budget is the number of persisted tries at which the notifier itself stops retrying an event that keeps failing, and
// c14Threshold the number of tries from which GetFailedEvents lists an event. Both are READ FROM THE RUN by c14Calibrate (a
// subscriber that fails for ever, no stop; seeded jobs with 0,1,2,… tries); the product's constants are only the fall-back.
var c14Budget, c14Threshold = maxRetries, retriesFailedThreshold

// commitOf returns the commit step of the first write transaction that begins after step number `after`
// (optionally: whose begin names the shelf), or 0.
func c14CommitAfter(trace []fault.Step, after int, shelf string) int {
	tx := 0
	for _, s := range trace {
		if s.N <= after {
			continue
		}
		if tx == 0 && s.Kind == fault.Begin && (shelf == "" || s.Shelf == shelf) {
			tx = s.Tx
			continue
		}
		if tx != 0 && s.Tx == tx && s.Kind == fault.Commit {
			return s.N
		}
	}
	return 0
}

func c14Judge(sc c14Scenario, res *c14Result) []c14Finding {
	var out []c14Finding
	add := func(clause, sub, format string, args ...any) {
		out = append(out, c14Finding{clause, sub, fmt.Sprintf(format, args...)})
	}
	stopN := 1 << 30
	if res.Stopped {
		stopN = res.StopStep.N
	}
	// a transaction in which the injected storage error fired did not commit, whatever steps of it were numbered
	errTx := -1
	if sc.ErrAt > 0 && res.ErrFired {
		for _, st := range res.Trace {
			if st.N == sc.ErrAt && st.Kind != fault.ReadOp {
				errTx = st.Tx
			}
		}
	}
	done := func(stepN int) bool { // "stop before step N": steps below N took effect
		if stepN > 0 && errTx >= 0 {
			for _, st := range res.Trace {
				if st.N == stepN && st.Tx == errTx {
					return false
				}
			}
		}
		return stepN > 0 && stepN < stopN
	}
	// admissions
	type akey struct{ tx, typ string }
	admitted := map[akey]int{}
	private := map[string]bool{}
	if sc.Scope == "op" {
		for k, n := range res.Admit {
			cut := strings.Index(k, "|")
			admitted[akey{k[:cut], k[cut+1:]}] = n
		}
	}
	for i, op := range sc.Ops {
		if op.Kind == "priv" {
			private["t"+strconv.Itoa(i)] = true
		}
		if i >= len(res.OpStart) || sc.Scope == "op" {
			continue
		}
		committed := false
		switch res.OpErr[i] {
		case "ok":
			committed = true
		case "stopped":
			committed = done(c14CommitAfter(res.Trace, res.OpStart[i], ""))
		}
		if !committed {
			continue
		}
		switch op.Kind {
		case "pub":
			admitted[akey{"t" + strconv.Itoa(i), TransactionEventType}]++
			admitted[akey{"t" + strconv.Itoa(i), PayloadEventType}]++
		case "priv":
			admitted[akey{"t" + strconv.Itoa(i), TransactionEventType}]++
		case "wp":
			admitted[akey{"t" + strconv.Itoa(op.Ref), PayloadEventType}]++
		}
	}
	selKind := map[string]string{}
	for _, sp := range c14Subs(sc.Set) {
		selKind[sp.name] = sp.sel
	}
	selects := func(sub string, k akey) bool {
		switch selKind[sub] {
		case "tx":
			return k.typ == TransactionEventType
		case "pay":
			return k.typ == PayloadEventType
		}
		switch sub {
		case "nats":
			return k.typ == PayloadEventType
		case "vdr":
			return k.typ == PayloadEventType && !private[k.tx]
		case "private":
			return k.typ == TransactionEventType && private[k.tx]
		case "txs":
			return k.typ == TransactionEventType
		case "all":
			return true
		}
		return false
	}
	for _, sp := range c14SubsOf(sc) {
		sub := sp.name
		late := sub == sc.Late
		byKey := map[akey][]c14Call{}
		for _, c := range res.Calls {
			if c.Sub == sub {
				k := akey{c.TxName, c.Type}
				byKey[k] = append(byKey[k], c)
			}
		}
		// never delivered if not admitted
		for k, cs := range byKey {
			if admitted[k] == 0 {
				add("delivered-not-admitted", sub, "%s event of %s was delivered %d time(s) but never admitted", k.typ, k.tx, len(cs))
			}
		}
		for k, n := range admitted {
			if n == 0 || !selects(sub, k) || late {
				// (a subscriber that registers after the admission is not one of "each registered subscriber" of that admission)
				continue
			}
			cs := byKey[k]
			// at least once across the crash
			if len(cs) == 0 {
				if sub == "all" {
					add("unfiltered-never-delivered", sub, "%s event of %s is admitted and selected (no filter) but was never delivered", k.typ, k.tx)
				} else {
					add("never-delivered", sub, "%s event of %s is admitted and selected but was never delivered, also not after the restart", k.typ, k.tx)
				}
				continue
			}
			if sub == "all" {
				// both event types of one transaction share one shelf key for an unfiltered subscriber (row 10): deliveries are
				// mixed up between the two events, so budget, completion and end state are not judged per event
				continue
			}
			// no call after a recorded completion
			recorded := false
			for _, c := range cs {
				if recorded && admitted[k] == 1 {
					add("called-after-completion", sub, "%s event of %s delivered again (life %d) after its completion had been recorded", k.typ, k.tx, c.Life)
					break
				}
				if c.Result == "ok" {
					if c.Life == 0 {
						recorded = done(c14CommitAfter(res.Trace, c.StepsAt, "_"+c14RegName(sc, sub)+"_jobs"))
					} else {
						recorded = true
					}
				}
			}
			// retry budget per process lifetime, no call after a fatal answer within a lifetime
			for life := 0; life <= 1; life++ {
				n, fatalSeen := 0, false
				for _, c := range cs {
					if c.Life != life {
						continue
					}
					n++
					if fatalSeen {
						where := "after-notify"
						if life == 1 {
							where = "after-run-at-start"
						}
						add("retried-after-fatal|"+where, sub, "%s event of %s delivered again in the same process (life %d) after the subscriber answered with a fatal error", k.typ, k.tx, life)
						break
					}
					fatalSeen = c.Result == "fatal"
				}
				if n > 1+maxRetries {
					add("retry-budget", sub, "%s event of %s delivered %d times in one process lifetime (budget %d)", k.typ, k.tx, n, 1+maxRetries)
				}
			}
			// end state: completion recorded, or still visible as failed — never vanished
			completed := false
			for _, c := range cs {
				completed = completed || c.Result == "ok"
			}
			_, inShelf := res.PendingZ[sub][k.tx]
			switch {
			case inShelf && completed && admitted[k] == 1:
				// completion answered but the job is still stored: only legitimate if it will be delivered again, i.e. not a
				// violation of any clause by itself (at-least-once); nothing to report
			case !inShelf && !completed:
				add("vanished", sub, "%s event of %s was never completed and is no longer stored", k.typ, k.tx)
			case inShelf && !completed && !res.Failed[sub][k.tx]:
				add("not-visible-as-failed", sub, "%s event of %s is undelivered, no retry is scheduled any more, and GetFailedEvents does not list it (retries=%d)", k.typ, k.tx, res.PendingZ[sub][k.tx])
			case inShelf && !completed && res.PendingZ[sub][k.tx] < c14Budget:
				// quiescence: no retry loop exists any more. Neither completion nor a fatal answer (that marks the event with
				// more than the budget) nor a spent budget: the notifier stopped trying with budget left
				add("retries-stopped-with-budget-left", sub, "%s event of %s: no retry is scheduled any more after %d persisted tries although the subscriber neither completed nor failed fatally and the budget is %d", k.typ, k.tx, res.PendingZ[sub][k.tx], c14Budget)
			}
			// runs without a stop reach quiescence in the FIRST process too (every retry loop has ended before the clean stop): there
			// the event must already be completed or visible as failed with its budget spent — "will be picked up at the next
			// restart" is not one of the states the statement allows
			if !res.Stopped && !sc.Seeded {
				completed0 := false
				for _, c := range cs {
					completed0 = completed0 || (c.Life == 0 && c.Result == "ok")
				}
				r0, in0 := res.Pending1[sub][k.tx]
				switch {
				case !in0 && !completed0:
					add("stuck-in-process", sub, "%s event of %s: at quiescence of the admitting process it was never completed and is not stored", k.typ, k.tx)
				case in0 && !completed0 && (!res.Failed1[sub][k.tx] || r0 < c14Budget):
					add("stuck-in-process", sub, "%s event of %s: at quiescence of the admitting process no retry is scheduled any more after %d persisted tries (budget %d), listed as failed: %v", k.typ, k.tx, r0, c14Budget, res.Failed1[sub][k.tx])
				}
			}
			// an event with at least the threshold number of tries is visible as failed, also right after the restart
			if r1, ok := res.Pending1[sub][k.tx]; ok && r1 >= c14Threshold && res.Failed1 != nil && !res.Failed1[sub][k.tx] {
				add("not-visible-as-failed", sub, "%s event of %s has %d persisted tries after the restart and GetFailedEvents does not list it (threshold %d)", k.typ, k.tx, r1, c14Threshold)
			}
		}
	}
	// growing delays per retry loop
	for loop, ds := range res.Delays {
		for i := 1; i < len(ds); i++ {
			if ds[i] < ds[i-1] {
				add("delay-shrinks", "loop", "retry loop %d requested delay %v after %v", loop, ds[i], ds[i-1])
				break
			}
		}
	}
	if res.Runaway {
		add("retry-budget", "runaway", "a subscriber was called more than %d times for one event", 3*maxRetries)
	}
	return out
}

// ---------------------------------------------------------------------------------------------- enumeration

func c14Histories(maxLen int, thorough bool) [][]c14Op {
	var out [][]c14Op
	var rec func(h []c14Op)
	rec = func(h []c14Op) {
		if len(h) > 0 {
			out = append(out, append([]c14Op(nil), h...))
		}
		if len(h) == maxLen {
			return
		}
		i := len(h)
		pendingPriv, lastCreator, nDup, nBad := -1, -1, 0, 0
		firstPub, nSame := -1, 0
		written := map[int]bool{}
		for j, o := range h {
			if o.Kind == "pub" && firstPub < 0 {
				firstPub = j
			}
			if o.Same > 0 {
				nSame++
			}
			switch o.Kind {
			case "wp":
				written[o.Ref] = true
			case "dup":
				nDup++
			case "bad":
				nBad++
			}
			if o.Kind == "pub" || o.Kind == "priv" {
				lastCreator = j
			}
		}
		for j, o := range h {
			if o.Kind == "priv" && !written[j] {
				pendingPriv = j
			}
		}
		rec(append(h, c14Op{Kind: "pub", Ref: i}))
		rec(append(h, c14Op{Kind: "priv", Ref: i}))
		if firstPub >= 0 && nSame == 0 {
			// payload content is a dimension: a different transaction whose payload bytes are already stored (public, and
			// private without payload whose payload then arrives by WritePayload)
			rec(append(h, c14Op{Kind: "pub", Ref: i, Same: firstPub + 1}))
			rec(append(h, c14Op{Kind: "priv", Ref: i, Same: firstPub + 1}))
		}
		if pendingPriv >= 0 {
			rec(append(h, c14Op{Kind: "wp", Ref: pendingPriv}))
		}
		if lastCreator >= 0 && nDup == 0 {
			rec(append(h, c14Op{Kind: "dup", Ref: lastCreator}))
		}
		if nBad == 0 && thorough {
			rec(append(h, c14Op{Kind: "bad", Ref: i}))
		}
	}
	rec(nil)
	// only maximal histories and those ending in an admission are worth their stop points
	var keep [][]c14Op
	for _, h := range out {
		last := h[len(h)-1].Kind
		if len(h) == maxLen || last == "wp" {
			keep = append(keep, h)
		}
	}
	return keep
}

type c14Behaviour struct{ faulty, script string }

func c14Behaviours(set string, thorough, long bool) []c14Behaviour {
	var out []c14Behaviour
	scripts := []string{"fail1", "incomplete2", "fatal"}
	if thorough {
		scripts = append(scripts, "fail3")
	}
	if long {
		scripts = []string{"failforever"}
		if thorough {
			scripts = append(scripts, "fail10", "fail20") // the threshold of GetFailedEvents and the retry budget
		}
	} else {
		out = append(out, c14Behaviour{"", "ok"})
	}
	for _, sp := range c14Subs(set) {
		for _, s := range scripts {
			out = append(out, c14Behaviour{sp.name, s})
		}
	}
	return out
}

// c14StopClass names the place of the stop in the words of the statement.
func c14StopClass(res *c14Result, sc c14Scenario) string {
	if sc.ErrAt > 0 {
		return "storage-error|" + sc.ErrClass
	}
	if sc.Seeded {
		return "restart-from-seeded-jobs"
	}
	if !res.Stopped {
		return "no-stop"
	}
	st := res.StopStep
	if st.Kind == "receiver-call" {
		return "stop-before-delivery"
	}
	if res.StopLoop >= 0 {
		return "stop-during-retries"
	}
	if st.Kind == fault.AfterCommit {
		return "stop-between-commit-and-notification"
	}
	for _, b := range res.Trace {
		if b.Tx == st.Tx && b.Kind == fault.Begin {
			if b.Shelf == "" {
				return "stop-before-commit"
			}
			break
		}
	}
	return "stop-between-delivery-and-completion-marking" // a job-shelf transaction of the notifier on the notifying goroutine
}

func TestVerifC14(t *testing.T) {
	logrus.SetOutput(io.Discard)
	logrus.SetLevel(logrus.PanicLevel)
	r := ev.Start(t, "C14")
	defer r.Finish()
	thorough := r.Thorough()
	maxLen := 3
	if thorough {
		maxLen = 4
	}
	r.Rule("histories (maximal length, or ending in WritePayload) over {Add public tx+payload, Add private tx without payload, WritePayload, duplicate Add" +
		"(, Add with unknown prev)} x subscriber set {product filters: payload / payload of one type / transaction with PAL; generic: transaction-type filter + " +
		"unfiltered} x one misbehaving subscriber x script {fail n, incomplete n, fatal, fail for ever} x drain policy {retry loops run after each operation, " +
		"after the last} x EVERY numbered step of every write transaction as stop point (plus a clean stop at the end); then restart on the same file, " +
		"re-registration, Run, quiescence; delivery ledger of App. B.7; a case is non-trivial when the stop fired. ADMISSION FAULTS (one storage error per run): " +
		"subscriber sets of 2 and 3 with overlapping filters (every assignment of {transaction filter, payload filter}; the product's set; names of which one is a " +
		"prefix of the other's shelf name) x EVERY visiting order of the state's subscriber map (all permutations: the shim's Range is deterministic by name and " +
		"the registration names carry the rank, so the subscriber whose step fails is visited first, in the middle and last) x admission path {Add with payload, " +
		"Add without payload, WritePayload; on an empty and a non-empty DAG} x an error answer at EVERY numbered step of the admitting operation: the verification " +
		"read, begin, every Get / Iterate and every Put of the write transaction (reads inside write transactions are numbered; steps are told apart by the " +
		"shelf they touch, so each subscriber's own job-shelf Get and Put is failed in turn), commit, and every read / write step of the notifications that follow; " +
		"the caller repeats a failed operation once. Also: an unreadable entry already stored under the event's key in one subscriber's shelf; one subscriber " +
		"persisting through another store object (its Save refuses the event); one subscriber registering only after the restart. An operation counts as an " +
		"admission iff it returned nil and its transaction / payload is stored right after the call; every selected subscriber must then have been called, or still " +
		"hold the event (delivered by Run after the restart), or list it as failed")
	r.Assume("one goroutine runs at a time before the crash (retry loops are parked at the overlaid retry-go hooks and released in FIFO order); after " +
		"the restart retries run freely with zero delay; storage errors (as opposed to stops) are outside this property's quantifier; " +
		"bbolt's atomic commit is trusted")
	r.Bound("max_history_length", maxLen)
	sim := newC14Sim(t)

	var rc c14Scenario
	if r.ReplayCase(&rc) {
		txs, pays, names := c14MakeTxs(rc.Ops)
		res, err := c14Execute(t, sim, rc, txs, pays, names)
		if err != nil {
			r.NotExhaustive("replay case could not be run: " + err.Error())
			return
		}
		r.Eval(rc.key() + "|" + strconv.Itoa(rc.StopAt) + "|" + strconv.Itoa(rc.StopCall))
		c14Report(r, rc, res)
		for _, c := range res.Calls {
			fmt.Printf("call %+v\n", c)
		}
		for _, s := range res.Trace {
			fmt.Printf("step %d %s tx%d\n", s.N, s.Label(), s.Tx)
		}
		fmt.Printf("stopped=%v at %+v pending1=%v pendingZ=%v failed=%v opErr=%v\n", res.Stopped, res.StopStep, res.Pending1, res.PendingZ, res.Failed, res.OpErr)
		return
	}

	c14Calibrate(t, sim)
	r.Bound("retry_budget_read_from_run", c14Budget)
	r.Bound("failed_threshold_read_from_run", c14Threshold)
	hists := c14Histories(maxLen, thorough)
	short := c14Histories(maxLen-1, thorough) // the long scripts (20 attempts per event) run on the shorter histories
	r.Bound("histories", len(hists))
	r.Bound("histories_for_long_scripts", len(short))
	type variant struct {
		h            []c14Op
		set          string
		b            c14Behaviour
		drain, order string
		long         bool
	}
	var variants []variant
	for _, set := range []string{"product", "generic"} {
		for _, long := range []bool{false, true} {
			hs := hists
			if long {
				hs = short
			}
			for _, h := range hs {
				for _, b := range c14Behaviours(set, thorough, long) {
					for _, od := range []string{"each/asc", "end/asc", "each/desc", "end/desc"} {
						drain, order := strings.Split(od, "/")[0], strings.Split(od, "/")[1]
						if (b.faulty == "" || b.script == "fatal") && drain == "end" {
							continue // no retry loops before the crash: both policies are the same run
						}
						if order == "desc" && !thorough && !(b.faulty == "" || b.script == "fail1") {
							continue
						}
						if c14HasSame(h) && !thorough && !(b.faulty == "" || (b.script == "fail1" && od == "each/asc")) {
							continue // equal-payload histories: the all-ok runs in both orders and one failing script per subscriber
						}
						variants = append(variants, variant{h, set, b, drain, order, long})
					}
				}
			}
		}
	}
	r.Bound("scenarios", len(variants))
	var runs, fired int64
	sampled := 0
	shard, nsh := r.Shard()
	var skipped, seeded, errRuns, errValueRuns int64
	// try runs one case; machinery trouble (a run that does not settle, a store that does not close, …) is retried on a
	// fresh store and, if it persists, makes the case a skipped one: not exhaustive, never a failure of the check
	try := func(sc c14Scenario, txs []Transaction, pays [][]byte, names map[hash.SHA256Hash]string) *c14Result {
		var last error
		for attempt := 0; attempt < 3; attempt++ {
			res, err := c14Execute(t, sim, sc, txs, pays, names)
			if err == nil {
				return res
			}
			last = err
			if r.Expired() {
				break
			}
		}
		r.NotExhaustive("some cases could not be run to quiescence (skipped after 3 attempts)")
		r.Observation("case-skipped", map[string]any{"case": sc, "reason": last.Error()})
		skipped++
		return nil
	}
	// storage faults that hit one subscriber's bookkeeping inside the admission transaction (zz_verif_c14_adm_test.go);
	// a small section, run first so that the wall budget of the long enumeration below never cuts it off
	{
		adm := c14AdmissionFaults(r, thorough, try, &runs, &skipped)
		r.AddExtra("admission_fault_variants", adm.variants)
		r.AddExtra("admission_fault_runs", adm.errRuns)
		r.AddExtra("admission_faults_on_a_subscribers_own_shelf", adm.onJobs)
		r.AddExtra("admission_faults_on_the_shelf_of_a_subscriber_not_visited_last", adm.onJobsNotLast)
		r.AddExtra("corrupt_stored_entry_runs", adm.corrupt)
		r.AddExtra("save_refused_for_one_subscriber_runs", adm.foreign)
		r.AddExtra("late_subscriber_runs", adm.late)
		r.AddExtra("admission_answers_disagreeing_with_store", adm.inconsistent)
	}
	onlyAdm := os.Getenv("C14_ONLY") == "adm" // development aid: run only the admission-fault section
	if onlyAdm {
		variants = nil
	}
	for vi, v := range variants {
		// scenarios with long scripts have hundreds of stop points: every worker makes their dry run and the stop points
		// are dealt round-robin; all other scenarios belong to one worker each
		owner := r.Mine(vi)
		if !owner && !v.long {
			continue
		}
		mine := func(k int) bool { return owner && !v.long || v.long && (vi+k)%nsh == shard }
		if r.Expired() {
			break
		}
		txs, pays, names := c14MakeTxs(v.h)
		sc := c14Scenario{Ops: v.h, Set: v.set, Faulty: v.b.faulty, Script: v.b.script, Drain: v.drain, Order: v.order}
		dry := try(sc, txs, pays, names)
		if dry == nil {
			continue
		}
		if owner {
			runs++
			r.Eval("")
			r.Outcome("no-stop")
		}
		c14Report(r, sc, dry)
		if dry.PostMortem > 0 {
			r.Observation("receiver-called-by-abandoned-instance", sc)
		}
		labels := c14Labels(dry)
		if sampled < 2 && v.b.faulty != "" && owner {
			sampled++
			r.Sample(map[string]any{"scenario": sc, "write_steps": labels, "receiver_calls": len(dry.Calls)})
		}
		// runCase makes one crashed run and accepts it only if the stop fired and the run saw the same steps as the dry
		// run up to the stop; otherwise the dry run and the case are redone, and a case that stays irreproducible is
		// skipped (not exhaustive + assumption check), never reported as anything else
		runCase := func(sck c14Scenario) *c14Result {
			for attempt := 0; attempt < 3; attempt++ {
				res := try(sck, txs, pays, names)
				if res == nil {
					return nil
				}
				if res.Stopped && c14SamePrefix(c14Labels(res), labels) {
					return res
				}
				if d2 := try(sc, txs, pays, names); d2 != nil {
					dry, labels = d2, c14Labels(d2)
				}
			}
			r.NotExhaustive("the step numbering of some cases was not reproducible (cases skipped after 3 attempts)")
			r.AssumptionCheck("deterministic step numbering before the crash", false, "first case: "+sck.key()+" stop="+strconv.Itoa(sck.StopAt)+" stopcall="+strconv.Itoa(sck.StopCall))
			skipped++
			return nil
		}
		nSteps := len(labels)
		nCalls := 0
		for _, c := range dry.Calls {
			if c.Life == 0 {
				nCalls++
			}
		}
		for k := 1; k <= nSteps+nCalls; k++ {
			if !mine(k) {
				continue
			}
			if r.Expired() {
				break
			}
			sck := sc
			tag := strconv.Itoa(k)
			if k <= nSteps {
				sck.StopAt = k
			} else {
				sck.StopCall = k - nSteps
				tag = "call" + strconv.Itoa(k-nSteps)
			}
			res := runCase(sck)
			if res == nil {
				continue
			}
			runs++
			fired++
			r.Eval(sck.key() + "|" + tag)
			r.Outcome(c14StopClass(res, sck))
			c14Report(r, sck, res)
		}
	}
	// restarts from seeded jobs: the persisted number of tries at the moment of the stop is a dimension of its own
	if !onlyAdm {
		tries := map[int]bool{}
		for _, n := range []int{0, 1, c14Threshold - 1, c14Threshold, c14Threshold + 1, c14Budget - 1, c14Budget} {
			if n >= 0 {
				tries[n] = true
			}
		}
		if thorough {
			for n := 0; n <= c14Budget+1; n++ {
				tries[n] = true
			}
		}
		var ns []int
		for n := range tries {
			ns = append(ns, n)
		}
		sort.Ints(ns)
		r.Bound("seeded_persisted_tries", ns)
		opsets := [][]c14Op{{{Kind: "pub", Ref: 0}, {Kind: "priv", Ref: 1}}}
		if thorough {
			opsets = append(opsets, []c14Op{{Kind: "pub", Ref: 0}, {Kind: "priv", Ref: 1}, {Kind: "wp", Ref: 1}, {Kind: "pub", Ref: 3, Same: 1}})
		}
		si := 0
		for _, ops := range opsets {
			txs, pays, names := c14MakeTxs(ops)
			for _, set := range []string{"product", "generic"} {
				for _, sp := range c14Subs(set) {
					if sp.name == "all" {
						continue // one shelf key for two events (row 10): seeding both is not possible
					}
					for _, n := range ns {
						for _, script := range []string{"ok", "fail1", "failforever", "fatal"} {
							si++
							if !r.Mine(si) || r.Expired() {
								continue
							}
							sc := c14Scenario{Ops: ops, Set: set, Only: sp.name, Faulty: sp.name, Script: script, Drain: "each", Order: "asc", Seeded: true, SeedRetries: n}
							res := try(sc, txs, pays, names)
							if res == nil {
								continue
							}
							runs++
							seeded++
							r.Eval(sc.key())
							r.Outcome(c14StopClass(res, sc))
							c14Report(r, sc, res)
						}
					}
				}
			}
		}
	}
	// the error value returned by the subscriber: every kind at attempt 1, 2, 3, healthy afterwards, with every stop point
	if !onlyAdm {
		vi := 0
		for _, pick := range []struct {
			set, sub string
			ops      []c14Op
		}{{"product", "nats", []c14Op{{Kind: "pub", Ref: 0}}}, {"product", "private", []c14Op{{Kind: "priv", Ref: 0}}}, {"generic", "txs", []c14Op{{Kind: "pub", Ref: 0}}}} {
			txs, pays, names := c14MakeTxs(pick.ops)
			for _, kind := range c14ErrKinds {
				for at := 1; at <= 3; at++ {
					vi++
					if !r.Mine(vi) || r.Expired() {
						continue
					}
					sc := c14Scenario{Ops: pick.ops, Set: pick.set, Faulty: pick.sub, Script: "err:" + kind + "@" + strconv.Itoa(at), Drain: "each", Order: "asc"}
					dry := try(sc, txs, pays, names)
					if dry == nil {
						continue
					}
					runs++
					errValueRuns++
					r.Eval(sc.key())
					r.Outcome("subscriber-error-value")
					c14Report(r, sc, dry)
					labels := c14Labels(dry)
					nCalls := 0
					for _, c := range dry.Calls {
						if c.Life == 0 {
							nCalls++
						}
					}
					for k := 1; k <= len(labels)+nCalls; k++ {
						sck := sc
						if k <= len(labels) {
							sck.StopAt = k
						} else {
							sck.StopCall = k - len(labels)
						}
						var res *c14Result
						for attempt := 0; attempt < 3 && res == nil; attempt++ {
							x := try(sck, txs, pays, names)
							if x == nil {
								break
							}
							if x.Stopped && c14SamePrefix(c14Labels(x), labels) {
								res = x
							}
						}
						if res == nil {
							r.NotExhaustive("some subscriber-error cases were not reproducible (skipped)")
							skipped++
							continue
						}
						runs++
						errValueRuns++
						r.Eval(sck.key() + "|" + strconv.Itoa(k))
						r.Outcome(c14StopClass(res, sck))
						c14Report(r, sck, res)
					}
				}
			}
		}
	}
	// storage errors in the delivery bookkeeping, one per run: every read of a job shelf and every step of every job-shelf
	// transaction (write-back of the retry count, completion delete), in the first delivery and in retry attempts
	if !onlyAdm {
		ehists := [][]c14Op{{{Kind: "pub", Ref: 0}}, {{Kind: "priv", Ref: 0}, {Kind: "wp", Ref: 0}}, {{Kind: "pub", Ref: 0}, {Kind: "pub", Ref: 1}}}
		ei := 0
		for _, ops := range ehists {
			txs, pays, names := c14MakeTxs(ops)
			for _, set := range []string{"product", "generic"} {
				behs := []c14Behaviour{{"", "ok"}}
				for _, sp := range c14Subs(set) {
					for _, sc := range []string{"fail1", "incomplete1", "fail2"} {
						behs = append(behs, c14Behaviour{sp.name, sc})
					}
				}
				for _, b := range behs {
					ei++
					if !r.Mine(ei) || r.Expired() {
						continue
					}
					sc := c14Scenario{Ops: ops, Set: set, Faulty: b.faulty, Script: b.script, Drain: "each", Order: "asc", Reads: true}
					dry := try(sc, txs, pays, names)
					if dry == nil {
						continue
					}
					runs++
					r.Eval("")
					c14Report(r, sc, dry)
					labels := c14Labels(dry)
					jobTx := map[int]string{} // job-shelf transactions of the dry run: tx -> write-back | completion-marking
					for _, st := range dry.Trace {
						if st.Kind == fault.Begin && strings.HasSuffix(st.Shelf, "_jobs") {
							jobTx[st.Tx] = "write-back"
						}
						if st.Kind == fault.Delete && jobTx[st.Tx] != "" {
							jobTx[st.Tx] = "completion-marking"
						}
					}
					for _, st := range dry.Trace {
						what := ""
						switch {
						case st.Kind == fault.ReadOp && strings.HasSuffix(st.Shelf, "_jobs"):
							what = "read"
						case st.Kind != fault.ReadOp && jobTx[st.Tx] != "":
							what = jobTx[st.Tx] + "-" + st.Kind
						}
						if what == "" || !fault.Applicable(st.Kind, fault.Error) {
							continue
						}
						where := "first-delivery"
						if st.N-1 < len(dry.StepLoops) && dry.StepLoops[st.N-1] >= 0 {
							where = "retry-attempt"
						}
						sce := sc
						sce.ErrAt, sce.ErrClass = st.N, where+"|"+what
						var res *c14Result
						for attempt := 0; attempt < 3 && res == nil; attempt++ {
							x := try(sce, txs, pays, names)
							if x == nil {
								break
							}
							if l := c14Labels(x); x.ErrFired && len(l) >= st.N && c14SamePrefix(l[:st.N], labels) {
								res = x
							}
						}
						if res == nil {
							r.NotExhaustive("some storage-error cases were not reproducible (skipped)")
							skipped++
							continue
						}
						runs++
						errRuns++
						r.Eval(sce.key() + "|err" + strconv.Itoa(st.N))
						r.Outcome(c14StopClass(res, sce))
						c14Report(r, sce, res)
					}
				}
			}
		}
	}
	r.AddExtra("cases_skipped", skipped)
	r.AddExtra("restarts_from_seeded_jobs", seeded)
	r.AddExtra("storage_error_runs", errRuns)
	r.AddExtra("subscriber_error_value_runs", errValueRuns)
	if os.Getenv("C14_TIMING") != "" {
		fmt.Println("TIMING open0, life0, close0, open1, run1, close1:", c14T[:6])
	}
	r.AddExtra("runs", runs)
	r.AddExtra("stops_fired", fired)
}

func c14HasSame(h []c14Op) bool {
	for _, o := range h {
		if o.Same > 0 {
			return true
		}
	}
	return false
}

// c14Calibrate reads the retry budget and the failed-threshold from the product's own behaviour.
func c14Calibrate(t testing.TB, sim *c14Sim) {
	ops := []c14Op{{Kind: "pub", Ref: 0}}
	txs, pays, names := c14MakeTxs(ops)
	sc := c14Scenario{Ops: ops, Set: "product", Faulty: "nats", Script: "failforever", Drain: "each", Order: "asc"}
	for attempt := 0; attempt < 3; attempt++ {
		if res, err := c14Execute(t, sim, sc, txs, pays, names); err == nil {
			if b := res.Pending1["nats"]["t0"]; b > 0 {
				c14Budget = b
			}
			break
		}
	}
	for n := 0; n <= c14Budget+1; n++ {
		seed := c14Scenario{Ops: ops, Set: "product", Only: "nats", Script: "ok", Drain: "each", Order: "asc", Seeded: true, SeedRetries: n}
		res, err := c14Execute(t, sim, seed, txs, pays, names)
		if err != nil {
			return // keep the fall-back
		}
		if res.Failed1["nats"]["t0"] {
			c14Threshold = n
			return
		}
	}
}

func c14Labels(res *c14Result) []string {
	out := make([]string, len(res.Trace))
	for i, s := range res.Trace {
		out[i] = s.Label()
	}
	return out
}

// c14SamePrefix: the shorter sequence is a prefix of the longer one.
func c14SamePrefix(a, b []string) bool {
	for i := 0; i < len(a) && i < len(b); i++ {
		if a[i] != b[i] {
			return false
		}
	}
	return true
}

func c14Report(r *ev.Run, sc c14Scenario, res *c14Result) {
	fs := c14Judge(sc, res)
	sort.Slice(fs, func(a, b int) bool { return fs[a].clause+fs[a].sub < fs[b].clause+fs[b].sub })
	for _, f := range fs {
		script := "ok"
		if f.sub == sc.Faulty {
			script = sc.Script
		}
		var sig string
		if f.clause == "unfiltered-never-delivered" {
			// row 10 of DESIGN §4: both event types of one transaction share the shelf key of an unfiltered subscriber
			typ := "transaction"
			if strings.HasPrefix(f.detail, PayloadEventType) {
				typ = "payload"
			}
			sig = "C14|unfiltered-subscriber|never-delivered|" + typ
		} else {
			sig = "C14|" + f.clause + "|" + f.sub + "|" + script + "|" + c14StopClass(res, sc)
			if c14HasSame(sc.Ops) {
				sig += "|equal-payload-bytes"
			}
			if kind, at, ok := c14ErrScript(sc.Script); ok && f.sub == sc.Faulty {
				// the error value is the class; a routine that ends with budget left, no completion and no fatal report is what the
				// statement forbids, whichever lifetime it is seen in
				clause := f.clause
				if clause == "stuck-in-process" {
					clause = "retries-stopped-with-budget-left"
				}
				sig = "C14|subscriber-error:" + kind + "|" + clause + "|attempt-" + strconv.Itoa(at) + "|" + c14StopClass(res, sc)
			}
			if sc.ErrAt > 0 {
				// one storage error (deviation bound 1): the class of the failing step replaces subscriber and stop class
				sig = "C14|" + f.clause + "|after-storage-error|" + sc.ErrClass + "|" + script
				if sc.ErrSub != "" {
					// the failing step touched the job shelf of one subscriber: whose, relative to the subscriber that lost out
					whose := "another-subscribers-jobs-shelf"
					if sc.ErrSub == f.sub {
						whose = "own-jobs-shelf"
					}
					sig = "C14|" + f.clause + "|after-storage-error|" + strings.Replace(sc.ErrClass, "jobs-shelf", whose, 1) + "|" + script
				}
			}
			if sc.Corrupt != "" {
				whose := "another-subscribers-jobs-shelf"
				if strings.HasPrefix(sc.Corrupt, f.sub+"@") {
					whose = "own-jobs-shelf"
				}
				at, _ := strconv.Atoi(sc.Corrupt[strings.LastIndex(sc.Corrupt, "@")+1:])
				_, kind := c14Target(sc.Ops, at)
				sig = "C14|" + f.clause + "|corrupt-stored-entry|admission:" + c14OpName(kind) + "|" + whose + "|" + script
			}
			if sc.Foreign != "" {
				whose := "another-subscriber"
				if sc.Foreign == f.sub {
					whose = "this-subscriber"
				}
				sig = "C14|" + f.clause + "|save-refused-for-one-subscriber|" + whose + "|" + script
			}
			if sc.Late != "" {
				sig = "C14|" + f.clause + "|with-late-subscriber|" + script + "|" + c14StopClass(res, sc)
			}
			if strings.HasPrefix(f.clause, "retried-after-fatal") {
				sig = "C14|" + f.clause // one defect, one signature: the place of the stop does not matter
			}
		}
		r.Violation(sig, f.detail+" ["+sc.key()+" stop="+strconv.Itoa(sc.StopAt)+" stopcall="+strconv.Itoa(sc.StopCall)+"]", sc)
	}
}
