//go:build verif

// C14 (start-up seam) — "…even if the node stops at any point after admission": after the stop the PRODUCT's own start-up
// path must resume the persisted subscriber queues. The other part of this check restarts through dag.NewState +
// re-registration + notifier.Run; here the second life is the REAL Network engine: NewNetworkInstance → Configure (which
// derives assumeNewNode from the DID store, resolves the node DID, builds the real v2 protocol and the real gRPC connection
// manager, registers the product's own "nats" subscriber) → Subscribe(WithPersistency) → Start, on the bbolt file that the
// first life left behind. First life: real dag.State + persistent notifiers on fault.KV, stopped (a) between the commit
// of an admission and its notification, (b) while failed deliveries are scheduled for a retry.
// Oracle: every job that is stored for a REGISTERED persistent subscriber when the node starts has, once the started node
// is quiescent, been attempted: it is gone (completed) or its persisted number of tries has grown; subscribers of the
// harness must have been called.
package network

import (
	"context"
	"errors"
	"fmt"
	"io"
	"os"
	"path/filepath"
	"runtime"
	"sort"
	"strings"
	"sync"
	"testing"
	"time"

	"github.com/avast/retry-go/v4"
	"github.com/nats-io/nats.go"
	ssi "github.com/nuts-foundation/go-did"
	"github.com/nuts-foundation/go-did/did"
	"github.com/nuts-foundation/go-stoabs"
	"github.com/nuts-foundation/go-stoabs/bbolt"
	"github.com/nuts-foundation/nuts-node/core"
	nutsCrypto "github.com/nuts-foundation/nuts-node/crypto"
	"github.com/nuts-foundation/nuts-node/crypto/hash"
	"github.com/nuts-foundation/nuts-node/events"
	"github.com/nuts-foundation/nuts-node/network/dag"
	"github.com/nuts-foundation/nuts-node/network/transport"
	"github.com/nuts-foundation/nuts-node/storage"
	"github.com/nuts-foundation/nuts-node/storage/orm"
	"github.com/nuts-foundation/nuts-node/vdr/didnuts/didstore"
	"github.com/nuts-foundation/nuts-node/vdr/resolver"
	"github.com/sirupsen/logrus"

	"verif/ev"
	"verif/fault"
)

// ---------------------------------------------------------------------------------------------- stubs of the environment

// vc14Docs is the DID store: what it holds decides whether Configure assumes a new node.
type vc14Docs struct{ docs []did.Document }

func (s vc14Docs) Add(did.Document, didstore.Transaction) error { return nil }
func (s vc14Docs) Conflicted(resolver.DocIterator) error        { return nil }
func (s vc14Docs) ConflictedCount() (uint, error)               { return 0, nil }
func (s vc14Docs) DocumentCount() (uint, error)                 { return uint(len(s.docs)), nil }
func (s vc14Docs) Iterate(fn resolver.DocIterator) error {
	for _, d := range s.docs {
		if err := fn(d, resolver.DocumentMetadata{Created: time.Unix(1, 0)}); err != nil {
			return err
		}
	}
	return nil
}
func (s vc14Docs) Resolve(id did.DID, _ *resolver.ResolveMetadata) (*did.Document, *resolver.DocumentMetadata, error) {
	for _, d := range s.docs {
		if d.ID.Equals(id) {
			d := d
			return &d, &resolver.DocumentMetadata{Created: time.Unix(1, 0)}, nil
		}
	}
	return nil, nil, resolver.ErrNotFound
}
func (s vc14Docs) HistorySinceVersion(did.DID, int) ([]orm.MigrationDocument, error) { return nil, nil }

// vc14Events: the NATS side is down; every attempt of the product's own "nats" subscriber fails and is counted.
type vc14Events struct {
	mu       sync.Mutex
	acquires int
}

func (e *vc14Events) GetStream(string) events.Stream { return nil }
func (e *vc14Events) Pool() events.ConnectionPool    { return e }
func (e *vc14Events) Acquire(context.Context) (events.Conn, nats.JetStreamContext, error) {
	e.mu.Lock()
	e.acquires++
	e.mu.Unlock()
	return nil, nil, errors.New("verif: no NATS server")
}
func (e *vc14Events) Shutdown() {}

// ---------------------------------------------------------------------------------------------- retry loops

const vc14SpawnMark = "created by github.com/nuts-foundation/nuts-node/network/dag.(*notifier).retry"

// vc14Gate: in the first life retry loops park before their first attempt (the stop happens while they are scheduled);
// in the second life nothing blocks and delays are zero.
type vc14Gate struct {
	mu     sync.Mutex
	block  bool
	parked []chan struct{}
	live   int
	buf    []byte
}

func (g *vc14Gate) enter() any {
	g.mu.Lock()
	g.live++
	if !g.block {
		g.mu.Unlock()
		return nil
	}
	ch := make(chan struct{})
	g.parked = append(g.parked, ch)
	g.mu.Unlock()
	<-ch
	return nil
}
func (g *vc14Gate) exit(any) { g.mu.Lock(); g.live--; g.mu.Unlock() }
func (g *vc14Gate) after(any, time.Duration) <-chan time.Time {
	ch := make(chan time.Time, 1)
	ch <- time.Time{}
	return ch
}
func (g *vc14Gate) releaseAll() {
	g.mu.Lock()
	ps := g.parked
	g.parked, g.block = nil, false
	g.mu.Unlock()
	for _, ch := range ps {
		close(ch)
	}
}
func (g *vc14Gate) census() int {
	for {
		n := runtime.Stack(g.buf, true)
		if n < len(g.buf) {
			return strings.Count(string(g.buf[:n]), vc14SpawnMark)
		}
		g.buf = make([]byte, 2*len(g.buf))
	}
}

// await needs only CPU for other goroutines to come true; the cap bounds how long a case may hang before it is given up.
func (g *vc14Gate) await(cond func(loops, live, parked int) bool) error {
	start := time.Now()
	pause := 50 * time.Microsecond
	for {
		n := g.census()
		g.mu.Lock()
		live, parked := g.live, len(g.parked)
		g.mu.Unlock()
		if cond(n, live, parked) {
			return nil
		}
		time.Sleep(pause)
		if pause < 5*time.Millisecond {
			pause *= 2
		}
		if time.Since(start) > 45*time.Second {
			return fmt.Errorf("did not settle: %d loop goroutines, %d in retry.Do, %d parked", n, live, parked)
		}
	}
}

// ---------------------------------------------------------------------------------------------- cases

type vc14Case struct {
	Crash     string `json:"crash"`      // commit-notify-pub | commit-notify-priv | during-retries
	KnownNode bool   `json:"known_node"` // the DID store holds a document with a NutsComm service (Configure then does not assume a new node)
	NodeDID   bool   `json:"node_did"`
	Bootstrap bool   `json:"bootstrap"`
	// storage error at start-up: the FaultN-th store operation (read of the shelf, or begin of a write on it) on the job shelf
	// of subscriber FaultSub fails once while the node starts ("" = none)
	FaultSub string `json:"fault_sub,omitempty"`
	FaultN   int    `json:"fault_n,omitempty"`
}

func (c vc14Case) situation() string {
	s := "assumed-new-node"
	if c.KnownNode {
		s = "known-node"
	}
	if c.NodeDID {
		s += ",node-did"
	}
	if c.Bootstrap {
		s += ",bootstrap-nodes"
	}
	return s
}

type vc14Sub struct {
	name    string
	filter  func(dag.Event) bool
	harness bool // registered by the harness in the second life (the others by the product itself)
}

const vc14PubType, vc14PrivType = "application/did+json", "application/vc+json"

var vc14Subs = []vc14Sub{
	{name: "nats", filter: func(e dag.Event) bool { return e.Type == dag.PayloadEventType }},
	{name: "private", filter: func(e dag.Event) bool { return e.Type == dag.TransactionEventType && e.Transaction.PAL() != nil }},
	{name: "hpay", filter: func(e dag.Event) bool {
		return e.Type == dag.PayloadEventType && e.Transaction.PayloadType() == vc14PubType
	}, harness: true},
	{name: "htx", filter: func(e dag.Event) bool { return e.Type == dag.TransactionEventType }, harness: true},
}

func vc14Jobs(store stoabs.KVStore, names map[hash.SHA256Hash]string) map[string]map[string]int {
	out := map[string]map[string]int{}
	for _, sp := range vc14Subs {
		m := map[string]int{}
		_ = store.ReadShelf(context.Background(), "_"+sp.name+"_jobs", func(r stoabs.Reader) error {
			return r.Iterate(func(k stoabs.Key, v []byte) error {
				var e dag.Event
				if err := e.UnmarshalJSON(v); err != nil {
					return nil
				}
				m[names[hash.FromSlice(k.Bytes())]] = e.Retries
				return nil
			}, stoabs.BytesKey{})
		})
		out[sp.name] = m
	}
	return out
}

type vc14Outcome struct {
	before, after map[string]map[string]int
	calls         map[string]int // second life: harness subscriber|tx -> calls
	natsAttempts  int
	startErr      string
	faultFired    bool
	// a start that was refused because of the storage error is followed by a clean start on the same file
	refusedErr string
}

// vc14Run performs one case. A non-nil error is machinery trouble (never a verdict).
func vc14Run(t *testing.T, gate *vc14Gate, dir string, seq int, c vc14Case) (*vc14Outcome, error) {
	ctx := context.Background()
	path := filepath.Join(dir, fmt.Sprintf("n%d", seq), "data.db")
	at := time.Date(2024, 1, 1, 0, 0, 0, 0, time.UTC)
	t0 := dag.CreateSignedTestTransaction(1, at, nil, vc14PubType, true)
	var t1 dag.Transaction
	var pay1 []byte
	if c.Crash == "commit-notify-priv" {
		t1 = dag.CreateSignedTestTransaction(2, at, [][]byte{{1, 2, 3}}, vc14PrivType, true, t0)
	} else {
		t1 = dag.CreateSignedTestTransaction(2, at, nil, vc14PubType, true, t0)
		pay1 = []byte{0, 0, 0, 2}
	}
	names := map[hash.SHA256Hash]string{t0.Ref(): "t0", t1.Ref(): "t1"}

	// ---- first life: dag.State + notifiers on fault.KV
	gate.mu.Lock()
	gate.block, gate.parked, gate.live = true, nil, 0
	gate.mu.Unlock()
	orphans := gate.census()
	inner, err := bbolt.CreateBBoltStore(path, stoabs.WithNoSync(), stoabs.WithLockAcquireTimeout(10*time.Minute))
	if err != nil {
		return nil, err
	}
	kv := fault.Wrap(inner)
	st, err := dag.NewState(kv, dag.NewPrevTransactionsVerifier(), dag.NewTransactionSignatureVerifier(nil))
	if err != nil {
		return nil, err
	}
	if err := st.Configure(core.ServerConfig{}); err != nil {
		return nil, err
	}
	failT1 := c.Crash == "during-retries"
	var notifs []dag.Notifier
	for _, sp := range vc14Subs {
		n, err := st.Notifier(sp.name, func(e dag.Event) (bool, error) {
			if kv.Dead() {
				return false, errors.New("verif: process stopped")
			}
			if failT1 && names[e.Hash] == "t1" {
				return false, errors.New("subscriber says: try again")
			}
			return true, nil
		}, dag.WithPersistency(kv), dag.WithSelectionFilter(sp.filter))
		if err != nil {
			return nil, err
		}
		notifs = append(notifs, n)
	}
	if err := st.Add(ctx, t0, []byte{0, 0, 0, 1}); err != nil {
		return nil, fmt.Errorf("first life: add t0: %w", err)
	}
	if failT1 {
		// the deliveries of t1 fail; their retry loops park before the first attempt; then the process stops
		if err := st.Add(ctx, t1, pay1); err != nil {
			return nil, fmt.Errorf("first life: add t1: %w", err)
		}
		if err := gate.await(func(loops, live, parked int) bool { return loops-orphans == parked && live == parked && parked > 0 }); err != nil {
			return nil, err
		}
		kv.Kill()
	} else {
		// stop immediately before the first AfterCommit callback of the admission of t1
		// the step number comes from a dry run of the same admission on a twin of the store
		dryPath := path + ".dry"
		if err := vc14Copy(path, dryPath, inner); err != nil {
			return nil, err
		}
		stopAt, err := vc14FirstAfterCommit(dryPath, t1, pay1)
		if err != nil {
			return nil, err
		}
		kv.Arm(fault.Plan{Mode: fault.Stop, At: stopAt})
		stopped := fault.Run(func() { _ = st.Add(ctx, t1, pay1) })
		if stopped == nil || !kv.Dead() {
			return nil, errors.New("first life: the planned stop did not fire")
		}
	}
	for _, n := range notifs {
		_ = n.Close()
	}
	gate.releaseAll()
	if err := gate.await(func(loops, live, parked int) bool { return loops-orphans <= 0 && live <= 0 }); err != nil {
		return nil, err
	}
	_ = st.Shutdown()
	cctx, cancel := context.WithTimeout(ctx, time.Minute)
	err = inner.Close(cctx)
	cancel()
	if err != nil {
		return nil, fmt.Errorf("first life: close: %w", err)
	}

	// ---- second life: the real Network engine on the same file
	store2, err := bbolt.CreateBBoltStore(path, stoabs.WithNoSync(), stoabs.WithLockAcquireTimeout(10*time.Minute))
	if err != nil {
		return nil, err
	}
	defer func() {
		cctx, cancel := context.WithTimeout(ctx, time.Minute)
		_ = store2.Close(cctx)
		cancel()
	}()
	out := &vc14Outcome{calls: map[string]int{}}
	var mu sync.Mutex
	evs := &vc14Events{}
	// startNode is one life of the real Network engine on the file; faulty = with the planned storage error
	startNode := func(faulty bool) (startErr string, before map[string]map[string]int, failure error) {
	var nodeStore stoabs.KVStore = store2
	var kv2 *fault.KV
	if faulty {
		kv2 = fault.Wrap(store2)
		kv2.NumberReads(true)
		nodeStore = kv2
	}
	cfg := DefaultConfig()
	cfg.GrpcAddr = "" // outbound only
	cfg.EnableDiscovery = false
	cfg.ConnectionTimeout = 200
	cfg.ProtocolV2.GossipInterval = 3600 * 1000
	if c.NodeDID {
		cfg.NodeDID = "did:nuts:VerifLocalNode"
	}
	if c.Bootstrap {
		cfg.BootstrapNodes = []string{"127.0.0.1:1"}
	}
	docs := vc14Docs{}
	if c.KnownNode {
		other := did.MustParseDID("did:nuts:SomeOtherVendor")
		docs.docs = []did.Document{{ID: other, Service: []did.Service{{ID: ssi.MustParseURI(other.String() + "#nc"), Type: transport.NutsCommServiceType, ServiceEndpoint: "grpc://other.example:5555"}}}}
	}
	n := NewNetworkInstance(cfg, docs, nutsCrypto.NewMemoryCryptoInstance(t), evs, &storage.StaticKVStoreProvider{Store: nodeStore}, nil)
	if err := n.Configure(core.ServerConfig{DIDMethods: []string{"nuts"}, Datadir: filepath.Dir(path)}); err != nil {
		return "", nil, fmt.Errorf("second life: Configure: %w", err)
	}
	defer func() { _ = n.Shutdown() }()
	if n.assumeNewNode == c.KnownNode {
		return "", nil, fmt.Errorf("harness: Configure derived assumeNewNode=%v for known_node=%v", n.assumeNewNode, c.KnownNode)
	}
	for _, sp := range vc14Subs {
		if !sp.harness {
			continue
		}
		sp := sp
		err := n.Subscribe(sp.name, func(e dag.Event) (bool, error) {
			mu.Lock()
			out.calls[sp.name+"|"+names[e.Hash]]++
			mu.Unlock()
			return true, nil
		}, n.WithPersistency(), WithSelectionFilter(sp.filter))
		if err != nil {
			return "", nil, fmt.Errorf("second life: Subscribe: %w", err)
		}
	}
	before = vc14Jobs(store2, names)
	if faulty {
		shelf, seen := "_"+c.FaultSub+"_jobs", 0
		kv2.ArmWhen(fault.Error, func(s fault.Step) bool {
			if s.Shelf != shelf || (s.Kind != fault.ReadOp && s.Kind != fault.Begin) {
				return false
			}
			seen++
			return seen == c.FaultN
		})
	}
	if err := n.Start(); err != nil {
		startErr = err.Error()
	}
	if err := gate.await(func(loops, live, parked int) bool { return loops-orphans <= 0 && live <= 0 }); err != nil {
		return "", nil, err
	}
	if faulty {
		out.faultFired, _ = kv2.Fired()
	}
	return startErr, before, nil
	}
	startErr, before, failure := startNode(c.FaultSub != "")
	if failure != nil {
		return nil, failure
	}
	out.startErr, out.before = startErr, before
	if c.FaultSub != "" && startErr != "" {
		// the node refused to start: the operator starts it again (no storage error this time)
		// (the jobs stored before the REFUSED start are what must have been attempted in the end; calls of both starts count)
		out.refusedErr = startErr
		if out.startErr, _, failure = startNode(false); failure != nil {
			return nil, failure
		}
	}
	out.after = vc14Jobs(store2, names)
	evs.mu.Lock()
	out.natsAttempts = evs.acquires
	evs.mu.Unlock()
	return out, nil
}

func vc14Copy(from, to string, _ stoabs.KVStore) error {
	b, err := os.ReadFile(from)
	if err != nil {
		return err
	}
	return os.WriteFile(to, b, 0o600)
}

// vc14FirstAfterCommit learns, on a twin of the store, the number of the first AfterCommit step of the admission.
func vc14FirstAfterCommit(twin string, tx dag.Transaction, payload []byte) (int, error) {
	ctx := context.Background()
	inner, err := bbolt.CreateBBoltStore(twin, stoabs.WithNoSync(), stoabs.WithLockAcquireTimeout(10*time.Minute))
	if err != nil {
		return 0, err
	}
	defer func() {
		cctx, cancel := context.WithTimeout(ctx, time.Minute)
		_ = inner.Close(cctx)
		cancel()
		_ = os.Remove(twin)
	}()
	kv := fault.Wrap(inner)
	st, err := dag.NewState(kv, dag.NewPrevTransactionsVerifier(), dag.NewTransactionSignatureVerifier(nil))
	if err != nil {
		return 0, err
	}
	defer st.Shutdown()
	if err := st.Configure(core.ServerConfig{}); err != nil {
		return 0, err
	}
	for _, sp := range vc14Subs {
		if _, err := st.Notifier(sp.name, func(dag.Event) (bool, error) { return true, nil }, dag.WithPersistency(kv), dag.WithSelectionFilter(sp.filter)); err != nil {
			return 0, err
		}
	}
	kv.Arm(fault.Plan{})
	if err := st.Add(ctx, tx, payload); err != nil {
		return 0, err
	}
	for _, s := range kv.Trace() {
		if s.Kind == fault.AfterCommit {
			return s.N, nil
		}
	}
	return 0, errors.New("no AfterCommit step in the admission")
}

func TestVerifC14Start(t *testing.T) {
	logrus.SetOutput(io.Discard)
	logrus.SetLevel(logrus.PanicLevel)
	r := ev.Start(t, "C14")
	defer r.Finish()
	r.Rule("start-up seam: first life = real dag.State + persistent subscribers {nats, private, payload-of-one-type, transaction-type} on fault.KV, " +
		"stopped {between the commit of a public / a private admission and its notification; while the failed deliveries of an admission are scheduled " +
		"for a retry}; second life = the real Network engine (NewNetworkInstance, Configure, Subscribe(WithPersistency), Start) on the same file x node " +
		"situation {DID store with / without a NutsComm document (Configure derives assumeNewNode), node DID set / unset, bootstrap nodes some / none}; " +
		"every job stored for a registered persistent subscriber at start must have been attempted once the started node is quiescent; a case is one " +
		"(crash, situation) pair. Plus a storage error at start-up: x every subscriber x the 1st, 2nd, 3rd store operation on that subscriber's job " +
		"shelf (the listing of Run, the read of the first event, the first write) fails once while Network.Start runs (fault.KV around the node's " +
		"store, step chosen by shelf name); if Start returns nil every OTHER subscriber's stored job must have been attempted; if Start refuses, the " +
		"node is started again without a fault and then every job stored before the refused start must have been attempted")
	r.Assume("NATS is down (the product's nats subscriber fails and is counted), no peer is reachable, TLS off; retry delays are zero (overlaid retry-go)")
	var rc vc14Case
	replay := r.ReplayCase(&rc)
	if !replay && os.Getenv("VERIF_REPLAY") != "" {
		t.Skip("replay case belongs to another part")
	}
	if replay && rc.Crash == "" {
		t.Skip("replay case belongs to another part")
	}
	gate := &vc14Gate{buf: make([]byte, 1<<20)}
	retry.VerifHook = &retry.VerifHooks{Enter: gate.enter, Exit: gate.exit, After: gate.after}
	defer func() { retry.VerifHook = nil }()
	dir, err := os.MkdirTemp("", "c14s")
	if err != nil {
		r.NotExhaustive("no temporary directory")
		return
	}
	defer os.RemoveAll(dir)

	var cases []vc14Case
	for _, crash := range []string{"commit-notify-pub", "commit-notify-priv", "during-retries"} {
		for _, known := range []bool{false, true} {
			for _, nd := range []bool{false, true} {
				for _, bs := range []bool{false, true} {
					cases = append(cases, vc14Case{Crash: crash, KnownNode: known, NodeDID: nd, Bootstrap: bs})
				}
			}
		}
	}
	// a storage error on ONE subscriber's job shelf while the node starts (the listing of Run, the read of the first event,
	// the first write on the shelf), for every subscriber
	for _, crash := range []string{"commit-notify-pub", "commit-notify-priv", "during-retries"} {
		for _, sp := range vc14Subs {
			for n := 1; n <= 3; n++ {
				cases = append(cases, vc14Case{Crash: crash, KnownNode: true, NodeDID: true, FaultSub: sp.name, FaultN: n})
			}
		}
	}
	if replay {
		cases = []vc14Case{rc}
	}
	r.Bound("start_cases", len(cases))
	seq := 0
	for ci, c := range cases {
		if !replay && !r.Mine(ci) {
			continue
		}
		if r.Expired() {
			break
		}
		var out *vc14Outcome
		var last error
		for attempt := 0; attempt < 3 && out == nil; attempt++ {
			seq++
			out, last = vc14Run(t, gate, dir, seq, c)
			gate.releaseAll()
		}
		if out == nil {
			r.NotExhaustive("some start-up cases could not be run (skipped after 3 attempts)")
			r.Observation("start-case-skipped", map[string]any{"case": c, "reason": last.Error()})
			continue
		}
		if c.FaultSub != "" && !out.faultFired {
			r.Eval("") // that subscriber's shelf is not used that often in this start: nothing failed
			r.Outcome("start-up storage error: step not reached")
			continue
		}
		r.Eval(ev.Key(c))
		if out.refusedErr != "" {
			r.Observation("network-start-refused-after-storage-error-on-one-subscribers-shelf", map[string]any{"case": c, "error": out.refusedErr})
			r.Outcome("start-up storage error: start refused, started again")
		} else if c.FaultSub != "" {
			r.Outcome("start-up storage error: node started")
		}
		if out.startErr != "" {
			r.Observation("network-start-returned-error", map[string]any{"case": c, "error": out.startErr})
		}
		pendingTotal, resumed := 0, 0
		var subs []string
		for _, sp := range vc14Subs {
			subs = append(subs, sp.name)
		}
		sort.Strings(subs)
		for _, sp := range vc14Subs {
			if sp.name == "private" && !c.NodeDID {
				continue // the product registers this subscriber only with a node DID: without one it is not a registered subscriber
			}
			for tx, tries := range out.before[sp.name] {
				pendingTotal++
				after, still := out.after[sp.name][tx]
				attempted := !still || after > tries
				if sp.harness && out.calls[sp.name+"|"+tx] == 0 {
					attempted = false
				}
				if attempted {
					resumed++
					continue
				}
				sigTail := c.Crash + "|" + c.situation()
				if c.FaultSub == sp.name && out.refusedErr == "" {
					// the node started although this subscriber's own shelf answered with an error: what becomes of ITS job is a
					// storage-error matter outside the statement (the ledger part judges first-delivery storage errors); the
					// demand here is that the OTHER subscribers are resumed
					r.Observation("job-of-the-subscriber-whose-shelf-failed-at-start-not-attempted", c)
					continue
				}
				if c.FaultSub != "" {
					whose := "another-subscribers-shelf"
					if c.FaultSub == sp.name {
						whose = "own-shelf"
					}
					sigTail = c.Crash + "|storage-error-at-start|" + whose
					if out.refusedErr != "" {
						sigTail += "|after-refused-start"
					}
				}
				r.Violation("C14|product-start|pending-event-not-resumed|"+sigTail,
					fmt.Sprintf("job of subscriber %q for %s with %d persisted tries is stored when the node starts; after Network.Start and quiescence it is still stored with %d tries and was never attempted (start error: %q)",
						sp.name, tx, tries, after, out.startErr), c)
			}
		}
		if pendingTotal == 0 {
			r.Observation("no-job-pending-at-start", c) // vacuity guard: the crash was meant to leave jobs behind
		}
		r.Outcome(fmt.Sprintf("%s: %d pending, %d resumed", c.Crash, pendingTotal, resumed))
	}
}
