//go:build verif

package audit

import "io"

// VerifSilence discards the output of the audit logger (harnesses issue 10^5 refused requests).
func VerifSilence() { auditLogger().SetOutput(io.Discard) }
