//go:build verif

// C17, legacy JWT-bearer grant (auth/services/oauth authz_server), in-package harness (form B).
//
// The grant is driven through CreateAccessToken with this package's own fixture context; only the key resolver is
// replaced by a small fake that knows the keys of TWO parties (the gomock one cannot answer by argument).
//   - matrix iss x kid's DID x signing key over the parties R (requester) and X (another resolvable party):
//     only the two all-equal cells may yield an access token;
//   - the shared JOSE variant generator on R's valid grant, for every key family.
package oauth

import (
	"context"
	"crypto"
	"encoding/json"
	"errors"
	"fmt"
	"hash/fnv"
	"io"
	"os"
	"strings"
	"testing"
	"time"

	"github.com/nuts-foundation/go-did/did"
	"github.com/nuts-foundation/go-did/vc"
	"github.com/nuts-foundation/nuts-node/auth/services"
	"github.com/nuts-foundation/nuts-node/jsonld"
	"github.com/nuts-foundation/nuts-node/vdr/resolver"
	"github.com/sirupsen/logrus"
	"go.uber.org/mock/gomock"

	"verif/enum"
	"verif/ev"
)

// verifFaultPlan is the environment-answer dimension: call number pos of the key lookup's dependencies (key resolver, key
// store), in call order, answers `answer` instead of the honest answer.
type verifFaultPlan struct {
	pos    int
	answer string
	n      int
	dep    string
}

var verifFP *verifFaultPlan

func verifHit(dep string) error {
	p := verifFP
	if p == nil {
		return nil
	}
	p.n++
	if p.n-1 != p.pos {
		return nil
	}
	p.dep = dep
	switch p.answer {
	case "notfound":
		return resolver.ErrKeyNotFound
	case "timeout":
		return context.DeadlineExceeded
	}
	return errors.New("verif: injected dependency failure")
}

type verifTwoPartyResolver struct {
	byKid      map[string]crypto.PublicKey
	authorizer did.DID
}

func (v verifTwoPartyResolver) ResolveKeyByID(keyID string, _ *resolver.ResolveMetadata, _ resolver.RelationType) (crypto.PublicKey, error) {
	if err := verifHit("keyresolver.ResolveKeyByID"); err != nil {
		return nil, err
	}
	if k, ok := v.byKid[keyID]; ok {
		return k, nil
	}
	return nil, resolver.ErrKeyNotFound
}

func (v verifTwoPartyResolver) ResolveKey(id did.DID, _ *time.Time, _ resolver.RelationType) (string, crypto.PublicKey, error) {
	if err := verifHit("keyresolver.ResolveKey"); err != nil {
		return "", nil, err
	}
	if id.Equals(v.authorizer) {
		return authorizerSigningKeyID, authorizerSigningKey.Public(), nil
	}
	return "", nil, resolver.ErrKeyNotFound
}

const verifAttackerDID = "did:nuts:4tzMaWfpizVKeA8fscC3JTdWBc3asUWWMj5hUFHdWX3H"

func verifLegacyCtx(t *testing.T, keys map[string]crypto.PublicKey) *testContext {
	ctx := createContext(t)
	ctx.oauthService.keyResolver = verifTwoPartyResolver{byKid: keys, authorizer: authorizerDID}
	ctx.oauthService.clockSkew = 5 * time.Minute // keeps the 5 s grant lifetime far from the clock (configurable skew of the product)
	ctx.oauthService.accessTokenLifeSpan = time.Minute
	testCredential := vc.VerifiableCredential{}
	_ = json.Unmarshal([]byte(jsonld.TestOrganizationCredential), &testCredential)
	// every party has a trusted organization credential; the authorizer is managed by this node
	ctx.nameResolver.EXPECT().Search(gomock.Any(), gomock.Any(), false, gomock.Any()).Return([]vc.VerifiableCredential{testCredential}, nil).AnyTimes()
	ctx.serviceResolver.EXPECT().GetCompoundServiceEndpoint(authorizerDID, expectedService, services.OAuthEndpointType, true).Return(expectedAudience, nil).AnyTimes()
	// the node's own key store holds the authorizer's key only
	ctx.keyStore.EXPECT().Exists(gomock.Any(), gomock.Any()).DoAndReturn(func(_ context.Context, kid string) (bool, error) {
		if err := verifHit("keystore.Exists"); err != nil {
			return false, err
		}
		return kid == authorizerSigningKeyID, nil
	}).AnyTimes()
	ctx.keyStore.EXPECT().SignJWT(gomock.Any(), gomock.Any(), nil, authorizerSigningKeyID).DoAndReturn(
		func(_ context.Context, claims map[string]interface{}, _ map[string]interface{}, _ string) (string, error) {
			return fmt.Sprintf("access-token-for:%v", claims["sub"]), nil
		}).AnyTimes()
	return ctx
}

func verifGrantClaims(iss string) []byte {
	now := time.Now()
	b, _ := json.Marshal(map[string]any{"aud": expectedAudience, "iat": now.Add(-time.Second).Unix(), "exp": now.Add(4 * time.Second).Unix(),
		"jti": "a005e81c-6749-4967-b01c-495228fcafb4", "iss": iss, "sub": authorizerDID.String(), purposeOfUseClaim: expectedService})
	return b
}

func verifSign(hdr map[string]any, payload []byte, key crypto.Signer, alg string) string {
	hdr["alg"] = alg
	hb, _ := json.Marshal(hdr)
	p, pl := enum.B64(hb), enum.B64(payload)
	sig, err := enum.SignRaw(alg, key, []byte(p+"."+pl))
	if err != nil {
		panic(err)
	}
	return p + "." + pl + "." + enum.B64(sig)
}

func verifGrant(ctx *testContext, token string) (ok bool, detail string) {
	defer func() {
		if p := recover(); p != nil {
			ok, detail = false, fmt.Sprintf("panic: %v", p)
		}
	}()
	resp, oerr := ctx.oauthService.CreateAccessToken(ctx.audit, services.CreateAccessTokenRequest{RawJwtBearerToken: token})
	if oerr != nil || resp == nil {
		return false, fmt.Sprint(oerr)
	}
	return true, resp.AccessToken
}

type verifLegacyCase struct {
	Scenario string `json:"scenario"`
	Iss      string `json:"iss,omitempty"`
	KidDID   string `json:"kid_did,omitempty"`
	Key      string `json:"key,omitempty"`
	Family   string `json:"family,omitempty"`
	Variant  string `json:"variant,omitempty"`
	Env      string `json:"env,omitempty"`
}

func TestVerifC17Legacy(t *testing.T) {
	logrus.SetOutput(io.Discard)
	r := ev.Start(t, "C17")
	defer r.Finish()
	r.Rule("legacy JWT-bearer grant driven through CreateAccessToken: matrix iss x DID of kid x signing key over two resolvable parties (8 cells), " +
		"the shared JOSE variant generator (incl. near-miss DIDs of the claimed party) on the requester's valid grant and on the node's own access token (introspection: key must be one of the node's own keys) per key family; " +
		"environment-answer dimension: each call of key resolver / key store in turn answers error / not found / time-out")
	r.Assume("collaborators of the grant other than the key resolver are the package's own gomock fixtures (organization credential found, authorizer managed locally)")
	var rc verifLegacyCase
	replay := r.ReplayCase(&rc)
	if !replay && os.Getenv("VERIF_REPLAY") != "" {
		return // the replay file belongs to another part
	}
	idx := 0

	// ---- matrix
	rKey, _ := enum.GenerateJOSEKey("R", enum.FamP256)
	xKey, _ := enum.GenerateJOSEKey("X", enum.FamP256)
	parties := map[string]struct {
		did string
		key enum.JOSEKey
	}{"R": {requesterDID.String(), rKey}, "X": {verifAttackerDID, xKey}}
	keys := map[string]crypto.PublicKey{requesterDID.String() + "#signing-key": rKey.Public(), verifAttackerDID + "#signing-key": xKey.Public()}
	names := []string{"R", "X"}
	honest := 0
	for _, iss := range names {
		for _, kd := range names {
			for _, k := range names {
				idx++
				if replay && (rc.Scenario != "matrix" || rc.Iss != iss || rc.KidDID != kd || rc.Key != k) {
					continue
				}
				if !replay && !verifMine(r, "matrix", iss, kd, k) {
					continue
				}
				ctx := verifLegacyCtx(t, keys)
				tok := verifSign(map[string]any{"kid": parties[kd].did + "#signing-key"}, verifGrantClaims(parties[iss].did), parties[k].key.Priv, "ES256")
				ok, detail := verifGrant(ctx, tok)
				allEqual := iss == kd && kd == k
				r.Eval("matrix|" + iss + kd + k)
				r.Sample(map[string]any{"scenario": "matrix", "iss": iss, "kid_did": kd, "signing_key": k, "granted": ok})
				r.Outcome(fmt.Sprintf("matrix all-equal=%v granted=%v", allEqual, ok))
				if allEqual {
					if !ok {
						t.Fatalf("harness: honest grant of party %s refused: %s", iss, detail)
					}
					honest++
					continue
				}
				if ok {
					r.Violation("C17|key-source|legacy-jwt-bearer|matrix",
						fmt.Sprintf("legacy JWT-bearer grant: a grant with iss=%s, kid of %s, signed with %s's key yields %q - the signing key is never bound to the claimed issuer", iss, kd, k, detail),
						verifLegacyCase{Scenario: "matrix", Iss: iss, KidDID: kd, Key: k})
				}
			}
		}
	}

	// ---- the shared variant generator on R's grant
	type legacyConsumer struct {
		name    string
		ownDID  string // the DID whose key the protocol names
		allowed []string
		claims  func() []byte
		run     func(ctx *testContext, token string) (bool, string)
	}
	algs := []string{"ES256", "ES384", "ES512", "PS256", "PS384", "PS512", "EdDSA"}
	consumers := []legacyConsumer{
		// JWT-bearer grant: the key must be the claimed issuer's (requester's) key from its DID document
		{"legacy-jwt-bearer", requesterDID.String(), algs, func() []byte { return verifGrantClaims(requesterDID.String()) }, verifGrant},
		// access-token introspection: the key must be one of the node's OWN keys (key store) - resolved through the DID document
		{"legacy-introspect", authorizerDID.String(), algs, func() []byte {
			now := time.Now()
			b, _ := json.Marshal(map[string]any{"iss": authorizerDID.String(), "sub": requesterDID.String(), "service": expectedService,
				"iat": now.Add(-time.Minute).Unix(), "exp": now.Add(2 * time.Hour).Unix()})
			return b
		}, func(ctx *testContext, token string) (ok bool, detail string) {
			defer func() {
				if p := recover(); p != nil {
					ok, detail = false, fmt.Sprintf("panic: %v", p)
				}
			}()
			res, err := ctx.oauthService.IntrospectAccessToken(ctx.audit, token)
			return err == nil && res != nil, fmt.Sprint(err)
		}},
	}
	for _, cons := range consumers {
		// the complete product {algorithm x genuine key of the matching type, honestly signed}: outside the documented list => refused
		for _, fam := range enum.AllFamilies {
			for _, alg := range enum.FittingAlgs(fam) {
				idx++
				if replay && (rc.Scenario != cons.name || rc.Variant != "honest-product" || rc.Family != fam || rc.Env != alg) {
					continue
				}
				if !replay && !verifMine(r, cons.name, fam, "honest", alg) {
					continue
				}
				signer, err := enum.GenerateJOSEKey("own", fam)
				if err != nil {
					t.Fatal(err)
				}
				signer.Kid = cons.ownDID + "#signing-key"
				ctx := verifLegacyCtx(t, map[string]crypto.PublicKey{signer.Kid: signer.Public()})
				tok := verifSign(map[string]any{"kid": signer.Kid}, cons.claims(), signer.Priv, alg)
				ok, _ := cons.run(ctx, tok)
				allowed := false
				for _, a := range cons.allowed {
					allowed = allowed || a == alg
				}
				r.Eval(cons.name + "|honest-product|" + fam + "|" + alg)
				r.Outcome(fmt.Sprintf("%s honest %s token: allowed=%v accepted=%v", cons.name, alg, allowed, ok))
				if ok && !allowed {
					r.Violation("C17|alg-not-allowed|"+cons.name+"|honest-key/"+alg,
						fmt.Sprintf("%s accepts an honest, correctly signed %s token (genuine %s key): outside the algorithms documented as allowed for this consumer", cons.name, alg, fam),
						verifLegacyCase{Scenario: cons.name, Family: fam, Variant: "honest-product", Env: alg})
				}
			}
		}
		for _, fam := range enum.AllFamilies {
			if replay && (rc.Scenario != cons.name || rc.Family != fam || rc.Variant == "honest-product") {
				continue
			}
			signer, err1 := enum.GenerateJOSEKey("own", fam)
			foreign, err2 := enum.GenerateJOSEKey("X", fam)
			rogue, err3 := enum.GenerateJOSEKey("rogue", enum.FamP256)
			if err := errors.Join(err1, err2, err3); err != nil {
				t.Fatal(err)
			}
			signer.Kid, foreign.Kid = cons.ownDID+"#signing-key", verifAttackerDID+"#signing-key"
			keys := map[string]crypto.PublicKey{signer.Kid: signer.Public(), foreign.Kid: foreign.Public()}
			var near []enum.JOSEKey
			for _, nm := range enum.NearMissDIDs(cons.ownDID) {
				k, err := enum.GenerateJOSEKey(nm.Kind, enum.FamP256)
				if err != nil {
					t.Fatal(err)
				}
				k.Kid = nm.DID + "#signing-key"
				// every near-miss party is resolvable with its own key - provided the shape denotes a DID of its own: a kid such as
				// did:x:R/evil#k is a DID URL INSIDE R's own document, no other party can publish a key under it
				if u, err := did.ParseDIDURL(k.Kid); err == nil && u.DID.String()+"#"+u.Fragment == k.Kid {
					keys[k.Kid] = k.Public()
				}
				near = append(near, k)
			}
			ctx := verifLegacyCtx(t, keys)
			orig := verifSign(map[string]any{"kid": signer.Kid}, cons.claims(), signer.Priv, enum.DefaultAlg(fam))
			if ok, detail := cons.run(ctx, orig); !ok {
				t.Fatalf("harness: valid %s %s token refused: %s", fam, cons.name, detail)
			}
			in := enum.JOSEInput{Token: orig, Signer: signer, Foreign: foreign, Rogue: rogue, NearMiss: near, FlipStride: 3}
			if r.Thorough() {
				in.FlipStride, in.FlipAllBits = 1, true
			}
			variants, err := enum.JOSEVariants(in)
			if err != nil {
				t.Fatal(err)
			}
			jc := enum.JOSEConsumer{Name: cons.name, Allowed: cons.allowed,
				KeyFor: func(f enum.JOSEFacts) crypto.PublicKey {
					if f.HasKid && f.Kid == signer.Kid { // the claimed issuer is unchanged in every variant: only its own key is the protocol's
						return signer.Public()
					}
					return nil
				}}
			if vd := enum.JOSEReference(jc, variants[0], ""); !vd.Strict {
				t.Fatalf("harness: reference refuses the original (%s)", vd.Clause)
			}
			r.Bound("variants:"+cons.name+"/"+fam, len(variants))
			for _, v := range variants {
				idx++
				if replay && (v.Name != rc.Variant || rc.Env != "") {
					continue
				}
				if !replay && !verifMine(r, cons.name, fam, v.Name) {
					continue
				}
				if r.Expired() {
					return
				}
				ok, _ := cons.run(ctx, v.Token)
				key := ""
				if v.Token != orig {
					key = cons.name + "|" + fam + "|" + v.Name
				}
				r.Eval(key)
				if !ok {
					r.Outcome(cons.name + " refused")
					continue
				}
				fd := enum.JOSEJudgeAccepted("C17", jc, v, "", fam)
				r.Outcome(cons.name + " accepted: " + fd.Kind)
				switch fd.Kind {
				case "violation":
					r.Violation(fd.Signature, fd.What, verifLegacyCase{Scenario: cons.name, Family: fam, Variant: v.Name})
				case "observation":
					r.Observation(fd.Signature, fd.What)
				}
			}
			// environment-answer dimension (deviation bound 1) on the key lookup: key resolver and key store
			for _, v := range variants {
				if !(v.Class == "identity" || strings.HasPrefix(v.Class, "key/") || v.Class == "privjwk/rogue" || v.Class == "sigs/general-2" || v.Class == "alg/none") {
					continue
				}
				idx++
				if replay && (v.Name != rc.Variant || rc.Env == "") {
					continue
				}
				if !replay && !verifMine(r, cons.name, fam, "env", v.Name) {
					continue
				}
				verifFP = &verifFaultPlan{pos: -1}
				cons.run(ctx, v.Token)
				calls := verifFP.n
				for k := 0; k < calls; k++ {
					for _, ans := range []string{"error", "notfound", "timeout"} {
						if r.Expired() {
							verifFP = nil
							return
						}
						verifFP = &verifFaultPlan{pos: k, answer: ans}
						ok, _ := cons.run(ctx, v.Token)
						envName := verifFP.dep + "=" + ans
						r.Eval(fmt.Sprintf("%s|%s|%s|env:%s@%d", cons.name, fam, v.Name, envName, k))
						if !ok {
							r.Outcome(cons.name + " refused under fault")
							continue
						}
						fd := enum.JOSEJudgeAccepted("C17", jc, v, "", fam)
						r.Outcome(cons.name + " accepted under fault: " + fd.Kind)
						if fd.Kind == "violation" {
							r.Violation(fd.Signature+"|env:"+envName, fd.What+fmt.Sprintf(" - while call %d of the key lookup's dependencies (%s) answers %q", k, verifFP.dep, ans),
								verifLegacyCase{Scenario: cons.name, Family: fam, Variant: v.Name, Env: fmt.Sprintf("%s@%d", envName, k)})
						}
					}
				}
				verifFP = nil
			}
		}
	}
	r.Bound("cases_legacy", idx)
	_ = honest
}

// verifMine assigns a case to a worker by a hash of its name (the variant lists differ slightly between workers because key
// material is random per process; a position-based split would skip some cases in every worker).
func verifMine(r *ev.Run, parts ...string) bool {
	h := fnv.New32a()
	h.Write([]byte(strings.Join(parts, "|")))
	return r.Mine(int(h.Sum32() & 0x7fffffff))
}
