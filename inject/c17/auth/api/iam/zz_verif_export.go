//go:build verif

package iam

import (
	"context"
	"net/url"

	"github.com/nuts-foundation/nuts-node/auth"
	"github.com/nuts-foundation/nuts-node/auth/oauth"
	"github.com/nuts-foundation/nuts-node/vdr/resolver"
)

// VerifJARParse drives the request-object consumer (jar.Parse -> jar.validate) with the given collaborators.
// The request object is passed by value (`request` parameter), as a client would.
func VerifJARParse(ctx context.Context, a auth.AuthenticationServices, kr resolver.KeyResolver, rawRequestObject string, clientID string) (map[string]interface{}, error) {
	j := jar{auth: a, keyResolver: kr}
	q := url.Values{}
	q.Set(oauth.RequestParam, rawRequestObject)
	q.Set(oauth.ClientIDParam, clientID)
	return j.Parse(ctx, oauth.AuthorizationServerMetadata{}, q)
}
