//go:build verif

package v2

// C19 (part "v2"): every one of the nine protocol message handlers of network/transport/v2 is called
// synchronously (the product runs them in bare goroutines, where a panic ends the process) with
// wire-realistic messages: protobuf structs built from per-field alphabets, marshalled and unmarshalled
// before handling, under each configuration that changes which collaborators exist (node DID set / unset).

import (
	"bytes"
	"context"
	"fmt"
	"io"
	"math"
	"os"
	"path/filepath"
	"testing"
	"time"

	"github.com/nuts-foundation/go-did/did"
	"github.com/nuts-foundation/go-stoabs"
	"github.com/nuts-foundation/go-stoabs/bbolt"
	"github.com/nuts-foundation/nuts-node/core"
	nutsCrypto "github.com/nuts-foundation/nuts-node/crypto"
	"github.com/nuts-foundation/nuts-node/crypto/hash"
	"github.com/nuts-foundation/nuts-node/network/dag"
	"github.com/nuts-foundation/nuts-node/network/dag/tree"
	"github.com/nuts-foundation/nuts-node/network/transport"
	"github.com/nuts-foundation/nuts-node/network/transport/grpc"
	"github.com/nuts-foundation/nuts-node/vdr/resolver"
	"github.com/sirupsen/logrus"
	"google.golang.org/protobuf/proto"

	"verif/crash"
	"verif/ev"
)

type verifC19Resolver struct{ doc *did.Document }

func (r verifC19Resolver) Resolve(id did.DID, _ *resolver.ResolveMetadata) (*did.Document, *resolver.DocumentMetadata, error) {
	if r.doc == nil || !r.doc.ID.Equals(id) {
		return nil, nil, resolver.ErrNotFound
	}
	return r.doc, &resolver.DocumentMetadata{}, nil
}

type verifC19Fix struct {
	p       *protocol
	state   dag.State
	db      stoabs.KVStore
	root    dag.Transaction
	child   dag.Transaction
	private dag.Transaction
	// transactions that are valid but not yet in the DAG
	pendingPublic  dag.Transaction
	pendingPrivate dag.Transaction
	orphan         dag.Transaction
	peerN          int
	baseline       string
}

var verifC19Seq int
var verifC19KeyStore *nutsCrypto.Crypto

func verifC19Payload(n uint32) []byte {
	return []byte{byte(n >> 24), byte(n >> 16), byte(n >> 8), byte(n)}
}

func verifC19NewFix(t *testing.T, withNodeDID bool) *verifC19Fix {
	verifC19Seq++
	dir := filepath.Join(os.TempDir(), fmt.Sprintf("c19v2-%d-%d", os.Getpid(), verifC19Seq))
	_ = os.MkdirAll(dir, 0o755)
	db, err := bbolt.CreateBBoltStore(filepath.Join(dir, "dag.db"), stoabs.WithNoSync())
	if err != nil {
		t.Fatal(err)
	}
	state, err := dag.NewState(db, dag.NewPrevTransactionsVerifier(), dag.NewTransactionSignatureVerifier(nil))
	if err != nil {
		t.Fatal(err)
	}
	if err := state.Configure(core.ServerConfig{}); err != nil {
		t.Fatal(err)
	}
	f := &verifC19Fix{state: state, db: db}
	now := time.Now()
	pal := [][]byte{bytes.Repeat([]byte{7}, 113)}
	f.root = dag.CreateSignedTestTransaction(0, now, nil, "application/did+json", true)
	f.child = dag.CreateSignedTestTransaction(1, now, nil, "application/vc+json", true, f.root)
	f.private = dag.CreateSignedTestTransaction(2, now, pal, "application/vc+json", true, f.root)
	f.pendingPublic = dag.CreateSignedTestTransaction(3, now, nil, "application/vc+json", true, f.child)
	f.pendingPrivate = dag.CreateSignedTestTransaction(4, now, pal, "application/vc+json", true, f.child)
	missing := dag.CreateSignedTestTransaction(5, now, nil, "application/vc+json", true, f.pendingPublic)
	f.orphan = dag.CreateSignedTestTransaction(6, now, nil, "application/vc+json", true, missing)
	ctx := context.Background()
	for i, tx := range []dag.Transaction{f.root, f.child} {
		if err := state.Add(ctx, tx, verifC19Payload(uint32(i))); err != nil {
			t.Fatalf("harness: %v", err)
		}
	}
	if err := state.Add(ctx, f.private, nil); err != nil {
		t.Fatalf("harness: %v", err)
	}
	cfg := DefaultConfig()
	cfg.GossipInterval = 3600 * 1000 // no gossip tick during the sweep
	cfg.DiagnosticsInterval = 0
	var nodeDID did.DID
	var res resolver.DIDResolver = verifC19Resolver{}
	if withNodeDID {
		nodeDID = did.MustParseDID("did:nuts:verifnode")
		doc := &did.Document{ID: nodeDID}
		res = verifC19Resolver{doc: doc}
	}
	diag := func() transport.Diagnostics { return transport.Diagnostics{} }
	if verifC19KeyStore == nil {
		verifC19KeyStore = nutsCrypto.NewMemoryCryptoInstance(t)
	}
	p := New(cfg, nodeDID, state, res, verifC19KeyStore, diag, db).(*protocol)
	if err := p.Configure("self"); err != nil {
		t.Fatal(err)
	}
	p.cMan = newConversationManager(30 * time.Second)
	p.connectionList = grpc.NewStubConnectionList(transport.Peer{ID: "listed-peer"})
	f.p = p
	f.baseline = f.digest()
	return f
}

func (f *verifC19Fix) close() {
	f.p.cancel()
	_ = f.state.Shutdown()
	_ = f.db.Close(context.Background())
}

// conn returns a connection of a fresh peer (conversations are per peer).
func (f *verifC19Fix) conn(authenticated bool) *grpc.StubConnection {
	f.peerN++
	peer := transport.Peer{ID: transport.PeerID(fmt.Sprintf("peer-%d", f.peerN)), Address: "peer.example.com:5555", Authenticated: authenticated}
	if authenticated {
		peer.NodeDID = did.MustParseDID("did:nuts:peer")
	}
	c := grpc.NewStubConnection(peer)
	f.p.connectionStateCallback(peer, transport.StateConnected, f.p)
	return c
}

// wire marshals and unmarshals the envelope: only what can come off the wire is handled.
func verifC19Wire(t *testing.T, e *Envelope) (*Envelope, []byte) {
	b, err := proto.Marshal(e)
	if err != nil {
		t.Fatalf("harness: marshal: %v", err)
	}
	out := &Envelope{}
	if err := proto.Unmarshal(b, out); err != nil {
		t.Fatalf("harness: unmarshal: %v", err)
	}
	return out, b
}

func (f *verifC19Fix) digest() string {
	ctx := context.Background()
	x, lc := f.state.XOR(dag.MaxLamportClock)
	txs, _ := f.state.FindBetweenLC(ctx, 0, dag.MaxLamportClock)
	n := 0
	for _, tx := range txs {
		if ok, _ := f.state.IsPayloadPresent(ctx, tx.PayloadHash()); ok {
			n++
		}
	}
	return fmt.Sprintf("%s/%d/%d/%d", x, lc, len(txs), n)
}

// verifC19OpenConversation makes the node itself send the request of the given kind on the connection and returns the
// id of the conversation that is now open (live).
func verifC19OpenConversation(t *testing.T, f *verifC19Fix, c *grpc.StubConnection, kind string, lcReq uint32) []byte {
	var err error
	switch kind {
	case "live-state":
		x, _ := f.state.XOR(dag.MaxLamportClock)
		err = f.p.sendState(c, x, lcReq)
	case "live-listquery":
		err = f.p.sendTransactionListQuery(c, []hash.SHA256Hash{f.pendingPublic.Ref(), f.pendingPrivate.Ref(), f.orphan.Ref(), f.child.Ref()})
	case "live-rangequery":
		err = f.p.sendTransactionRangeQuery(c, 0, dag.MaxLamportClock)
	default:
		t.Fatalf("harness: unknown conversation kind %s", kind)
	}
	if err != nil || len(c.SentMsgs) == 0 {
		t.Fatalf("harness: could not open a %s conversation: %v", kind, err)
	}
	switch m := c.SentMsgs[len(c.SentMsgs)-1].(*Envelope).Message.(type) {
	case *Envelope_State:
		return m.State.ConversationID
	case *Envelope_TransactionListQuery:
		return m.TransactionListQuery.ConversationID
	case *Envelope_TransactionRangeQuery:
		return m.TransactionRangeQuery.ConversationID
	}
	t.Fatalf("harness: unexpected request sent for %s", kind)
	return nil
}

func TestVerifC19V2(t *testing.T) {
	if crash.Supervise(t) {
		return // this process supervised a child that ran the sweep
	}
	logrus.SetOutput(io.Discard)
	logrus.SetLevel(logrus.PanicLevel)
	r := ev.Start(t, "C19")
	defer func() { r.Finish(); crash.MarkDone() }()
	s := crash.NewSweep(r, "C19")
	r.Rule("v2 handlers: for each of the nine message types every combination of per-field alphabets (byte strings of length 0/1/31/32/33 and refs of present/absent/private transactions; clocks, range bounds and message counters {0,1,PageSize-1,PageSize,PageSize+1,2*PageSize,1e9,2^31-1,2^31,MaxUint32-1,MaxUint32}; IBLTs {empty,1 byte,truncated,valid,valid of another set,all 0xff,one byte too long,one bucket short}; conversation ids {empty, unknown, live: obtained by making the node ask first - EVERY kind of open conversation (State, TransactionListQuery, TransactionRangeQuery) is offered to EVERY response handler (TransactionSet, TransactionList), not only the matching one}; transaction lists over {valid new, valid without payload, private, known, orphan, wrong payload, garbage, truncated, JSON-serialised}) x configuration {node DID unset, set} x peer {anonymous, authenticated}; each message is marshalled and unmarshalled before it is handled")

	bytesAlpha := func(f *verifC19Fix) map[string][]byte {
		return map[string][]byte{"len0": {}, "len1": {1}, "len31": bytes.Repeat([]byte{3}, 31), "len32-absent": bytes.Repeat([]byte{4}, 32), "len33": bytes.Repeat([]byte{5}, 33),
			"root": f.root.Ref().Slice(), "child": f.child.Ref().Slice(), "private": f.private.Ref().Slice(), "pending": f.pendingPublic.Ref().Slice(), "zero32": make([]byte, 32)}
	}
	clocks := []uint32{0, 1, dag.PageSize - 1, dag.PageSize, dag.PageSize + 1, 2 * dag.PageSize, 1000000000, math.MaxInt32, math.MaxInt32 + 1, math.MaxUint32 - 1, math.MaxUint32}
	keysOf := func(m map[string][]byte) []string {
		ks := make([]string, 0, len(m))
		for k := range m {
			ks = append(ks, k)
		}
		for i := range ks {
			for j := i + 1; j < len(ks); j++ {
				if ks[j] < ks[i] {
					ks[i], ks[j] = ks[j], ks[i]
				}
			}
		}
		return ks
	}

	for _, withDID := range []bool{false, true} {
		cfgName := map[bool]string{false: "nodeDID-unset", true: "nodeDID-set"}[withDID]
		fix := verifC19NewFix(t, withDID)
		s.OnAbandon = func() { fix = verifC19NewFix(t, withDID) }
		// run handles one message; h gets the connection so that live conversations can be opened first
		run := func(entry, desc string, build func(f *verifC19Fix, c *grpc.StubConnection) (*Envelope, handleFunc)) {
			for _, auth := range []bool{false, true} {
				auth := auth
				d := fmt.Sprintf("%s/%s/auth=%v", cfgName, desc, auth)
				res, ran := s.Case(entry, d, true, true, func() ([]byte, func() string) {
					c := fix.conn(auth)
					env, h := build(fix, c)
					wired, raw := verifC19Wire(t, env)
					return raw, func() string {
						before := fix.digest()
						err := h(context.Background(), c, wired)
						if err != nil {
							if after := fix.digest(); after != before {
								// a list is processed transaction by transaction: valid transactions in front of a refused one are kept
								if _, isList := wired.Message.(*Envelope_TransactionList); !isList {
									return fmt.Sprintf("!state-changed: refused message changed the DAG: %s -> %s (%v)", before, after, err)
								}
							}
							return "err"
						}
						return "ok"
					}
				})
				if ran && (res.Panicked || res.TimedOut) {
					// poison guard: never touch the old store again
					fix = verifC19NewFix(t, withDID)
				} else if ran && fix.digest() != fix.baseline {
					// an accepted message changed the DAG: start the next case from the same initial state
					fix.close()
					fix = verifC19NewFix(t, withDID)
				}
			}
		}
		ba := bytesAlpha(fix)
		bk := keysOf(ba)
		refOf := func(f *verifC19Fix, name string) []byte { return bytesAlpha(f)[name] }

		// --- Gossip
		for _, xk := range append(bk, "own-xor", "own-xor^pending") {
			for _, lc := range clocks {
				for _, txs := range [][]string{{}, {"pending"}, {"len1"}, {"child", "len32-absent", "len33"}, {"len0", "len0"}} {
					xk, lc, txs := xk, lc, txs
					run("v2.handleGossip", fmt.Sprintf("xor=%s/lc=%d/txs=%v", xk, lc, txs), func(f *verifC19Fix, c *grpc.StubConnection) (*Envelope, handleFunc) {
						var x []byte
						own, _ := f.state.XOR(dag.MaxLamportClock)
						switch xk {
						case "own-xor":
							x = own.Slice()
						case "own-xor^pending":
							x = own.Xor(f.pendingPublic.Ref()).Slice()
						default:
							x = refOf(f, xk)
						}
						var refs [][]byte
						for _, n := range txs {
							refs = append(refs, refOf(f, n))
						}
						return &Envelope{Message: &Envelope_Gossip{Gossip: &Gossip{XOR: x, LC: lc, Transactions: refs}}}, f.p.handleGossip
					})
				}
			}
		}
		// --- TransactionListQuery
		for _, cid := range []string{"", "unknown-cid"} {
			for _, refs := range [][]string{{}, {"root"}, {"child", "root"}, {"private"}, {"len0"}, {"len1"}, {"len31"}, {"len33"}, {"len32-absent"}, {"root", "root"}, {"private", "child", "len32-absent", "zero32"}} {
				cid, refs := cid, refs
				run("v2.handleTransactionListQuery", fmt.Sprintf("cid=%q/refs=%v", cid, refs), func(f *verifC19Fix, c *grpc.StubConnection) (*Envelope, handleFunc) {
					var rs [][]byte
					for _, n := range refs {
						rs = append(rs, refOf(f, n))
					}
					return &Envelope{Message: &Envelope_TransactionListQuery{TransactionListQuery: &TransactionListQuery{ConversationID: []byte(cid), Refs: rs}}}, f.p.handleTransactionListQuery
				})
			}
		}
		// --- TransactionPayloadQuery / TransactionPayload
		payloads := map[string][]byte{"none": nil, "empty": {}, "root-payload": verifC19Payload(0), "child-payload": verifC19Payload(1), "private-payload": verifC19Payload(2), "other": {9, 9}, "big": bytes.Repeat([]byte{1}, 1<<16)}
		for _, rk := range bk {
			rk := rk
			for _, cid := range []string{"", "unknown-cid"} {
				cid := cid
				run("v2.handleTransactionPayloadQuery", fmt.Sprintf("cid=%q/ref=%s", cid, rk), func(f *verifC19Fix, c *grpc.StubConnection) (*Envelope, handleFunc) {
					return &Envelope{Message: &Envelope_TransactionPayloadQuery{TransactionPayloadQuery: &TransactionPayloadQuery{ConversationID: []byte(cid), TransactionRef: refOf(f, rk)}}}, f.p.handleTransactionPayloadQuery
				})
			}
			for _, pk := range keysOf(payloads) {
				pk := pk
				run("v2.handleTransactionPayload", fmt.Sprintf("ref=%s/data=%s", rk, pk), func(f *verifC19Fix, c *grpc.StubConnection) (*Envelope, handleFunc) {
					return &Envelope{Message: &Envelope_TransactionPayload{TransactionPayload: &TransactionPayload{TransactionRef: refOf(f, rk), Data: payloads[pk]}}}, f.p.handleTransactionPayload
				})
			}
		}
		// --- TransactionRangeQuery
		for _, a := range clocks {
			for _, b := range clocks {
				a, b := a, b
				run("v2.handleTransactionRangeQuery", fmt.Sprintf("start=%d/end=%d", a, b), func(f *verifC19Fix, c *grpc.StubConnection) (*Envelope, handleFunc) {
					return &Envelope{Message: &Envelope_TransactionRangeQuery{TransactionRangeQuery: &TransactionRangeQuery{ConversationID: []byte("cid"), Start: a, End: b}}}, f.p.handleTransactionRangeQuery
				})
			}
		}
		// --- State
		for _, xk := range append(bk, "own-xor") {
			for _, lc := range clocks {
				xk, lc := xk, lc
				run("v2.handleState", fmt.Sprintf("xor=%s/lc=%d", xk, lc), func(f *verifC19Fix, c *grpc.StubConnection) (*Envelope, handleFunc) {
					x := refOf(f, xk)
					if xk == "own-xor" {
						own, _ := f.state.XOR(dag.MaxLamportClock)
						x = own.Slice()
					}
					return &Envelope{Message: &Envelope_State{State: &State{ConversationID: []byte("cid"), XOR: x, LC: lc}}}, f.p.handleState
				})
			}
		}
		// --- TransactionSet (answer to a State message the node sent itself => live conversation)
		iblts := func(f *verifC19Fix) map[string][]byte {
			own, _ := f.state.IBLT(dag.MaxLamportClock)
			ownB, _ := own.MarshalBinary()
			other := tree.NewIblt(dag.IbltNumBuckets)
			for i := 0; i < 5; i++ {
				other.Insert(hash.SHA256Sum([]byte{byte(i)}))
			}
			otherB, _ := other.MarshalBinary()
			big := tree.NewIblt(dag.IbltNumBuckets)
			for i := 0; i < 3000; i++ {
				big.Insert(hash.SHA256Sum([]byte{byte(i), byte(i >> 8)}))
			}
			bigB, _ := big.MarshalBinary()
			return map[string][]byte{"empty": {}, "one-byte": {1}, "truncated": ownB[:len(ownB)-1], "valid-own": ownB, "valid-other": otherB, "undecodable": bigB, "all-ff": bytes.Repeat([]byte{0xff}, len(ownB)),
				"one-too-long": append(append([]byte{}, ownB...), 0), "bucket-short": ownB[:len(ownB)-44], "bucket-long": append(append([]byte{}, ownB...), make([]byte, 44)...), "all-01": bytes.Repeat([]byte{1}, len(ownB))}
		}
		for _, ik := range keysOf(iblts(fix)) {
			for _, cidKind := range []string{"live-state", "live-listquery", "live-rangequery", "unknown", "empty"} {
				for _, lcReq := range clocks {
					if (cidKind == "live-listquery" || cidKind == "live-rangequery") && lcReq != 0 && lcReq != dag.PageSize {
						continue // wrong-kind conversations: two request clocks suffice
					}
					for _, lc := range []uint32{0, 1, dag.PageSize, math.MaxUint32} {
						ik, cidKind, lcReq, lc := ik, cidKind, lcReq, lc
						run("v2.handleTransactionSet", fmt.Sprintf("iblt=%s/cid=%s/lcreq=%d/lc=%d", ik, cidKind, lcReq, lc), func(f *verifC19Fix, c *grpc.StubConnection) (*Envelope, handleFunc) {
							cid := []byte{}
							switch cidKind {
							case "unknown":
								cid = []byte("unknown-cid")
							case "live-state", "live-listquery", "live-rangequery":
								cid = verifC19OpenConversation(t, f, c, cidKind, lcReq)
							}
							return &Envelope{Message: &Envelope_TransactionSet{TransactionSet: &TransactionSet{ConversationID: cid, LCReq: lcReq, LC: lc, IBLT: iblts(f)[ik]}}}, f.p.handleTransactionSet
						})
					}
				}
			}
		}
		// --- TransactionList (answer to a list query / range query the node sent itself)
		type txv struct{ data, payload []byte }
		txAlpha := func(f *verifC19Fix) map[string]txv {
			jsonSer := []byte(`{"payload":"` + "x" + `","signatures":[{"protected":"e30","signature":"AA"}]}`)
			pd := f.pendingPublic.Data()
			return map[string]txv{
				"new": {pd, verifC19Payload(3)}, "new-nopayload": {pd, nil}, "new-wrongpayload": {pd, []byte{1}}, "new-private": {f.pendingPrivate.Data(), nil}, "new-private-payload": {f.pendingPrivate.Data(), verifC19Payload(4)},
				"known": {f.child.Data(), verifC19Payload(1)}, "orphan": {f.orphan.Data(), verifC19Payload(6)}, "garbage": {[]byte("garbage"), []byte{1}}, "empty": {nil, nil},
				"truncated": {pd[:len(pd)/2], verifC19Payload(3)}, "two-dots": {[]byte(".."), nil}, "json": {jsonSer, []byte{1}}, "ff": {bytes.Repeat([]byte{0xff}, 40), nil},
			}
		}
		lists := [][]string{{}, {"new"}, {"new-nopayload"}, {"new-wrongpayload"}, {"new-private"}, {"new-private-payload"}, {"known"}, {"orphan"}, {"garbage"}, {"empty"}, {"truncated"}, {"two-dots"}, {"json"}, {"ff"},
			{"new", "new"}, {"new", "garbage"}, {"garbage", "new"}, {"new", "new-private"}, {"known", "new", "orphan"}, {"new-private", "empty"}}
		for _, list := range lists {
			for _, cidKind := range []string{"live-listquery", "live-rangequery", "live-state", "unknown", "empty"} {
				for _, nums := range [][2]uint32{{1, 1}, {0, 0}, {1, 2}, {2, 1}, {math.MaxInt32, math.MaxInt32 + 1}, {math.MaxUint32, math.MaxUint32}} {
					list, cidKind, nums := list, cidKind, nums
					run("v2.handleTransactionList", fmt.Sprintf("txs=%v/cid=%s/msg=%d-of-%d", list, cidKind, nums[0], nums[1]), func(f *verifC19Fix, c *grpc.StubConnection) (*Envelope, handleFunc) {
						cid := []byte{}
						switch cidKind {
						case "unknown":
							cid = []byte("unknown-cid")
						case "live-listquery", "live-rangequery", "live-state":
							cid = verifC19OpenConversation(t, f, c, cidKind, 0)
						}
						var txs []*Transaction
						for _, n := range list {
							v := txAlpha(f)[n]
							txs = append(txs, &Transaction{Data: v.data, Payload: v.payload})
						}
						return &Envelope{Message: &Envelope_TransactionList{TransactionList: &TransactionList{ConversationID: cid, Transactions: txs, MessageNumber: nums[0], TotalMessages: nums[1]}}}, f.p.handleTransactionList
					})
				}
			}
		}
		// --- Diagnostics
		for i, d := range []*Diagnostics{{}, {Uptime: math.MaxUint32, PeerID: "x", Peers: []string{"", "a", string(bytes.Repeat([]byte("p"), 70000))}, NumberOfTransactions: math.MaxUint32, SoftwareVersion: "\x00", SoftwareID: "../"},
			{Peers: make([]string, 5000)}} {
			d := d
			run("v2.handleDiagnostics", fmt.Sprintf("diag#%d", i), func(f *verifC19Fix, c *grpc.StubConnection) (*Envelope, handleFunc) {
				return &Envelope{Message: &Envelope_DiagnosticsBroadcast{DiagnosticsBroadcast: d}}, f.p.handleDiagnostics
			})
		}
		// --- envelope without a message (dispatcher)
		run("v2.handle(dispatch)", "no-message", func(f *verifC19Fix, c *grpc.StubConnection) (*Envelope, handleFunc) {
			return &Envelope{}, func(_ context.Context, conn grpc.Connection, e *Envelope) error { return f.p.handle(conn, e) }
		})
		fix.close()
	}
	for k, v := range s.PerEntry() {
		r.AddExtra("calls:"+k, v)
	}
	r.Bound("configurations", 2)
	if s.Calls == 0 && !s.Replaying() {
		t.Fatal("no case executed")
	}
}
