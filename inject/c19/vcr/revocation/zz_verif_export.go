//go:build verif

package revocation

// VerifExpand exposes the status-list bitstring decoder (base64 + gzip) to the C19 harness.
func VerifExpand(encodedList string) ([]byte, error) { return expand(encodedList) }

// VerifCompress exposes the encoder (to build valid instances).
func VerifCompress(bits []byte) (string, error) { return compress(bits) }
