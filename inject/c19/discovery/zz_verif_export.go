//go:build verif

package discovery

import "context"

// VerifClientUpdate runs one round of the client-side update (the body of the refresh ticker) against the
// configured Discovery Services.
func VerifClientUpdate(m *Module, ctx context.Context) error { return m.clientUpdater.update(ctx) }
