//go:build verif

package iam

// C19 (part "iam"): the public OpenID4VP endpoints with LIVE sessions.
//  * HandleAuthorizeResponse (direct_post of the verifier session): form fields state / vp_token /
//    presentation_submission / error, every mutation, each case on a fresh live session + nonce;
//  * handleAuthorizeRequestFromVerifier with the (JAR-validated) request parameters of a remote verifier, inline
//    client_metadata / presentation_definition alphabets, user session present;
//  * the direct_post answer loop: a verifier that keeps answering `openid4vp:` redirects (bounded-step oracle).
// Real Wrapper, real VCR (verifier, wallet), real session store; the remote verifier (iam client) is scripted.

import (
	"context"
	"crypto/ecdsa"
	"encoding/base64"
	"encoding/json"
	"errors"
	"fmt"
	"io"
	"net/url"
	"os"
	"strings"
	"testing"
	"time"

	"github.com/nuts-foundation/go-did/did"
	"github.com/nuts-foundation/go-did/vc"
	"github.com/nuts-foundation/nuts-node/audit"
	iamclient "github.com/nuts-foundation/nuts-node/auth/client/iam"
	"github.com/nuts-foundation/nuts-node/auth/oauth"
	"github.com/nuts-foundation/nuts-node/auth/services"
	oauthServices "github.com/nuts-foundation/nuts-node/auth/services/oauth"
	nutsCrypto "github.com/nuts-foundation/nuts-node/crypto"
	"github.com/nuts-foundation/nuts-node/http/user"
	"github.com/nuts-foundation/nuts-node/jsonld"
	"github.com/nuts-foundation/nuts-node/vcr"
	"github.com/nuts-foundation/nuts-node/vcr/pe"
	"github.com/nuts-foundation/nuts-node/vdr/didsubject"
	"github.com/sirupsen/logrus"

	"verif/crash"
	"verif/enum"
	"verif/ev"
)

const (
	verifC19Subject   = "alice"
	verifC19PublicURL = "https://node.example.com"
)

// ---- scripted remote verifier

type verifC19Client struct {
	iamclient.Client // nil: any other call panics in the harness (not expected)
	posts            int
	postAnswer       func(n int) (string, error)
	metadata         func(uri string) (*oauth.OAuthClientMetadata, error)
	definition       func(uri string) (*pe.PresentationDefinition, error)
}

func (c *verifC19Client) PostError(context.Context, oauth.OAuth2Error, string, string) (string, error) {
	return "https://client.example.com/cb?error=x", nil
}
func (c *verifC19Client) PostAuthorizationResponse(context.Context, vc.VerifiablePresentation, pe.PresentationSubmission, string, string) (string, error) {
	c.posts++
	return c.postAnswer(c.posts)
}
func (c *verifC19Client) ClientMetadata(_ context.Context, uri string) (*oauth.OAuthClientMetadata, error) {
	return c.metadata(uri)
}
func (c *verifC19Client) PresentationDefinition(_ context.Context, uri string) (*pe.PresentationDefinition, error) {
	return c.definition(uri)
}

type verifC19Auth struct{ client *verifC19Client }

func (a verifC19Auth) AuthzServer() oauthServices.AuthorizationServer { return nil }
func (a verifC19Auth) IAMClient() iamclient.Client                    { return a.client }
func (a verifC19Auth) RelyingParty() oauthServices.RelyingParty       { return nil }
func (a verifC19Auth) ContractNotary() services.ContractNotary        { return nil }
func (a verifC19Auth) PublicURL() *url.URL                            { u, _ := url.Parse(verifC19PublicURL); return u }
func (a verifC19Auth) AuthorizationEndpointEnabled() bool             { return true }
func (a verifC19Auth) SupportedDIDMethods() []string                  { return []string{"web", "jwk"} }

type verifC19Subjects struct {
	didsubject.Manager
	dids []did.DID
}

func (s verifC19Subjects) ListDIDs(_ context.Context, subject string) ([]did.DID, error) {
	if subject != verifC19Subject {
		return nil, didsubject.ErrSubjectNotFound
	}
	return s.dids, nil
}
func (s verifC19Subjects) Exists(_ context.Context, subject string) (bool, error) {
	return subject == verifC19Subject, nil
}

// verifC19JAR stands for a request object that carries a valid signature of the verifier: authenticity is C17's
// business, here the verifier is the adversary and signs whatever it sends.
type verifC19JAR struct{ JAR }

func (verifC19JAR) Parse(_ context.Context, _ oauth.AuthorizationServerMetadata, q url.Values) (oauthParameters, error) {
	p := oauthParameters{}
	for k, v := range q {
		if len(v) == 1 {
			p[k] = v[0]
		} else {
			p[k] = v
		}
	}
	return p, nil
}

// ---- did:jwk parties (self-resolving, so the real verifier checks real signatures)

func verifC19DIDJWK(k *ecdsa.PrivateKey) string {
	j := crash.PublicJWK(k)
	for i := 0; i < 200; i++ {
		if i > 0 {
			j["kid"] = fmt.Sprintf("k%d", i)
		}
		b, _ := json.Marshal(j)
		enc := base64.RawStdEncoding.EncodeToString(b)
		if !strings.ContainsAny(enc, "+/") {
			return "did:jwk:" + enc
		}
	}
	panic("no clean did:jwk")
}

func verifC19JSON(v any) []byte { b, _ := json.Marshal(v); return b }

func verifC19Decode(b []byte) any {
	v, err := enum.Decode(b)
	if err != nil {
		panic(err)
	}
	return v
}

func TestVerifC19IAM(t *testing.T) {
	if crash.Supervise(t) {
		return // this process supervised a child that ran the sweep
	}
	logrus.SetOutput(io.Discard)
	logrus.SetLevel(logrus.PanicLevel)
	r := ev.Start(t, "C19")
	defer func() { r.Finish(); crash.MarkDone() }()
	s := crash.NewSweep(r, "C19")
	r.Rule("iam OpenID4VP endpoints: (1) HandleAuthorizeResponse on a LIVE verifier session (fresh state + nonce per case): every single mutation of header and claims of a valid signed JWT presentation, of a JSON-LD presentation, of the presentation submission, JOSE serialisation variants, and the raw vp_token alphabet {[], [ ], [[]], null, {}, \"\", arrays of 1-2 presentations with foreign entries} x state {live, unknown, other tenant} x subject; error responses; (2) handleAuthorizeRequestFromVerifier with a user session: every single mutation of the request parameters and the inline client_metadata / presentation_definition alphabet {valid, null, [], {}, 0, \"x\", truncated} x uri variants answered {valid, zero value, error}, organisation and user wallet; (3) the direct_post answer loop with a verifier that answers N openid4vp: redirects in a row")
	only := os.Getenv("VERIF_C19_ONLY")

	holderKey, issuerKey := crash.FixedKey(1, 31), crash.FixedKey(1, 32)
	holder, issuer := verifC19DIDJWK(holderKey), verifC19DIDJWK(issuerKey)
	ks := nutsCrypto.NewMemoryCryptoInstance(t)
	vctx := vcr.NewTestVCRContext(t, ks)
	client := &verifC19Client{}
	w := &Wrapper{auth: verifC19Auth{client}, storageEngine: vctx.Storage, jsonldManager: jsonld.NewTestJSONLDManager(t), vcr: vctx.VCR, jwtSigner: ks,
		keyResolver: vctx.KeyResolver, subjectManager: verifC19Subjects{dids: []did.DID{did.MustParseDID(holder)}}, jar: verifC19JAR{}}
	audience := verifC19PublicURL + "/oauth2/" + verifC19Subject

	now := float64(time.Now().Unix())
	vcClaims := map[string]any{"iss": issuer, "sub": holder, "jti": issuer + "#c1", "nbf": now - 3600, "exp": now + 86400,
		"vc": map[string]any{"@context": []any{"https://www.w3.org/2018/credentials/v1"}, "type": []any{"VerifiableCredential", "OrgCredential"},
			"credentialSubject": map[string]any{"id": holder, "name": "Care BV"}}}
	jwtVC := crash.CompactJSON(map[string]any{"alg": "ES256", "typ": "JWT", "kid": issuer + "#0"}, vcClaims, issuerKey)
	vpHeader := map[string]any{"alg": "ES256", "typ": "JWT", "kid": holder + "#0"}
	vpClaims := func(nonce string) map[string]any {
		return map[string]any{"iss": holder, "sub": holder, "jti": holder + "#vp", "nbf": now - 10, "iat": now - 10, "exp": now + 600, "aud": audience, "nonce": nonce,
			"vp": map[string]any{"@context": []any{"https://www.w3.org/2018/credentials/v1"}, "type": []any{"VerifiablePresentation"}, "verifiableCredential": []any{jwtVC}}}
	}
	var pd pe.PresentationDefinition
	if err := json.Unmarshal([]byte(`{"id":"pd-org","input_descriptors":[{"id":"org","constraints":{"fields":[{"path":["$.type"],"filter":{"type":"string","const":"OrgCredential"}},{"id":"name","path":["$.credentialSubject.name","$.credentialSubject[0].name"],"filter":{"type":"string"}}]}}]}`), &pd); err != nil {
		t.Fatal(err)
	}
	submission := verifC19Decode([]byte(`{"id":"sub-1","definition_id":"pd-org","descriptor_map":[{"id":"org","format":"jwt_vc","path":"$.verifiableCredential[0]"}]}`))

	// ---------------- (1) authorization response on a live session
	n := 0
	subject := verifC19Subject
	live := func() (state, nonce string) {
		n++
		state, nonce = fmt.Sprintf("state-%d", n), fmt.Sprintf("nonce-%d", n)
		sess := OAuthSession{ClientFlow: accessTokenRequestClientFlow, ClientID: "https://client.example.com", ClientState: "client-state", OwnSubject: &subject,
			RedirectURI: "https://client.example.com/cb", Scope: "test", OpenID4VPVerifier: &PEXConsumer{
				RequiredPresentationDefinitions: pe.WalletOwnerMapping{pe.WalletOwnerOrganization: pd},
				Submissions:                     map[string]pe.PresentationSubmission{}, SubmittedEnvelopes: map[string]pe.Envelope{}}}
		if err := w.oauthClientStateStore().Put(state, sess); err != nil {
			t.Fatalf("harness: %v", err)
		}
		if err := w.oauthNonceStore().Put(nonce, state); err != nil {
			t.Fatalf("harness: %v", err)
		}
		return
	}
	respond := func(subjectID string, state, vpToken, sub, errCode *string) string {
		res, err := w.HandleAuthorizeResponse(audit.TestContext(), HandleAuthorizeResponseRequestObject{SubjectID: subjectID,
			Body: &HandleAuthorizeResponseFormdataRequestBody{State: state, VpToken: vpToken, PresentationSubmission: sub, Error: errCode}})
		if err != nil {
			var oe oauth.OAuth2Error
			if errors.As(err, &oe) {
				return "oauth-error"
			}
			return "error"
		}
		if _, ok := res.(HandleAuthorizeResponse200JSONResponse); ok {
			return "ok"
		}
		return "other"
	}
	sp := func(s string) *string { return &s }
	nameR := "iam.HandleAuthorizeResponse"
	want := func(e string) bool { return (only == "" || strings.Contains(e, only)) && s.WantEntry(e) }
	if want(nameR) {
		if !s.Replaying() {
			st, nonce := live()
			if out := respond(subject, &st, sp(crash.CompactJSON(vpHeader, vpClaims(nonce), holderKey)), sp(string(verifC19JSON(submission))), nil); out != "ok" {
				t.Fatalf("harness: valid authorization response refused: %s", out)
			}
		}
		subRaw := string(verifC19JSON(submission))
		// every case gets its own live session; the presentation carries that session's nonce unless the mutation hits it
		withNonce := func(doc any, nonce string) any {
			b := strings.ReplaceAll(string(verifC19JSON(doc)), "NONCE-PLACEHOLDER", nonce)
			return verifC19Decode([]byte(b))
		}
		s.JSON(nameR, "jwt-vp/claims", vpClaims("NONCE-PLACEHOLDER"), enum.Options{Hostile: true, ExtremeInts: true}, false, false, func(doc any) ([]byte, func() string) {
			st, nonce := live()
			tok := crash.CompactJSON(vpHeader, withNonce(doc, nonce), holderKey)
			return []byte(tok), func() string { return respond(subject, &st, &tok, &subRaw, nil) }
		})
		s.JSON(nameR, "jwt-vp/header", vpHeader, enum.Options{Hostile: true, ExtremeInts: true}, false, false, func(doc any) ([]byte, func() string) {
			st, nonce := live()
			tok := crash.CompactJSON(doc, vpClaims(nonce), holderKey)
			return []byte(tok), func() string { return respond(subject, &st, &tok, &subRaw, nil) }
		})
		sers := crash.JSONSerialisations(vpHeader, verifC19JSON(vpClaims("n-ser")), holderKey)
		for _, sn := range []string{"flattened", "general", "general-noprotected", "general-two", "general-unprotected"} {
			s.JSON(nameR, "jwt-vp/json-"+sn, sers[sn], enum.Options{}, false, false, func(doc any) ([]byte, func() string) {
				st, _ := live()
				tok := string(verifC19JSON(doc))
				return []byte(tok), func() string { return respond(subject, &st, &tok, &subRaw, nil) }
			})
		}
		ldVP := map[string]any{"@context": []any{"https://www.w3.org/2018/credentials/v1", "https://w3c-ccg.github.io/lds-jws2020/contexts/lds-jws2020-v1.json"}, "type": "VerifiablePresentation",
			"holder": holder, "verifiableCredential": jwtVC, "proof": map[string]any{"type": "JsonWebSignature2020", "created": time.Now().UTC().Format(time.RFC3339), "proofPurpose": "authentication",
				"challenge": "NONCE-PLACEHOLDER", "domain": audience, "verificationMethod": holder + "#0", "jws": "eyJhbGciOiJFUzI1NiIsImI2NCI6ZmFsc2UsImNyaXQiOlsiYjY0Il19..c2ln"}}
		s.JSON(nameR, "ld-vp", ldVP, enum.Options{Hostile: true, ExtremeInts: true}, false, false, func(doc any) ([]byte, func() string) {
			st, nonce := live()
			tok := string(verifC19JSON(withNonce(doc, nonce)))
			return []byte(tok), func() string { return respond(subject, &st, &tok, &subRaw, nil) }
		})
		s.JSON(nameR, "submission", submission, enum.Options{Hostile: true, ExtremeInts: true}, false, false, func(doc any) ([]byte, func() string) {
			st, nonce := live()
			tok := crash.CompactJSON(vpHeader, vpClaims(nonce), holderKey)
			sub := string(verifC19JSON(doc))
			return []byte(sub), func() string { return respond(subject, &st, &tok, &sub, nil) }
		})
		// raw vp_token / submission / state alphabets
		validTok := func(nonce string) string { return crash.CompactJSON(vpHeader, vpClaims(nonce), holderKey) }
		rawTokens := func(nonce string) map[string]string {
			v := validTok(nonce)
			q := string(verifC19JSON(v))
			ld := string(verifC19JSON(withNonce(ldVP, nonce)))
			return map[string]string{"empty-array": "[]", "empty-array-ws": " [ ] ", "nested-empty": "[[]]", "null": "null", "array-null": "[null]", "object": "{}", "empty": "", "quoted-empty": `""`,
				"number": "0", "true": "true", "one": "[" + q + "]", "two": "[" + q + "," + q + "]", "valid+string": "[" + q + `,"x"]`, "valid+object": "[" + q + ",{}]", "valid+null": "[" + q + ",null]",
				"valid+ld": "[" + q + "," + ld + "]", "ld-in-array": "[" + ld + "]", "quoted-jwt": q, "brace": "}", "deep": strings.Repeat("[", 3000) + strings.Repeat("]", 3000)}
		}
		for _, tn := range sortedKeysIAM(rawTokens("x")) {
			for _, stateKind := range []string{"live", "unknown", "absent"} {
				for _, subj := range []string{verifC19Subject, "bob"} {
					for _, subKind := range []string{"valid", "absent", "null", "empty-map", "garbage"} {
						if subKind != "valid" && tn != "one" && tn != "empty-array" && tn != "two" {
							continue
						}
						tn, stateKind, subj, subKind := tn, stateKind, subj, subKind
						s.Case(nameR, fmt.Sprintf("vp_token=%s/state=%s/subject=%s/submission=%s", tn, stateKind, subj, subKind), true, false, func() ([]byte, func() string) {
							st, nonce := live()
							tok := rawTokens(nonce)[tn]
							var stp *string
							switch stateKind {
							case "live":
								stp = &st
							case "unknown":
								stp = sp("no-such-state")
							}
							var subp *string
							switch subKind {
							case "valid":
								subp = &subRaw
							case "null":
								subp = sp("null")
							case "empty-map":
								subp = sp(`{"id":"s","definition_id":"pd-org","descriptor_map":[]}`)
							case "garbage":
								subp = sp("}")
							}
							return []byte(tok), func() string { return respond(subj, stp, &tok, subp, nil) }
						})
					}
				}
			}
		}
		// error responses
		for i, code := range []string{"", "invalid_request", "x", " ", "\x00", strings.Repeat("e", 70000)} {
			for _, stateKind := range []string{"live", "unknown", "absent"} {
				code, stateKind := code, stateKind
				s.Case(nameR, fmt.Sprintf("error#%d/state=%s", i, stateKind), true, false, func() ([]byte, func() string) {
					st, _ := live()
					var stp *string
					switch stateKind {
					case "live":
						stp = &st
					case "unknown":
						stp = sp("no-such-state")
					}
					return []byte(code), func() string { return respond(subject, stp, nil, nil, &code) }
				})
			}
		}
		// a session whose redirect URI does not parse (storage is a source in the statement)
		s.Case(nameR, "session-with-unparsable-redirect-uri", true, false, func() ([]byte, func() string) {
			st, nonce := live()
			var sess OAuthSession
			_ = w.oauthClientStateStore().Get(st, &sess)
			sess.RedirectURI = "http://a b/%zz"
			_ = w.oauthClientStateStore().Put(st, sess)
			tok := validTok(nonce)
			return []byte(tok), func() string { return respond(subject, &st, &tok, sp("}"), nil) }
		})
	}

	// ---------------- (2) authorization request of a remote verifier (after JAR validation), user session present
	nameQ := "iam.handleAuthorizeRequestFromVerifier"
	validMetadata := `{"vp_formats":{"jwt_vp":{"alg":["ES256"]},"jwt_vc":{"alg":["ES256"]},"ldp_vp":{"proof_type":["JsonWebSignature2020"]},"ldp_vc":{"proof_type":["JsonWebSignature2020"]}}}`
	validPD := string(verifC19JSON(pd))
	emptyPD := `{"id":"pd-empty","input_descriptors":[]}`
	client.postAnswer = func(int) (string, error) { return "https://client.example.com/cb?code=1", nil }
	client.metadata = func(uri string) (*oauth.OAuthClientMetadata, error) {
		switch {
		case strings.HasSuffix(uri, "/valid"):
			var m oauth.OAuthClientMetadata
			_ = json.Unmarshal([]byte(validMetadata), &m)
			return &m, nil
		case strings.HasSuffix(uri, "/zero"):
			return &oauth.OAuthClientMetadata{}, nil
		}
		return nil, errors.New("verifier not reachable")
	}
	client.definition = func(uri string) (*pe.PresentationDefinition, error) {
		switch {
		case strings.HasSuffix(uri, "/valid"):
			p := pd
			return &p, nil
		case strings.HasSuffix(uri, "/zero"):
			return &pe.PresentationDefinition{}, nil
		}
		return nil, errors.New("verifier not reachable")
	}
	userCtx, _ := user.CreateTestSession(audit.TestContext(), verifC19Subject)
	request := func(ctx context.Context, params oauthParameters, owner pe.WalletOwnerType) string {
		res, err := w.handleAuthorizeRequestFromVerifier(ctx, verifC19Subject, params, owner)
		if err != nil {
			return "error"
		}
		if _, ok := res.(HandleAuthorizeRequest302Response); ok {
			return "redirect"
		}
		return "other"
	}
	baseParams := func() map[string]any {
		return map[string]any{"client_id": "https://verifier.example.com/oauth2/v", "client_id_scheme": "entity_id", "response_type": "vp_token", "response_mode": "direct_post",
			"response_uri": "https://verifier.example.com/oauth2/v/response", "state": "verifier-state", "nonce": "verifier-nonce", "client_metadata": validMetadata, "presentation_definition": emptyPD}
	}
	if want(nameQ) {
		if !s.Replaying() {
			if out := request(userCtx, oauthParameters(baseParams()), pe.WalletOwnerUser); out != "redirect" {
				t.Fatalf("harness: valid authorization request refused: %s", out)
			}
		}
		for _, owner := range []pe.WalletOwnerType{pe.WalletOwnerUser, pe.WalletOwnerOrganization} {
			owner := owner
			s.JSON(nameQ, "params/"+string(owner), baseParams(), enum.Options{Hostile: true, NoBigString: true}, false, false, func(doc any) ([]byte, func() string) {
				m, _ := doc.(map[string]any)
				return verifC19JSON(doc), func() string {
					if m == nil {
						return "not-an-object"
					}
					return request(userCtx, oauthParameters(m), owner)
				}
			})
			inline := map[string]string{"valid": "", "null": "null", "array": "[]", "object": "{}", "zero": "0", "string": `"x"`, "true": "true", "ws-null": " null ", "truncated": `{"id":`, "nested-null": `{"id":null,"input_descriptors":null,"vp_formats":null}`, "array-null": "[null]",
				"count-negative": `{"id":"p","input_descriptors":[{"id":"d","group":["A"],"constraints":{"fields":[{"path":["$.type"]}]}}],"submission_requirements":[{"rule":"pick","count":-1,"from":"A"}]}`,
				"max-2^63-1":     `{"id":"p","input_descriptors":[{"id":"d","group":["A"],"constraints":{"fields":[{"path":["$.type"]}]}}],"submission_requirements":[{"rule":"pick","max":9223372036854775807,"from":"A"}]}`,
				"max-1e11":       `{"id":"p","input_descriptors":[{"id":"d","group":["A"],"constraints":{"fields":[{"path":["$.type"]}]}}],"submission_requirements":[{"rule":"pick","max":100000000000,"from":"A"}]}`,
				"min-negative":   `{"id":"p","input_descriptors":[{"id":"d","group":["A"],"constraints":{"fields":[{"path":["$.type"]}]}}],"submission_requirements":[{"rule":"pick","min":-9223372036854775808,"max":-1,"from":"A"}]}`}
			for _, mk := range sortedKeysIAM(inline) {
				for _, pk := range sortedKeysIAM(inline) {
					for _, uriKind := range []string{"none", "valid", "zero", "unreachable"} {
						if uriKind != "none" && !(mk == "valid" || pk == "valid") {
							continue
						}
						mk, pk, uriKind := mk, pk, uriKind
						s.Case(nameQ, fmt.Sprintf("%s/client_metadata=%s/presentation_definition=%s/uris=%s", owner, mk, pk, uriKind), true, false, func() ([]byte, func() string) {
							p := baseParams()
							if inline[mk] != "" {
								p["client_metadata"] = inline[mk]
							}
							if inline[pk] != "" {
								p["presentation_definition"] = inline[pk]
							} else {
								p["presentation_definition"] = validPD
							}
							if uriKind != "none" {
								// the uri forms replace the inline forms
								delete(p, "client_metadata")
								delete(p, "presentation_definition")
								p["client_metadata_uri"] = "https://verifier.example.com/md/" + uriKind
								p["presentation_definition_uri"] = "https://verifier.example.com/pd/" + uriKind
								if mk != "valid" {
									p["client_metadata"] = inline[mk]
								}
								if pk != "valid" {
									p["presentation_definition"] = inline[pk]
								}
							}
							return verifC19JSON(p), func() string { return request(userCtx, oauthParameters(p), owner) }
						})
					}
				}
			}
			// no user session at all
			s.Case(nameQ, string(owner)+"/no-user-session", true, false, func() ([]byte, func() string) {
				return nil, func() string { return request(audit.TestContext(), oauthParameters(baseParams()), owner) }
			})
		}
	}

	// ---------------- (3) the verifier keeps answering openid4vp: redirects
	nameL := "iam.sendAndHandleDirectPost(redirect-loop)"
	if want(nameL) {
		for _, answers := range []int{0, 1, 2, 5, 50, 400} {
			answers := answers
			s.Case(nameL, fmt.Sprintf("verifier-answers-%d-openid4vp-redirects", answers), true, false, func() ([]byte, func() string) {
				return []byte(fmt.Sprint(answers)), func() string {
					client.posts = 0
					q := url.Values{}
					for k, v := range baseParams() {
						q.Set(k, v.(string))
					}
					client.postAnswer = func(i int) (string, error) {
						if i <= answers {
							return "openid4vp:?" + q.Encode(), nil
						}
						return "https://client.example.com/cb?code=1", nil
					}
					defer func() {
						client.postAnswer = func(int) (string, error) { return "https://client.example.com/cb?code=1", nil }
					}()
					out := request(userCtx, oauthParameters(baseParams()), pe.WalletOwnerUser)
					// bounded-step oracle: one organisation wallet answer and one user wallet answer are the protocol; a node that
					// follows every further redirect of the remote verifier never terminates on its own (and grows its stack)
					if client.posts > 10 {
						return fmt.Sprintf("!unbounded-redirect-following: the node followed %d consecutive openid4vp: redirects of the remote verifier within one request (no bound; outcome %s)", client.posts-1, out)
					}
					return fmt.Sprintf("%s-after-%d-posts", out, client.posts)
				}
			})
		}
	}

	// ---------------- (4), (5) grammar products (zz_verif_c19_grammar_test.go)
	verifC19Grammar(t, s, verifC19GrammarEnv{w: w, client: client, holder: holder, issuer: issuer, holderKey: holderKey, issuerKey: issuerKey,
		baseParams: baseParams, want: want, validPD: validPD, metadata: validMetadata})

	for k, v := range s.PerEntry() {
		r.AddExtra("calls:"+k, v)
	}
	if s.Calls == 0 && !s.Replaying() && only == "" {
		t.Fatal("no case executed")
	}
}

func sortedKeysIAM(m map[string]string) []string {
	ks := make([]string, 0, len(m))
	for k := range m {
		ks = append(ks, k)
	}
	for i := range ks {
		for j := i + 1; j < len(ks); j++ {
			if ks[j] < ks[i] {
				ks[i], ks[j] = ks[j], ks[i]
			}
		}
	}
	return ks
}
