//go:build verif

package iam

// C19 (part "iam"), grammar products — valid-but-unusual keyword combinations instead of mutations of a typical request:
//  (4) handleAuthorizeRequestFromVerifier with a presentation definition of a REMOTE verifier, inline (presentation_definition)
//      and fetched (presentation_definition_uri): field filter = declared type x keyword subset, selecting a wallet
//      credential's member of every JSON type; null entries in the definition's lists; submission-requirement extremes;
//      user wallet and organisation wallet holding "wide" credentials;
//  (5) the authorization endpoint through the REAL JAR layer with a signing remote verifier:
//      query {client_id, request, request_uri, request_uri_method} product and request-object claims
//      response_type x response_mode x client_id_scheme x every subset of {presentation_definition,
//      presentation_definition_uri, client_metadata, client_metadata_uri}; remote OpenID configuration alphabet.

import (
	"context"
	"crypto/ecdsa"
	"encoding/json"
	"errors"
	"fmt"
	"net/url"
	"os"
	"strings"
	"testing"
	"time"

	"github.com/nuts-foundation/go-did/did"
	"github.com/nuts-foundation/go-did/vc"
	"github.com/nuts-foundation/nuts-node/audit"
	iamclient "github.com/nuts-foundation/nuts-node/auth/client/iam"
	"github.com/nuts-foundation/nuts-node/auth/oauth"
	"github.com/nuts-foundation/nuts-node/http/user"
	"github.com/nuts-foundation/nuts-node/policy"
	"github.com/nuts-foundation/nuts-node/vcr/pe"
	"github.com/nuts-foundation/nuts-node/vdr/didjwk"
	"github.com/nuts-foundation/nuts-node/vdr/resolver"

	"verif/crash"
)

// verifC19ScriptedClient implements EVERY method of the iam client (no nil embedded interface): what a case does not
// script answers with an error, as an unreachable remote party would.
type verifC19ScriptedClient struct {
	inner         *verifC19Client
	configuration func(issuer string) (*oauth.OpenIDConfiguration, error)
	requestObject func(method, uri string) (string, error)
}

var errVerifC19NotScripted = errors.New("remote party not reachable")

func (c *verifC19ScriptedClient) AccessToken(context.Context, string, string, string, string, string, string, bool) (*oauth.TokenResponse, error) {
	return nil, errVerifC19NotScripted
}
func (c *verifC19ScriptedClient) AuthorizationServerMetadata(context.Context, string) (*oauth.AuthorizationServerMetadata, error) {
	return nil, errVerifC19NotScripted
}
func (c *verifC19ScriptedClient) ClientMetadata(ctx context.Context, uri string) (*oauth.OAuthClientMetadata, error) {
	return c.inner.ClientMetadata(ctx, uri)
}
func (c *verifC19ScriptedClient) PostError(ctx context.Context, e oauth.OAuth2Error, uri string, state string) (string, error) {
	return c.inner.PostError(ctx, e, uri, state)
}
func (c *verifC19ScriptedClient) PostAuthorizationResponse(ctx context.Context, vp vc.VerifiablePresentation, sub pe.PresentationSubmission, uri string, state string) (string, error) {
	return c.inner.PostAuthorizationResponse(ctx, vp, sub, uri, state)
}
func (c *verifC19ScriptedClient) PresentationDefinition(ctx context.Context, uri string) (*pe.PresentationDefinition, error) {
	return c.inner.PresentationDefinition(ctx, uri)
}
func (c *verifC19ScriptedClient) RequestRFC021AccessToken(context.Context, string, string, string, string, bool, []vc.VerifiableCredential) (*oauth.TokenResponse, error) {
	return nil, errVerifC19NotScripted
}
func (c *verifC19ScriptedClient) OpenIdCredentialIssuerMetadata(context.Context, string) (*oauth.OpenIDCredentialIssuerMetadata, error) {
	return nil, errVerifC19NotScripted
}
func (c *verifC19ScriptedClient) OpenIDConfiguration(_ context.Context, issuer string) (*oauth.OpenIDConfiguration, error) {
	if c.configuration == nil {
		return nil, errVerifC19NotScripted
	}
	return c.configuration(issuer)
}
func (c *verifC19ScriptedClient) VerifiableCredentials(context.Context, string, string, string) (*iamclient.CredentialResponse, error) {
	return nil, errVerifC19NotScripted
}
func (c *verifC19ScriptedClient) RequestObjectByGet(_ context.Context, uri string) (string, error) {
	if c.requestObject == nil {
		return "", errVerifC19NotScripted
	}
	return c.requestObject("get", uri)
}
func (c *verifC19ScriptedClient) RequestObjectByPost(_ context.Context, uri string, _ oauth.AuthorizationServerMetadata) (string, error) {
	if c.requestObject == nil {
		return "", errVerifC19NotScripted
	}
	return c.requestObject("post", uri)
}

var _ iamclient.Client = (*verifC19ScriptedClient)(nil)

type verifC19Policy struct{ mapping pe.WalletOwnerMapping }

func (p verifC19Policy) PresentationDefinitions(_ context.Context, scope string) (pe.WalletOwnerMapping, error) {
	if scope != "test" {
		return nil, policy.ErrNotFound
	}
	return p.mapping, nil
}

// verifC19Obj renders a JSON object from (member, raw value) pairs, leaving out members whose raw value is "".
func verifC19Obj(members ...string) string {
	var b strings.Builder
	b.WriteByte('{')
	first := true
	for i := 0; i+1 < len(members); i += 2 {
		if members[i+1] == "" {
			continue
		}
		if !first {
			b.WriteByte(',')
		}
		first = false
		b.Write(verifC19JSON(members[i]))
		b.WriteByte(':')
		b.WriteString(members[i+1])
	}
	b.WriteByte('}')
	return b.String()
}

type verifC19Alt struct{ name, raw string }

type verifC19GrammarEnv struct {
	w          *Wrapper
	client     *verifC19Client
	holder     string
	issuer     string
	holderKey  *ecdsa.PrivateKey
	issuerKey  *ecdsa.PrivateKey
	baseParams func() map[string]any
	want       func(string) bool
	validPD    string
	metadata   string
}

func verifC19Grammar(t *testing.T, s *crash.Sweep, env verifC19GrammarEnv) {
	w, client := env.w, env.client
	audit.VerifSilence()
	// ---- wide credentials: one member per JSON type
	valueKinds := []string{"vs", "vn", "vi", "vb", "vz", "vas", "van", "vam", "vaa", "vae", "vao", "vo", "vx"}
	subject := func(id string) map[string]any {
		return map[string]any{"id": id, "vs": "IJbergen", "vn": 42.5, "vi": float64(42), "vb": true, "vz": nil, "vas": []any{"nurse", "IJbergen"}, "van": []any{float64(1), float64(42)},
			"vam": []any{"IJbergen", float64(1), true, nil, map[string]any{"k": "v"}, []any{"n"}}, "vaa": []any{[]any{"IJbergen"}, []any{"z"}}, "vae": []any{},
			"vao": []any{map[string]any{"k": "IJbergen"}, map[string]any{"k": "w"}}, "vo": map[string]any{"k": "IJbergen", "n": float64(1)}}
	}
	now := float64(time.Now().Unix())
	wideJWT := func(subjectID string) vc.VerifiableCredential {
		claims := map[string]any{"iss": env.issuer, "sub": subjectID, "jti": env.issuer + "#wide-jwt", "nbf": now - 3600, "exp": now + 86400,
			"vc": map[string]any{"@context": []any{"https://www.w3.org/2018/credentials/v1"}, "type": []any{"VerifiableCredential", "WideCredential"}, "credentialSubject": subject(subjectID)}}
		c, err := vc.ParseVerifiableCredential(crash.CompactJSON(map[string]any{"alg": "ES256", "typ": "JWT", "kid": env.issuer + "#0"}, claims, env.issuerKey))
		if err != nil {
			t.Fatalf("harness: %v", err)
		}
		return *c
	}
	wideLD := func(subjectID string) vc.VerifiableCredential {
		doc := map[string]any{"@context": []any{"https://www.w3.org/2018/credentials/v1"}, "id": env.issuer + "#wide-ld", "type": []any{"VerifiableCredential", "WideCredential"}, "issuer": env.issuer,
			"issuanceDate": "2024-01-01T00:00:00Z", "credentialSubject": subject(subjectID),
			"proof": map[string]any{"type": "JsonWebSignature2020", "created": "2024-01-01T00:00:00Z", "proofPurpose": "assertionMethod", "verificationMethod": env.issuer + "#0", "jws": "eyJhbGciOiJFUzI1NiIsImI2NCI6ZmFsc2UsImNyaXQiOlsiYjY0Il19..c2ln"}}
		c, err := vc.ParseVerifiableCredential(string(verifC19JSON(doc)))
		if err != nil {
			t.Fatalf("harness: %v", err)
		}
		return *c
	}
	userCtx, userSession := user.CreateTestSession(audit.TestContext(), verifC19Subject)
	userSession.Wallet.Credentials = []vc.VerifiableCredential{wideLD(userSession.Wallet.DID.String()), wideJWT(userSession.Wallet.DID.String())}
	// organisation wallet: the node's own wallet store (credentials are checked for validity when listed)
	orgHasWide := false
	if err := w.vcr.Wallet().Put(audit.TestContext(), wideJWT(env.holder)); err == nil {
		if list, err := w.vcr.Wallet().List(audit.TestContext(), did.MustParseDID(env.holder)); err == nil && len(list) > 0 {
			orgHasWide = true
		}
	}
	s.R.AssumptionCheck("iam-grammar-organisation-wallet-holds-wide-credential", true, fmt.Sprintf("organisation wallet lists the wide credential: %v (otherwise only the user wallet reaches the matcher)", orgHasWide))

	request := func(ctx context.Context, params oauthParameters, owner pe.WalletOwnerType) string {
		res, err := w.handleAuthorizeRequestFromVerifier(ctx, verifC19Subject, params, owner)
		if err != nil {
			return "error"
		}
		if r, ok := res.(HandleAuthorizeRequest302Response); ok {
			if strings.Contains(r.Headers.Location, "error=") {
				return "redirect-error"
			}
			return "redirect"
		}
		return "other"
	}
	posted := ""
	client.postAnswer = func(int) (string, error) { posted = "posted"; return "https://client.example.com/cb?code=1", nil }
	defer func() {
		client.postAnswer = func(int) (string, error) { return "https://client.example.com/cb?code=1", nil }
	}()
	// definitions fetched from presentation_definition_uri: the iam client json-decodes the remote body (no schema)
	fetched := map[string]string{}
	prevDefinition := client.definition
	client.definition = func(uri string) (*pe.PresentationDefinition, error) {
		if raw, ok := fetched[uri]; ok {
			var pd pe.PresentationDefinition
			if err := json.Unmarshal([]byte(raw), &pd); err != nil {
				return nil, err
			}
			return &pd, nil
		}
		return prevDefinition(uri)
	}
	defer func() { client.definition = prevDefinition }()

	// ---------------- (4) definition grammar through the wallet path
	nameD := "iam.handleAuthorizeRequestFromVerifier(definition grammar)"
	if env.want(nameD) {
		runDef := func(def string, via string, owner pe.WalletOwnerType) func() string {
			return func() string {
				p := env.baseParams()
				if via == "inline" {
					p["presentation_definition"] = def
				} else {
					delete(p, "presentation_definition")
					uri := "https://verifier.example.com/pd/grammar"
					fetched[uri] = def
					p["presentation_definition_uri"] = uri
				}
				posted = "not-posted"
				out := request(userCtx, oauthParameters(p), owner)
				return out + "/" + posted
			}
		}
		fieldDef := func(path, filter, extra string) string {
			return `{"id":"pd","input_descriptors":[{"id":"d","constraints":{"fields":[` + verifC19Obj("id", `"f"`, "path", path, "filter", filter) + extra + `]}}]}`
		}
		direct := func(k string) string { return `["$.credentialSubject.` + k + `","$.credentialSubject[0].` + k + `"]` }
		if !s.Replaying() {
			for _, via := range []string{"inline", "uri"} {
				if out := runDef(fieldDef(direct("vs"), `{"type":"string","pattern":"^(IJ.*)$"}`, ""), via, pe.WalletOwnerUser)(); out != "redirect/posted" {
					t.Fatalf("harness: typical definition (%s) not answered with a presentation by the user wallet: %s", via, out)
				}
				if out := runDef(fieldDef(direct("vn"), `{"type":"string","pattern":"^(IJ.*)$"}`, ""), via, pe.WalletOwnerUser)(); out != "redirect-error/not-posted" {
					t.Fatalf("harness: unsatisfiable definition (%s) answered with a presentation: %s", via, out)
				}
			}
		}
		types := []verifC19Alt{{"string", `"string"`}, {"number", `"number"`}, {"integer", `"integer"`}, {"boolean", `"boolean"`}, {"array", `"array"`}, {"object", `"object"`}, {"null", `"null"`}, {"unknown", `"unknown"`}, {"absent", ""}}
		subsets := []struct{ name, c, e, p string }{{"none", "", "", ""}, {"c", `"IJbergen"`, "", ""}, {"e", "", `["other","IJbergen"]`, ""}, {"p", "", "", `"^(IJ.*)$"`},
			{"ce", `"IJbergen"`, `["other","IJbergen"]`, ""}, {"cp", `"IJbergen"`, "", `"^(IJ.*)$"`}, {"ep", "", `["other","IJbergen"]`, `"^(IJ.*)$"`}, {"cep", `"IJbergen"`, `["other","IJbergen"]`, `"^(IJ.*)$"`}}
		owners := []pe.WalletOwnerType{pe.WalletOwnerUser}
		if orgHasWide {
			owners = append(owners, pe.WalletOwnerOrganization)
		}
		for _, ty := range types {
			for _, sub := range subsets {
				filter := verifC19Obj("type", ty.raw, "const", sub.c, "enum", sub.e, "pattern", sub.p)
				for _, k := range valueKinds {
					for _, via := range []string{"inline", "uri"} {
						for _, owner := range owners {
							k, via, owner := k, via, owner
							s.Case(nameD, fmt.Sprintf("type=%s/kw=%s/value=%s/via=%s/wallet=%s", ty.name, sub.name, k, via, owner), true, false, func() ([]byte, func() string) {
								def := fieldDef(direct(k), filter, "")
								return []byte(def), runDef(def, via, owner)
							})
						}
					}
				}
			}
		}
		// path forms x declared type (pattern filter), user wallet, inline
		paths := []verifC19Alt{{"recursive", `["$..K"]`}, {"wildcard", `["$.credentialSubject.K[*]","$.credentialSubject[0].K[*]"]`}, {"index", `["$.credentialSubject.K[0]","$.credentialSubject[0].K[0]"]`},
			{"neg-index", `["$.credentialSubject.K[-1]","$.credentialSubject[0].K[-1]"]`}, {"slice", `["$.credentialSubject.K[0:1]","$.credentialSubject[0].K[0:1]"]`}, {"filter-expr", `["$.credentialSubject.K[?(@.k)]","$.credentialSubject[0].K[?(@.k)]"]`},
			{"miss-first", `["$.nope","$.credentialSubject.K","$.credentialSubject[0].K"]`}, {"root", `["$"]`}, {"all", `["$..*"]`}, {"subject-wild", `["$.credentialSubject.*","$.credentialSubject[0].*"]`}, {"malformed", `["$["]`},
			{"empty", `[""]`}, {"literal", `["42","true","\"IJbergen\""]`}, {"none", `[]`}}
		for _, pf := range paths {
			for _, ty := range types {
				for _, sub := range []string{"", `"^(IJ.*)$"`} {
					filter := verifC19Obj("type", ty.raw, "pattern", sub)
					for _, k := range valueKinds {
						if !strings.Contains(pf.raw, "K") && k != "vs" {
							continue
						}
						pf, k := pf, k
						s.Case(nameD, fmt.Sprintf("path=%s(%s)/type=%s/pattern=%v", pf.name, k, ty.name, sub != ""), true, false, func() ([]byte, func() string) {
							def := fieldDef(strings.ReplaceAll(pf.raw, "K", k), filter, "")
							return []byte(def), runDef(def, "inline", pe.WalletOwnerUser)
						})
					}
				}
			}
		}
		// null / empty slots and requirement extremes that json.Unmarshal accepts (no schema on this path)
		D := `{"id":"d","group":["A"],"constraints":{"fields":[{"path":["$.type"],"filter":{"type":"string","const":"WideCredential"}}]}}`
		lists := []verifC19Alt{{"absent", ""}, {"null", "null"}, {"empty", "[]"}, {"[null]", "[null]"}, {"[D]", "[" + D + "]"}, {"[null,D]", "[null," + D + "]"}, {"[D,null]", "[" + D + ",null]"}, {"[{}]", "[{}]"},
			{"no-constraints", `[{"id":"d","group":["A"]}]`}, {"constraints-null", `[{"id":"d","group":["A"],"constraints":null}]`}, {"fields-[null]", `[{"id":"d","group":["A"],"constraints":{"fields":[null]}}]`},
			{"fields-[{}]", `[{"id":"d","group":["A"],"constraints":{"fields":[{}]}}]`}, {"filter-null", `[{"id":"d","group":["A"],"constraints":{"fields":[{"path":["$.type"],"filter":null}]}}]`}}
		var reqs []verifC19Alt
		reqs = append(reqs, verifC19Alt{"absent", ""}, verifC19Alt{"null", "null"}, verifC19Alt{"empty", "[]"}, verifC19Alt{"[null]", "[null]"}, verifC19Alt{"[{}]", "[{}]"},
			verifC19Alt{"[R,null]", `[{"rule":"all","from":"A"},null]`}, verifC19Alt{"nested-null", `[{"rule":"all","from_nested":[null]}]`}, verifC19Alt{"nested-R-null", `[{"rule":"pick","min":0,"from_nested":[{"rule":"all","from":"A"},null]}]`},
			verifC19Alt{"from+nested", `[{"rule":"all","from":"A","from_nested":[{"rule":"all","from":"A"}]}]`})
		for _, rule := range []string{"all", "pick", "any"} {
			for _, b := range []verifC19Alt{{"none", ""}, {"count0", `"count":0,`}, {"count1", `"count":1,`}, {"count5", `"count":5,`}, {"count-1", `"count":-1,`}, {"count-max", `"count":9223372036854775807,`},
				{"min5", `"min":5,`}, {"min-1", `"min":-1,`}, {"max0", `"max":0,`}, {"max-1", `"max":-1,`}, {"max-huge", `"max":9223372036854775807,`}, {"min1max0", `"min":1,"max":0,`}, {"all-three", `"count":1,"min":2,"max":0,`}} {
				for _, from := range []string{"A", "C", ""} {
					reqs = append(reqs, verifC19Alt{rule + "." + b.name + ".from=" + from, `[{` + b.raw + `"rule":"` + rule + `","from":"` + from + `"}]`})
					reqs = append(reqs, verifC19Alt{rule + "." + b.name + ".nested=" + from, `[{` + b.raw + `"rule":"` + rule + `","from_nested":[{"rule":"pick","min":0,"from":"` + from + `"},{"rule":"all","from":"A"}]}]`})
				}
			}
		}
		for _, dl := range lists {
			for _, rq := range reqs {
				if dl.name != "[D]" && len(rq.name) > 14 && !strings.HasPrefix(rq.name, "nested") {
					continue // the rule product runs against the typical descriptor list; the slot alphabets are crossed in full
				}
				for _, via := range []string{"inline", "uri"} {
					dl, rq, via := dl, rq, via
					s.Case(nameD, fmt.Sprintf("input_descriptors=%s/submission_requirements=%s/via=%s", dl.name, rq.name, via), true, false, func() ([]byte, func() string) {
						def := verifC19Obj("id", `"pd"`, "input_descriptors", dl.raw, "submission_requirements", rq.raw)
						return []byte(def), runDef(def, via, pe.WalletOwnerUser)
					})
				}
			}
		}
	}

	// ---------------- (5) the authorization endpoint through the real JAR layer
	nameJ := "iam.handleAuthorizeRequest(JAR + parameter product)"
	if env.want(nameJ) {
		verifierKey := crash.FixedKey(1, 33)
		verifierDID := verifC19DIDJWK(verifierKey)
		verifierID := "https://verifier.example.com/oauth2/v"
		scripted := &verifC19ScriptedClient{inner: client}
		w2 := *w
		w2.auth = verifC19AuthFull{verifC19Auth{client}, scripted}
		w2.jar = &jar{auth: w2.auth, jwtSigner: w.jwtSigner, keyResolver: resolver.DIDKeyResolver{Resolver: didjwk.NewResolver()}}
		var orgPD pe.PresentationDefinition
		_ = json.Unmarshal([]byte(env.validPD), &orgPD)
		w2.policyBackend = verifC19Policy{mapping: pe.WalletOwnerMapping{pe.WalletOwnerOrganization: orgPD}}
		ownMetadata := oauth.AuthorizationServerMetadata{Issuer: verifC19PublicURL + "/oauth2/" + verifC19Subject}
		pub := crash.PublicJWK(verifierKey)
		pub["kid"] = verifierDID + "#0"
		otherPub := crash.PublicJWK(crash.FixedKey(1, 34))
		otherPub["kid"] = verifierDID + "#0"
		configs := map[string]string{
			"valid":         string(verifC19JSON(map[string]any{"iss": verifierID, "sub": verifierID, "jwks": map[string]any{"keys": []any{pub}}, "metadata": map[string]any{"openid_provider": map[string]any{"issuer": verifierID, "authorization_endpoint": verifierID + "/authorize", "client_id_schemes_supported": []any{"entity_id"}}}})),
			"no-jwks":       `{"iss":"x"}`,
			"jwks-null":     `{"jwks":null,"metadata":null}`,
			"jwks-empty":    `{"jwks":{"keys":[]}}`,
			"same-kid-other-key": string(verifC19JSON(map[string]any{"jwks": map[string]any{"keys": []any{otherPub}}})),
			"no-authz-endpoint":  string(verifC19JSON(map[string]any{"jwks": map[string]any{"keys": []any{pub}}, "metadata": map[string]any{"openid_provider": map[string]any{}}})),
			"unreachable":        "",
		}
		sign := func(claims map[string]any) string {
			return crash.CompactJSON(map[string]any{"alg": "ES256", "typ": "JWT", "kid": verifierDID + "#0"}, claims, verifierKey)
		}
		baseClaims := func() map[string]any {
			c := env.baseParams()
			delete(c, "client_metadata")
			delete(c, "presentation_definition")
			c["client_id"] = verifierID
			c["iss"] = verifierID
			c["aud"] = verifC19PublicURL + "/oauth2/" + verifC19Subject
			c["iat"], c["exp"] = now-10, now+600
			// what the authorization-code flow reads
			c["redirect_uri"] = "https://verifier.example.com/oauth2/v/callback"
			c["code_challenge"], c["code_challenge_method"], c["scope"] = "challenge", "S256", "test"
			return c
		}
		handle := func(query url.Values, scheme string, configKind string, requestObject func(method, uri string) (string, error)) string {
			scripted.configuration = func(string) (*oauth.OpenIDConfiguration, error) {
				raw := configs[configKind]
				if raw == "" {
					return nil, errVerifC19NotScripted
				}
				var cfg oauth.OpenIDConfiguration
				if err := json.Unmarshal([]byte(raw), &cfg); err != nil {
					return nil, err
				}
				return &cfg, nil
			}
			scripted.requestObject = requestObject
			posted = "not-posted"
			u := url.URL{Scheme: "https", Host: "node.example.com", Path: "/oauth2/" + verifC19Subject + "/authorize", RawQuery: query.Encode()}
			if scheme == "openid4vp" {
				u = url.URL{Scheme: "openid4vp", RawQuery: query.Encode()}
			}
			res, err := w2.handleAuthorizeRequest(userCtx, verifC19Subject, ownMetadata, u)
			if err != nil {
				var oe oauth.OAuth2Error
				if errors.As(err, &oe) {
					if os.Getenv("VERIF_C19_DEBUG") != "" {
						fmt.Printf("DEBUG jar: %s | %s | %v\n", oe.Code, oe.Description, oe.InternalError)
					}
					return "oauth-error:" + string(oe.Code)
				}
				return "error"
			}
			if r, ok := res.(HandleAuthorizeRequest302Response); ok {
				if strings.Contains(r.Headers.Location, "error=") {
					return "redirect-error/" + posted
				}
				return "redirect/" + posted
			}
			return "other"
		}
		inlinePD := `{"id":"pd","input_descriptors":[{"id":"d","constraints":{"fields":[{"id":"f","path":["$.credentialSubject.vs","$.credentialSubject[0].vs"],"filter":{"type":"string","pattern":"^(IJ.*)$"}}]}}]}`
		fetched["https://verifier.example.com/pd/jar"] = inlinePD
		if !s.Replaying() {
			c := baseClaims()
			c["client_metadata"], c["presentation_definition"] = env.metadata, inlinePD
			q := url.Values{"client_id": {verifierID}, "request": {sign(c)}}
			if out := handle(q, "openid4vp", "valid", nil); out != "redirect/posted" {
				t.Fatalf("harness: valid signed authorization request of the remote verifier not answered: %s", out)
			}
			c["response_type"] = "code"
			q = url.Values{"client_id": {verifierID}, "request": {sign(c)}}
			if out := handle(q, "https", "valid", nil); out != "redirect/not-posted" {
				t.Fatalf("harness: valid authorization-code request not accepted: %s", out)
			}
		}
		// (5a) claims product behind each way of conveying the request object
		responseTypes := []verifC19Alt{{"vp_token", "vp_token"}, {"code", "code"}, {"vp_token id_token", "vp_token id_token"}, {"absent", ""}, {"other", "token"}}
		responseModes := []verifC19Alt{{"direct_post", "direct_post"}, {"absent", ""}, {"direct_post.jwt", "direct_post.jwt"}, {"fragment", "fragment"}}
		schemes := []verifC19Alt{{"entity_id", "entity_id"}, {"absent", ""}, {"did", "did"}, {"x509_san_dns", "x509_san_dns"}}
		conveyances := []string{"request", "request_uri", "request_uri+get", "request_uri+post"}
		for _, conv := range conveyances {
			for _, rt := range responseTypes {
				for _, rm := range responseModes {
					for _, sc := range schemes {
						for mask := 0; mask < 16; mask++ {
							for _, urlScheme := range []string{"https", "openid4vp"} {
								if urlScheme == "openid4vp" && conv != "request" {
									continue
								}
								conv, rt, rm, sc, mask, urlScheme := conv, rt, rm, sc, mask, urlScheme
								s.Case(nameJ, fmt.Sprintf("via=%s/%s/response_type=%s/response_mode=%s/client_id_scheme=%s/pd=%v/pd_uri=%v/md=%v/md_uri=%v", conv, urlScheme, rt.name, rm.name, sc.name, mask&1 != 0, mask&2 != 0, mask&4 != 0, mask&8 != 0), true, false, func() ([]byte, func() string) {
									c := baseClaims()
									set := func(k, v string) {
										if v == "" {
											delete(c, k)
										} else {
											c[k] = v
										}
									}
									set("response_type", rt.raw)
									set("response_mode", rm.raw)
									set("client_id_scheme", sc.raw)
									if mask&1 != 0 {
										c["presentation_definition"] = inlinePD
									}
									if mask&2 != 0 {
										c["presentation_definition_uri"] = "https://verifier.example.com/pd/jar"
									}
									if mask&4 != 0 {
										c["client_metadata"] = env.metadata
									}
									if mask&8 != 0 {
										c["client_metadata_uri"] = "https://verifier.example.com/md/valid"
									}
									tok := sign(c)
									q := url.Values{"client_id": {verifierID}}
									var ro func(method, uri string) (string, error)
									switch conv {
									case "request":
										q.Set("request", tok)
									default:
										q.Set("request_uri", "https://verifier.example.com/request.jwt/1")
										if m := strings.TrimPrefix(conv, "request_uri+"); m != conv {
											q.Set("request_uri_method", m)
										}
										ro = func(string, string) (string, error) { return tok, nil }
									}
									return verifC19JSON(c), func() string { return handle(q, urlScheme, "valid", ro) }
								})
							}
						}
					}
				}
			}
		}
		// (5b) query product x what the request_uri answers x remote OpenID configuration
		valid := func() string {
			c := baseClaims()
			c["client_metadata"], c["presentation_definition"] = env.metadata, inlinePD
			return sign(c)
		}
		noKid := crash.CompactJSON(map[string]any{"alg": "ES256", "typ": "JWT"}, baseClaims(), verifierKey)
		otherClient := func() string { c := baseClaims(); c["client_id"] = "https://other.example.com"; return sign(c) }
		expired := func() string { c := baseClaims(); c["exp"] = now - 3600; return sign(c) }
		nonString := func() string {
			c := baseClaims()
			for _, k := range []string{"response_type", "response_mode", "client_id_scheme", "nonce", "state", "response_uri", "redirect_uri", "scope"} {
				c[k] = []any{c[k], 5}
			}
			c["client_metadata"], c["presentation_definition"] = map[string]any{"vp_formats": nil}, map[string]any{"id": "pd", "input_descriptors": []any{}}
			return sign(c)
		}
		objects := map[string]func() string{"valid": valid, "empty": func() string { return "" }, "garbage": func() string { return "x.y.z" }, "no-kid": func() string { return noKid }, "other-client_id": otherClient, "expired": expired,
			"non-string-claims": nonString, "json-null": func() string { return "null" }, "unsigned": func() string { v := valid(); return v[:strings.LastIndex(v, ".")+1] }}
		clientIDs := []verifC19Alt{{"verifier", verifierID}, {"other", "https://other.example.com"}, {"absent", ""}, {"did", verifierDID}}
		methods := []verifC19Alt{{"absent", ""}, {"get", "get"}, {"post", "post"}, {"GET", "GET"}, {"other", "put"}}
		for _, cid := range clientIDs {
			for _, reqKind := range append([]string{"absent"}, sortedKeysVerifC19(objects)...) {
				for _, uriKind := range append([]string{"absent", "unreachable"}, sortedKeysVerifC19(objects)...) {
					if reqKind != "absent" && reqKind != "valid" && uriKind != "absent" && uriKind != "valid" {
						continue
					}
					for _, m := range methods {
						if uriKind == "absent" && m.name != "absent" && m.name != "post" {
							continue
						}
						for _, cfg := range sortedKeysVerifC19(map[string]func() string{"valid": nil, "no-jwks": nil, "jwks-null": nil, "jwks-empty": nil, "same-kid-other-key": nil, "no-authz-endpoint": nil, "unreachable": nil}) {
							if cfg != "valid" && !((reqKind == "valid" && uriKind == "absent") || (reqKind == "absent" && uriKind == "valid")) {
								continue
							}
							cid, reqKind, uriKind, m, cfg := cid, reqKind, uriKind, m, cfg
							s.Case(nameJ, fmt.Sprintf("query/client_id=%s/request=%s/request_uri=%s/request_uri_method=%s/openid-configuration=%s", cid.name, reqKind, uriKind, m.name, cfg), true, false, func() ([]byte, func() string) {
								q := url.Values{}
								if cid.raw != "" {
									q.Set("client_id", cid.raw)
								}
								if reqKind != "absent" {
									q.Set("request", objects[reqKind]())
									if reqKind == "empty" {
										q["request"] = []string{""}
									}
								}
								var ro func(method, uri string) (string, error)
								if uriKind != "absent" {
									q.Set("request_uri", "https://verifier.example.com/request.jwt/1")
									if uriKind != "unreachable" {
										tok := objects[uriKind]()
										ro = func(string, string) (string, error) { return tok, nil }
									}
								}
								if m.raw != "" {
									q.Set("request_uri_method", m.raw)
								}
								return []byte(q.Encode()), func() string { return handle(q, "https", cfg, ro) }
							})
						}
					}
				}
			}
		}
	}
}

type verifC19AuthFull struct {
	verifC19Auth
	full *verifC19ScriptedClient
}

func (a verifC19AuthFull) IAMClient() iamclient.Client { return a.full }

func sortedKeysVerifC19(m map[string]func() string) []string {
	ks := make([]string, 0, len(m))
	for k := range m {
		ks = append(ks, k)
	}
	for i := range ks {
		for j := i + 1; j < len(ks); j++ {
			if ks[j] < ks[i] {
				ks[i], ks[j] = ks[j], ks[i]
			}
		}
	}
	return ks
}
