//go:build verif

package didnuts

import "github.com/nuts-foundation/nuts-node/network/dag"

// VerifAmbassadorCallback calls the body of the network subscriber that receives DID document payloads.
func VerifAmbassadorCallback(a Ambassador, tx dag.Transaction, payload []byte) error {
	return a.(*ambassador).callback(tx, payload)
}
