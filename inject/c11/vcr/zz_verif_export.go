//go:build verif

package vcr

import (
	"github.com/nuts-foundation/nuts-node/network/dag"
	"github.com/nuts-foundation/nuts-node/vcr/types"
	"github.com/nuts-foundation/nuts-node/vcr/verifier"
)

// VerifAmbassadorReceivers returns the REAL receivers the ambassador registers with the network for credential and
// revocation transactions (handleNetworkVCs / handleNetworkRevocations, including handleError's classification of
// errors as recoverable or fatal). Export seam for the external C11 harness; never part of the shipped tree.
func VerifAmbassadorReceivers(writer types.Writer, v verifier.Verifier) (vcs, revocations func(dag.Event) (bool, error)) {
	a := NewAmbassador(nil, writer, v, nil).(*ambassador)
	return a.handleNetworkVCs, a.handleNetworkRevocations
}
