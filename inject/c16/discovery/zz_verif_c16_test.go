//go:build verif

// C16 — Discovery lists hold only verified registrations and clients converge to them.
//
// In-package harness (form B). A discovery *server* Module and a discovery *client* Module run on two
// SQLite databases; the client's HTTP client is a direct call into the server Module (presentations are
// serialised and parsed on the way, as the REST layer does). Presentations are JWT-VPs signed in the
// harness with jwx by did:jwk holders and verified by the REAL verifier (vcr.NewTestVCRContext). The clock
// read by the discovery files and by the verifier is the virtual clock (overlay rewrite), frozen per
// replay, so that expiry is an explicit event.
//
// Deciding technique: explicit-state breadth-first search over event histories (space.BFS). A state is a
// history; the successor is obtained by wiping both databases, replaying the history and applying one more
// event on the real code. In every NEW state (a) the whole defective-registration alphabet is offered to
// the real server (each must be refused and leave the state unchanged: self-loop transitions), (b) the
// client's Search is judged, and (c) a fair suffix (polls until nothing changes) is run after which the
// client's Search must equal the server's live set.
package discovery

import (
	"context"
	"database/sql"
	"crypto/ecdsa"
	"crypto/elliptic"
	"crypto/rand"
	"crypto/sha256"
	"encoding/base64"
	"encoding/binary"
	"encoding/json"
	"errors"
	"fmt"
	"io"
	"os"
	"sort"
	"strconv"
	"strings"
	"testing"
	"time"

	"github.com/google/uuid"
	"github.com/lestrrat-go/jwx/v2/jwa"
	"github.com/lestrrat-go/jwx/v2/jwk"
	"github.com/lestrrat-go/jwx/v2/jws"
	"github.com/mr-tron/base58"
	"github.com/nuts-foundation/go-did/vc"
	nutscrypto "github.com/nuts-foundation/nuts-node/crypto"
	"github.com/nuts-foundation/nuts-node/storage"
	"github.com/nuts-foundation/nuts-node/vcr"
	"github.com/nuts-foundation/nuts-node/vcr/credential"
	"github.com/nuts-foundation/nuts-node/vcr/pe"
	"github.com/nuts-foundation/nuts-node/verifshim/vtime"
	"github.com/sirupsen/logrus"
	"gorm.io/gorm"

	"verif/ev"
	"verif/sched"
	"verif/space"
)

const (
	c16Service     = "c16_service"
	c16ServiceB    = "c16_service_b" // a second discovery service, served by the same server and followed by the same client
	c16ServiceC    = "c16_service_c" // a third one whose definition asks for THREE credentials, one of them the self-attested DiscoveryRegistrationCredential
	c16RegCredType = "DiscoveryRegistrationCredential"
	c16MaxValidity = 10 * 3600 // seconds
	c16Long        = 7 * 3600  // validity of an ordinary registration
	c16Short       = 1 * 3600  // validity of a short registration
	c16Advance     = 2 * time.Hour
	c16RetractType = "RetractedVerifiablePresentation"
)

// ---------------------------------------------------------------- parties ----

type c16Party struct {
	name string
	idx  int
	did  string
	kid  string
	key  *ecdsa.PrivateKey
}

func c16NewJWKParty(name string) *c16Party {
	key, _ := ecdsa.GenerateKey(elliptic.P256(), rand.Reader)
	pub, _ := jwk.FromRaw(key.Public())
	b, _ := json.Marshal(pub)
	d := "did:jwk:" + base64.RawURLEncoding.EncodeToString(b)
	return &c16Party{name: name, did: d, kid: d + "#0", key: key}
}

func c16NewKeyParty(name string) *c16Party {
	key, _ := ecdsa.GenerateKey(elliptic.P256(), rand.Reader)
	buf := binary.AppendUvarint(nil, 0x1200) // multicodec p256-pub
	buf = append(buf, elliptic.MarshalCompressed(elliptic.P256(), key.X, key.Y)...)
	id := "z" + base58.EncodeAlphabet(buf, base58.BTCAlphabet)
	d := "did:key:" + id
	return &c16Party{name: name, did: d, kid: d + "#" + id, key: key}
}

// ---------------------------------------------------------------- environment (one per process) ----

type c16Env struct {
	t         *testing.T
	r         *ev.Run
	vcr       vcr.VCR
	srvDB     *gorm.DB
	cliDB     *gorm.DB
	defs      map[string]ServiceDefinition
	base      time.Time
	subjects  []*c16Party
	authority *c16Party
	mallory   *c16Party // another did:jwk party (third party / foreign signer)
	keyHolder *c16Party // did:key holder: resolvable, but not an allowed method
	byDID     map[string]*c16Party
	credCache map[string]string
	defectCache map[string]*c16VP
	defects   []c16Defect
	defectsB  []c16Defect // offered to service B
	required  map[string][]string // service -> credential kinds its definition asks for (one input descriptor each)
	seenCanon map[[32]byte]bool
	histCanon map[[32]byte][32]byte
	pollLabels map[[32]byte]int // parent history -> bit 1: some labelled poll realised, bit 2: some label unrealisable
	factsCache map[string]c16Facts // per replay (facts are a pure function of the bytes; the cache only bounds repeated signature checks)
	rndCtr    uint64
	idCtr     uint64
	rndBuf    []byte
	stats     map[string]int64
}

// deterministic uuid source, re-seeded at every replay
type c16Rand struct{ e *c16Env }

func (c c16Rand) Read(p []byte) (int, error) {
	e := c.e
	for i := range p {
		if len(e.rndBuf) == 0 {
			var b [16]byte
			binary.BigEndian.PutUint64(b[:8], uint64(e.r.Seed()))
			binary.BigEndian.PutUint64(b[8:], e.rndCtr)
			e.rndCtr++
			h := sha256.Sum256(b[:])
			e.rndBuf = h[:]
		}
		p[i] = e.rndBuf[0]
		e.rndBuf = e.rndBuf[1:]
	}
	return len(p), nil
}

// c16Cur is the service the harness helpers currently operate on (rows, reference predicate, minted audiences,
// reference list). (*c16World).on switches it together with the per-service reference list.
var c16Cur = c16Service

func c16Definition(authority string) ServiceDefinition {
	str := func(s string) *string { return &s }
	return ServiceDefinition{
		ID:         c16Service,
		DIDMethods: []string{"jwk"},
		Endpoint:   "http://c16.invalid/discovery/" + c16Service,
		PresentationDefinition: pe.PresentationDefinition{
			Id: "c16_pd",
			Format: &pe.PresentationDefinitionClaimFormatDesignations{
				"jwt_vc": {"alg": []string{"ES256"}},
				"jwt_vp": {"alg": []string{"ES256"}},
			},
			InputDescriptors: []*pe.InputDescriptor{{
				Id: "org",
				Constraints: &pe.Constraints{Fields: []pe.Field{
					{Path: []string{"$.type"}, Filter: &pe.Filter{Type: "string", Const: str("TestCredential")}},
					{Id: str("issuer_field"), Path: []string{"$.issuer"}, Filter: &pe.Filter{Type: "string", Const: str(authority)}},
				}},
			}},
		},
		PresentationMaxValidity: c16MaxValidity,
	}
}

func c16NewEnv(t *testing.T, r *ev.Run) *c16Env {
	logrus.SetOutput(io.Discard)
	logrus.SetLevel(logrus.PanicLevel)
	e := &c16Env{t: t, r: r, byDID: map[string]*c16Party{}, credCache: map[string]string{},
		defectCache: map[string]*c16VP{}, factsCache: map[string]c16Facts{}, defects: c16Defects(), defectsB: c16MultiCredDefects(), seenCanon: map[[32]byte]bool{}, histCanon: map[[32]byte][32]byte{}, pollLabels: map[[32]byte]int{}, stats: map[string]int64{}}
	e.base = time.Now().Truncate(time.Second)
	vtime.Freeze(e.base)
	for i, n := range []string{"a", "b", "c"} {
		p := c16NewJWKParty(n)
		p.idx = i
		e.subjects = append(e.subjects, p)
	}
	e.authority = c16NewJWKParty("authority")
	e.authority.idx = 10
	e.mallory = c16NewJWKParty("mallory")
	e.mallory.idx = 11
	e.keyHolder = c16NewKeyParty("keyholder")
	e.keyHolder.idx = 12
	for _, p := range append(append([]*c16Party{}, e.subjects...), e.authority, e.mallory, e.keyHolder) {
		e.byDID[p.did] = p
	}
	// service B's definition has TWO input descriptors (TestCredential and RoleCredential): its registrations carry two credentials
	defB := c16Definition(e.authority.did)
	defB.ID, defB.Endpoint = c16ServiceB, "http://c16.invalid/discovery/"+c16ServiceB
	{
		str := func(s string) *string { return &s }
		defB.PresentationDefinition.Id = "c16_pd_b"
		defB.PresentationDefinition.InputDescriptors = append(defB.PresentationDefinition.InputDescriptors, &pe.InputDescriptor{
			Id: "role",
			Constraints: &pe.Constraints{Fields: []pe.Field{
				{Path: []string{"$.type"}, Filter: &pe.Filter{Type: "string", Const: str("RoleCredential")}},
				{Path: []string{"$.issuer"}, Filter: &pe.Filter{Type: "string", Const: str(e.authority.did)}},
			}},
		})
	}
	// service C's definition has THREE input descriptors: the two above plus the self-attested DiscoveryRegistrationCredential
	// (as in the documented example definition: a field of its credentialSubject)
	defC := c16Definition(e.authority.did)
	defC.ID, defC.Endpoint = c16ServiceC, "http://c16.invalid/discovery/"+c16ServiceC
	{
		str := func(s string) *string { return &s }
		defC.PresentationDefinition.Id = "c16_pd_c"
		defC.PresentationDefinition.Format = &pe.PresentationDefinitionClaimFormatDesignations{
			"jwt_vc": {"alg": []string{"ES256"}}, "jwt_vp": {"alg": []string{"ES256"}}, "ldp_vc": {"proof_type": []string{"JsonWebSignature2020"}},
		}
		defC.PresentationDefinition.InputDescriptors = append(append([]*pe.InputDescriptor{}, defB.PresentationDefinition.InputDescriptors...), &pe.InputDescriptor{
			Id: "registration",
			Constraints: &pe.Constraints{Fields: []pe.Field{
				{Path: []string{"$.type"}, Filter: &pe.Filter{Type: "string", Const: str(c16RegCredType)}},
				{Id: str("auth_server_url"), Path: []string{"$.credentialSubject.authServerURL"}},
			}},
		})
	}
	e.defs = map[string]ServiceDefinition{c16Service: c16Definition(e.authority.did), c16ServiceB: defB, c16ServiceC: defC}
	e.required = map[string][]string{c16Service: {"TestCredential"}, c16ServiceB: {"TestCredential", "RoleCredential"},
		c16ServiceC: {"TestCredential", "RoleCredential", c16RegCredType}}
	vctx := vcr.NewTestVCRContext(t, nutscrypto.NewMemoryCryptoInstance(t))
	e.vcr = vctx.VCR
	s1 := storage.NewTestStorageEngine(t)
	if err := s1.Start(); err != nil {
		t.Fatal(err)
	}
	s2 := storage.NewTestStorageEngine(t)
	if err := s2.Start(); err != nil {
		t.Fatal(err)
	}
	e.srvDB, e.cliDB = s1.GetSQLDatabase(), s2.GetSQLDatabase()
	for _, db := range []*gorm.DB{e.srvDB, e.cliDB} {
		_ = db.Exec("PRAGMA synchronous = OFF").Error // speed only; the databases live in a private tmpfs directory
	}
	return e
}

func (e *c16Env) now() int64 { return vtime.Now().Unix() }

// newID gives ids of harness-made credentials and presentations. They come from a counter that is never reset:
// the per-replay random stream (uuid.SetRand) restarts with every replay, and ids drawn from it would collide with
// the ids of cached credentials / presentations minted at the same stream position of an earlier replay.
func (e *c16Env) newID() string {
	e.idCtr++
	return fmt.Sprintf("%08x-c160-4000-8000-%012x", uint32(e.r.Seed()), e.idCtr)
}

func c16Wipe(t *testing.T, db *gorm.DB) {
	for _, tbl := range []string{"discovery_credential", "discovery_presentation", "discovery_presentation_refresh",
		"discovery_presentation_error", "discovery_service", "credential_prop", "credential"} {
		if err := db.Exec("DELETE FROM " + tbl).Error; err != nil {
			t.Fatalf("wipe %s: %v", tbl, err)
		}
	}
}

// ---------------------------------------------------------------- signing ----

func c16Sign(key *ecdsa.PrivateKey, kid string, claims map[string]any) string {
	payload, err := json.Marshal(claims)
	if err != nil {
		panic(err)
	}
	hdr := jws.NewHeaders()
	_ = hdr.Set(jws.TypeKey, "JWT")
	if kid != "" {
		_ = hdr.Set(jws.KeyIDKey, kid)
	}
	out, err := jws.Sign(payload, jws.WithKey(jwa.ES256, key, jws.WithProtectedHeaders(hdr)))
	if err != nil {
		panic(err)
	}
	return string(out)
}

type c16CredOpt struct {
	Type    string // "TestCredential" | "OtherCredential"
	Subject *c16Party
	ExpAbs  int64 // absolute expiry; 0 = base + 30 days
	BadSig  bool
	Fresh   bool // never cached (own id)
	NoExp   bool // the credential has no expiry at all
	NbfAbs  int64 // absolute nbf / issuanceDate; 0 = base - 1 h
}

func (e *c16Env) cred(o c16CredOpt) string {
	if o.ExpAbs == 0 {
		o.ExpAbs = e.base.Unix() + 30*24*3600
	}
	if o.NbfAbs == 0 {
		o.NbfAbs = e.base.Unix() - 3600
	}
	key := fmt.Sprintf("%s|%s|%d|%v|%v|%d", o.Type, o.Subject.did, o.ExpAbs, o.BadSig, o.NoExp, o.NbfAbs)
	if !o.Fresh {
		if c, ok := e.credCache[key]; ok {
			return c
		}
	}
	signKey := e.authority.key
	if o.BadSig {
		signKey = e.mallory.key
	}
	claims := map[string]any{
		"iss": e.authority.did, "sub": o.Subject.did, "jti": e.authority.did + "#" + e.newID(),
		"nbf": o.NbfAbs, "exp": o.ExpAbs,
		"vc": map[string]any{
			"@context":          []string{"https://www.w3.org/2018/credentials/v1"},
			"type":              []string{"VerifiableCredential", o.Type},
			"credentialSubject": map[string]any{"id": o.Subject.did, "name": "org-" + o.Subject.name},
		},
	}
	if o.NoExp {
		delete(claims, "exp")
	}
	c := c16Sign(signKey, e.authority.kid, claims)
	if !o.Fresh {
		e.credCache[key] = c
	}
	return c
}

// selfCred: a self-attested credential as the node's wallet adds it to a registration (client.go
// findCredentialsAndBuildPresentation + AutoCorrectSelfAttestedCredential): a JSON-LD credential WITHOUT proof, issued
// by the holder to itself, protected by the presentation's signature only.
func (e *c16Env) selfCred(o c16CredOpt) map[string]any {
	if o.NbfAbs == 0 {
		o.NbfAbs = e.base.Unix() - 3600
	}
	c := map[string]any{
		"@context":          []string{"https://www.w3.org/2018/credentials/v1", credential.NutsV1Context},
		"type":              []string{"VerifiableCredential", o.Type},
		"id":                e.newID(),
		"issuer":            o.Subject.did,
		"issuanceDate":      time.Unix(o.NbfAbs, 0).UTC().Format(time.RFC3339),
		"credentialSubject": map[string]any{"id": o.Subject.did, "authServerURL": "https://c16.invalid/oauth2/" + o.Subject.name},
	}
	if !o.NoExp {
		if o.ExpAbs == 0 {
			o.ExpAbs = e.base.Unix() + 30*24*3600
		}
		c["expirationDate"] = time.Unix(o.ExpAbs, 0).UTC().Format(time.RFC3339)
	}
	return c
}

type c16VPOpt struct {
	Iss     *string // nil = the signer's DID; "" = no iss claim; else that value (kid and iss disagree)
	Signer  *c16Party
	SignKey *ecdsa.PrivateKey // nil = Signer's
	NoID    bool
	ID      string
	Aud     any // nil = [service]; use NoAud to drop
	NoAud   bool
	ExpIn   int64 // seconds from now
	NoExp   bool
	NbfIn   int64
	Creds   []string
	CredsAny []any // when set: used instead of Creds (JWT strings and / or credential objects, in this order)
	Types   []string
	Extra   map[string]any // claims set last (may overwrite iss / sub / ...)
	Drop    []string       // claims removed last
	Kid     *string        // nil = the signer's kid; "" = no kid header; else that value
	Lenient bool           // return nil instead of failing the test when the result cannot be parsed as a presentation
	LDP     bool
}

type c16VP struct {
	Raw   string
	VP    vc.VerifiablePresentation
	Facts c16Facts
}

func (e *c16Env) buildVP(o c16VPOpt) *c16VP {
	now := e.now()
	id := o.ID
	if id == "" && !o.NoID {
		id = o.Signer.did + "#" + e.newID()
	}
	types := append([]string{"VerifiablePresentation"}, o.Types...)
	var raw string
	if o.LDP {
		doc := map[string]any{
			"@context": []string{"https://www.w3.org/2018/credentials/v1", "https://w3c-ccg.github.io/lds-jws2020/contexts/lds-jws2020-v1.json"},
			"type":     types, "id": id, "holder": o.Signer.did, "verifiableCredential": o.Creds,
			"proof": map[string]any{"type": "JsonWebSignature2020", "created": time.Unix(now, 0).UTC().Format(time.RFC3339),
				"expires":            time.Unix(now+o.ExpIn, 0).UTC().Format(time.RFC3339),
				"verificationMethod": o.Signer.kid, "proofPurpose": "assertionMethod", "domain": c16Cur,
				"jws": "eyJhbGciOiJFUzI1NiIsImI2NCI6ZmFsc2UsImNyaXQiOlsiYjY0Il19..AAAA"},
		}
		b, _ := json.Marshal(doc)
		raw = string(b)
	} else {
		vp := map[string]any{"@context": []string{"https://www.w3.org/2018/credentials/v1"}, "type": types}
		if len(o.CredsAny) > 0 {
			vp["verifiableCredential"] = o.CredsAny
		} else if len(o.Creds) > 0 {
			vp["verifiableCredential"] = o.Creds
		}
		claims := map[string]any{"iss": o.Signer.did, "sub": o.Signer.did, "nbf": now + o.NbfIn, "vp": vp}
		if o.Iss != nil {
			claims["iss"], claims["sub"] = *o.Iss, *o.Iss
			if *o.Iss == "" {
				delete(claims, "iss")
				delete(claims, "sub")
			}
		}
		if id != "" {
			claims["jti"] = id
		}
		if !o.NoExp {
			claims["exp"] = now + o.ExpIn
		}
		if !o.NoAud {
			if o.Aud != nil {
				claims["aud"] = o.Aud
			} else {
				claims["aud"] = []string{c16Cur}
			}
		}
		for k, v := range o.Extra {
			claims[k] = v
		}
		for _, k := range o.Drop {
			delete(claims, k)
		}
		key := o.SignKey
		if key == nil {
			key = o.Signer.key
		}
		kid := o.Signer.kid
		if o.Kid != nil {
			kid = *o.Kid
		}
		raw = c16Sign(key, kid, claims)
	}
	parsed, err := vc.ParseVerifiablePresentation(raw)
	if err != nil && o.Lenient {
		return nil
	}
	if err != nil {
		e.t.Fatalf("harness built an unparsable presentation: %v", err)
	}
	return &c16VP{Raw: raw, VP: *parsed, Facts: e.facts(raw)}
}

// ---------------------------------------------------------------- facts of a presentation AS SENT ----

type c16CredFacts struct {
	Issuer, Subject string
	Types           []string
	Exp, Nbf        int64
	SigOK           bool
	Self            bool // a credential object without proof (self-attested): protected by the presentation's signature only
}

type c16Facts struct {
	Format     string // "jwt" | "ldp"
	Iss        string // iss claim ("" = none)
	Sub        string // sub claim ("" = none)
	Signer     string // DID of the kid header
	Method     string
	ID         string
	Aud        []string
	Exp, Nbf   int64
	Retraction bool
	RetractJTI any
	Creds      []c16CredFacts
	SigOK      bool
}

func c16DecodeJWT(raw string) (hdr, claims map[string]any, ok bool) {
	parts := strings.Split(raw, ".")
	if len(parts) != 3 {
		return nil, nil, false
	}
	hb, err1 := base64.RawURLEncoding.DecodeString(parts[0])
	pb, err2 := base64.RawURLEncoding.DecodeString(parts[1])
	if err1 != nil || err2 != nil {
		return nil, nil, false
	}
	if json.Unmarshal(hb, &hdr) != nil || json.Unmarshal(pb, &claims) != nil {
		return nil, nil, false
	}
	return hdr, claims, true
}

func c16Num(v any) int64 {
	if f, ok := v.(float64); ok {
		return int64(f)
	}
	return 0
}

func c16Strings(v any) []string {
	switch x := v.(type) {
	case string:
		return []string{x}
	case []any:
		var out []string
		for _, i := range x {
			if s, ok := i.(string); ok {
				out = append(out, s)
			}
		}
		return out
	}
	return nil
}

// sigOK verifies a compact JWS with the harness's own record of the key behind the kid's DID
// (independent of the node's resolvers).
func (e *c16Env) sigOK(raw string, hdr map[string]any) (bool, string) {
	kid, _ := hdr["kid"].(string)
	d := strings.SplitN(kid, "#", 2)[0]
	p := e.byDID[d]
	// the kid names a key of party p: its one verification method, or (did:jwk only: the node completes it with "#0") the bare DID
	if p == nil || (kid != p.kid && !(kid == p.did && strings.HasPrefix(p.did, "did:jwk:"))) || hdr["alg"] != "ES256" {
		return false, d
	}
	_, err := jws.Verify([]byte(raw), jws.WithKey(jwa.ES256, &p.key.PublicKey))
	return err == nil, d
}

func (e *c16Env) facts(raw string) c16Facts {
	if f, ok := e.factsCache[raw]; ok {
		return f
	}
	f := e.factsUncached(raw)
	e.factsCache[raw] = f
	return f
}

func (e *c16Env) factsUncached(raw string) c16Facts {
	if strings.HasPrefix(strings.TrimSpace(raw), "{") {
		return c16Facts{Format: "ldp"}
	}
	f := c16Facts{Format: "jwt"}
	hdr, claims, ok := c16DecodeJWT(raw)
	if !ok {
		f.Format = "garbage"
		return f
	}
	f.SigOK, f.Signer = e.sigOK(raw, hdr)
	if parts := strings.Split(f.Signer, ":"); len(parts) >= 3 {
		f.Method = parts[1]
	}
	f.ID, _ = claims["jti"].(string)
	f.Iss, _ = claims["iss"].(string)
	f.Sub, _ = claims["sub"].(string)
	f.Aud = c16Strings(claims["aud"])
	f.Exp, f.Nbf = c16Num(claims["exp"]), c16Num(claims["nbf"])
	f.RetractJTI = claims["retract_jti"]
	vp, _ := claims["vp"].(map[string]any)
	for _, t := range c16Strings(vp["type"]) {
		if t == c16RetractType {
			f.Retraction = true
		}
	}
	var credList []any
	switch x := vp["verifiableCredential"].(type) {
	case []any:
		credList = x
	case nil:
	default:
		credList = []any{x} // a single credential may be given without the array
	}
	for _, item := range credList {
		c, isString := item.(string)
		if obj, isObj := item.(map[string]any); isObj {
			// a credential object (JSON-LD); without proof it is self-attested and counts as signed iff its issuer is the
			// presentation's holder (iss) — the presentation's signature protects it
			cf := c16CredFacts{}
			switch iss := obj["issuer"].(type) {
			case string:
				cf.Issuer = iss
			case map[string]any:
				cf.Issuer, _ = iss["id"].(string)
			}
			switch cs := obj["credentialSubject"].(type) {
			case map[string]any:
				cf.Subject, _ = cs["id"].(string)
			case []any:
				if len(cs) == 1 {
					if m, ok := cs[0].(map[string]any); ok {
						cf.Subject, _ = m["id"].(string)
					}
				}
			}
			cf.Types = c16Strings(obj["type"])
			if t, err := time.Parse(time.RFC3339, fmt.Sprint(obj["expirationDate"])); err == nil {
				cf.Exp = t.Unix()
			}
			if t, err := time.Parse(time.RFC3339, fmt.Sprint(obj["issuanceDate"])); err == nil {
				cf.Nbf = t.Unix()
			}
			_, hasProof := obj["proof"]
			cf.Self = !hasProof
			cf.SigOK = cf.Self && cf.Issuer != "" && cf.Issuer == f.Iss
			f.Creds = append(f.Creds, cf)
			continue
		}
		if !isString {
			f.Creds = append(f.Creds, c16CredFacts{})
			continue
		}
		ch, cc, ok := c16DecodeJWT(c)
		if !ok {
			f.Creds = append(f.Creds, c16CredFacts{})
			continue
		}
		cf := c16CredFacts{}
		cf.Issuer, _ = cc["iss"].(string)
		cf.Subject, _ = cc["sub"].(string)
		cf.Exp, cf.Nbf = c16Num(cc["exp"]), c16Num(cc["nbf"])
		vcm, _ := cc["vc"].(map[string]any)
		cf.Types = c16Strings(vcm["type"])
		sigOK, kidDID := e.sigOK(c, ch)
		cf.SigOK = sigOK && kidDID == cf.Issuer
		f.Creds = append(f.Creds, cf)
	}
	return f
}

func c16Has(xs []string, x string) bool {
	for _, s := range xs {
		if s == x {
			return true
		}
	}
	return false
}

// ref is the reference predicate of the statement, evaluated on the facts of the presentation as sent.
// listedID(signer) is the id of the entry the list currently holds for that signer ("" = none).
// It returns the first clause that fails.
func (e *c16Env) ref(f c16Facts, now int64, listedID func(string) string) (bool, string) {
	switch {
	case f.Format != "jwt":
		return false, "not-a-jwt-presentation"
	case f.ID == "":
		return false, "no-id"
	case !c16Has(f.Aud, c16Cur): // addressed to the service it is offered to / listed on
		return false, "audience"
	case f.Exp == 0:
		return false, "no-expiry"
	case f.Exp-now > c16MaxValidity:
		return false, "valid-too-long"
	case f.Method != "jwk":
		return false, "did-method"
	case !f.SigOK:
		return false, "vp-signature"
	case f.Exp <= now:
		return false, "expired"
	case f.Nbf > now:
		return false, "not-yet-valid"
	}
	if f.Retraction {
		if len(f.Creds) > 0 {
			return false, "retraction-with-credentials"
		}
		jti, ok := f.RetractJTI.(string)
		if !ok || jti == "" {
			return false, "retraction-jti"
		}
		if listedID == nil || listedID(f.Signer) != jti {
			return false, "retraction-of-unlisted"
		}
		return true, ""
	}
	for _, c := range f.Creds {
		if c.Exp != 0 && f.Exp > c.Exp {
			return false, "outlives-credential"
		}
	}
	// "all and only": exactly one credential per input descriptor of the service's definition
	required := e.required[c16Cur]
	if len(f.Creds) < len(required) {
		return false, "missing-credential"
	}
	if len(f.Creds) > len(required) {
		return false, "surplus-credential"
	}
	for _, want := range required {
		n := 0
		for _, c := range f.Creds {
			if !c16Has(c.Types, want) {
				continue
			}
			if want == c16RegCredType {
				if c.Self && c.Issuer == f.Signer { // the registration credential is the holder's own statement
					n++
				}
			} else if c.Issuer == e.authority.did {
				n++
			}
		}
		if n != 1 {
			return false, "credential-not-in-definition"
		}
	}
	if f.Iss != "" && f.Iss != f.Signer {
		return false, "iss-differs-from-signing-did" // the presenter named by the token is not the party whose key signed it
	}
	for _, c := range f.Creds {
		switch {
		case !c.SigOK:
			return false, "vc-signature"
		case c.Subject != f.Signer:
			return false, "vc-subject"
		case c.Nbf > now || (c.Exp != 0 && c.Exp <= now):
			return false, "vc-expired"
		}
	}
	return true, ""
}

// ---------------------------------------------------------------- the world (one per replay) ----

type c16Event struct {
	Op string `json:"op"` // reg regshort retract replay inject expire poll reset resetreg
	S  int    `json:"s"`
	// R (poll only) names the resolution of the one nondeterminism the harness cannot seam: updateService ranges over a
	// Go map, and every add() first prunes expired rows, so when a batch holds an expired entry next to another one
	// the expired row survives iff it is processed LAST. R = subject letter of the expired entry processed last, or
	// "live" when an unexpired entry was last; "" when the batch is unambiguous. The replay is repeated until the
	// real code happens to take the named order (rejection sampling over the runtime's map order), so each labelled
	// poll is a deterministic transition and ALL resolutions are enumerated as separate events.
	R string `json:"r,omitempty"`
	// F (poll only): subject letter whose presentations the client's verifier cannot verify DURING this poll (transient
	// environment failure, gone afterwards): the entry is stored unvalidated and is left to the validate pass.
	F string `json:"f,omitempty"`
}

func (ev c16Event) String() string {
	switch ev.Op {
	case "poll":
		out := "poll"
		if ev.R != "" {
			out += "[last=" + ev.R + "]"
		}
		if ev.F != "" {
			out += "[verifier fails for " + ev.F + "]"
		}
		return out
	case "validate":
		return "validate(client)"
	case "regb", "retractb":
		return fmt.Sprintf("%s(%c)@B", strings.TrimSuffix(ev.Op, "b"), 'a'+ev.S)
	case "expire", "reset", "resetreg":
		return ev.Op
	case "restart":
		if ev.S == 0 {
			return "restart(server)"
		}
		return "restart(client)"
	}
	return fmt.Sprintf("%s(%c)", ev.Op, 'a'+ev.S)
}

type c16Config struct {
	Name     string
	K        int
	Depth    int
	Short    bool
	Inject   bool
	Replay   bool
	Defects  bool
	InjectS  int // number of subjects for which inject is enabled
	Split    int // depth of the shared BFS prefix (frontier sharding)
	// LeafLight: in states at the deepest level only the defects whose handling reads the list (retractions, duplicate
	// ids — everything built from the state or tried per subject) plus three representatives are offered; the full
	// alphabet is offered in every shallower state. Quick tier only.
	LeafLight bool
	Small     bool // no reset / reset+register / restart events (restarts are still performed in every new state by judge)
	// Validation: the client-side validation path as events: poll = fetch only (entries that fail verification are stored
	// unvalidated), poll with a transient verifier failure for one subject, validate(client) = the product's validate() pass
	Validation bool
	// TwoServices: a second service on the same server and client: register / retract per service, polls fetch both, all
	// oracles per service, and an event on one service must change nothing observable on the other
	TwoServices bool
	// Owners: events whose presentations are admissible but name / collide with ANOTHER subject: regdup(s) = a valid
	// registration under the id of another subject's listed entry, retractx(s) = s's own retraction whose iss/sub name
	// another subject. The ownership clauses (an entry changes only through something signed by its subject's key) are
	// judged at every transition of every configuration.
	Owners bool
}

type c16Entry struct {
	Ts   int
	VP   *c16VP
	Kind string // reg | retract | injected
}

type c16Direct struct{ w *c16World }

func c16RoundTrip(vp vc.VerifiablePresentation) (vc.VerifiablePresentation, error) {
	b, err := json.Marshal(vp)
	if err != nil {
		return vp, err
	}
	var out vc.VerifiablePresentation
	err = json.Unmarshal(b, &out)
	return out, err
}

// c16SvcOf: the REST layer addresses a service by its endpoint URL; "" = the service the harness currently works on.
func c16SvcOf(endpoint string) string {
	if i := strings.LastIndex(endpoint, "/"); i >= 0 && endpoint[i+1:] != "" {
		return endpoint[i+1:]
	}
	return c16Cur
}

func (d c16Direct) Register(ctx context.Context, endpoint string, presentation vc.VerifiablePresentation) error {
	vp, err := c16RoundTrip(presentation)
	if err != nil {
		return err
	}
	return d.w.srv.Register(ctx, c16SvcOf(endpoint), vp)
}

func (d c16Direct) Get(ctx context.Context, endpoint string, timestamp int) (map[string]vc.VerifiablePresentation, string, int, error) {
	m, seed, ts, err := d.w.srv.Get(ctx, c16SvcOf(endpoint), timestamp)
	if err != nil {
		return nil, "", 0, err
	}
	out := map[string]vc.VerifiablePresentation{}
	for k, v := range m {
		vp, err := c16RoundTrip(v)
		if err != nil {
			return nil, "", 0, err
		}
		out[k] = vp
	}
	return out, seed, ts, nil
}

type c16World struct {
	e        *c16Env
	cfg      c16Config
	hist     []c16Event
	srv, cli *Module
	direct   c16Direct
	model    map[string]*c16Entry // reference list: signer DID -> entry
	modelTs  int
	prev     []*c16VP // per subject: most recently displaced registration
	known    map[string]bool
	injected map[string]bool
	lastTs   map[string]int // seed -> highest timestamp seen handed out
	hadReset bool
	canon    string
	dirty    bool // a violation polluted the instance: skip the remaining checks of this state
	svcModel map[string]*c16SvcModel // reference list of the services the harness is not currently working on
	failing  string                  // DID whose presentations the CLIENT's verifier cannot verify right now (transient environment failure)
	retry    bool // a labelled poll took another map order than the label names: replay again
	unreal   bool // no replay produced the labelled order: the label is not realisable in this state
	added    []string // raw presentations in the order the client added them during the current poll
	superBy  map[string]*c16VP // presentation -> the presentation that displaced it on the server
	replayCase map[string]any // replay case reported with a violation (nil = configuration + history)
	alsoClient bool // submit() also hands the presentation to the CLIENT's verifier (what the client does with a lying server's answer)
	rowsOK   bool // cache of the server rows (invalidated by every accepted registration / inject / reset)
	rowsC    []c16Row
	seedC    string
	tsC      int
}

func (w *c16World) serverRows() ([]c16Row, string, int) {
	if !w.rowsOK {
		w.rowsC, w.seedC, w.tsC = c16Rows(w.e.t, w.e.srvDB)
		w.rowsOK = true
	}
	return w.rowsC, w.seedC, w.tsC
}

type c16SvcModel struct {
	model   map[string]*c16Entry
	modelTs int
}

// on runs fn with the harness helpers switched to service svc (rows, reference predicate, minted audiences, reference list).
func (w *c16World) on(svc string, fn func()) {
	if svc == c16Cur {
		fn()
		return
	}
	old := c16Cur
	w.svcModel[old] = &c16SvcModel{w.model, w.modelTs}
	m := w.svcModel[svc]
	if m == nil {
		m = &c16SvcModel{model: map[string]*c16Entry{}}
	}
	c16Cur, w.model, w.modelTs, w.rowsOK = svc, m.model, m.modelTs, false
	defer func() {
		w.svcModel[svc] = &c16SvcModel{w.model, w.modelTs}
		c16Cur, w.model, w.modelTs, w.rowsOK = old, w.svcModel[old].model, w.svcModel[old].modelTs, false
	}()
	fn()
}

func (w *c16World) services() []string {
	if w.cfg.TwoServices {
		return []string{c16Service, c16ServiceB}
	}
	return []string{c16Service}
}

// otherServices: observable state (live rows, seed, timestamp) of every service except the current one, on one side.
func (w *c16World) otherServices(db *gorm.DB) string {
	if !w.cfg.TwoServices {
		return ""
	}
	var sb strings.Builder
	cur := c16Cur
	now := w.e.now()
	for _, svc := range w.services() {
		if svc == cur {
			continue
		}
		c16Cur = svc
		rows, seed, ts := c16Rows(w.e.t, db)
		c16Cur = cur
		fmt.Fprintf(&sb, "%s[%s %d]", svc, seed, ts)
		for _, r := range rows {
			if r.Exp > now { // expired rows are pruned by ANY add (the prune is not per service) and are invisible anyway
				fmt.Fprintf(&sb, "(%s %d %v)", r.ID, r.Ts, r.Validated)
			}
		}
	}
	return sb.String()
}

func (e *c16Env) newWorld(cfg c16Config) *c16World {
	c16Cur = c16Service
	c16Wipe(e.t, e.srvDB)
	c16Wipe(e.t, e.cliDB)
	vtime.Freeze(e.base)
	e.rndCtr, e.rndBuf = 0, nil
	if len(e.factsCache) > 20000 {
		e.factsCache = map[string]c16Facts{}
	}
	uuid.SetRand(c16Rand{e})
	w := &c16World{e: e, cfg: cfg, model: map[string]*c16Entry{}, prev: make([]*c16VP, cfg.K), known: map[string]bool{},
		injected: map[string]bool{}, lastTs: map[string]int{}, superBy: map[string]*c16VP{}, svcModel: map[string]*c16SvcModel{}}
	w.direct = c16Direct{w}
	w.bootServer()
	w.bootClient()
	return w
}

// c16SQLEngine hands Module.Start the database of one side (nothing else of the storage engine is used by Start).
type c16SQLEngine struct {
	storage.Engine
	db *gorm.DB
}

func (s c16SQLEngine) GetSQLDatabase() *gorm.DB { return s.db }

// bootServer / bootClient bring a side up the way the node does at boot: a new Module whose Start() runs the product's
// own constructor path (newSQLStore over the side's SQL database, client updater, registration manager; no refresh
// goroutine because the interval is 0). The first boot and every restart(server) / restart(client) event use the same
// path, so a restart is "a new process on the SAME database".
func (w *c16World) bootServer() {
	e := w.e
	w.srv = &Module{storageInstance: c16SQLEngine{db: e.srvDB}, vcrInstance: e.vcr, allDefinitions: e.defs, serverDefinitions: e.defs}
	if err := w.srv.Start(); err != nil {
		e.t.Fatalf("server Start: %v", err)
	}
	w.rowsOK = false
}

func (w *c16World) bootClient() {
	e := w.e
	w.cli = &Module{storageInstance: c16SQLEngine{db: e.cliDB}, vcrInstance: e.vcr, allDefinitions: e.defs, httpClient: w.direct}
	if err := w.cli.Start(); err != nil {
		e.t.Fatalf("client Start: %v", err)
	}
	cli := w.cli
	// the client's verifier with an environment answer: presentations of the DID in w.failing cannot be verified at the
	// moment (e.g. the DID cannot be resolved) — a TRANSIENT failure, gone as soon as w.failing is cleared
	verify := func(def ServiceDefinition, vp vc.VerifiablePresentation) error {
		if signer, err := credential.PresentationSigner(vp); err == nil && w.failing != "" && signer.String() == w.failing {
			return errors.New("verif: transient failure: unable to resolve the signer's DID right now")
		}
		return cli.verifyRegistration(def, vp)
	}
	w.cli.clientUpdater.verifier = func(def ServiceDefinition, vp vc.VerifiablePresentation) error {
		w.added = append(w.added, vp.Raw()) // updateService verifies right after every add: this is the processing order
		return verify(def, vp)
	}
	w.cli.registrationManager.verifier = verify
}

// restartChecks: restart(server) and restart(client) in the current state; a restart must change NOTHING observable
// (seed, timestamps, entries, the client's remembered timestamp). The oracles that follow run on the restarted sides.
func (w *c16World) restartChecks() int {
	for _, side := range []string{"server", "client"} {
		if w.dirty {
			return 0
		}
		_, seed0, ts0 := c16Rows(w.e.t, w.sideDB(side))
		if side == "server" {
			w.bootServer()
		} else {
			w.bootClient()
		}
		if c := w.computeCanon(); c != w.canon {
			_, seed1, ts1 := c16Rows(w.e.t, w.sideDB(side))
			aspect := "entries"
			if seed0 != seed1 || ts0 != ts1 {
				aspect = "seed-or-timestamp"
			}
			w.violation("C16|"+side+"|restart-changed-state|"+aspect,
				fmt.Sprintf("restarting the %s on its own database changed the observable state (seed %q -> %q, timestamp %d -> %d)", side, seed0, seed1, ts0, ts1))
		}
	}
	return 2
}

func (w *c16World) sideDB(side string) *gorm.DB {
	if side == "server" {
		return w.e.srvDB
	}
	return w.e.cliDB
}

func (w *c16World) histStrings() []string {
	out := make([]string, len(w.hist))
	for i, h := range w.hist {
		out[i] = h.String()
	}
	return out
}

func (w *c16World) violation(sig, what string) {
	w.dirty = true
	var rc any = map[string]any{"config": w.cfg.Name, "hist": w.hist}
	if w.replayCase != nil {
		rc = w.replayCase
	}
	w.e.r.Violation(sig, what+" — history "+strings.Join(w.histStrings(), ", "), rc)
}

type c16Row struct {
	Signer    string
	Ts        int
	Raw       string
	ID        string
	Exp       int64
	Validated bool
}

func c16Rows(t *testing.T, db *gorm.DB) (rows []c16Row, seed string, ts int) {
	var recs []presentationRecord
	if err := db.Order("lamport_timestamp ASC, credential_subject_id ASC").Find(&recs, "service_id = ?", c16Cur).Error; err != nil {
		t.Fatal(err)
	}
	for _, r := range recs {
		rows = append(rows, c16Row{Signer: r.CredentialSubjectID, Ts: r.LamportTimestamp, Raw: r.PresentationRaw,
			ID: r.PresentationID, Exp: r.PresentationExpiration, Validated: r.Validated.Bool()})
	}
	var svc serviceRecord
	if err := db.Find(&svc, "id = ?", c16Cur).Error; err != nil {
		t.Fatal(err)
	}
	return rows, svc.Seed, svc.LastLamportTimestamp
}

// admissibleNow: the reference predicate accepts the presentation in the current state of the current service's list and
// it is not a repetition of a listed (signer, id) pair. Such a presentation would be accepted and change the list.
func (w *c16World) admissibleNow(vp *c16VP) bool {
	pre, _, _ := w.serverRows()
	listed := func(signer string) string {
		for _, r := range pre {
			if r.Signer == signer {
				return r.ID
			}
		}
		return ""
	}
	ok, _ := w.e.ref(vp.Facts, w.e.now(), listed)
	if !ok {
		return false
	}
	for _, r := range pre {
		if r.Signer == vp.Facts.Signer && r.ID == vp.Facts.ID && vp.Facts.ID != "" {
			return false
		}
	}
	return true
}

func (w *c16World) partyName(did string) string {
	if p := w.e.byDID[did]; p != nil {
		return p.name
	}
	return "an unknown party"
}

func (w *c16World) subjectIdx(did string) int {
	if p := w.e.byDID[did]; p != nil {
		return p.idx
	}
	return -1
}

// submit offers a presentation to the real server and judges the answer. honest: the harness expects it
// to be admissible (vacuity guard only). thirdParty: a replay by someone else (observation only).
func (w *c16World) submit(vp *c16VP, label string, honest bool) bool {
	e := w.e
	now := e.now()
	pre, _, _ := w.serverRows()
	listed := func(signer string) string {
		for _, r := range pre {
			if r.Signer == signer {
				return r.ID
			}
		}
		return ""
	}
	ok, clause := e.ref(vp.Facts, now, listed)
	othersBefore := w.otherServices(e.srvDB)
	duplicate := false
	for _, r := range pre {
		if r.Signer == vp.Facts.Signer && r.ID == vp.Facts.ID && vp.Facts.ID != "" {
			duplicate = true
		}
	}
	err := w.direct.Register(context.Background(), "", vp.VP)
	accepted := err == nil
	e.stats["submissions"]++
	if w.alsoClient && !vp.Facts.Retraction && !w.dirty {
		// the same bytes as a (possibly lying) server's answer to the client: the client's own verification decides
		// what its Search may return
		if rt, rerr := c16RoundTrip(vp.VP); rerr == nil {
			e.stats["client_verifications"]++
			if cerr := w.cli.registrationManager.verifier(e.defs[c16Cur], rt); cerr == nil && !ok {
				w.violation("C16|client|verifier-accepts-although-reference-refuses|"+clause,
					fmt.Sprintf("the client's verifier accepts a presentation (%s) that the reference predicate refuses: %s", label, clause))
				return accepted
			}
		}
	}
	if w.cfg.TwoServices && !w.dirty && w.otherServices(e.srvDB) != othersBefore {
		w.violation("C16|server|event-on-one-service-changed-another",
			fmt.Sprintf("offering a presentation (%s) to service %s changed the live entries, seed or timestamp of another service", label, c16Cur))
		return accepted
	}
	if accepted {
		e.r.Outcome("register:accepted")
	} else {
		msg := err.Error()
		if i := strings.LastIndex(msg, "\n"); i >= 0 {
			msg = msg[i+1:]
		}
		if len(msg) > 60 {
			msg = msg[:60]
		}
		for _, p := range e.byDID {
			msg = strings.ReplaceAll(msg, p.did, p.name)
		}
		e.r.Outcome("register:refused:" + msg)
	}
	if accepted && !ok {
		w.violation("C16|server|listed-although-reference-refuses|"+clause,
			fmt.Sprintf("server accepted a presentation (%s) that the reference predicate refuses: %s", label, clause))
		return true
	}
	if !accepted && ok && !duplicate && honest {
		e.r.Observation("admissible-registration-refused", map[string]any{"label": label, "error": err.Error(), "hist": w.histStrings()})
		e.stats["admissible_refused"]++
	}
	if accepted && duplicate {
		e.r.Observation("duplicate-id-accepted", map[string]any{"label": label, "hist": w.histStrings()})
	}
	if !accepted {
		// a refused registration must leave the list alone: judged by comparing the canonical state after the
		// whole defective alphabet has been offered (judge) — nothing is re-read here
		return false
	}
	w.rowsOK = false
	post, postSeed, postTs := w.serverRows()
	// accepted: timestamps strictly increasing within a seed
	var mine *c16Row
	for i := range post {
		if post[i].Raw == vp.Raw {
			mine = &post[i]
		}
	}
	// ownership: an accepted presentation signed with a key of X may replace X's entry and nothing else. Entries of every
	// other subject stay as they were (expired ones excepted: any accepted registration prunes them).
	for _, r := range pre {
		if r.Signer == vp.Facts.Signer || r.Exp < now {
			continue
		}
		kept := false
		for _, q := range post {
			if q.Raw == r.Raw && q.Ts == r.Ts && q.Signer == r.Signer {
				kept = true
			}
		}
		if !kept {
			by := "registration"
			if vp.Facts.Retraction {
				by = "retraction"
			}
			w.violation("C16|server|entry-of-another-subject-removed-or-replaced|by-"+by,
				fmt.Sprintf("an accepted %s (%s) signed by %s removed or replaced the live entry of another subject", by, label, w.partyName(vp.Facts.Signer)))
			return true
		}
	}
	if mine != nil && mine.Signer != vp.Facts.Signer {
		w.violation("C16|server|entry-filed-under-another-subject",
			fmt.Sprintf("the accepted presentation (%s) signed by %s is listed as the entry of %s", label, w.partyName(vp.Facts.Signer), w.partyName(mine.Signer)))
		return true
	}
	if mine == nil {
		e.r.Observation("accepted-registration-not-listed", map[string]any{"label": label, "hist": w.histStrings()})
	} else {
		if last, seen := w.lastTs[c16Cur+"|"+postSeed]; seen && mine.Ts <= last {
			w.violation("C16|server|timestamp-not-increasing",
				fmt.Sprintf("registration got timestamp %d after %d had been handed out under the same seed", mine.Ts, last))
		}
		if mine.Ts > w.lastTs[c16Cur+"|"+postSeed] {
			w.lastTs[c16Cur+"|"+postSeed] = mine.Ts
		}
		if postTs < mine.Ts {
			w.violation("C16|server|service-timestamp-behind-entry", fmt.Sprintf("service timestamp %d < entry timestamp %d", postTs, mine.Ts))
		}
	}
	// reference list
	w.known[vp.Raw] = true
	for s, en := range w.model {
		if en.VP.Facts.Exp < now {
			delete(w.model, s)
		}
	}
	kind := "reg"
	if vp.Facts.Retraction {
		kind = "retract"
	}
	if old := w.model[vp.Facts.Signer]; old != nil && old.VP.Raw != vp.Raw {
		w.superBy[old.VP.Raw] = vp
		if i := w.subjectIdx(vp.Facts.Signer); old.Kind == "reg" && i >= 0 && i < w.cfg.K {
			w.prev[i] = old.VP
		}
	}
	delete(w.superBy, vp.Raw)
	w.modelTs++
	w.model[vp.Facts.Signer] = &c16Entry{Ts: w.modelTs, VP: vp, Kind: kind}
	return true
}

func (w *c16World) regVP(s int, validity int64) *c16VP {
	p := w.e.subjects[s]
	creds := []string{w.e.cred(c16CredOpt{Type: "TestCredential", Subject: p})}
	if c16Cur == c16ServiceB {
		creds = append(creds, w.e.cred(c16CredOpt{Type: "RoleCredential", Subject: p}))
	}
	return w.e.buildVP(c16VPOpt{Signer: p, ExpIn: validity, Creds: creds})
}

// otherListed: the listed entry of the lowest-numbered subject other than s whose id differs from s's own listed id
func (w *c16World) otherListed(s int) *c16Entry {
	own := w.model[w.e.subjects[s].did]
	for t := 0; t < w.cfg.K; t++ {
		if en := w.model[w.e.subjects[t].did]; t != s && en != nil && (own == nil || own.VP.Facts.ID != en.VP.Facts.ID) {
			return en
		}
	}
	return nil
}

func (w *c16World) reset() {
	c16Wipe(w.e.t, w.e.srvDB)
	w.rowsOK = false
	w.bootServer() // a new process on an empty database
	for s, en := range w.model {
		if en.Kind == "reg" {
			if i := w.subjectIdx(s); i >= 0 && i < w.cfg.K {
				w.prev[i] = en.VP
			}
		}
	}
	w.model = map[string]*c16Entry{}
	w.modelTs = 0
	w.hadReset = true
}

// pollMenu: the poll events of the current state — one per resolution of the batch's processing order (see c16Event.R).
func (w *c16World) pollMenu() []c16Event {
	_, _, cts := c16Rows(w.e.t, w.e.cliDB)
	batch, _, _, err := w.srv.Get(context.Background(), c16Cur, cts)
	if err != nil {
		w.e.t.Fatal(err)
	}
	now := w.e.now()
	var expired []string
	for _, vp := range batch {
		if f := w.e.facts(vp.Raw()); f.Exp <= now {
			if i := w.subjectIdx(f.Signer); i >= 0 && i < 26 {
				expired = append(expired, string(rune('a'+i)))
			}
		}
	}
	if len(batch) < 2 || len(expired) == 0 {
		evs := []c16Event{{Op: "poll"}}
		if w.cfg.Validation {
			// one more poll per subject whose (otherwise verifiable) new entry meets a transient verifier failure
			var fs []string
			for _, vp := range batch {
				f := w.e.facts(vp.Raw())
				held, _ := w.cli.store.exists(c16Cur, f.Signer, f.ID)
				if ok, _ := w.e.ref(f, now, nil); ok && !held {
					if i := w.subjectIdx(f.Signer); i >= 0 && i < w.cfg.K {
						fs = append(fs, string(rune('a'+i)))
					}
				}
			}
			sort.Strings(fs)
			for _, x := range fs {
				evs = append(evs, c16Event{Op: "poll", F: x})
			}
		}
		return evs
	}
	sort.Strings(expired)
	var evs []c16Event
	if len(batch) > len(expired) {
		evs = append(evs, c16Event{Op: "poll", R: "live"})
	}
	for _, x := range expired {
		evs = append(evs, c16Event{Op: "poll", R: x})
	}
	return evs
}

// pollLabelled performs a poll and checks that the real code took the processing order the label names.
func (w *c16World) pollLabelled(label string, failing string) {
	w.added = nil
	if failing != "" {
		w.failing = w.e.subjects[int(failing[0]-'a')].did
	}
	w.fetch()
	w.failing = ""
	if !w.cfg.Validation {
		w.validatePass() // the node's periodic update does fetch + validate in one tick; with Validation they are separate events
	}
	if label == "" || len(w.added) == 0 {
		return // unambiguous batch, or nothing was added (every label leads to the same state)
	}
	obs := "live"
	if f := w.e.facts(w.added[len(w.added)-1]); f.Exp <= w.e.now() {
		obs = "?"
		if i := w.subjectIdx(f.Signer); i >= 0 && i < 26 {
			obs = string(rune('a' + i))
		}
	}
	if obs != label {
		w.retry = true
	}
}

// fetch: the client's updateService for every followed service (fixed order; the product ranges over a map, but the
// services are independent — which the isolation clause below checks).
func (w *c16World) fetch() {
	ctx := context.Background()
	for _, svc := range w.services() {
		w.on(svc, func() {
			before := w.otherServices(w.e.cliDB)
			if err := w.cli.clientUpdater.updateService(ctx, w.e.defs[svc]); err != nil {
				w.e.r.Observation("client-update-error", map[string]any{"error": err.Error(), "hist": w.histStrings()})
				w.e.stats["poll_errors"]++
			}
			if w.cfg.TwoServices && !w.dirty && w.otherServices(w.e.cliDB) != before {
				w.violation("C16|client|event-on-one-service-changed-another",
					fmt.Sprintf("the client's update of service %s changed its live entries, seed or timestamp of another service", svc))
			}
		})
	}
	w.e.stats["polls"]++
}

// validatePass: the product's own background pass over stored-but-unvalidated entries (+ removal of revoked ones)
func (w *c16World) validatePass() {
	if err := w.cli.registrationManager.validate(); err != nil {
		w.e.r.Observation("client-validate-error", map[string]any{"error": err.Error(), "hist": w.histStrings()})
	}
	if err := w.cli.registrationManager.removeRevoked(); err != nil {
		w.e.r.Observation("client-removeRevoked-error", map[string]any{"error": err.Error(), "hist": w.histStrings()})
	}
}

func (w *c16World) poll() {
	w.fetch()
	w.validatePass()
}

func (w *c16World) apply(ev c16Event) {
	e := w.e
	w.hist = append(w.hist, ev)
	switch ev.Op {
	case "reg":
		w.submit(w.regVP(ev.S, c16Long), "fresh registration", true)
	case "regshort":
		w.submit(w.regVP(ev.S, c16Short), "fresh short registration", true)
	case "retract":
		en := w.model[e.subjects[ev.S].did]
		if en == nil {
			return
		}
		vp := e.buildVP(c16VPOpt{Signer: e.subjects[ev.S], ExpIn: c16Long, Types: []string{c16RetractType},
			Extra: map[string]any{"retract_jti": en.VP.Facts.ID}})
		w.submit(vp, "retraction by the signer", true)
	case "regdup":
		// a valid registration of subject S that carries the id (jti) of ANOTHER subject's listed entry
		other := w.otherListed(ev.S)
		if other == nil {
			return
		}
		p := e.subjects[ev.S]
		if w.submit(e.buildVP(c16VPOpt{Signer: p, ID: other.VP.Facts.ID, ExpIn: c16Long,
			Creds: []string{e.cred(c16CredOpt{Type: "TestCredential", Subject: p})}}), "registration under the id of another subject's entry", true) {
			e.r.Outcome("event:regdup:accepted")
		}
	case "retractx":
		// a retraction by S of its OWN entry whose iss / sub claims name another subject (nothing ties the claims of a
		// credential-less presentation to the signing key: the signer is who counts)
		en := w.model[e.subjects[ev.S].did]
		if en == nil {
			return
		}
		o := e.subjects[(ev.S+1)%w.cfg.K]
		if w.submit(e.buildVP(c16VPOpt{Signer: e.subjects[ev.S], ExpIn: c16Long, Types: []string{c16RetractType},
			Extra: map[string]any{"retract_jti": en.VP.Facts.ID, "iss": o.did, "sub": o.did}}), "retraction by the signer that names another subject", true) {
			e.r.Outcome("event:retractx:accepted")
		}
	case "replay":
		vp := w.prev[ev.S]
		if vp == nil {
			return
		}
		cur := w.model[vp.Facts.Signer]
		if w.submit(vp, "third-party replay of an earlier presentation", false) && cur != nil && !w.dirty {
			e.r.Observation("third-party-replay-displaces-newer-entry", map[string]any{"displaced": cur.Kind, "hist": w.histStrings()})
		}
	case "inject":
		// a server that lists something it should not: the client has to verify for itself
		p := e.subjects[ev.S]
		vp := e.buildVP(c16VPOpt{Signer: p, SignKey: e.mallory.key, ExpIn: c16Long,
			Creds: []string{e.cred(c16CredOpt{Type: "TestCredential", Subject: p})}})
		w.inject(vp)
	case "expire":
		vtime.Advance(c16Advance)
	case "poll":
		w.pollLabelled(ev.R, ev.F)
	case "validate":
		w.validatePass()
	case "regb":
		w.on(c16ServiceB, func() { w.submit(w.regVP(ev.S, c16Long), "fresh registration on service B", true) })
	case "retractb":
		w.on(c16ServiceB, func() {
			en := w.model[e.subjects[ev.S].did]
			if en == nil {
				return
			}
			vp := e.buildVP(c16VPOpt{Signer: e.subjects[ev.S], ExpIn: c16Long, Types: []string{c16RetractType},
				Extra: map[string]any{"retract_jti": en.VP.Facts.ID}})
			w.submit(vp, "retraction by the signer on service B", true)
		})
	case "restart":
		if ev.S == 0 {
			w.bootServer()
		} else {
			w.bootClient()
		}
	case "reset":
		w.reset()
	case "resetreg":
		w.reset()
		for s := 0; s < w.cfg.K; s++ {
			w.submit(w.regVP(s, c16Long), "fresh registration after reset", true)
		}
	default:
		e.t.Fatalf("unknown event %v", ev)
	}
}

// inject puts a presentation on the server's list without asking the server's checks (malicious server).
func (w *c16World) inject(vp *c16VP) {
	now := w.e.now()
	rec, err := w.srv.store.add(c16Cur, vp.VP, "", 0)
	if err != nil {
		w.e.t.Fatalf("inject: %v", err)
	}
	_ = w.srv.store.updateValidated([]presentationRecord{*rec})
	w.rowsOK = false
	w.known[vp.Raw], w.injected[vp.Raw] = true, true
	for s, en := range w.model {
		if en.VP.Facts.Exp < now {
			delete(w.model, s)
		}
	}
	if old := w.model[vp.Facts.Signer]; old != nil {
		w.superBy[old.VP.Raw] = vp
		if i := w.subjectIdx(vp.Facts.Signer); old.Kind == "reg" && i >= 0 && i < w.cfg.K {
			w.prev[i] = old.VP
		}
	}
	w.modelTs++
	w.model[vp.Facts.Signer] = &c16Entry{Ts: w.modelTs, VP: vp, Kind: "injected"}
	_, seed, ts := w.serverRows()
	if ts > w.lastTs[c16Cur+"|"+seed] {
		w.lastTs[c16Cur+"|"+seed] = ts
	}
}

func (w *c16World) enabled() []c16Event {
	var evs []c16Event
	k := w.cfg.K
	now := w.e.now()
	for s := 0; s < k; s++ {
		evs = append(evs, c16Event{Op: "reg", S: s})
	}
	if w.cfg.Short {
		for s := 0; s < k; s++ {
			evs = append(evs, c16Event{Op: "regshort", S: s})
		}
	}
	if !w.cfg.Small {
		evs = append(evs, c16Event{Op: "resetreg"})
	}
	if w.cfg.TwoServices {
		for s := 0; s < k; s++ {
			evs = append(evs, c16Event{Op: "regb", S: s})
		}
		if m := w.svcModel[c16ServiceB]; m != nil {
			for s := 0; s < k; s++ {
				if en := m.model[w.e.subjects[s].did]; en != nil && en.Kind == "reg" {
					evs = append(evs, c16Event{Op: "retractb", S: s})
				}
			}
		}
	}
	if w.cfg.Owners {
		for s := 0; s < k; s++ {
			if w.otherListed(s) != nil {
				evs = append(evs, c16Event{Op: "regdup", S: s})
			}
			if en := w.model[w.e.subjects[s].did]; en != nil && en.Kind == "reg" {
				evs = append(evs, c16Event{Op: "retractx", S: s})
			}
		}
	}
	if w.cfg.Inject {
		for s := 0; s < k && s < w.cfg.InjectS; s++ {
			evs = append(evs, c16Event{Op: "inject", S: s})
		}
	}
	for s := 0; s < k; s++ {
		if en := w.model[w.e.subjects[s].did]; en != nil && en.Kind == "reg" && !(w.cfg.Validation && w.cfg.Small && !w.e.r.Thorough()) {
			evs = append(evs, c16Event{Op: "retract", S: s})
		}
	}
	if w.cfg.Replay {
		for s := 0; s < k; s++ {
			if vp := w.prev[s]; vp != nil && vp.Facts.Exp > now {
				if cur := w.model[vp.Facts.Signer]; cur == nil || cur.VP.Raw != vp.Raw {
					evs = append(evs, c16Event{Op: "replay", S: s})
				}
			}
		}
	}
	evs = append(evs, c16Event{Op: "expire"})
	evs = append(evs, w.pollMenu()...)
	if w.cfg.Validation {
		var n int64
		w.e.cliDB.Model(&presentationRecord{}).Where("validated = 0").Count(&n)
		if n > 0 {
			evs = append(evs, c16Event{Op: "validate"})
		}
	}
	if !w.cfg.Small {
		evs = append(evs, c16Event{Op: "reset"}, c16Event{Op: "restart", S: 0}, c16Event{Op: "restart", S: 1})
	}
	return evs
}

// computeCanon: canonical form of the state. Presentations are renamed by first appearance in a fixed walk
// (server rows by timestamp, client rows by signer, replay candidates by subject); times are kept as
// remaining lifetime. Everything the handlers and the harness's event menu read is in here: server rows
// (signer, timestamp, kind, lifetime, which presentation), server seed presence and timestamp, client rows
// (signer, which presentation, validated, lifetime), client timestamp and whether its seed equals the
// server's, and the replay candidates.
func (w *c16World) computeCanon() string {
	out := w.canonOfCurrent()
	if w.cfg.TwoServices {
		w.on(c16ServiceB, func() { out += " || B: " + w.canonOfCurrent() })
	}
	return out
}

func (w *c16World) canonOfCurrent() string {
	e := w.e
	now := e.now()
	names := map[string]int{}
	name := func(raw string) int {
		if n, ok := names[raw]; ok {
			return n
		}
		names[raw] = len(names)
		return names[raw]
	}
	ttl := func(exp int64) int64 {
		if exp <= now {
			return 0
		}
		return exp - now
	}
	ids := map[string]int{}
	kind := func(raw string) string {
		f := e.facts(raw)
		k := "r"
		switch {
		case f.Retraction:
			k = "t"
		case w.injected[raw]:
			k = "x"
		}
		// id class (two entries sharing one presentation id) and "names another party than its signer" are part of the
		// state: both are invisible in ordinary histories (every id is fresh, every token names its signer)
		if _, ok := ids[f.ID]; !ok {
			ids[f.ID] = len(ids)
		}
		k += fmt.Sprintf("i%d", ids[f.ID])
		if (f.Iss != "" && f.Iss != f.Signer) || (f.Sub != "" && f.Sub != f.Signer) {
			k += "n"
		}
		return k
	}
	srows, sseed, sts := c16Rows(e.t, e.srvDB)
	crows, cseed, cts := c16Rows(e.t, e.cliDB)
	sort.Slice(crows, func(i, j int) bool { return w.subjectIdx(crows[i].Signer) < w.subjectIdx(crows[j].Signer) })
	var sb strings.Builder
	fmt.Fprintf(&sb, "S[%v %d]", sseed != "", sts)
	for _, r := range srows {
		fmt.Fprintf(&sb, "(%d %d %s v%d %d %v)", w.subjectIdx(r.Signer), r.Ts, kind(r.Raw), name(r.Raw), ttl(r.Exp), r.Validated)
	}
	rel := "diff"
	if cseed == "" {
		rel = "none"
	} else if cseed == sseed {
		rel = "same"
	}
	fmt.Fprintf(&sb, " C[%s %d]", rel, cts)
	for _, r := range crows {
		fmt.Fprintf(&sb, "(%d %d %s v%d %d %v)", w.subjectIdx(r.Signer), r.Ts, kind(r.Raw), name(r.Raw), ttl(r.Exp), r.Validated)
	}
	sb.WriteString(" P")
	for _, vp := range w.prev {
		if vp == nil || vp.Facts.Exp <= now {
			sb.WriteString("(-)")
		} else {
			fmt.Fprintf(&sb, "(v%d %d)", name(vp.Raw), ttl(vp.Facts.Exp))
		}
	}
	return sb.String()
}

// ---------------------------------------------------------------- oracles on a state ----

// checkServerState: direct clauses of the statement on the real list.
func (w *c16World) checkServerState() {
	e := w.e
	rows, seed, ts := c16Rows(e.t, e.srvDB)
	perSigner := map[string]int{}
	seenTs := map[int]bool{}
	for _, r := range rows {
		perSigner[r.Signer]++
		if perSigner[r.Signer] > 1 {
			w.violation("C16|server|more-than-one-entry-per-subject", "the list holds two entries of one subject")
		}
		if seenTs[r.Ts] {
			w.violation("C16|server|timestamp-handed-out-twice", fmt.Sprintf("two entries carry timestamp %d", r.Ts))
		}
		seenTs[r.Ts] = true
		if r.Ts > ts {
			w.violation("C16|server|service-timestamp-behind-entry", fmt.Sprintf("entry timestamp %d > service timestamp %d", r.Ts, ts))
		}
		if !w.known[r.Raw] {
			w.violation("C16|server|listed-but-never-accepted", "the list holds a presentation no accepted registration carried")
		}
		// ownership of every listed entry: it is the entry of the subject whose key signed it
		if f := e.facts(r.Raw); !w.injected[r.Raw] && !w.dirty && (f.Signer != r.Signer || !f.SigOK) {
			w.violation("C16|server|entry-filed-under-a-subject-that-did-not-sign-it",
				fmt.Sprintf("the list holds, as the entry of %s, a presentation signed by %s (signature by that party's key: %v)", w.partyName(r.Signer), w.partyName(f.Signer), f.SigOK))
		}
	}
	// API view equals the rows
	got, gseed, gts, err := w.srv.Get(context.Background(), c16Cur, 0)
	if err != nil {
		e.t.Fatalf("Get: %v", err)
	}
	if len(got) != len(rows) || gseed != seed || gts != ts {
		e.r.Observation("get-differs-from-rows", map[string]any{"hist": w.histStrings()})
	}
	// reference list (conformance, not judged)
	if len(rows) != len(w.model) {
		e.r.Observation("list-differs-from-reference-list", map[string]any{"rows": len(rows), "model": len(w.model), "hist": w.histStrings()})
		e.stats["model_divergence"]++
	} else {
		for _, r := range rows {
			if en := w.model[r.Signer]; en == nil || en.VP.Raw != r.Raw {
				e.r.Observation("list-differs-from-reference-list", map[string]any{"hist": w.histStrings()})
				e.stats["model_divergence"]++
				break
			}
		}
	}
}

func (w *c16World) searchRaws() []string {
	res, err := w.cli.Search(c16Cur, nil)
	if err != nil {
		w.e.t.Fatalf("Search: %v", err)
	}
	var out []string
	for _, r := range res {
		out = append(out, r.Presentation.Raw())
	}
	sort.Strings(out)
	return out
}

// checkClientSearch: search returns only entries the client verified itself that have not expired.
func (w *c16World) checkClientSearch(stage string) []string {
	e := w.e
	now := e.now()
	raws := w.searchRaws()
	for _, raw := range raws {
		f := e.facts(raw)
		if f.Retraction {
			e.r.Observation("client-search-returns-retraction", map[string]any{"hist": w.histStrings()})
			continue
		}
		if ok, clause := e.ref(f, now, nil); !ok {
			w.violation("C16|client|search-returns-unverifiable-or-expired|"+clause,
				fmt.Sprintf("client Search returned a presentation the reference predicate refuses (%s) [%s]", clause, stage))
		}
	}
	return raws
}

// serverLive: registrations on the real list that are verified (reference predicate) and unexpired.
func (w *c16World) serverLive() (live []string, tsOf map[string]int) {
	e := w.e
	now := e.now()
	rows, _, _ := c16Rows(e.t, e.srvDB)
	tsOf = map[string]int{}
	for _, r := range rows {
		f := e.facts(r.Raw)
		if f.Retraction {
			continue
		}
		if ok, _ := e.ref(f, now, nil); ok {
			live = append(live, r.Raw)
			tsOf[r.Raw] = r.Ts
		}
	}
	sort.Strings(live)
	return
}

func (w *c16World) clientSnapshot() string {
	out := ""
	for _, svc := range w.services() {
		w.on(svc, func() { out += w.clientSnapshotOfCurrent() })
	}
	return out
}

func (w *c16World) clientSnapshotOfCurrent() string {
	rows, seed, ts := c16Rows(w.e.t, w.e.cliDB)
	now := w.e.now()
	var live []c16Row
	for _, r := range rows {
		if r.Exp > now { // expired rows are invisible to Search and are pruned by the next add: churn among them is not a change
			live = append(live, r)
		}
	}
	return ev.Key(live) + seed + fmt.Sprint(ts)
}

// fairSuffix: polls until a poll changes nothing; then the client's Search must be the server's live set.
func (w *c16World) fairSuffix() {
	e := w.e
	const maxRounds = 6
	rounds := 0
	prev := w.clientSnapshot()
	for ; rounds < maxRounds; rounds++ {
		w.poll()
		cur := w.clientSnapshot()
		if cur == prev {
			break
		}
		prev = cur
	}
	if rounds == maxRounds {
		w.violation("C16|client|converge|no-quiescence", "client still changes after 6 polls without any other event")
		return
	}
	if int64(rounds) > e.stats["max_suffix_rounds"] {
		e.stats["max_suffix_rounds"] = int64(rounds)
	}
	for _, svc := range w.services() {
		if !w.dirty {
			w.on(svc, w.compareWithServer)
		}
	}
}

// compareWithServer: after the fair suffix the client's Search of the current service must be that service's live set.
func (w *c16World) compareWithServer() {
	e := w.e
	got := w.checkClientSearch("after fair suffix")
	want, tsOf := w.serverLive()
	_, _, cts := c16Rows(e.t, e.cliDB)
	gotSet := map[string]bool{}
	for _, g := range got {
		gotSet[g] = true
	}
	wantSet := map[string]bool{}
	for _, x := range want {
		wantSet[x] = true
	}
	ctxt := "same-seed"
	if w.hadReset {
		ctxt = "after-seed-change"
	}
	for _, x := range want {
		if !gotSet[x] {
			shape := "entry-after-client-timestamp"
			if tsOf[x] <= cts {
				shape = "entry-at-or-before-client-timestamp"
			}
			w.violation("C16|client|converge|missing|"+ctxt+"|"+shape,
				fmt.Sprintf("after a quiescent sequence of polls the client's Search lacks a live server entry (server ts %d, client timestamp %d; client holds %d of %d)", tsOf[x], cts, len(got), len(want)))
			return
		}
	}
	for _, g := range got {
		if !wantSet[g] {
			// structural class: was the entry displaced on the server by presentations that have all expired since (and
			// were pruned, or are no longer handed to a client that is past their timestamp)?
			class, n := ctxt, 0
			for sup := w.superBy[g]; sup != nil && n < 16; sup, n = w.superBy[sup.Raw], n+1 {
				if sup.Facts.Exp > e.now() {
					n = -1
					break
				}
			}
			if n > 0 {
				class = "superseding-presentation-expired-before-client-polled"
			}
			w.violation("C16|client|converge|extra|"+class,
				"after a quiescent sequence of polls the client's Search returns an entry that is not in the server's live set")
			return
		}
	}
	e.r.Outcome(fmt.Sprintf("converged:%d-entries", len(want)))
}

// ---------------------------------------------------------------- defective registrations ----

type c16Defect struct {
	Label string
	Build func(w *c16World, s int) *c16VP // nil = not applicable in this state
	PerS  bool                            // tried for every subject
	State bool                            // built from the current list (never cached)
}

// c16RetractionVariants: every generic defect of the alphabet that is meaningful for a RETRACTION presentation.
// A retraction is a listed presentation too: it must satisfy every clause of the statement that applies to it.
type c16RetractionVariant struct {
	Label    string
	NeedsOld bool // only meaningful when the subject has a listed entry
	Mut      func(w *c16World, o *c16VPOpt, listedID string)
}

func c16RetractionVariants() []c16RetractionVariant {
	return []c16RetractionVariant{
		{Label: "valid too long", Mut: func(w *c16World, o *c16VPOpt, _ string) { o.ExpIn = c16MaxValidity + 60 }},
		{Label: "valid 365 days", Mut: func(w *c16World, o *c16VPOpt, _ string) { o.ExpIn = 365 * 24 * 3600 }},
		{Label: "no exp", Mut: func(w *c16World, o *c16VPOpt, _ string) { o.NoExp = true }},
		{Label: "wrong audience", Mut: func(w *c16World, o *c16VPOpt, _ string) { o.Aud = []string{"other_service"} }},
		{Label: "no audience", Mut: func(w *c16World, o *c16VPOpt, _ string) { o.NoAud = true }},
		{Label: "no id", Mut: func(w *c16World, o *c16VPOpt, _ string) { o.NoID = true }},
		{Label: "json-ld presentation", Mut: func(w *c16World, o *c16VPOpt, _ string) { o.LDP = true }},
		{Label: "disallowed did method", Mut: func(w *c16World, o *c16VPOpt, _ string) { o.Signer = w.e.keyHolder }},
		{Label: "bad presentation signature", Mut: func(w *c16World, o *c16VPOpt, _ string) { o.SignKey = w.e.mallory.key }},
		{Label: "expired presentation", Mut: func(w *c16World, o *c16VPOpt, _ string) { o.NbfIn, o.ExpIn = -7200, -3600 }},
		{Label: "presentation not yet valid", Mut: func(w *c16World, o *c16VPOpt, _ string) { o.NbfIn = 1800 }},
		{Label: "own id equals the listed id", NeedsOld: true, Mut: func(w *c16World, o *c16VPOpt, id string) { o.ID = id }},
	}
}

// c16IssDefects: the token's iss and the signing key (kid) disagree.
func c16IssDefects() []c16Defect {
	sp := func(s string) *string { return &s }
	retract := func(label string, signer func(w *c16World, s int) *c16Party, iss func(w *c16World, s int) *string) c16Defect {
		return c16Defect{Label: label, PerS: true, State: true, Build: func(w *c16World, s int) *c16VP {
			en := w.model[w.e.subjects[s].did]
			if en == nil {
				return nil
			}
			return w.e.buildVP(c16VPOpt{Signer: signer(w, s), Iss: iss(w, s), ExpIn: c16Long, Types: []string{c16RetractType},
				Extra: map[string]any{"retract_jti": en.VP.Facts.ID}})
		}}
	}
	otherSubject := func(w *c16World, s int) *c16Party { return w.e.subjects[(s+1)%w.cfg.K] }
	mallory := func(w *c16World, s int) *c16Party { return w.e.mallory }
	victim := func(w *c16World, s int) *string { return sp(w.e.subjects[s].did) }
	return []c16Defect{
		retract("retraction signed by another subject, iss = the entry's subject", otherSubject, victim),
		retract("retraction signed by another subject, no iss", otherSubject, func(w *c16World, s int) *string { return sp("") }),
		retract("retraction signed by another subject, iss = a third party", otherSubject, func(w *c16World, s int) *string { return sp(w.e.mallory.did) }),
		retract("retraction signed by a stranger, iss = the entry's subject", mallory, victim),
		retract("retraction signed by a stranger, no iss", mallory, func(w *c16World, s int) *string { return sp("") }),
		{Label: "registration whose iss names another subject", Build: func(w *c16World, s int) *c16VP {
			p := w.e.subjects[s]
			return w.e.buildVP(c16VPOpt{Signer: p, Iss: sp(w.e.subjects[(s+1)%2].did), ExpIn: c16Long,
				Creds: []string{w.e.cred(c16CredOpt{Type: "TestCredential", Subject: p})}})
		}},
		{Label: "registration whose iss names a stranger", Build: func(w *c16World, s int) *c16VP {
			p := w.e.subjects[s]
			return w.e.buildVP(c16VPOpt{Signer: p, Iss: sp(w.e.mallory.did), ExpIn: c16Long,
				Creds: []string{w.e.cred(c16CredOpt{Type: "TestCredential", Subject: p})}})
		}},
	}
}

// c16MultiCredDefects (offered to service B, whose definition asks for two credentials): presentations valid for one hour
// whose two credentials expire {never, before the presentation, after it} in every order; those with at least one
// credential expiring BEFORE the presentation are defective (the others are ordinary registrations and are not offered
// as self-loops).
func c16MultiCredDefects() []c16Defect {
	kinds := []string{"none", "before", "after"}
	var out []c16Defect
	for _, k1 := range kinds {
		for _, k2 := range kinds {
			if k1 != "before" && k2 != "before" {
				continue
			}
			k1, k2 := k1, k2
			out = append(out, c16Defect{Label: "two credentials expiring " + k1 + " / " + k2 + " the presentation", Build: func(w *c16World, s int) *c16VP {
				p := w.e.subjects[s]
				mk := func(typ, k string) string {
					switch k {
					case "none":
						return w.e.cred(c16CredOpt{Type: typ, Subject: p, NoExp: true})
					case "before":
						return w.e.cred(c16CredOpt{Type: typ, Subject: p, ExpAbs: w.e.now() + 1800})
					}
					return w.e.cred(c16CredOpt{Type: typ, Subject: p, ExpAbs: w.e.now() + 3*3600})
				}
				return w.e.buildVP(c16VPOpt{Signer: p, ExpIn: c16Short, Creds: []string{mk("TestCredential", k1), mk("RoleCredential", k2)}})
			}})
		}
	}
	// one credential missing / a third one on the two-descriptor service
	out = append(out, c16Defect{Label: "one of the two required credentials missing", Build: func(w *c16World, s int) *c16VP {
		p := w.e.subjects[s]
		return w.e.buildVP(c16VPOpt{Signer: p, ExpIn: c16Long, Creds: []string{w.e.cred(c16CredOpt{Type: "RoleCredential", Subject: p})}})
	}})
	return out
}

func c16Defects() []c16Defect {
	base := append(c16BaseDefects(), c16IssDefects()...)
	for _, v := range c16RetractionVariants() {
		v := v
		// (a) a retraction of the subject's LISTED entry (right signer, right retract_jti) that carries the defect
		base = append(base, c16Defect{Label: "retraction of the listed entry + " + v.Label, PerS: true, State: true,
			Build: func(w *c16World, s int) *c16VP {
				en := w.model[w.e.subjects[s].did]
				if en == nil {
					return nil
				}
				o := c16VPOpt{Signer: w.e.subjects[s], ExpIn: c16Long, Types: []string{c16RetractType},
					Extra: map[string]any{"retract_jti": en.VP.Facts.ID}}
				v.Mut(w, &o, en.VP.Facts.ID)
				return w.e.buildVP(o)
			}})
		if v.NeedsOld {
			continue
		}
		// (b) the same defect on a retraction that names no listed presentation (offered whether or not the subject has an entry)
		base = append(base, c16Defect{Label: "retraction of an unlisted id + " + v.Label,
			Build: func(w *c16World, s int) *c16VP {
				p := w.e.subjects[s]
				o := c16VPOpt{Signer: p, ExpIn: c16Long, Types: []string{c16RetractType},
					Extra: map[string]any{"retract_jti": p.did + "#" + w.e.newID()}}
				v.Mut(w, &o, "")
				return w.e.buildVP(o)
			}})
	}
	return base
}

func c16BaseDefects() []c16Defect {
	good := func(w *c16World, p *c16Party) []string {
		return []string{w.e.cred(c16CredOpt{Type: "TestCredential", Subject: p})}
	}
	listedReg := func(w *c16World, s int) *c16Entry {
		return w.model[w.e.subjects[s].did]
	}
	return []c16Defect{
		{Label: "json-ld presentation", Build: func(w *c16World, s int) *c16VP {
			p := w.e.subjects[s]
			return w.e.buildVP(c16VPOpt{Signer: p, ExpIn: c16Long, Creds: good(w, p), LDP: true})
		}},
		{Label: "no id", Build: func(w *c16World, s int) *c16VP {
			p := w.e.subjects[s]
			return w.e.buildVP(c16VPOpt{Signer: p, ExpIn: c16Long, Creds: good(w, p), NoID: true})
		}},
		{Label: "wrong audience", Build: func(w *c16World, s int) *c16VP {
			p := w.e.subjects[s]
			return w.e.buildVP(c16VPOpt{Signer: p, ExpIn: c16Long, Creds: good(w, p), Aud: []string{"other_service"}})
		}},
		{Label: "no audience", Build: func(w *c16World, s int) *c16VP {
			p := w.e.subjects[s]
			return w.e.buildVP(c16VPOpt{Signer: p, ExpIn: c16Long, Creds: good(w, p), NoAud: true})
		}},
		{Label: "no exp", Build: func(w *c16World, s int) *c16VP {
			p := w.e.subjects[s]
			return w.e.buildVP(c16VPOpt{Signer: p, NoExp: true, Creds: good(w, p)})
		}},
		{Label: "valid too long", Build: func(w *c16World, s int) *c16VP {
			p := w.e.subjects[s]
			return w.e.buildVP(c16VPOpt{Signer: p, ExpIn: c16MaxValidity + 60, Creds: good(w, p)})
		}},
		{Label: "outlives credential", Build: func(w *c16World, s int) *c16VP {
			p := w.e.subjects[s]
			c := w.e.cred(c16CredOpt{Type: "TestCredential", Subject: p, ExpAbs: w.e.now() + 1800})
			return w.e.buildVP(c16VPOpt{Signer: p, ExpIn: c16Short, Creds: []string{c}})
		}},
		{Label: "disallowed did method", Build: func(w *c16World, s int) *c16VP {
			p := w.e.keyHolder
			return w.e.buildVP(c16VPOpt{Signer: p, ExpIn: c16Long, Creds: good(w, p)})
		}},
		{Label: "surplus credential", Build: func(w *c16World, s int) *c16VP {
			p := w.e.subjects[s]
			cs := append(good(w, p), w.e.cred(c16CredOpt{Type: "OtherCredential", Subject: p}))
			return w.e.buildVP(c16VPOpt{Signer: p, ExpIn: c16Long, Creds: cs})
		}},
		{Label: "second credential of the required type", Build: func(w *c16World, s int) *c16VP {
			p := w.e.subjects[s]
			cs := append(good(w, p), w.e.cred(c16CredOpt{Type: "TestCredential", Subject: p, ExpAbs: w.e.base.Unix() + 29*24*3600}))
			return w.e.buildVP(c16VPOpt{Signer: p, ExpIn: c16Long, Creds: cs})
		}},
		{Label: "missing credential", Build: func(w *c16World, s int) *c16VP {
			return w.e.buildVP(c16VPOpt{Signer: w.e.subjects[s], ExpIn: c16Long})
		}},
		{Label: "credential of another type only", Build: func(w *c16World, s int) *c16VP {
			p := w.e.subjects[s]
			return w.e.buildVP(c16VPOpt{Signer: p, ExpIn: c16Long, Creds: []string{w.e.cred(c16CredOpt{Type: "OtherCredential", Subject: p})}})
		}},
		{Label: "bad presentation signature", Build: func(w *c16World, s int) *c16VP {
			p := w.e.subjects[s]
			return w.e.buildVP(c16VPOpt{Signer: p, SignKey: w.e.mallory.key, ExpIn: c16Long, Creds: good(w, p)})
		}},
		{Label: "bad credential signature", Build: func(w *c16World, s int) *c16VP {
			p := w.e.subjects[s]
			return w.e.buildVP(c16VPOpt{Signer: p, ExpIn: c16Long, Creds: []string{w.e.cred(c16CredOpt{Type: "TestCredential", Subject: p, BadSig: true})}})
		}},
		{Label: "credential of another subject", Build: func(w *c16World, s int) *c16VP {
			p := w.e.subjects[s]
			return w.e.buildVP(c16VPOpt{Signer: p, ExpIn: c16Long, Creds: good(w, w.e.mallory)})
		}},
		{Label: "expired presentation", Build: func(w *c16World, s int) *c16VP {
			p := w.e.subjects[s]
			return w.e.buildVP(c16VPOpt{Signer: p, NbfIn: -7200, ExpIn: -3600, Creds: good(w, p)})
		}},
		{Label: "presentation not yet valid", Build: func(w *c16World, s int) *c16VP {
			p := w.e.subjects[s]
			return w.e.buildVP(c16VPOpt{Signer: p, NbfIn: 1800, ExpIn: c16Long, Creds: good(w, p)})
		}},
		{Label: "retraction for unknown jti", PerS: true, Build: func(w *c16World, s int) *c16VP {
			p := w.e.subjects[s]
			return w.e.buildVP(c16VPOpt{Signer: p, ExpIn: c16Long, Types: []string{c16RetractType},
				Extra: map[string]any{"retract_jti": p.did + "#" + w.e.newID()}})
		}},
		{Label: "retraction without retract_jti", Build: func(w *c16World, s int) *c16VP {
			return w.e.buildVP(c16VPOpt{Signer: w.e.subjects[s], ExpIn: c16Long, Types: []string{c16RetractType}})
		}},
		{Label: "retraction with non-string retract_jti", Build: func(w *c16World, s int) *c16VP {
			return w.e.buildVP(c16VPOpt{Signer: w.e.subjects[s], ExpIn: c16Long, Types: []string{c16RetractType},
				Extra: map[string]any{"retract_jti": 10}})
		}},
		{Label: "retraction by another signer", PerS: true, State: true, Build: func(w *c16World, s int) *c16VP {
			en := listedReg(w, s)
			if en == nil {
				return nil
			}
			return w.e.buildVP(c16VPOpt{Signer: w.e.mallory, ExpIn: c16Long, Types: []string{c16RetractType},
				Extra: map[string]any{"retract_jti": en.VP.Facts.ID}})
		}},
		{Label: "retraction by another listed subject", PerS: true, State: true, Build: func(w *c16World, s int) *c16VP {
			en := listedReg(w, s)
			o := (s + 1) % w.cfg.K
			if en == nil || o == s {
				return nil
			}
			return w.e.buildVP(c16VPOpt{Signer: w.e.subjects[o], ExpIn: c16Long, Types: []string{c16RetractType},
				Extra: map[string]any{"retract_jti": en.VP.Facts.ID}})
		}},
		{Label: "retraction with credentials", PerS: true, State: true, Build: func(w *c16World, s int) *c16VP {
			en := listedReg(w, s)
			if en == nil {
				return nil
			}
			p := w.e.subjects[s]
			return w.e.buildVP(c16VPOpt{Signer: p, ExpIn: c16Long, Types: []string{c16RetractType}, Creds: good(w, p),
				Extra: map[string]any{"retract_jti": en.VP.Facts.ID}})
		}},
		{Label: "duplicate id (same presentation again)", PerS: true, State: true, Build: func(w *c16World, s int) *c16VP {
			en := listedReg(w, s)
			if en == nil || en.Kind == "injected" {
				return nil
			}
			return en.VP
		}},
		{Label: "duplicate id (new presentation, listed id)", PerS: true, State: true, Build: func(w *c16World, s int) *c16VP {
			en := listedReg(w, s)
			if en == nil || en.Kind != "reg" {
				return nil
			}
			p := w.e.subjects[s]
			return w.e.buildVP(c16VPOpt{Signer: p, ID: en.VP.Facts.ID, ExpIn: c16Long, Creds: good(w, p)})
		}},
	}
}

// offerDefects offers the whole defective alphabet to the real server in the current state. Every refused
// one must leave the state unchanged, so they are self-loop transitions of this state.
func (w *c16World) offerDefects() int {
	n := 0
	light := w.cfg.LeafLight && len(w.hist) >= w.cfg.Depth
	for _, d := range w.e.defects {
		if light && !d.State && !d.PerS && d.Label != "wrong audience" && d.Label != "bad presentation signature" && d.Label != "surplus credential" {
			continue
		}
		if light && strings.HasPrefix(d.Label, "retraction of the listed entry + ") {
			switch strings.TrimPrefix(d.Label, "retraction of the listed entry + ") {
			case "valid too long", "valid 365 days", "no exp", "wrong audience", "bad presentation signature", "own id equals the listed id":
			default:
				continue // quick tier, deepest level: six of the twelve retraction variants
			}
		}
		subjects := []int{0}
		if d.PerS {
			subjects = subjects[:0]
			for s := 0; s < w.cfg.K; s++ {
				subjects = append(subjects, s)
			}
		}
		for _, s := range subjects {
			if w.dirty {
				return n
			}
			var vp *c16VP
			if d.State {
				vp = d.Build(w, s)
			} else {
				// depends on the clock only: built once per (defect, subject, instant) and offered in every state
				ck := fmt.Sprintf("%s|%d|%d", d.Label, s, w.e.now())
				if vp = w.e.defectCache[ck]; vp == nil {
					vp = d.Build(w, s)
					w.e.defectCache[ck] = vp
				}
			}
			if vp == nil {
				continue
			}
			if w.admissibleNow(vp) {
				// in this state the "defective" presentation is an ordinary admissible one (e.g. a retraction by another
				// subject of an id that, after an id collision, is ALSO the id of that subject's own entry): not a self-loop
				w.e.stats["defects_admissible_in_this_state_not_offered"]++
				continue
			}
			n++
			w.submit(vp, d.Label, false)
			w.e.r.Eval("defect|" + d.Label + "|" + w.canon)
		}
	}
	if !light && !w.dirty {
		// multi-credential defects go to service B (two input descriptors); they depend on the clock only
		w.on(c16ServiceB, func() {
			for _, d := range w.e.defectsB {
				if w.dirty {
					return
				}
				ck := fmt.Sprintf("B|%s|%d", d.Label, w.e.now())
				vp := w.e.defectCache[ck]
				if vp == nil {
					vp = d.Build(w, 0)
					w.e.defectCache[ck] = vp
				}
				n++
				w.submit(vp, d.Label+" (service B)", false)
				w.e.r.Eval("defect|B|" + d.Label + "|" + w.canon)
			}
		})
	}
	if !w.dirty {
		// the generated families (zz_verif_c16_families_test.go): their shallow-state subsets in the states of depth <= 2
		// (thorough: <= 3), their per-state representatives in every deeper state; the full products are the grid part
		n += w.offerFamilies(len(w.hist) > 2 && !(w.e.r.Thorough() && len(w.hist) <= 3))
	}
	return n
}

// ---------------------------------------------------------------- BFS glue ----

func c16HistKey(cfg string, hist []c16Event) [32]byte {
	return sha256.Sum256([]byte(cfg + ev.Key(hist)))
}

func (e *c16Env) build(cfg c16Config, hist []c16Event) *c16World {
	var w *c16World
	for attempt := 0; ; attempt++ {
		w = e.newWorld(cfg)
		for _, h := range hist {
			w.apply(h) // acceptance / timestamp clauses are judged inside, at every replayed event
			if w.retry {
				break
			}
		}
		if !w.retry {
			break
		}
		e.stats["replays_repeated_for_map_order"]++
		if attempt >= 40 {
			// the named processing order never occurred: not realisable here (e.g. the entry is skipped as already held)
			w.unreal, w.hist = true, append([]c16Event{}, hist...)
			w.canon = "UNREALISABLE"
			e.stats["unrealisable_poll_labels"]++
			if len(hist) > 0 {
				e.pollLabels[c16HistKey(cfg.Name, hist[:len(hist)-1])] |= 2
			}
			return w
		}
	}
	if n := len(hist); n > 0 && hist[n-1].Op == "poll" && hist[n-1].R != "" {
		e.pollLabels[c16HistKey(cfg.Name, hist[:n-1])] |= 1
	}
	for _, svc := range w.services() {
		if !w.dirty {
			w.on(svc, w.checkServerState) // list-shape clauses: every prefix of a BFS history was itself a BFS state
		}
	}
	w.canon = w.computeCanon()
	// determinism self-test: the same history must always give the same canonical state
	hk, ck := c16HistKey(cfg.Name, hist), sha256.Sum256([]byte(w.canon))
	if old, ok := e.histCanon[hk]; ok && old != ck {
		e.r.AssumptionCheck("replay-deterministic", false, "history "+strings.Join(w.histStrings(), ",")+" gave two canonical states")
		e.t.Fatalf("nondeterministic replay of %v", w.histStrings())
	}
	e.histCanon[hk] = ck
	return w
}

// judge runs the per-state oracles that are too expensive to repeat on duplicate states.
func (w *c16World) judge() (selfLoops int) {
	if w.dirty {
		return 0
	}
	for _, svc := range w.services() {
		if !w.dirty {
			w.on(svc, func() { w.checkClientSearch("in state") })
		}
	}
	if w.cfg.Defects && !w.dirty {
		selfLoops = w.offerDefects()
		if !w.dirty {
			if c := w.computeCanon(); c != w.canon {
				w.violation("C16|server|refused-registration-changed-state", "offering the defective alphabet changed the canonical state")
			}
		}
	}
	if !w.cfg.Small { // the small configurations leave restarts to the main one
		selfLoops += w.restartChecks()
	}
	if !w.dirty {
		w.fairSuffix() // runs on the restarted server and client: every clause simply continues across a restart
	}
	return selfLoops
}

func c16Configs(thorough bool) []c16Config {
	if !thorough {
		return []c16Config{
			{Name: "full-k2", K: 2, Depth: 4, Split: 2, Short: true, Inject: true, InjectS: 2, Replay: true, Defects: true, LeafLight: true},
			{Name: "validation-k2", K: 2, Depth: 4, Split: 2, Inject: true, InjectS: 2, Small: true, Validation: true},
			{Name: "services-k2", K: 2, Depth: 4, Split: 2, Small: true, TwoServices: true},
			{Name: "owners-k2", K: 2, Depth: 3, Split: 2, Small: true, Owners: true, Defects: true},
		}
	}
	return []c16Config{
		{Name: "validation-k2", K: 2, Depth: 5, Split: 3, Short: true, Inject: true, InjectS: 2, Small: true, Validation: true, Defects: true},
		{Name: "services-k2", K: 2, Depth: 5, Split: 3, Small: true, TwoServices: true, Defects: true},
		{Name: "full-k2", K: 2, Depth: 5, Split: 3, Short: true, Inject: true, InjectS: 2, Replay: true, Defects: true},
		{Name: "core-k2", K: 2, Depth: 6, Split: 3, Defects: false},
		{Name: "core-k3", K: 3, Depth: 5, Split: 3, Replay: true, Defects: true},
		{Name: "owners-k2", K: 2, Depth: 5, Split: 3, Small: true, Owners: true, Replay: true, Defects: true},
		{Name: "owners-k3", K: 3, Depth: 4, Split: 2, Small: true, Owners: true, Defects: true},
	}
}

func TestVerifC16BFS(t *testing.T) {
	r := ev.Start(t, "C16")
	defer r.Finish()
	e := c16NewEnv(t, r)
	r.Rule("explicit-state BFS over event histories {register(s,7h), register(s,1h), retract(s), third-party replay(s), " +
		"malicious-server inject(s), expire(+2h), poll, poll with a transient failure of the client's verifier for one subject, validate(client), " +
		"register / retract on a SECOND service (configurations validation-* and services-*), server reset, reset+register×k, restart(server), restart(client) — a new Module started " +
		"through Module.Start on the SAME database} on a real server Module and a real client " +
		"Module (two SQLite databases, real verifier, virtual clock); a state = canonical form of both databases + replay candidates; " +
		"in every new state the defective-registration alphabet (32 kinds of defective registration / retraction incl. iss/kid disagreement, 6 two-credential expiry combinations on a second service whose definition has two input descriptors, plus 12 generic defects applied to a retraction " +
		"of each subject's listed entry and 11 to a retraction of an unlisted id; quick tier: at the deepest level only the kinds whose " +
		"handling reads the list or that are tried per subject, plus 3 representatives) is offered to the server (self-loop transitions), the " +
		"client's Search is judged (poll events carry the resolution of the client's map-order nondeterminism, all resolutions enumerated), and a fair suffix of polls must end with Search == server live set. " +
		"Four GENERATED families are offered as well (only the members the reference predicate refuses in that state; shallow-state subsets at depth <= 2 (thorough 3), per-state representatives deeper; full products in part grid): " +
		"multi-credential registrations over a grid of validity instants on services asking for 1/2/3 credentials; retractions of every listed entry signed by ANOTHER party × iss × sub × retract_jti × kid form; " +
		"registrations signed by one party whose kid/iss/sub/credentials/id name another; presentations made for service X offered to service Y. Configurations owners-* add the events regdup(s) (a valid registration under the id of another " +
		"subject's entry) and retractx(s) (own retraction naming another subject). At EVERY transition: an accepted presentation leaves every other subject's entry as it was and is filed under the subject whose key signed it; " +
		"in every state every listed entry is filed under the party that signed it. The BFS prefix to the split depth " +
		"is shared; below it the frontier is dealt over the workers, whose seen-sets are private (state counts are per worker).")
	r.Assume("go-did parsing, jwx, gorm/SQLite are trusted; did:jwk/did:key resolution is exercised, not modelled")
	r.Assume("the virtual clock replaces every clock read of discovery/{module,store,client}.go and vcr/verifier/{verifier,signature_verifier}.go")
	r.Assume("the REST layer is replaced by a direct call that serialises and parses each presentation")

	var rc struct {
		Config string     `json:"config"`
		Hist   []c16Event `json:"hist"`
	}
	if os.Getenv("VERIF_REPLAY") != "" && !r.ReplayCase(&rc) {
		return // the replay file belongs to another part
	}
	if r.ReplayCase(&rc) {
		for _, cfg := range append(c16Configs(true), c16Configs(false)...) {
			if cfg.Name == rc.Config {
				cfg.Defects = true
				for i := 0; i <= len(rc.Hist); i++ {
					w := e.build(cfg, rc.Hist[:i])
					w.judge()
				}
				r.States(int64(len(rc.Hist) + 1))
				r.Transitions(int64(len(rc.Hist)))
				return
			}
		}
		t.Fatalf("unknown config %q", rc.Config)
	}

	// vacuity guards on honest cases (harness broken if they fail)
	{
		w := e.build(c16Config{Name: "guard", K: 2}, nil)
		if !w.submit(w.regVP(0, c16Long), "guard registration", true) {
			t.Fatal("vacuity guard: a valid registration is refused")
		}
		w.hist = append(w.hist, c16Event{Op: "reg", S: 0})
		w.poll()
		if got := w.searchRaws(); len(got) != 1 {
			t.Fatalf("vacuity guard: client does not find the valid registration (%d results)", len(got))
		}
		w.apply(c16Event{Op: "retract", S: 0})
		if rows, _, _ := c16Rows(t, e.srvDB); len(rows) != 1 || !e.facts(rows[0].Raw).Retraction {
			t.Fatal("vacuity guard: an honest retraction is refused")
		}
		w.poll()
		for _, raw := range w.searchRaws() {
			if !e.facts(raw).Retraction { // (a retraction in Search is an observation of the BFS oracle, not a harness error)
				t.Fatal("vacuity guard: retraction does not reach the client")
			}
		}
		w.apply(c16Event{Op: "regshort", S: 1})
		w.poll()
		if got := w.searchRaws(); len(got) < 1 {
			t.Fatal("vacuity guard: second registration not found")
		}
		before := e.now()
		w.apply(c16Event{Op: "expire"})
		if e.now()-before != int64(c16Advance/time.Second) {
			t.Fatal("vacuity guard: the virtual clock does not advance")
		}
		w.checkClientSearch("guard: after expiry of the only entry") // an expired entry in Search is a VIOLATION, not a harness error
	}

	for _, cfg := range c16Configs(r.Thorough()) {
		cfg := cfg
		var selfLoops, newStates int64
		sys := space.System[c16Event]{
			Build: func(hist []c16Event) (any, func()) {
				return e.build(cfg, hist), func() {}
			},
			Enabled: func(inst any, hist []c16Event) []c16Event {
				w := inst.(*c16World)
				if w.dirty || w.unreal {
					return nil
				}
				return w.enabled()
			},
			Canon: func(inst any) string { return inst.(*c16World).canon },
			Invariant: func(inst any, hist []c16Event) {
				w := inst.(*c16World)
				if w.unreal {
					return
				}
				k := sha256.Sum256([]byte(cfg.Name + w.canon))
				r.Eval(cfg.Name + w.canon)
				if e.seenCanon[k] {
					return
				}
				e.seenCanon[k] = true
				newStates++
				if newStates <= 3 {
					r.Sample(map[string]any{"config": cfg.Name, "history": w.histStrings(), "canonical_state": w.canon})
				}
				selfLoops += int64(w.judge())
			},
			MaxDepth: cfg.Depth,
			Budget:   r.Expired,
		}
		shard, shards := r.Shard()
		res := space.BFSFrontier(sys, space.FrontierOpts{SplitDepth: cfg.Split, Shard: shard, Shards: shards})
		r.States(res.States)
		r.Transitions(res.Transitions + selfLoops)
		if res.Exhaustive {
			r.Bound("depth_"+cfg.Name, cfg.Depth)
		} else {
			r.Bound("depth_"+cfg.Name+"_partial", res.MaxDepth)
		}
		r.Bound("subjects_"+cfg.Name, cfg.K)
		r.AddExtra("bfs_transitions", res.Transitions)
		r.AddExtra("defective_registrations_offered", selfLoops)
		if !res.Exhaustive {
			r.NotExhaustive("BFS " + cfg.Name + " stopped by the wall-clock budget")
		}
		t.Logf("config %s: states=%d transitions=%d selfloops=%d depth=%d exhaustive=%v elapsed=%s", cfg.Name, res.States, res.Transitions, selfLoops, res.MaxDepth, res.Exhaustive, res.Elapsed)
	}
	for k, v := range e.stats {
		if k == "max_suffix_rounds" {
			r.Extra("max_suffix_rounds", fmt.Sprint(v))
			continue
		}
		r.AddExtra(k, v)
	}
	for _, bits := range e.pollLabels {
		if bits == 2 {
			t.Fatal("harness error: an ambiguous poll had no realisable processing-order label at all")
		}
	}
	r.AssumptionCheck("replay-deterministic", true, "every history that was replayed more than once gave one canonical state")
	r.AddExtra("histories_replayed", int64(len(e.histCanon)))
}


// ---------------------------------------------------------------- sched part: polls racing registrations ----

// c16Pool puts scheduling points on the SERVER database: every standalone statement and every transaction
// begin / commit. The node limits SQLite to ONE connection, so a transaction excludes every other statement
// until it commits; that is modelled by a virtual lock (a thread that needs the connection while another
// thread's transaction holds it is simply not enabled).
type c16Pool struct {
	inner *sql.DB
	held  bool
}

func c16Verb(q string) string {
	q = strings.TrimSpace(q)
	if i := strings.IndexByte(q, ' '); i > 0 {
		q = q[:i]
	}
	return strings.ToUpper(q)
}

func (p *c16Pool) gate(label string) {
	free := func() bool { return !p.held }
	sched.Acquire(label, free, free)
}
func (p *c16Pool) PrepareContext(ctx context.Context, q string) (*sql.Stmt, error) {
	p.gate("prepare")
	return p.inner.PrepareContext(ctx, q)
}
func (p *c16Pool) ExecContext(ctx context.Context, q string, args ...interface{}) (sql.Result, error) {
	p.gate("exec " + c16Verb(q))
	return p.inner.ExecContext(ctx, q, args...)
}
func (p *c16Pool) QueryContext(ctx context.Context, q string, args ...interface{}) (*sql.Rows, error) {
	p.gate("query " + c16Verb(q))
	return p.inner.QueryContext(ctx, q, args...)
}
func (p *c16Pool) QueryRowContext(ctx context.Context, q string, args ...interface{}) *sql.Row {
	p.gate("queryrow " + c16Verb(q))
	return p.inner.QueryRowContext(ctx, q, args...)
}
func (p *c16Pool) BeginTx(ctx context.Context, opts *sql.TxOptions) (gorm.ConnPool, error) {
	sched.Acquire("begin", func() bool {
		if p.held {
			return false
		}
		p.held = true
		return true
	}, func() bool { return !p.held })
	tx, err := p.inner.BeginTx(ctx, opts)
	if err != nil {
		p.held = false
		return nil, err
	}
	return &c16Tx{Tx: tx, p: p}, nil
}

type c16Tx struct {
	*sql.Tx
	p *c16Pool
}

func (t *c16Tx) Commit() error {
	err := t.Tx.Commit()
	t.p.held = false
	sched.Point("commit")
	return err
}
func (t *c16Tx) Rollback() error {
	err := t.Tx.Rollback()
	t.p.held = false
	sched.Point("rollback")
	return err
}

type c16Scenario struct {
	Name    string
	Init    []c16Event
	Threads []c16Event // run concurrently; "poll" is the client's update, the others are registrations at the server
	Bounded bool       // explored with a preemption bound (2 quick / 3 thorough) instead of completely
}

func TestVerifC16Sched(t *testing.T) {
	r := ev.Start(t, "C16")
	defer r.Finish()
	e := c16NewEnv(t, r)
	raw, err := e.srvDB.DB()
	if err != nil {
		t.Fatal(err)
	}
	pool := &c16Pool{inner: raw}
	e.srvDB.ConnPool = pool
	e.srvDB.Statement.ConnPool = pool
	r.Rule("for each scenario (initial history; 2-3 concurrent operations among client poll, register, refresh, retract) ALL " +
		"interleavings at server-database statement / transaction granularity (single SQLite connection modelled as a virtual lock) " +
		"are executed on the real code; after each one the server list clauses are judged and a fair suffix of polls must end with " +
		"the client's Search equal to the server's live set")
	r.Assume("a SQL transaction is atomic with respect to other statements because the node gives SQLite a single connection")
	scenarios := []c16Scenario{
		{"fresh-poll||register-other", []c16Event{{Op: "reg", S: 0}}, []c16Event{{Op: "poll"}, {Op: "reg", S: 1}}, false},
		{"poll||register-other", []c16Event{{Op: "reg", S: 0}, {Op: "poll"}}, []c16Event{{Op: "poll"}, {Op: "reg", S: 1}}, false},
		{"fresh-poll||refresh", []c16Event{{Op: "reg", S: 0}, {Op: "reg", S: 1}}, []c16Event{{Op: "poll"}, {Op: "reg", S: 0}}, false},
		{"poll||refresh", []c16Event{{Op: "reg", S: 0}, {Op: "reg", S: 1}, {Op: "poll"}}, []c16Event{{Op: "poll"}, {Op: "reg", S: 0}}, false},
		{"poll||retract", []c16Event{{Op: "reg", S: 0}, {Op: "reg", S: 1}, {Op: "poll"}}, []c16Event{{Op: "poll"}, {Op: "retract", S: 0}}, false},
		{"fresh-poll||retract", []c16Event{{Op: "reg", S: 0}, {Op: "reg", S: 1}}, []c16Event{{Op: "poll"}, {Op: "retract", S: 0}}, false},
		{"register||register-same-subject", []c16Event{{Op: "reg", S: 0}}, []c16Event{{Op: "reg", S: 0}, {Op: "reg", S: 0}}, true},
		{"register||register-other-subject", []c16Event{{Op: "reg", S: 0}}, []c16Event{{Op: "reg", S: 1}, {Op: "regshort", S: 0}}, true},
		{"fresh-poll||register||register", []c16Event{{Op: "reg", S: 0}}, []c16Event{{Op: "poll"}, {Op: "reg", S: 1}, {Op: "reg", S: 0}}, true},
	}
	if r.Thorough() {
		scenarios = append(scenarios,
			c16Scenario{"poll||poll||register", []c16Event{{Op: "reg", S: 0}}, []c16Event{{Op: "poll"}, {Op: "poll"}, {Op: "reg", S: 1}}, true},
			c16Scenario{"poll||register||retract", []c16Event{{Op: "reg", S: 0}, {Op: "reg", S: 1}}, []c16Event{{Op: "poll"}, {Op: "reg", S: 2}, {Op: "retract", S: 0}}, true},
		)
	}
	var rc struct {
		Scenario string `json:"scenario"`
		Schedule []int  `json:"schedule"`
	}
	replay := r.ReplayCase(&rc)
	if os.Getenv("VERIF_REPLAY") != "" && !replay {
		return // the replay file belongs to another part
	}
	cfg := c16Config{Name: "sched", K: 3}
	var steps int64
	deadline := time.Now().Add(10 * time.Minute)
	if b, err := strconv.Atoi(os.Getenv("VERIF_BUDGET_S")); err == nil && b > 0 {
		deadline = time.Now().Add(time.Duration(b) * time.Second)
	}
	for si, sc := range scenarios {
		sc := sc
		if replay && sc.Name != rc.Scenario {
			continue
		}
		if !replay && !r.Mine(si) {
			continue
		}
		var w *c16World
		setup := func(x *sched.Exec) func(*sched.Exec) {
			pool.held = false
			w = e.build(cfg, sc.Init)
			// presentations are minted before the race so that every execution sends the same bytes
			vps := make([]*c16VP, len(sc.Threads))
			for i, th := range sc.Threads {
				switch th.Op {
				case "reg":
					vps[i] = w.regVP(th.S, c16Long)
				case "regshort":
					vps[i] = w.regVP(th.S, c16Short)
				case "retract":
					en := w.model[e.subjects[th.S].did]
					vps[i] = e.buildVP(c16VPOpt{Signer: e.subjects[th.S], ExpIn: c16Long, Types: []string{c16RetractType},
						Extra: map[string]any{"retract_jti": en.VP.Facts.ID}})
				}
			}
			accepted := make([]bool, len(sc.Threads))
			for i, th := range sc.Threads {
				i, th := i, th
				x.Go(fmt.Sprintf("%d:%s", i, th), func() {
					if th.Op == "poll" {
						_ = w.cli.clientUpdater.updateService(context.Background(), e.defs[c16Service])
						return
					}
					accepted[i] = w.direct.Register(context.Background(), "", vps[i].VP) == nil
				})
			}
			return func(x *sched.Exec) {
				steps += int64(len(x.Trace))
				w.hist = append(append([]c16Event{}, sc.Init...), c16Event{Op: "race:" + sc.Name})
				viol := func(sig, what string) {
					r.Violation(sig, what+" — scenario "+sc.Name+", trace "+strings.Join(x.Trace, " "),
						map[string]any{"scenario": sc.Name, "schedule": x.Choices()})
				}
				if x.Deadlock {
					viol("C16|sched|deadlock|"+sc.Name, "no thread enabled before all finished")
					return
				}
				for i, p := range x.Panics() {
					if p != nil {
						t.Fatalf("thread %d panicked: %v", i, p)
					}
				}
				// server clauses on the real list: one entry per subject, distinct timestamps not above the service timestamp
				rows, _, ts := c16Rows(t, e.srvDB)
				per, seenTs := map[string]int{}, map[int]bool{}
				for _, row := range rows {
					per[row.Signer]++
					if per[row.Signer] > 1 {
						viol("C16|sched|more-than-one-entry-per-subject", "two entries of one subject after concurrent registrations")
					}
					if f := e.facts(row.Raw); f.Signer != row.Signer || !f.SigOK {
						viol("C16|sched|entry-filed-under-a-subject-that-did-not-sign-it", "after concurrent registrations the list holds an entry filed under another subject than its signer")
					}
					if seenTs[row.Ts] || row.Ts > ts {
						viol("C16|sched|timestamp-not-increasing", "two concurrent registrations share a timestamp, or an entry is ahead of the service timestamp")
					}
					seenTs[row.Ts] = true
				}
				nAcc := 0
				for i := range accepted {
					if accepted[i] {
						nAcc++
						w.known[vps[i].Raw] = true
					}
				}
				r.Outcome(fmt.Sprintf("%s:accepted=%d,rows=%d", sc.Name, nAcc, len(rows)))
				w.rowsOK = false
				w.fairSuffix()
				r.Eval(sc.Name + "|" + fmt.Sprint(x.Choices()))
			}
		}
		opts := sched.Options{Bound: -1, SelfCheck: true, MaxSteps: 5000, Deadline: deadline}
		if sc.Bounded {
			opts.Bound = 2 // two threads: 2 quick / 3 thorough; three threads: 1 quick / 2 thorough
			if r.Thorough() && len(sc.Threads) == 2 {
				opts.Bound = 3
			} else if !r.Thorough() && len(sc.Threads) > 2 {
				opts.Bound = 1
			}
			r.Bound("preemption_bound_"+sc.Name, opts.Bound)
		} else {
			r.Bound("preemption_bound_"+sc.Name, "unbounded")
		}
		if replay {
			opts.Replay = rc.Schedule
		}
		res := sched.Explore(opts, setup)
		if len(res.Errors) > 0 {
			t.Fatalf("scheduler machinery error in %s: %v", sc.Name, res.Errors)
		}
		if !res.Exhaustive {
			r.NotExhaustive("schedule exploration of " + sc.Name + " capped: " + res.Capped)
		}
		r.States(res.Executions)
		r.AddExtra("schedules", res.Executions)
		t.Logf("scenario %s: executions=%d maxpoints=%d deadlocks=%d", sc.Name, res.Executions, res.MaxPoints, res.Deadlocks)
	}
	r.Transitions(steps)
}
