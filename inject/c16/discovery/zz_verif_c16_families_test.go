//go:build verif

// C16 — generated input families (in-package harness, form B; see zz_verif_c16_test.go for the environment).
//
// Four families of presentations are GENERATED here as products over small alphabets instead of being written out by
// hand; every member is judged by the reference predicate on its bytes as sent, never by the label that produced it:
//
//  1. validity grid: registrations carrying the 1, 2 or 3 credentials the service's definition asks for (three services:
//     one, two and three input descriptors, the third being the self-attested DiscoveryRegistrationCredential) plus
//     optionally a surplus one, every credential's expiry ∈ {absent, long before, 1 s before, equal to, 1 s after, long
//     after the presentation's expiry, already expired} and issuance ∈ {past, after the presentation's nbf, future}, in
//     every position order, with the presentation's own exp / nbf on the boundaries (now+1 s, maximum validity −1/0/+1 s,
//     nbf now / now+1 s) under the virtual clock;
//  2. cross-named retractions: for every listed entry of every subject, retractions signed by ANOTHER party's key ×
//     iss × sub ∈ {signer, victim, absent, empty, third party} × retract_jti ∈ {victim's listed id, signer's own listed
//     id, unknown, victim's superseded id} × kid form ∈ {own, bare DID, the victim's kid, none};
//  3. cross-named registrations: a presentation signed with B's key whose kid / iss / sub / credential subject / id name A;
//  4. presentations made for service X offered to service Y (registrations and retractions).
//
// In the BFS a deciding subset of every family is offered in every state (self-loop transitions: only members the
// reference predicate refuses are offered there). The part TestVerifC16Grid runs the FULL products on a few base
// histories, admissible members included (vacuity guard: some are accepted), each also handed to the real client as the
// answer of a lying server.
package discovery

import (
	"context"
	"fmt"
	"os"
	"sort"
	"strings"
	"testing"

	"github.com/nuts-foundation/go-did/vc"

	"verif/ev"
)

// ---------------------------------------------------------------- family 1: validity grid ----

type c16GCred struct {
	Kind string // TestCredential | RoleCredential | DiscoveryRegistrationCredential | OtherCredential
	Exp  string // none far-before before1 equal after1 far-after expired   (relative to the PRESENTATION's exp)
	Nbf  string // "" = past | after-vp-nbf | future
}

type c16GReg struct {
	Svc   string
	Creds []c16GCred // in presentation order
	VPExp string     // "" = 1h | 1s | max-1 | max | max+1
	VPNbf string     // "" = past (now-600) | now | now+1
}

func (g c16GReg) Label() string {
	var sb strings.Builder
	fmt.Fprintf(&sb, "grid %s vp[exp=%s nbf=%s]", strings.TrimPrefix(g.Svc, "c16_service"), c16Or(g.VPExp, "1h"), c16Or(g.VPNbf, "past"))
	for _, c := range g.Creds {
		fmt.Fprintf(&sb, " %s(exp=%s nbf=%s)", strings.TrimSuffix(c.Kind, "Credential"), c.Exp, c16Or(c.Nbf, "past"))
	}
	return sb.String()
}

func c16Or(s, d string) string {
	if s == "" {
		return d
	}
	return s
}

func (w *c16World) buildGrid(g c16GReg, s int) *c16VP {
	e := w.e
	p := e.subjects[s]
	now := e.now()
	expIn := int64(c16Short)
	switch g.VPExp {
	case "1s":
		expIn = 1
	case "max-1":
		expIn = c16MaxValidity - 1
	case "max":
		expIn = c16MaxValidity
	case "max+1":
		expIn = c16MaxValidity + 1
	}
	nbfIn := int64(-600)
	switch g.VPNbf {
	case "now":
		nbfIn = 0
	case "now+1":
		nbfIn = 1
	}
	E := now + expIn
	var creds []any
	for _, c := range g.Creds {
		o := c16CredOpt{Type: c.Kind, Subject: p}
		switch c.Exp {
		case "none":
			o.NoExp = true
		case "far-before":
			o.ExpAbs = E - 1800
		case "before1":
			o.ExpAbs = E - 1
		case "equal":
			o.ExpAbs = E
		case "after1":
			o.ExpAbs = E + 1
		case "far-after":
			o.ExpAbs = E + 7200
		case "expired":
			o.ExpAbs = now - 600
		default:
			e.t.Fatalf("unknown expiry kind %q", c.Exp)
		}
		switch c.Nbf {
		case "after-vp-nbf":
			o.NbfAbs = now - 300
		case "future":
			o.NbfAbs = now + 600
		}
		if c.Kind == c16RegCredType {
			creds = append(creds, e.selfCred(o))
		} else {
			creds = append(creds, e.cred(o))
		}
	}
	var vp *c16VP
	w.on(g.Svc, func() { // the audience is the service the registration is made for
		vp = e.buildVP(c16VPOpt{Signer: p, ExpIn: expIn, NbfIn: nbfIn, CredsAny: creds})
	})
	return vp
}

var c16GridServices = []string{c16Service, c16ServiceB, c16ServiceC}

// c16Product: all assignments of the alphabet to n positions.
func c16Product(alphabet []string, n int) [][]string {
	out := [][]string{{}}
	for i := 0; i < n; i++ {
		var next [][]string
		for _, pre := range out {
			for _, a := range alphabet {
				next = append(next, append(append([]string{}, pre...), a))
			}
		}
		out = next
	}
	return out
}

func c16Perms(n int) [][]int {
	if n == 0 {
		return [][]int{{}}
	}
	var out [][]int
	for _, p := range c16Perms(n - 1) {
		for pos := 0; pos <= len(p); pos++ {
			q := append(append(append([]int{}, p[:pos]...), n-1), p[pos:]...)
			out = append(out, q)
		}
	}
	return out
}

// gridMembers generates the family at one of three levels:
//
//	"leaf"  — two representatives (one credential expiring 1 s before the presentation, the others long after);
//	"state" — adds every assignment of {absent, 1 s before, long after} to the positions and the members just outside
//	          the other bounds (offered in the shallow BFS states);
//	"full"  — the products run by the grid part.
func (e *c16Env) gridMembers(level string) []c16GReg {
	var out []c16GReg
	seen := map[string]bool{}
	add := func(g c16GReg) {
		if l := g.Label(); !seen[l] {
			seen[l] = true
			out = append(out, g)
		}
	}
	mk := func(svc string, kinds []string, exps []string, order []int) c16GReg {
		g := c16GReg{Svc: svc}
		for _, i := range order {
			g.Creds = append(g.Creds, c16GCred{Kind: kinds[i], Exp: exps[i]})
		}
		return g
	}
	ident := func(n int) []int {
		o := make([]int, n)
		for i := range o {
			o[i] = i
		}
		return o
	}
	for _, svc := range c16GridServices {
		kinds := e.required[svc]
		n := len(kinds)
		allAfter := make([]string, n)
		for i := range allAfter {
			allAfter[i] = "far-after"
		}
		with := func(i int, k string) []string {
			x := append([]string{}, allAfter...)
			x[i] = k
			return x
		}
		if level == "leaf" {
			// the registrations do not read the list: two representatives (two credentials, the LAST one expiring 1 s before
			// the presentation; three credentials, the FIRST one)
			if n == 2 {
				add(mk(svc, kinds, with(1, "before1"), ident(n)))
			} else if n == 3 {
				add(mk(svc, kinds, with(0, "before1"), ident(n)))
			}
			continue
		}
		// (a) one credential expiring 1 s before the presentation at every position
		for i := 0; i < n; i++ {
			add(mk(svc, kinds, with(i, "before1"), ident(n)))
		}
		// (b) every assignment over a core alphabet; in the full product over the whole alphabet and every position order
		core := []string{"none", "before1", "far-after"}
		orders := [][]int{ident(n)}
		if level == "full" {
			core = []string{"none", "far-before", "before1", "equal", "after1", "far-after", "expired"}
			orders = c16Perms(n)
		}
		for _, exps := range c16Product(core, n) {
			for _, o := range orders {
				add(mk(svc, kinds, exps, o))
			}
		}
		if level == "state" {
			// the presentation's own instants just outside their bounds, one surplus credential, one credential left out
			for _, vv := range [][2]string{{"max+1", ""}, {"", "now+1"}} {
				g := mk(svc, kinds, allAfter, ident(n))
				g.VPExp, g.VPNbf = vv[0], vv[1]
				add(g)
			}
			g := mk(svc, kinds, allAfter, ident(n))
			g.Creds = append(g.Creds, c16GCred{Kind: "OtherCredential", Exp: "none"})
			add(g)
			if n > 1 {
				g := mk(svc, kinds, allAfter, ident(n))
				g.Creds = g.Creds[1:]
				add(g)
			}
			continue
		}
		// (c) the remaining expiry kinds one position at a time
		for i := 0; i < n; i++ {
			for _, k := range []string{"far-before", "equal", "after1", "expired"} {
				add(mk(svc, kinds, with(i, k), ident(n)))
			}
		}
		// (d) issuance instants, one position at a time, over the core expiry assignments
		nbfExps := c16Product([]string{"none", "before1", "far-after"}, n)
		for _, exps := range nbfExps {
			for i := 0; i < n; i++ {
				for _, nb := range []string{"after-vp-nbf", "future"} {
					g := mk(svc, kinds, exps, ident(n))
					g.Creds[i].Nbf = nb
					add(g)
				}
			}
		}
		// (e) the presentation's own instants on their boundaries
		vpExps := c16Product([]string{"none", "before1", "equal", "after1"}, n)
		for _, ve := range []string{"", "1s", "max-1", "max", "max+1"} {
			for _, vn := range []string{"", "now", "now+1"} {
				if ve == "" && vn == "" {
					continue
				}
				for _, exps := range vpExps {
					g := mk(svc, kinds, exps, ident(n))
					g.VPExp, g.VPNbf = ve, vn
					add(g)
				}
			}
		}
		// (f) one surplus credential (a kind the definition does not ask for, or a second one of a kind it asks for) at
		// every position, with its own expiry
		surplusExp := []string{"none", "before1", "far-after"}
		for _, sk := range []string{"OtherCredential", kinds[0]} {
			for pos := 0; pos <= n; pos++ {
				for _, se := range surplusExp {
					g := mk(svc, kinds, allAfter, ident(n))
					extra := c16GCred{Kind: sk, Exp: se}
					g.Creds = append(append(append([]c16GCred{}, g.Creds[:pos]...), extra), g.Creds[pos:]...)
					add(g)
				}
			}
		}
		// (g) one required credential left out
		if n > 1 {
			for i := 0; i < n; i++ {
				g := mk(svc, kinds, allAfter, ident(n))
				g.Creds = append(append([]c16GCred{}, g.Creds[:i]...), g.Creds[i+1:]...)
				add(g)
			}
		}
	}
	return out
}

// ---------------------------------------------------------------- family 2: cross-named retractions ----

type c16XRet struct {
	Signer string // other | other2 | stranger | keyholder
	Iss    string // signer | victim | absent | empty | third
	Sub    string // same alphabet
	JTI    string // victim-live | signer-own | unknown | victim-superseded
	Kid    string // own | bare | victim | none
}

func (m c16XRet) Label() string {
	return fmt.Sprintf("retraction signed by %s iss=%s sub=%s retract_jti=%s kid=%s", m.Signer, m.Iss, m.Sub, m.JTI, m.Kid)
}

var c16Names = []string{"signer", "victim", "absent", "empty", "third"}

func c16XRetMembers(level string) []c16XRet {
	var out []c16XRet
	seen := map[c16XRet]bool{}
	add := func(m c16XRet) {
		if !seen[m] {
			seen[m] = true
			out = append(out, m)
		}
	}
	if level == "full" {
		for _, sg := range []string{"other", "other2", "stranger", "keyholder"} {
			for _, iss := range c16Names {
				for _, sub := range c16Names {
					for _, jti := range []string{"victim-live", "signer-own", "unknown", "victim-superseded"} {
						for _, kid := range []string{"own", "bare", "victim", "none"} {
							add(c16XRet{sg, iss, sub, jti, kid})
						}
					}
				}
			}
		}
		return out
	}
	if level == "leaf" {
		// what the hand-written retraction kinds of the defect alphabet (iss ∈ {signer, victim, absent, third party} on a
		// retraction of the listed entry, offered in every state) leave out, one representative per dimension
		add(c16XRet{"other", "empty", "empty", "victim-live", "own"})
		add(c16XRet{"other", "signer", "victim", "victim-live", "own"})
		add(c16XRet{"other", "victim", "signer", "victim-live", "own"})
		add(c16XRet{"other", "victim", "victim", "victim-superseded", "own"})
		add(c16XRet{"other", "victim", "victim", "victim-live", "bare"})
		return out
	}
	signers := []string{"other", "stranger"}
	if level == "state-thorough" {
		signers = []string{"other", "other2", "stranger", "keyholder"}
	}
	for _, sg := range signers {
		// every name in iss (= sub) on a retraction of the victim's listed entry
		for _, n := range c16Names {
			add(c16XRet{sg, n, n, "victim-live", "own"})
		}
		// kid forms
		for _, kid := range []string{"bare", "victim", "none"} {
			add(c16XRet{sg, "victim", "victim", "victim-live", kid})
		}
		if level == "state" && sg != "other" {
			continue
		}
		// the other ids
		for _, n := range []string{"victim", "absent"} {
			for _, jti := range []string{"signer-own", "unknown", "victim-superseded"} {
				add(c16XRet{sg, n, n, jti, "own"})
			}
		}
		// iss and sub disagree
		for _, pr := range [][2]string{{"signer", "victim"}, {"victim", "signer"}, {"absent", "victim"}, {"victim", "absent"}} {
			add(c16XRet{sg, pr[0], pr[1], "victim-live", "own"})
		}
		if level == "state-thorough" {
			for _, iss := range c16Names {
				for _, sub := range c16Names {
					add(c16XRet{sg, iss, sub, "victim-live", "own"})
				}
			}
			for _, kid := range []string{"bare", "victim", "none"} {
				for _, n := range []string{"signer", "absent"} {
					add(c16XRet{sg, n, n, "victim-live", kid})
				}
			}
		}
	}
	return out
}

// xParty resolves a symbolic signer relative to the victim (nil = not applicable with this many subjects).
func (w *c16World) xParty(sym string, victim int) *c16Party {
	e := w.e
	switch sym {
	case "other":
		if w.cfg.K > 1 {
			return e.subjects[(victim+1)%w.cfg.K]
		}
	case "other2":
		if w.cfg.K > 2 {
			return e.subjects[(victim+2)%w.cfg.K]
		}
	case "stranger":
		return e.mallory
	case "keyholder":
		return e.keyHolder
	}
	return nil
}

// xName sets or drops a naming claim. third = a party that is neither the signer nor the victim.
func (w *c16World) xName(o *c16VPOpt, claim, sym string, signer, victim *c16Party) {
	switch sym {
	case "signer":
		o.Extra[claim] = signer.did
	case "victim":
		o.Extra[claim] = victim.did
	case "absent":
		o.Drop = append(o.Drop, claim)
	case "empty":
		o.Extra[claim] = ""
	case "third":
		third := w.e.mallory
		if signer == third {
			third = w.e.subjects[(victim.idx+1)%len(w.e.subjects)]
		}
		o.Extra[claim] = third.did
	}
}

func (w *c16World) xKid(o *c16VPOpt, sym string, signer, victim *c16Party) {
	switch sym {
	case "bare":
		o.Kid = &signer.did
	case "victim":
		o.Kid = &victim.kid
	case "none":
		empty := ""
		o.Kid = &empty
	}
}

func (w *c16World) buildXRet(m c16XRet, victim int) *c16VP {
	e := w.e
	v := e.subjects[victim]
	signer := w.xParty(m.Signer, victim)
	ven := w.model[v.did]
	if signer == nil || ven == nil {
		return nil
	}
	var jti string
	switch m.JTI {
	case "victim-live":
		jti = ven.VP.Facts.ID
	case "signer-own":
		en := w.model[signer.did]
		if en == nil {
			return nil
		}
		jti = en.VP.Facts.ID
	case "unknown":
		jti = v.did + "#" + e.newID()
	case "victim-superseded":
		if victim >= len(w.prev) || w.prev[victim] == nil || w.prev[victim].Facts.ID == ven.VP.Facts.ID {
			return nil
		}
		jti = w.prev[victim].Facts.ID
	}
	o := c16VPOpt{Signer: signer, ExpIn: c16Long, Types: []string{c16RetractType}, Extra: map[string]any{"retract_jti": jti}, Lenient: true}
	w.xName(&o, "iss", m.Iss, signer, v)
	w.xName(&o, "sub", m.Sub, signer, v)
	w.xKid(&o, m.Kid, signer, v)
	return e.buildVP(o)
}

// ---------------------------------------------------------------- family 3: cross-named registrations ----

type c16XReg struct {
	Signer   string // whose KEY signs: other | other2 | stranger
	Kid      string // own | bare | victim | none
	Iss, Sub string // signer | victim | absent | empty | third
	CredSubj string // signer | victim : whose credentials are presented
	JTI      string // fresh | victim-live
}

func (m c16XReg) Label() string {
	return fmt.Sprintf("registration signed by %s kid=%s iss=%s sub=%s credentials-of=%s id=%s", m.Signer, m.Kid, m.Iss, m.Sub, m.CredSubj, m.JTI)
}

func c16XRegMembers(level string) []c16XReg {
	var out []c16XReg
	seen := map[c16XReg]bool{}
	add := func(m c16XReg) {
		if !seen[m] {
			seen[m] = true
			out = append(out, m)
		}
	}
	signers, kids, isss := []string{"other"}, []string{"own", "victim"}, []string{"signer", "victim", "absent"}
	if level != "state" {
		signers, kids, isss = []string{"other", "other2", "stranger"}, []string{"own", "bare", "victim", "none"}, c16Names
	}
	for _, sg := range signers {
		for _, kid := range kids {
			for _, iss := range isss {
				subs := []string{iss}
				switch {
				case level == "full":
					subs = c16Names
				case level == "full-quick" && iss == "signer":
					subs = []string{"signer", "victim"}
				case level == "full-quick" && iss == "victim":
					subs = []string{"victim", "signer", "absent"}
				}
				for _, sub := range subs {
					for _, cs := range []string{"signer", "victim"} {
						add(c16XReg{sg, kid, iss, sub, cs, "fresh"})
						if level != "state" || iss == "victim" {
							add(c16XReg{sg, kid, iss, sub, cs, "victim-live"})
						}
					}
				}
			}
		}
	}
	return out
}

func (w *c16World) buildXReg(m c16XReg, victim int) *c16VP {
	e := w.e
	v := e.subjects[victim]
	signer := w.xParty(m.Signer, victim)
	if signer == nil {
		return nil
	}
	o := c16VPOpt{Signer: signer, ExpIn: c16Long, Extra: map[string]any{}, Lenient: true}
	if m.JTI == "victim-live" {
		ven := w.model[v.did]
		if ven == nil {
			return nil
		}
		o.ID = ven.VP.Facts.ID
	}
	holder := signer
	if m.CredSubj == "victim" {
		holder = v
	}
	for _, kind := range e.required[c16Cur] {
		if kind == c16RegCredType {
			o.CredsAny = append(o.CredsAny, e.selfCred(c16CredOpt{Type: kind, Subject: holder}))
		} else {
			o.CredsAny = append(o.CredsAny, e.cred(c16CredOpt{Type: kind, Subject: holder}))
		}
	}
	w.xName(&o, "iss", m.Iss, signer, v)
	w.xName(&o, "sub", m.Sub, signer, v)
	w.xKid(&o, m.Kid, signer, v)
	return e.buildVP(o)
}

// ---------------------------------------------------------------- family 4: made for service X, offered to service Y ----

// honestFor: the registration subject s would make for service svc, with the given audience.
func (w *c16World) honestFor(svc string, s int, aud []string) *c16VP {
	e := w.e
	p := e.subjects[s]
	var creds []any
	for _, kind := range e.required[svc] {
		if kind == c16RegCredType {
			creds = append(creds, e.selfCred(c16CredOpt{Type: kind, Subject: p}))
		} else {
			creds = append(creds, e.cred(c16CredOpt{Type: kind, Subject: p}))
		}
	}
	o := c16VPOpt{Signer: p, ExpIn: c16Long, CredsAny: creds}
	if aud != nil {
		o.Aud = aud
	}
	var vp *c16VP
	w.on(svc, func() { vp = e.buildVP(o) }) // default audience: the service it is made for
	return vp
}

// offerFamilies offers the deciding subset of every generated family in the current state. Only members the
// reference predicate REFUSES are offered (admissible ones would change the state; they are events of the owners-*
// configurations and members of the grid part), so every one is a self-loop transition.
func (w *c16World) offerFamilies(leaf bool) int { // leaf: only the "leaf" level of the two list-independent / list-dependent families
	e := w.e
	n := 0
	offer := func(vp *c16VP, label string) {
		if vp == nil || w.dirty {
			return
		}
		if w.admissibleNow(vp) {
			e.stats["family_members_admissible_not_offered_as_self_loop"]++
			return
		}
		n++
		w.submit(vp, label, false)
	}
	thorough := e.r.Thorough()
	w.alsoClient = !leaf // the client's verifier gets the same bytes (registrations only)
	defer func() { w.alsoClient = false }()

	// family 1: validity grid (depends on the clock only: built once per instant)
	level := "state"
	if leaf {
		level = "leaf"
	}
	bySvc := map[string][]c16GReg{}
	for _, g := range e.gridMembers(level) {
		bySvc[g.Svc] = append(bySvc[g.Svc], g)
	}
	for _, svc := range c16GridServices {
		w.on(svc, func() {
			for _, g := range bySvc[svc] {
				ck := fmt.Sprintf("G|%s|%d", g.Label(), e.now())
				vp := e.defectCache[ck]
				if vp == nil {
					vp = w.buildGrid(g, 0)
					e.defectCache[ck] = vp
				}
				offer(vp, g.Label())
				e.r.Eval("family|" + g.Label() + "|" + w.canon)
			}
		})
	}

	// family 2: cross-named retractions of every listed entry (reads the list: offered in every state)
	xlevel := "state"
	if leaf {
		xlevel = "leaf"
	} else if thorough && len(w.hist) <= 2 {
		xlevel = "state-thorough"
	}
	for _, svc := range w.services() {
		w.on(svc, func() {
			for victim := 0; victim < w.cfg.K; victim++ {
				if w.model[e.subjects[victim].did] == nil {
					continue
				}
				for _, m := range c16XRetMembers(xlevel) {
					offer(w.buildXRet(m, victim), m.Label())
					e.r.Eval("family|" + m.Label() + "|" + w.canon)
				}
			}
		})
	}
	if leaf {
		return n
	}

	// family 3: cross-named registrations (every subject as the party that is named)
	for victim := 0; victim < w.cfg.K; victim++ {
		for _, m := range c16XRegMembers("state") {
			offer(w.buildXReg(m, victim), m.Label())
			e.r.Eval("family|" + m.Label() + "|" + w.canon)
		}
	}

	// family 4: made for service X, offered to service Y
	for _, x := range c16GridServices {
		for _, y := range c16GridServices {
			if x == y {
				continue
			}
			for _, aud := range [][]string{{x}, {x, y}} {
				ck := fmt.Sprintf("X|%s|%s|%v|%d", x, y, aud, e.now())
				vp := e.defectCache[ck]
				if vp == nil {
					vp = w.honestFor(x, 0, aud)
					e.defectCache[ck] = vp
				}
				w.on(y, func() {
					offer(vp, fmt.Sprintf("registration made for %s (aud %v) offered to %s", x, aud, y))
					e.r.Eval("family|cross-service|" + x + y + fmt.Sprint(len(aud)) + "|" + w.canon)
				})
			}
		}
	}
	// ... and retractions: the id of s's entry on service X in a retraction offered to service Y
	svcs := []string{c16Service, c16ServiceB}
	for _, x := range svcs {
		for _, y := range svcs {
			if x == y || (x != c16Service && !w.cfg.TwoServices) {
				continue
			}
			for s := 0; s < w.cfg.K; s++ {
				var id string
				w.on(x, func() {
					if en := w.model[e.subjects[s].did]; en != nil {
						id = en.VP.Facts.ID
					}
				})
				if id == "" {
					continue
				}
				for _, aud := range [][]string{{y}, {x}, {x, y}} {
					w.on(y, func() {
						vp := e.buildVP(c16VPOpt{Signer: e.subjects[s], ExpIn: c16Long, Types: []string{c16RetractType}, Aud: aud,
							Extra: map[string]any{"retract_jti": id}})
						offer(vp, fmt.Sprintf("retraction of the signer's entry on %s (aud %v) offered to %s", x, aud, y))
						e.r.Eval("family|cross-service-retraction|" + x + y + fmt.Sprint(len(aud)) + "|" + w.canon)
					})
				}
			}
		}
	}
	return n
}

// ---------------------------------------------------------------- the lying server ----

// c16Liar answers the client's Get with whatever the harness puts in it.
type c16Liar struct {
	batch map[string]vc.VerifiablePresentation
	seed  string
	ts    int
}

func (l *c16Liar) Register(ctx context.Context, endpoint string, presentation vc.VerifiablePresentation) error {
	return nil
}

func (l *c16Liar) Get(ctx context.Context, endpoint string, timestamp int) (map[string]vc.VerifiablePresentation, string, int, error) {
	out := map[string]vc.VerifiablePresentation{}
	for k, v := range l.batch {
		rt, err := c16RoundTrip(v)
		if err != nil {
			return nil, "", 0, err
		}
		out[k] = rt
	}
	return out, l.seed, l.ts, nil
}

// lie hands one presentation to the real client as the (only) new entry of a lying server and judges the client's Search.
func (w *c16World) lie(l *c16Liar, vp *c16VP, label string) {
	e := w.e
	l.ts++
	l.batch = map[string]vc.VerifiablePresentation{fmt.Sprint(l.ts): vp.VP}
	saved := w.cli.clientUpdater.client
	w.cli.clientUpdater.client = l
	defer func() { w.cli.clientUpdater.client = saved }()
	if err := w.cli.clientUpdater.updateService(context.Background(), e.defs[c16Cur]); err != nil {
		e.r.Observation("client-update-error", map[string]any{"error": err.Error(), "label": label})
	}
	if err := w.cli.registrationManager.validate(); err != nil { // the background pass over entries stored unvalidated
		e.r.Observation("client-validate-error", map[string]any{"error": err.Error(), "label": label})
	}
	e.stats["lying_server_answers"]++
	now := e.now()
	for _, raw := range w.searchRaws() {
		f := e.facts(raw)
		if f.Retraction {
			continue
		}
		if ok, clause := e.ref(f, now, nil); !ok {
			w.violation("C16|client|search-returns-unverifiable-or-expired|"+clause,
				fmt.Sprintf("after a lying server handed out %s the client's Search returns a presentation the reference predicate refuses (%s)", label, clause))
			return
		}
	}
}

// ---------------------------------------------------------------- part: grid ----

type c16GridCase struct {
	Base   string `json:"base"`
	Family string `json:"family"`
	Index  int    `json:"index"`
	Victim int    `json:"victim"`
}

// c16GridBases: the histories on which the full products are run.
func c16GridBases() map[string][]c16Event {
	return map[string][]c16Event{
		"empty":                 nil,
		"a-listed":              {{Op: "reg", S: 0}},
		"a-b-listed":            {{Op: "reg", S: 0}, {Op: "reg", S: 1}},
		"a-refreshed-b-listed":  {{Op: "reg", S: 0}, {Op: "reg", S: 1}, {Op: "reg", S: 0}},
		"a-listed-b-retracted":  {{Op: "reg", S: 0}, {Op: "reg", S: 1}, {Op: "retract", S: 1}},
		"a-b-listed-2h-later":   {{Op: "reg", S: 0}, {Op: "reg", S: 1}, {Op: "expire"}},
		"a-listed-b-under-a-id": {{Op: "reg", S: 0}, {Op: "regdup", S: 1}},
	}
}

func TestVerifC16Grid(t *testing.T) {
	r := ev.Start(t, "C16")
	defer r.Finish()
	e := c16NewEnv(t, r)
	r.Rule("full products of four generated presentation families on fixed base histories of the real server and client: " +
		"(1) registrations with the 1/2/3 credentials three service definitions ask for (incl. the self-attested DiscoveryRegistrationCredential) and optionally a surplus one × " +
		"each credential's expiry ∈ {absent, long before, 1 s before, equal, 1 s after, long after the presentation's expiry, already expired} × issuance ∈ {past, after the presentation's nbf, future} × every position order × " +
		"the presentation's exp ∈ {1 h, now+1 s, maximum −1 s, maximum, maximum +1 s} × nbf ∈ {past, now, now+1 s} (virtual clock); " +
		"(2) retractions of every listed entry signed by another party × iss × sub ∈ {signer, victim, absent, empty, third party} × retract_jti ∈ {victim's listed id, signer's own listed id, unknown, victim's superseded id} × kid ∈ {own, bare DID, victim's, none}; " +
		"(3) registrations signed by one party whose kid / iss / sub / credentials / id name another; (4) presentations made for service X offered to service Y. " +
		"Every member is offered to the server (listed ⇒ the reference predicate, evaluated on the bytes as sent, accepts; an accepted presentation changes no other subject's entry and is filed under its signer) and, " +
		"if it is a registration, handed to the real client as the answer of a lying server (Search returns it ⇒ the reference predicate accepts). A case is distinct by base history × family × member × victim.")
	r.Assume("go-did parsing, jwx, gorm/SQLite are trusted; the virtual clock replaces every clock read of discovery/{module,store,client}.go and vcr/verifier/{verifier,signature_verifier}.go")
	cfg := c16Config{Name: "grid", K: 3, Owners: true}
	bases := c16GridBases()
	var baseNames []string
	for k := range bases {
		baseNames = append(baseNames, k)
	}
	sort.Strings(baseNames)
	grid := e.gridMembers("full")
	xret := c16XRetMembers("full")
	xregLevel := "full-quick"
	if r.Thorough() {
		xregLevel = "full"
	}
	xreg := c16XRegMembers(xregLevel)
	// quick tier: the full products on one base history each (validity grid: nothing listed; cross-named presentations:
	// both subjects listed), the shallow-state subsets on the others
	gridState := map[string]bool{}
	for _, g := range e.gridMembers("state") {
		gridState[g.Label()] = true
	}
	xretState := map[c16XRet]bool{}
	for _, m := range c16XRetMembers("state-thorough") {
		xretState[m] = true
	}
	xregState := map[c16XReg]bool{}
	for _, m := range c16XRegMembers("state") {
		xregState[m] = true
	}
	inTier := func(base, family string, i int) bool {
		if r.Thorough() {
			return true
		}
		switch family {
		case "grid":
			return base == "empty" || gridState[grid[i].Label()]
		case "xret":
			return base == "a-b-listed" || xretState[xret[i]]
		}
		return base == "a-b-listed" || xregState[xreg[i]]
	}

	var w *c16World
	var liar *c16Liar
	rebuild := func(base string) {
		w = e.build(cfg, bases[base])
		w.poll() // the client holds what the honest server lists
		liar = &c16Liar{}
		_, liar.seed, liar.ts = c16Rows(t, e.cliDB)
		if liar.seed == "" {
			liar.seed = "c16-liar-seed"
		}
	}
	var transitions, cases int64
	accepted := map[string]int{}
	run := func(c c16GridCase) {
		var vp *c16VP
		var label, svc string
		svc = c16Service
		switch c.Family {
		case "grid":
			g := grid[c.Index]
			vp, label, svc = w.buildGrid(g, c.Victim), g.Label(), g.Svc
		case "xret":
			vp, label = w.buildXRet(xret[c.Index], c.Victim), xret[c.Index].Label()
		case "xreg":
			vp, label = w.buildXReg(xreg[c.Index], c.Victim), xreg[c.Index].Label()
		}
		if vp == nil {
			return
		}
		cases++
		r.Eval(fmt.Sprintf("%s|%s|%s|%d", c.Base, c.Family, label, c.Victim))
		w.hist = append(append([]c16Event{}, bases[c.Base]...), c16Event{Op: "offer:" + label})
		needRebuild := false
		w.on(svc, func() {
			rowsBefore, _, _ := w.serverRows()
			ok := w.submit(vp, label, false)
			transitions++
			if ok {
				accepted[c.Family]++
			}
			if !w.dirty && !ok {
				if rowsAfter, _, _ := c16Rows(t, e.srvDB); ev.Key(rowsAfter) != ev.Key(rowsBefore) {
					w.violation("C16|server|refused-registration-changed-state", "a refused presentation ("+label+") changed the list")
				}
			}
			if !w.dirty && !vp.Facts.Retraction {
				w.lie(liar, vp, label)
				transitions++
			}
			if !w.dirty && ok {
				w.checkServerState()
			}
			// an accepted cross-named member changed the entries the next member is built from: start from the base history
			// again (a member of the validity grid only replaces the presenter's own entry, which no grid member reads)
			needRebuild = w.dirty || (ok && c.Family != "grid")
		})
		if needRebuild {
			rebuild(c.Base)
		}
	}
	var rc struct {
		Config string       `json:"config"`
		Grid   *c16GridCase `json:"grid"`
	}
	if os.Getenv("VERIF_REPLAY") != "" {
		if !r.ReplayCase(&rc) || rc.Grid == nil {
			return // the replay file belongs to another part
		}
		rebuild(rc.Grid.Base)
		run(*rc.Grid)
		r.States(1)
		r.Transitions(transitions)
		return
	}
	// vacuity guard: the honest registration for each of the three services (1, 2 and 3 credentials, the third one
	// self-attested) is accepted by the server, found by the client, and an entry under another subject's id leaves that
	// subject's entry alone (harness broken if not)
	for s, svc := range c16GridServices {
		rebuild("empty")
		w.on(svc, func() {
			if !w.submit(w.honestFor(svc, s, nil), "guard: honest registration for "+svc, true) {
				t.Fatalf("vacuity guard: the honest registration for %s is refused", svc)
			}
			w.lie(liar, w.honestFor(svc, s, nil), "guard: honest registration for "+svc)
			if got := w.searchRaws(); len(got) != 1 {
				t.Fatalf("vacuity guard: the client does not find the honest registration for %s (%d results)", svc, len(got))
			}
		})
	}
	idx := 0
	for _, base := range baseNames {
		built := false
		each := func(family string, n int, victims []int) {
			for i := 0; i < n; i++ {
				for _, v := range victims {
					if !inTier(base, family, i) {
						continue
					}
					idx++
					if !r.Mine(idx) {
						continue
					}
					if r.Expired() {
						r.NotExhaustive("grid part stopped by the wall-clock budget")
						return
					}
					if !built {
						rebuild(base)
						built = true
					}
					c := c16GridCase{Base: base, Family: family, Index: i, Victim: v}
					w.replayCase = map[string]any{"config": "grid", "grid": c}
					run(c)
				}
			}
		}
		// the validity grid does not read the list: three base histories (nothing listed, own entry listed, two hours later)
		switch base {
		case "empty", "a-listed", "a-b-listed-2h-later":
			each("grid", len(grid), []int{0})
		}
		if base != "empty" && base != "a-b-listed-2h-later" {
			each("xret", len(xret), []int{0, 1})
			each("xreg", len(xreg), []int{0, 1})
		}
		r.States(1)
	}
	r.Transitions(transitions)
	r.Bound("grid_members", len(grid))
	r.Bound("cross_named_retractions", len(xret))
	r.Bound("cross_named_registrations", len(xreg))
	r.Bound("base_histories", len(baseNames))
	for k, v := range accepted {
		r.AddExtra("accepted_"+k, int64(v))
	}
	for k, v := range e.stats {
		if k != "max_suffix_rounds" {
			r.AddExtra(k, v)
		}
	}
	t.Logf("grid part: cases=%d transitions=%d accepted=%v", cases, transitions, accepted)
}
