//go:build verif

package iam

import (
	"github.com/nuts-foundation/go-did/did"
)

// VerifJarRequest builds the value that createAuthorizationRequest stores in the request-object store
// (jarRequest is unexported). audience != "" gives a request_uri_method=get object, "" a post one.
func VerifJarRequest(client did.DID, clientID string, audience string, extra map[string]string) any {
	return createJarRequest(client, clientID, audience, func(claims map[string]string) {
		for k, v := range extra {
			claims[k] = v
		}
	})
}

// Constants of the product, used by the C05 harness only to place probe instants and to report them
// (the time-to-live of each secret is read from what the store wrapper sees, not from here).
const (
	VerifS2SMaxPresentationValidity = s2sMaxPresentationValidity
	VerifS2SMaxClockSkew            = s2sMaxClockSkew
	VerifAccessTokenValidity        = accessTokenValidity
)
