//go:build verif

package storage

import (
	"github.com/eko/gocache/lib/v4/cache"
	"github.com/eko/gocache/lib/v4/store"
)

// VerifNewSessionDatabase builds the real in-memory session database (and through GetStore the real
// SessionStoreImpl) over the given store instead of the go-cache store that NewInMemorySessionDatabase
// creates. Only the store at the very bottom differs from the product: the C05 harness passes the real
// go-cache store wrapped so that every Get / Set / Delete is one scheduling point.
func VerifNewSessionDatabase(s store.StoreInterface) SessionDatabase {
	return &InMemorySessionDatabase{underlying: cache.New[[]byte](s)}
}
