//go:build verif

package didnuts

import (
	"github.com/nuts-foundation/nuts-node/network"
	"github.com/nuts-foundation/nuts-node/network/dag"
	"github.com/nuts-foundation/nuts-node/vdr/didnuts/didstore"
	"github.com/nuts-foundation/nuts-node/vdr/resolver"
)

// VerifAmbassadorCallback returns the real callback of a real ambassador over the given store (C09 check).
func VerifAmbassadorCallback(networkClient network.Transactions, store didstore.Store) func(tx dag.Transaction, payload []byte) error {
	return NewAmbassador(networkClient, store, nil).(*ambassador).callback
}

// VerifAmbassadorKeyResolver returns the key resolver the ambassador (and the DAG signature verifier) uses.
func VerifAmbassadorKeyResolver(store didstore.Store) resolver.NutsKeyResolver {
	return dag.SourceTXKeyResolver{Resolver: Resolver{Store: store}}
}
