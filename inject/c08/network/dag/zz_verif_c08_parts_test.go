//go:build verif

package dag

import (
	"fmt"
	"os"
	"sort"
	"strconv"
	"strings"
	"testing"
	"time"

	"github.com/nuts-foundation/go-stoabs"
	"github.com/nuts-foundation/nuts-node/crypto/hash"
	"github.com/nuts-foundation/nuts-node/network/dag/tree"

	"verif/ev"
	"verif/fault"
	"verif/sched"
	"verif/space"
)

// c08Case is what a replay file of this check holds.
type c08Case struct {
	Part     string     `json:"part"` // hist | faults | sched | repair
	Base     int        `json:"base"`
	Hist     []c08Event `json:"hist,omitempty"`
	Op       int        `json:"op,omitempty"`
	Mode     string     `json:"mode,omitempty"`
	At       int        `json:"at,omitempty"`
	Label    string     `json:"label,omitempty"`
	Scenario string     `json:"scenario,omitempty"`
	Schedule []int      `json:"schedule,omitempty"`
	Page     int        `json:"page,omitempty"`
	Variant  string     `json:"variant,omitempty"`
	// repair part: the history of signals from the network layer, I = IncorrectStateDetected, C = CorrectStateDetected;
	// Signals are sent before the first round of checkPage calls, Mid between the first and a second round
	Signals string `json:"signals,omitempty"`
	Mid     string `json:"mid,omitempty"`
	Driver  bool   `json:"driver,omitempty"` // the passes are made by the product's own ticker-driven loop (xorTreeRepair.start)
}

// c08Signal sends the signal history through the State's public methods (what the protocol calls) and returns the
// reference count of the product's activation rule: every incorrect signal counts, a correct signal resets.
func c08Signal(s *state, count int, signals string) int {
	for _, sg := range signals {
		if sg == 'I' {
			s.IncorrectStateDetected()
			count++
		} else {
			s.CorrectStateDetected()
			count = 0
		}
	}
	return count
}

// c08Active is the product's own activation rule as documented on xorTreeRepair: the loop is triggered when the network
// layer has reported mismatches up to the red state of the circuit (the constant circuitRed is read, not a literal) and
// "continues looping until the network layer signals all is ok again".
func c08Active(count int) bool { return count >= int(circuitRed) }

func c08SignalClass(prefixCount, midCount int, signals, mid string) string {
	cls := "inactive"
	switch {
	case c08Active(prefixCount) && prefixCount == int(circuitRed):
		cls = "at-threshold"
	case c08Active(prefixCount):
		cls = "above-threshold"
	case mid != "" && c08Active(midCount):
		cls = "activated-midway"
	}
	if cls != "inactive" && strings.Contains(signals+mid, "C") {
		cls += "+after-correct"
	}
	return "signals:" + cls
}

func c08Selftest(t *testing.T, r *ev.Run, w *c08World) {
	w.soft = func(msg string) { r.NotExhaustive(msg) }
	// vacuity guards: the reference fold accepts an honest instance, and it notices a phantom reference
	in := w.fresh(0)
	defer in.discard()
	if j := in.judge(); len(j.Fails) != 0 {
		c08Report(r, "history", "live", j, c08Case{Part: "hist", Base: 0})
		return
	}
	for _, n := range []string{"n()#0", "n(n()#0)#0", "n(n()#0)#1"} {
		if err := in.apply(c08Event{Kind: "add", Name: n}); err != nil {
			r.Observation("valid-add-refused", map[string]any{"name": n, "err": err.Error()})
			return
		}
	}
	if j := in.judge(); len(j.Fails) != 0 || len(j.Names) != 3 {
		c08Report(r, "history", "live", j, c08Case{Part: "hist", Base: 0, Hist: []c08Event{{Kind: "add", Name: "n()#0"}, {Kind: "add", Name: "n(n()#0)#0"}, {Kind: "add", Name: "n(n()#0)#1"}}})
		return
	}
	in.st.xorTree.tree.Insert(hash.SHA256Sum([]byte("phantom")), 0)
	if j := in.judge(); strings.Join(j.Fails, "+") != "xor" {
		t.Fatalf("harness: a phantom reference in the XOR tree is not noticed (fails=%v)", j.Fails)
	}
}

// ============================================================================================ part (a)

// TestVerifC08Hist: explicit-state BFS over valid histories (plus rejected writes) from snapshot bases whose
// next clocks sit on page and tree re-root boundaries. Every transition is one real State.Add on an
// instance that was started from the persisted base by the node's own loadState; the reference fold is
// evaluated in every state, on the live instance and on a second instance opened on the file.
func TestVerifC08Hist(t *testing.T) {
	c08Quiet()
	r := ev.Start(t, "C08")
	defer r.Finish()
	r.Rule("BFS over event histories from snapshot bases of 0,1,2,3,510..513,1022..1025,2046..2049 chained transactions; events = child of " +
		"every transaction in the window (last two base transactions + all added ones), merges of tip pairs, and rejected writes (duplicate, " +
		"second root, missing prev, wrong payload); states merged by (stored set by structural name, head); reference fold of App. B.2 on " +
		"the live instance and on a reloaded copy in every state; a case is non-trivial when its last event is a valid addition")
	r.Assume("bbolt's atomic commit is trusted; clocks above 2051 and more than 7 additions per history are not explored")

	type baseSpec struct{ n, depth int }
	// chain lengths n give a highest clock n-1: the persisted start states sit two and one below, exactly at and one above
	// every page boundary / tree re-root size (highest clock 509..512, 1021..1024, 2045..2048), so that a last page with
	// exactly one transaction is both reached by additions and loaded from disk
	specs := []baseSpec{{0, 5}, {1, 4}, {2, 4}, {3, 4}, {510, 3}, {511, 3}, {512, 2}, {513, 2}, {1022, 3}, {1023, 3}, {1024, 2}, {1025, 2}, {2046, 2}, {2047, 2}, {2048, 1}, {2049, 1}}
	if r.Thorough() {
		specs = []baseSpec{{0, 7}, {1, 6}, {2, 6}, {3, 6}, {510, 5}, {511, 5}, {512, 4}, {513, 4}, {1022, 5}, {1023, 5}, {1024, 4}, {1025, 4}, {2046, 4}, {2047, 4}, {2048, 3}, {2049, 3}}
	}
	var rc c08Case
	replay := r.ReplayCase(&rc)
	if (replay && rc.Part != "hist") || (!replay && os.Getenv("VERIF_REPLAY") != "") {
		t.Skip("replay case belongs to another part")
	}
	lens := []int{}
	for _, s := range specs {
		lens = append(lens, s.n)
	}
	if replay {
		lens = []int{0, rc.Base}
	}
	w := newC08World(t, lens...)
	c08Selftest(t, r, w)

	check := func(base int, in *c08Inst, hist []c08Event) {
		key := ""
		if len(hist) > 0 && hist[len(hist)-1].valid() {
			key = c08HistKey(base, hist)
		}
		r.Eval(key)
		cs := c08Case{Part: "hist", Base: base, Hist: hist}
		j := in.judge()
		c08Report(r, "history", "live", j, cs)
		if len(j.Fails) == 0 {
			jr := in.judgeReloadedOpt(len(hist) == 0 || hist[len(hist)-1].valid())
			c08Report(r, "history", "reloaded", jr, cs)
			if c08Differs(j, jr) {
				r.Violation("C08|history|reloaded|differs-from-live", fmt.Sprintf("outputs after reopening the file differ from the live instance after %s", c08HistKey(base, hist)), cs)
			}
		}
	}
	build := func(base int, hist []c08Event) *c08Inst {
		in := w.fresh(base)
		for i, e := range hist {
			err := in.apply(e)
			if i == len(hist)-1 {
				r.Outcome(e.Kind + ":" + c08ErrClass(err))
				if e.valid() && err != nil {
					r.Observation("valid-add-refused", map[string]any{"base": base, "hist": c08HistKey(base, hist), "err": err.Error()})
				}
				if !e.valid() && e.Kind != "dup" && err == nil {
					r.Observation("rejected-write-accepted", map[string]any{"base": base, "hist": c08HistKey(base, hist)})
				}
			}
		}
		return in
	}
	if replay {
		in := build(rc.Base, rc.Hist)
		check(rc.Base, in, rc.Hist)
		in.discard()
		return
	}
	maxDepth := 0
	idx := 0
	// Units of work: per base the root with its first events (depth 1), and one BFS per valid first event with the
	// remaining depth; inside a unit the subtrees of the next event are dealt over the shards.
	for _, sp := range specs {
		sp := sp
		type unit struct {
			prefix []c08Event
			depth  int
		}
		units := []unit{{nil, 1}}
		for _, e := range c08Menu(c08BaseNames(sp.n), sp.n, false) {
			if sp.depth > 1 {
				units = append(units, unit{[]c08Event{e}, sp.depth - 1})
			}
		}
		for ui, u := range units {
			u := u
			full := func(hist []c08Event) []c08Event { return append(append([]c08Event(nil), u.prefix...), hist...) }
			sys := space.System[c08Event]{
				Build: func(hist []c08Event) (any, func()) {
					in := build(sp.n, full(hist))
					return in, in.discard
				},
				Enabled: func(inst any, hist []c08Event) []c08Event {
					return c08Menu(inst.(*c08Inst).listNames(), sp.n, true)
				},
				Canon: func(inst any) string {
					in := inst.(*c08Inst)
					if in.j == nil {
						in.judge()
					}
					return in.j.canon()
				},
				Invariant: func(inst any, hist []c08Event) {
					if len(hist) == 0 && ui > 0 {
						return // the unit's root was judged as a depth-1 transition of the base unit
					}
					check(sp.n, inst.(*c08Inst), full(hist))
				},
				MaxDepth: u.depth,
				Budget:   r.Expired,
				Mine:     func(first int) bool { idx++; return r.Mine(idx) },
			}
			res := space.BFS(sys)
			r.States(res.States - 1) // the unit's root is counted where it was reached
			r.Transitions(res.Transitions)
			if !res.Exhaustive {
				r.NotExhaustive("BFS budget")
			}
			if d := res.MaxDepth + len(u.prefix); d > maxDepth && res.States > 1 {
				maxDepth = d
			}
		}
		r.Bound(fmt.Sprintf("depth_base_%d", sp.n), sp.depth)
	}
	if s, _ := r.Shard(); s == 0 {
		r.States(int64(len(specs))) // the base states themselves
	}
	r.Bound("max_depth_reached", maxDepth)
	r.Sample(map[string]any{"base": 510, "history": "add:n(b509)#0;add:n(n(b509)#0)#0;add:n(b508)#0", "meaning": "clock 510 -> 511 -> 512 (new page) plus a fork at clock 509"})
}

// ============================================================================================ part (b)

// c08Histories enumerates all histories of exactly `length` events from the menu (model-side, pure), with at
// most one rejected write per history.
func c08Histories(base, length int) [][]c08Event {
	var out [][]c08Event
	var rec func(present []string, hist []c08Event, rejects int)
	rec = func(present []string, hist []c08Event, rejects int) {
		if len(hist) == length {
			out = append(out, append([]c08Event(nil), hist...))
			return
		}
		for _, e := range c08Menu(present, base, rejects == 0) {
			nr := rejects
			if !e.valid() {
				nr++
			}
			rec(c08ModelApply(present, e), append(hist, e), nr)
		}
	}
	rec(c08BaseNames(base), nil, 0)
	return out
}

// c08EmptyBefore tells whether the stored set is empty before op i of the history on this base.
func c08EmptyBefore(base int, hist []c08Event, op int) bool {
	if base > 0 {
		return false
	}
	for _, e := range hist[:op] {
		if e.valid() {
			return false
		}
	}
	return true
}

// runFaultCase performs one fault run and reports the first failing checkpoint. It returns a short outcome.
func c08RunFaultCase(r *ev.Run, w *c08World, c c08Case) string {
	in := w.fresh(c.Base)
	defer func() { in.discard() }()
	for _, e := range c.Hist[:c.Op] {
		_ = in.apply(e)
	}
	mode := fault.Error
	if c.Mode == "stop" {
		mode = fault.Stop
	}
	store := "nonempty-store"
	if c08EmptyBefore(c.Base, c.Hist, c.Op) {
		store = "empty-store"
	}
	scenario := "rollback"
	if mode == fault.Stop {
		scenario = "stop"
	}
	class := store + "|" + c.Hist[c.Op].Kind + "|" + c.Label
	failed := false
	checkpoint := func(where string, j *c08Judgement) {
		if failed || len(j.Fails) == 0 {
			return
		}
		failed = true
		j.Detail = where + ": " + j.Detail
		c08Report(r, scenario, class, j, c)
	}
	in.kv.Arm(fault.Plan{Mode: mode, At: c.At})
	var opErr error
	stopped := fault.Run(func() { opErr = in.apply(c.Hist[c.Op]) })
	fired, at := in.kv.Fired()
	in.kv.Disarm()
	if !fired {
		return "fault-not-reached"
	}
	outcome := c.Mode + "@" + at.Label()
	if mode == fault.Stop {
		if stopped == nil && !in.kv.Dead() {
			w.trouble("a stop fired but the store is not dead (case skipped)")
			return "skipped"
		}
		// the abandoned instance is closed, the file is opened by a fresh instance: the restart
		in = in.reopen()
		checkpoint("after restart", in.judge())
	} else {
		outcome += ":" + c08ErrClass(opErr)
		jl := in.judge()
		checkpoint("after the failed write", jl)
		if !failed {
			jr := in.judgeReloaded()
			checkpoint("reloaded after the failed write", jr)
			if !failed && c08Differs(jl, jr) {
				failed = true
				r.Violation("C08|"+scenario+"|"+class+"|reload-differs", "outputs after reopening the file differ from the live instance after the failed write", c)
			}
		}
	}
	// the interrupted operation is retried, then the rest of the history follows
	for i, e := range c.Hist[c.Op:] {
		_ = in.apply(e)
		if i == 0 {
			checkpoint("after retrying the interrupted write", in.judge())
		}
	}
	jl := in.judge()
	checkpoint("after the rest of the history", jl)
	in = in.reopen()
	jr := in.judgeOpt(r.Thorough())
	checkpoint("after the rest of the history and a restart", jr)
	if !failed && c08Differs(jl, jr) {
		failed = true
		r.Violation("C08|"+scenario+"|"+class+"|reload-differs", "outputs after the final restart differ from the live instance", c)
	}
	if failed {
		outcome += ":VIOLATION"
	}
	return outcome
}

// TestVerifC08Faults: every error point and every stop point of every operation of short histories.
func TestVerifC08Faults(t *testing.T) {
	c08Quiet()
	r := ev.Start(t, "C08")
	defer r.Finish()
	r.Rule("all histories of fixed length from the event menu (at most one rejected write each) on bases 0,1,2,510..513,1022..1025(,2046..2049); " +
		"for every operation of the history every numbered step of its write transactions (begin, each put/delete, commit, each AfterCommit, " +
		"each OnRollback) x {storage error, process stop}; after the fault: reference fold on the live instance and a reloaded copy (error) or " +
		"after restart (stop), then retry of the interrupted write and the rest of the history, fold again live and after a restart; " +
		"a case is non-trivial when the fault fired")
	r.Assume("a stop inside a transaction is emulated by failing the transaction and unwinding afterwards (go-stoabs bbolt is not panic safe); " +
		"torn writes below bbolt's commit are not modelled")

	type baseSpec struct{ n, length int }
	// the faulted write is, among others: the one that fills a page (clock 511/1023), the one that opens a new page
	// (512/1024, with and without a tree re-root), the second one on a page that held a single transaction (513/1025)
	specs := []baseSpec{{0, 4}, {1, 3}, {2, 3}, {510, 2}, {511, 2}, {512, 1}, {513, 1}, {1022, 2}, {1023, 2}, {1024, 1}, {1025, 1}}
	if r.Thorough() {
		specs = []baseSpec{{0, 5}, {1, 4}, {2, 4}, {510, 3}, {511, 3}, {512, 2}, {513, 2}, {1022, 3}, {1023, 3}, {1024, 2}, {1025, 2}, {2046, 2}, {2047, 2}, {2048, 1}, {2049, 1}}
	}
	var rc c08Case
	replay := r.ReplayCase(&rc)
	if (replay && rc.Part != "faults") || (!replay && os.Getenv("VERIF_REPLAY") != "") {
		t.Skip("replay case belongs to another part")
	}
	lens := []int{0}
	for _, s := range specs {
		lens = append(lens, s.n)
	}
	if replay {
		lens = []int{0, rc.Base}
	}
	w := newC08World(t, lens...)
	c08Selftest(t, r, w)
	if replay {
		r.Eval(c08HistKey(rc.Base, rc.Hist))
		r.Outcome(c08RunFaultCase(r, w, rc))
		return
	}
	idx := 0
	var runs, fires int64
	sampled := 0
	for _, sp := range specs {
		hists := c08Histories(sp.n, sp.length)
		r.Bound(fmt.Sprintf("histories_base_%d_len_%d", sp.n, sp.length), len(hists))
		for _, hist := range hists {
			idx++
			if !r.Mine(idx) {
				continue
			}
			if r.Expired() {
				break
			}
			// dry run: the step trace of every operation
			in := w.fresh(sp.n)
			traces := make([][]fault.Step, len(hist))
			for i, e := range hist {
				in.kv.Arm(fault.Plan{})
				err := in.apply(e)
				traces[i] = in.kv.Trace()
				if e.valid() && err != nil {
					r.Observation("valid-add-refused", map[string]any{"hist": c08HistKey(sp.n, hist), "err": err.Error()})
				}
			}
			if j := in.judge(); len(j.Fails) > 0 {
				c08Report(r, "history", "live", j, c08Case{Part: "hist", Base: sp.n, Hist: hist})
			}
			in.discard()
			for op := range hist {
				for _, st := range traces[op] {
					for _, mode := range []fault.Mode{fault.Error, fault.Stop} {
						if !fault.Applicable(st.Kind, mode) {
							continue
						}
						c := c08Case{Part: "faults", Base: sp.n, Hist: hist, Op: op, Mode: mode.String(), At: st.N, Label: st.Label()}
						out := c08RunFaultCase(r, w, c)
						runs++
						key := ""
						if out != "fault-not-reached" {
							fires++
							key = c08HistKey(sp.n, hist) + "|" + strconv.Itoa(op) + "|" + mode.String() + "|" + strconv.Itoa(st.N)
						}
						r.Eval(key)
						r.Outcome(out)
						if sampled < 2 && mode == fault.Stop && st.Kind == fault.Commit {
							sampled++
							labels := []string{}
							for _, s := range traces[op] {
								labels = append(labels, s.Label())
							}
							r.Sample(map[string]any{"case": c, "steps_of_the_operation": labels})
						}
					}
				}
			}
		}
	}
	r.AddExtra("fault_runs", runs)
	r.AddExtra("faults_fired", fires)
}

// ============================================================================================ part (c)

type c08SchedScenario struct {
	name    string
	base    int
	threads [][]c08Event // each thread applies its events in order
	reader  bool
	repair  bool // one more thread runs the repair procedure on a corrupted page
}

func c08SchedScenarios(thorough bool) []c08SchedScenario {
	x, y := "n(b1)#0", "n(b1)#1"
	s := []c08SchedScenario{
		{name: "two-forks+reader", base: 2, threads: [][]c08Event{{{Kind: "add", Name: x}}, {{Kind: "add", Name: y}}}, reader: true},
		{name: "same-tx-twice", base: 2, threads: [][]c08Event{{{Kind: "add", Name: x}}, {{Kind: "add", Name: x}}}},
		{name: "parent-and-child", base: 2, threads: [][]c08Event{{{Kind: "add", Name: x}}, {{Kind: "add", Name: "n(" + x + ")#0"}}}},
		{name: "page-boundary", base: 511, threads: [][]c08Event{{{Kind: "add", Name: "n(b510)#0"}}, {{Kind: "add", Name: "n(b509)#0"}}}, reader: true},
		{name: "first-root-twice", base: 0, threads: [][]c08Event{{{Kind: "add", Name: "n()#0"}}, {{Kind: "add", Name: "n()#0"}}}, reader: true},
		{name: "repair+add+reader", base: 2, threads: [][]c08Event{{{Kind: "add", Name: x}}}, reader: true, repair: true},
	}
	if thorough {
		s = append(s,
			c08SchedScenario{name: "three-adds", base: 2, threads: [][]c08Event{{{Kind: "add", Name: x}}, {{Kind: "add", Name: y}}, {{Kind: "add", Name: x}}}},
			c08SchedScenario{name: "reroot-boundary", base: 1023, threads: [][]c08Event{{{Kind: "add", Name: "n(b1022)#0"}, {Kind: "add", Name: "n(n(b1022)#0)#0"}}, {{Kind: "add", Name: "n(b1021)#0"}}}, reader: true})
	}
	return s
}

// c08TreeProxy adds a scheduling point in front of Replace and records whether the caller holds the tree
// store's mutex (row 13 of DESIGN §4: an assumption check, never a verdict).
type c08TreeProxy struct {
	tree.Tree
	before func()
}

func (p *c08TreeProxy) Replace(clock uint32, data tree.Data) error {
	p.before()
	return p.Tree.Replace(clock, data)
}

// TestVerifC08Sched: 2-3 concurrent Add calls (+ readers, + the repair procedure) under the baton scheduler;
// network/dag is compiled with sync / sync/atomic replaced by the scheduler-visible shims, the store's RW
// lock is the virtual one of fault.KV. The oracle is evaluated at quiescence only.
func TestVerifC08Sched(t *testing.T) {
	c08Quiet()
	r := ev.Start(t, "C08")
	defer r.Finish()
	thorough := r.Thorough()
	bound := 1
	if thorough {
		bound = 2
	}
	r.Rule("stateless DFS over all schedules of the listed thread sets with at most `preemption_bound` preemptions; scheduling points = every " +
		"Mutex/RWMutex/atomic/sync.Map operation of network/dag (import rewrite) and the store's read/write lock; fresh instance from a base " +
		"copy per execution; reference fold at quiescence, live and reloaded; a case is one complete schedule")
	r.Assume("readers that overlap a writer are explored but judged only by the quiescent-state oracle; the baton scheduler cannot show torn " +
		"reads inside one unsynchronised section (see assumption check row13)")
	r.Bound("preemption_bound", bound)

	var rc c08Case
	replay := r.ReplayCase(&rc)
	if (replay && rc.Part != "sched") || (!replay && os.Getenv("VERIF_REPLAY") != "") {
		t.Skip("replay case belongs to another part")
	}
	scen := c08SchedScenarios(thorough)
	lens := []int{0}
	for _, s := range scen {
		lens = append(lens, s.base)
	}
	w := newC08World(t, lens...)
	c08Selftest(t, r, w)
	shard, nsh := r.Shard()
	replaceHeldMutex, replaceCalls := 0, 0
	nExec := 0
	var totalExec int64
	for si, sc := range scen {
		sc := sc
		if replay && sc.name != rc.Scenario {
			continue
		}
		// pre-create the transactions outside the exploration (signing is not part of it)
		for _, th := range sc.threads {
			for _, e := range th {
				w.tx(e.Name)
			}
		}
		phantom := hash.SHA256Sum([]byte("phantom-" + sc.name))
		// a deadlock or a panic of a thread is reported only when two replays of the same schedule show it again
		confirming, confirmed := false, 0
		var setup func(x *sched.Exec) func(x *sched.Exec)
		setup = func(x *sched.Exec) func(x *sched.Exec) {
			in := w.fresh(sc.base)
			in.kv.VirtualLock(true)
			in.kv.KeepTrace(false)
			results := make([][]string, len(sc.threads))
			for ti, th := range sc.threads {
				ti, th := ti, th
				x.Go("add"+strconv.Itoa(ti), func() {
					for _, e := range th {
						results[ti] = append(results[ti], c08ErrClass(in.apply(e)))
					}
				})
			}
			if sc.reader {
				x.Go("reader", func() {
					in.st.XOR(0)
					in.st.XOR(MaxLamportClock)
					in.st.IBLT(MaxLamportClock)
					_, _ = in.st.Head(c08ctx)
					_, _ = in.st.FindBetweenLC(c08ctx, 0, MaxLamportClock)
					in.st.XOR(PageSize - 1)
				})
			}
			if sc.repair {
				// corrupt page 0 in memory and on disk, then let the repair run concurrently
				in.st.xorTree.tree.Insert(phantom, 3)
				_ = in.kv.Write(c08ctx, func(tx stoabs.WriteTx) error { return in.st.xorTree.writeWithoutLock(tx) })
				c08Signal(in.st, 0, strings.Repeat("I", int(circuitRed)))
				in.st.xorTree.tree = &c08TreeProxy{Tree: in.st.xorTree.tree, before: func() {
					replaceCalls++
					if in.st.xorTree.mutex.TryLock() {
						in.st.xorTree.mutex.Unlock()
					} else {
						replaceHeldMutex++
					}
				}}
				x.Go("repair", func() { in.st.xorTreeRepair.checkPage() })
			}
			return func(x *sched.Exec) {
				cs := c08Case{Part: "sched", Base: sc.base, Scenario: sc.name, Schedule: x.Choices()}
				trouble, what := "", ""
				for i, p := range x.Panics() {
					if p != nil {
						trouble, what = "panic", fmt.Sprintf("thread %d panicked: %v", i, p)
					}
				}
				if x.Deadlock {
					trouble, what = "deadlock", "threads blocked for ever: "+strings.Join(x.Trace, " ")
				}
				if trouble != "" {
					// the instance is leaked: its threads may hold locks and an open transaction
					if confirming {
						confirmed++
						return
					}
					confirming, confirmed = true, 0
					for i := 0; i < 2; i++ {
						sched.Explore(sched.Options{Replay: x.Choices(), MaxSteps: 5000}, setup)
					}
					confirming = false
					if confirmed == 2 {
						r.Violation("C08|sched|"+sc.name+"|"+trouble, what, cs)
					} else {
						r.NotExhaustive("a " + trouble + " in a schedule of " + sc.name + " did not reproduce (schedule skipped)")
					}
					return
				}
				defer in.discard()
				if confirming {
					return
				}
				r.Eval(sc.name + fmt.Sprint(x.Choices()))
				r.Outcome(sc.name + ":" + fmt.Sprint(results))
				j := in.judge()
				c08Report(r, "sched", sc.name+"|live", j, cs)
				nExec++
				if len(j.Fails) == 0 && (sc.base < 64 || nExec%4 == 0) { // large bases: every 4th execution is also judged after a reload
					jr := in.judgeReloaded()
					c08Report(r, "sched", sc.name+"|reloaded", jr, cs)
					if c08Differs(j, jr) {
						r.Violation("C08|sched|"+sc.name+"|reload-differs", "outputs after reopening the file differ from the live instance", cs)
					}
				}
			}
		}
		opts := sched.Options{Bound: bound, Shard: shard, NSh: nsh, SelfCheck: true, MaxSteps: 5000}
		if replay {
			opts.Replay = rc.Schedule
		}
		// share of the wall budget per scenario
		opts.Deadline = time.Now().Add(time.Duration(45/len(scen)+1) * time.Second)
		if thorough {
			opts.Deadline = time.Now().Add(time.Duration(900/len(scen)+1) * time.Second)
		}
		res := sched.Explore(opts, setup)
		totalExec += res.Executions
		r.Transitions(res.Executions)
		r.Bound("max_choice_points_"+sc.name, res.MaxPoints)
		if !res.Exhaustive {
			r.NotExhaustive("schedule exploration of " + sc.name + " stopped at " + res.Capped)
		}
		for _, e := range res.Errors {
			// divergence / horizon / self-check trouble of the explorer: the scenario's exploration is incomplete, nothing more
			r.NotExhaustive("schedule exploration of " + sc.name + " stopped: explorer trouble")
			r.AssumptionCheck("schedule explorer replays deterministically ("+sc.name+")", false, e)
		}
		_ = si
	}
	r.States(totalExec)
	if replaceCalls > 0 {
		r.AssumptionCheck("row13: checkPage holds treeStore.mutex while it replaces a leaf", replaceHeldMutex == replaceCalls,
			fmt.Sprintf("Replace called %d times by the repair procedure, %d times with the tree store's mutex held; readers (XOR/IBLT) take only that mutex. "+
				"Not a verdict: the property speaks about quiescent moments", replaceCalls, replaceHeldMutex))
	}
}

// ============================================================================================ part (d)

// c08RawLeaves returns the persisted XOR leaves by key.
func c08RawLeaves(in *c08Inst, shelf string) map[uint32]string {
	out := map[uint32]string{}
	_ = in.st.db.Read(c08ctx, func(tx stoabs.ReadTx) error {
		return tx.GetShelfReader(shelf).Iterate(func(k stoabs.Key, v []byte) error {
			out[keyToClock(k)] = string(v)
			return nil
		}, clockToKey(0))
	})
	return out
}

// TestVerifC08Repair: for every page of a multi-page DAG and every corruption variant, the repair procedure
// restores the page's digest and leaves the other pages bit-identical.
func TestVerifC08Repair(t *testing.T) {
	c08Quiet()
	r := ev.Start(t, "C08")
	defer r.Finish()
	r.Rule("chains whose highest clock is one below, exactly at and one above every page boundary (511/512/513, 1023/1024/1025; thorough also 1199 and " +
		"2047/2048/2049), i.e. DAGs whose last page is full, holds exactly one transaction, or two; for EVERY page including the last x corruption " +
		"{phantom reference, missing reference, zeroed leaf} x place {memory and disk, memory only, disk only then restart}: the repair loop is driven " +
		"from its initial position by 2*pages+1 checkPage calls (every page is due at least twice, the wrap-around included), reference fold (XOR " +
		"clauses) live and after restart, persisted leaves of the other pages compared byte for byte; plus every error / stop point of the write " +
		"transactions of the first pass over all pages; a case is one (chain, page, corruption, place, fault) tuple")
	r.Assume("the IBLT is not repaired by design and is not corrupted here; pages beyond the highest clock are not corrupted")
	bases := []int{512, 513, 514, 1024, 1025, 1026}
	if r.Thorough() {
		bases = []int{512, 513, 514, 1024, 1025, 1026, 1200, 2048, 2049, 2050}
	}
	worldBases := append([]int{0, 3}, bases...)
	var rc c08Case
	replay := r.ReplayCase(&rc)
	if (replay && rc.Part != "repair") || (!replay && os.Getenv("VERIF_REPLAY") != "") {
		t.Skip("replay case belongs to another part")
	}
	w := newC08World(t, worldBases...)
	c08Selftest(t, r, w)
	phantom := hash.SHA256Sum([]byte("phantom"))

	type fcase struct {
		mode fault.Mode
		at   int
	}
	runOne := func(c c08Case, f fcase) (string, []fault.Step, int) {
		parts := strings.Split(c.Variant, "/") // corruption/place
		corruption, place := parts[0], parts[1]
		in := w.fresh(c.Base)
		defer func() { in.discard() }()
		pages := (c.Base-1)/int(PageSize) + 1
		before := c08RawLeaves(in, xorShelf)
		clock := uint32(c.Page) * PageSize
		corruptMem := func(s *state) {
			switch corruption {
			case "phantom":
				s.xorTree.tree.Insert(phantom, clock)
			case "missing":
				s.xorTree.tree.Delete(w.chain[clock].Ref(), clock) // xor is its own inverse: the reference disappears from the digest
			case "zeroed":
				_ = s.xorTree.tree.Replace(uint32(c.Page)*PageSize, tree.NewXor())
			}
		}
		persist := func(s *state) {
			if err := in.inner.Write(c08ctx, func(tx stoabs.WriteTx) error { return s.xorTree.writeWithoutLock(tx) }); err != nil {
				w.trouble("the corrupted leaf could not be written")
			}
		}
		switch place {
		case "mem+disk":
			corruptMem(in.st)
			persist(in.st)
		case "mem":
			corruptMem(in.st)
			in.st.xorTree.tree.ResetUpdates()
		case "disk":
			corruptMem(in.st)
			persist(in.st)
			in = in.reopen() // the corrupted leaf is what the node loads at start
		}
		if j := in.judge(); strings.Join(j.Fails, "+") != "xor" {
			// on the unchanged tree the injected corruption shows as an XOR mismatch and nothing else; anything else means the
			// instance was not consistent to begin with, which is what the other parts report: no verdict from this case
			w.trouble("an injected corruption was not visible as an XOR mismatch before the repair (cases skipped)")
			return "skipped", nil, 0
		}
		signals := c.Signals
		switch signals {
		case "": // not given: just enough incorrect signals to activate the procedure
			signals = strings.Repeat("I", int(circuitRed))
		case "-": // explicitly none
			signals = ""
		}
		count1 := c08Signal(in.st, 0, signals)
		corrupted := c08RawLeaves(in, xorShelf)
		xorCorrupted, _ := in.st.XOR(MaxLamportClock)
		// the loop is driven from its own initial position, never positioned by the harness: 2*pages+1 calls make every
		// page due at least twice, the wrap-around after the last page included. firstPass = number of write steps of the
		// first pages+1 calls (the fault enumeration is over those)
		firstPass := 0
		cycle := func(s *state, calls int) {
			for i := 0; i < calls && !in.kv.Dead(); i++ {
				s.xorTreeRepair.checkPage()
				if i == pages {
					firstPass = in.kv.Steps()
				}
			}
		}
		count2 := count1
		in.kv.Arm(fault.Plan{Mode: f.mode, At: f.at})
		stopped := fault.Run(func() {
			cycle(in.st, 2*pages+1)
			if c.Mid != "" && !in.kv.Dead() {
				count2 = c08Signal(in.st, count1, c.Mid)
				cycle(in.st, pages+1) // from any position of the loop, pages consecutive passes visit every page
			}
		})
		trace := in.kv.Trace()
		fired, at := in.kv.Fired()
		in.kv.Disarm()
		outcome := "repaired"
		if f.mode != fault.None {
			if !fired {
				return "fault-not-reached", trace, firstPass
			}
			outcome = f.mode.String() + "@" + at.Label()
		}
		if stopped != nil || in.kv.Dead() {
			// stop inside the repair: restart; the node is again in the corrupted-or-repaired state and the repair runs again
			in = in.reopen()
			c08Signal(in.st, 0, strings.Repeat("I", int(circuitRed)))
			cycle(in.st, pages+1)
		}
		shape := "inner-page"
		if c.Page == pages-1 {
			switch c.Base - c.Page*int(PageSize) {
			case 1:
				shape = "last-page-with-one-transaction"
			case int(PageSize):
				shape = "last-page-full"
			default:
				shape = "last-page"
			}
		}
		class := corruption + "|" + place + "|" + shape + "|" + c08SignalClass(count1, count2, signals, c.Mid)
		if f.mode != fault.None {
			class += "|" + f.mode.String() + "@" + at.Label()
		}
		if !c08Active(count1) && !(c.Mid != "" && c08Active(count2)) {
			// fewer signals than the activation rule asks for: the procedure must not change anything
			now := c08RawLeaves(in, xorShelf)
			xorNow, _ := in.st.XOR(MaxLamportClock)
			changed := len(now) != len(corrupted) || !xorNow.Equals(xorCorrupted)
			for k, v := range corrupted {
				changed = changed || now[k] != v
			}
			if changed {
				r.Violation("C08|repair|"+class+"|changed-while-inactive", fmt.Sprintf("the repair procedure changed the XOR tree although it is not active after the signals %q / %q", signals, c.Mid), c)
			}
			return "inactive:nothing-changed", trace, firstPass
		}
		j := in.judge()
		c08Report(r, "repair", class+"|live", j, c)
		after := c08RawLeaves(in, xorShelf)
		if len(j.Fails) == 0 {
			in = in.reopen()
			jr := in.judge()
			if f.mode == fault.Error && len(jr.Fails) > 0 {
				// the in-memory tree was repaired but the write failed; the persisted leaf stays corrupted until the
				// next detection after a restart. The statement's repair clause assumes a repair that ran; recorded only.
				r.Observation("repair-write-failed-leaf-stays-corrupted-on-disk", map[string]any{"case": c, "fault": outcome, "detail": jr.Detail})
				outcome += ":disk-still-corrupted"
			} else {
				c08Report(r, "repair", class+"|restarted", jr, c)
			}
			after = c08RawLeaves(in, xorShelf)
		}
		// other pages untouched, bit for bit
		keys := []int{}
		for k := range before {
			keys = append(keys, int(k))
		}
		sort.Ints(keys)
		for _, k := range keys {
			leafPage := (k - int(PageSize)/2) / int(PageSize)
			if leafPage == c.Page {
				continue
			}
			if before[uint32(k)] != after[uint32(k)] {
				r.Violation("C08|repair|"+class+"|other-page-disturbed", fmt.Sprintf("persisted XOR leaf of page %d changed while page %d was repaired", leafPage, c.Page), c)
			}
		}
		if len(after) != len(before) {
			r.Violation("C08|repair|"+class+"|leaf-count", fmt.Sprintf("%d persisted XOR leaves before, %d after the repair", len(before), len(after)), c)
		}
		return outcome, trace, firstPass
	}

	// runDriver: corrupted last page (memory and disk), signals through the State's public methods, then the passes are made
	// by the product's own loop (xorTreeRepair.start via State.Start) on ticks that the harness feeds into its ticker.
	runDriver := func(c c08Case) string {
		in := w.fresh(c.Base)
		defer func() { in.discard() }()
		pages := (c.Base-1)/int(PageSize) + 1
		in.st.xorTree.tree.Insert(phantom, uint32(c.Page)*PageSize)
		if err := in.inner.Write(c08ctx, func(tx stoabs.WriteTx) error { return in.st.xorTree.writeWithoutLock(tx) }); err != nil {
			w.trouble("the corrupted leaf could not be written")
			return "skipped"
		}
		if j := in.judge(); strings.Join(j.Fails, "+") != "xor" {
			w.trouble("an injected corruption was not visible as an XOR mismatch before the repair (cases skipped)")
			return "skipped"
		}
		count := c08Signal(in.st, 0, c.Signals)
		corrupted := c08RawLeaves(in, xorShelf)
		ticks := make(chan time.Time) // unbuffered: a tick is taken only when the loop is back at its select
		rp := in.st.xorTreeRepair
		rp.ticker.Stop()
		rp.ticker = &time.Ticker{C: ticks}
		in.kv.Arm(fault.Plan{})
		if err := in.st.Start(); err != nil {
			w.trouble("State.Start failed")
			return "skipped"
		}
		passes := 2*pages + 1
		tick := func() bool {
			select {
			case ticks <- time.Now(): // taken only when the loop is back at its select: the previous pass is over
				return true
			case <-time.After(time.Minute):
				w.trouble("the repair loop did not take a tick (driver case skipped)")
				return false
			}
		}
		for i := 0; i < passes; i++ {
			if !tick() {
				return "skipped"
			}
		}
		// the network layer reports agreement: whatever pass follows does nothing. One more tick is taken only when the last
		// real pass is over (if the green signal overtakes that pass, 2*pages active passes remain: every page was due twice)
		in.st.CorrectStateDetected()
		if !tick() {
			return "skipped"
		}
		rp.shutdown()
		class := "phantom|mem+disk|last-page-with-one-transaction|" + c08SignalClass(count, count, c.Signals, "") + "|ticker-driven-loop"
		if !c08Active(count) {
			now := c08RawLeaves(in, xorShelf)
			for k, v := range corrupted {
				if now[k] != v {
					r.Violation("C08|repair|"+class+"|changed-while-inactive", "the ticker-driven repair loop changed the XOR tree although the procedure is not active", c)
				}
			}
			return "driver:inactive:nothing-changed"
		}
		j := in.judge()
		c08Report(r, "repair", class+"|live", j, c)
		if len(j.Fails) == 0 {
			in = in.reopen()
			c08Report(r, "repair", class+"|restarted", in.judge(), c)
		}
		return "driver:repaired"
	}

	if replay {
		if rc.Driver {
			r.Eval(ev.Key(rc))
			r.Outcome(runDriver(rc))
			return
		}
		mode := fault.None
		switch rc.Mode {
		case "error":
			mode = fault.Error
		case "stop":
			mode = fault.Stop
		}
		out, _, _ := runOne(rc, fcase{mode, rc.At})
		r.Eval(ev.Key(rc))
		r.Outcome(out)
		return
	}
	light, heavy := 0, 0
	var runs int64
	thr := int(circuitRed)
	I := func(n int) string { return strings.Repeat("I", n) }
	activeSignals := []string{I(thr), I(thr + 1), I(thr + 3), I(thr) + "C" + I(thr), "IC" + I(thr+2)}
	inactiveSignals := []string{"-", I(thr - 1), I(thr) + "C", I(thr+3) + "C" + I(thr-1)}
	interleaved := [][2]string{{"-", I(thr + 1)}, {I(thr), "C"}, {I(thr - 1), "I"}, {I(thr) + "C", I(thr + 1)}, {I(thr - 1), "CI"}}
	r.Bound("activation_threshold_read_from_product", thr)

	// (1) the complete signal alphabet on the smallest chain: every sequence over {I, C} of length 0..6, split at every
	// position into "before the first round of passes" and "between the first and the second round"
	{
		var seqs []string
		var gen func(p string)
		gen = func(p string) {
			seqs = append(seqs, p)
			if len(p) == 6 {
				return
			}
			gen(p + "I")
			gen(p + "C")
		}
		gen("")
		r.Bound("signal_sequences", len(seqs))
		si := 0
		for _, sq := range seqs {
			for k := 0; k <= len(sq); k++ {
				si++
				if !r.Mine(si) || r.Expired() {
					continue
				}
				pre, mid := sq[:k], sq[k:]
				if pre == "" {
					pre = "-"
				}
				c := c08Case{Part: "repair", Base: 3, Page: 0, Variant: "phantom/mem+disk", Signals: pre, Mid: mid}
				out, _, _ := runOne(c, fcase{fault.None, 0})
				runs++
				r.Eval(ev.Key(c))
				r.Outcome(out)
			}
		}
	}
	// (2) the product's own driver: the ticker-driven loop of xorTreeRepair.start makes the passes
	if s, _ := r.Shard(); s == 0 {
		for _, sg := range []string{I(thr), I(thr + 1), I(thr - 1), I(thr+1) + "C"} {
			c := c08Case{Part: "repair", Base: 513, Page: 1, Variant: "phantom/mem+disk", Signals: sg, Driver: true}
			out := runDriver(c)
			runs++
			r.Eval(ev.Key(c))
			r.Outcome(out)
		}
	}
	for _, base := range bases {
		pages := (base-1)/int(PageSize) + 1
		r.Bound(fmt.Sprintf("pages_chain_%d", base), pages)
		for page := 0; page < pages; page++ {
			for _, corruption := range []string{"phantom", "missing", "zeroed"} {
				for _, place := range []string{"mem+disk", "mem", "disk"} {
					// cases with fault enumeration are dealt separately from the others so that every worker gets its share of both
					withFaults := r.Thorough() || (place == "mem+disk" && corruption == "phantom")
					var mine bool
					if withFaults {
						heavy++
						mine = r.Mine(heavy)
					} else {
						light++
						mine = r.Mine(light)
					}
					if !mine || r.Expired() {
						continue
					}
					c := c08Case{Part: "repair", Base: base, Page: page, Variant: corruption + "/" + place}
					// the signal history is a dimension: every case gets one of the activating histories (rotating), the cases with fault
					// enumeration get all of them, plus the histories that must NOT activate the procedure and the interleaved ones
					c.Signals = activeSignals[(light+heavy)%len(activeSignals)]
					if withFaults {
						c.Signals = activeSignals[0]
						for _, sg := range activeSignals[1:] {
							sc := c
							sc.Signals = sg
							out, _, _ := runOne(sc, fcase{fault.None, 0})
							runs++
							r.Eval(ev.Key(sc))
							r.Outcome(out)
						}
						for _, sg := range inactiveSignals {
							sc := c
							sc.Signals = sg
							out, _, _ := runOne(sc, fcase{fault.None, 0})
							runs++
							r.Eval(ev.Key(sc))
							r.Outcome(out)
						}
						for _, pm := range interleaved {
							sc := c
							sc.Signals, sc.Mid = pm[0], pm[1]
							out, _, _ := runOne(sc, fcase{fault.None, 0})
							runs++
							r.Eval(ev.Key(sc))
							r.Outcome(out)
						}
					}
					out, trace, firstPass := runOne(c, fcase{fault.None, 0})
					runs++
					r.Eval(ev.Key(c))
					r.Outcome(out)
					if page == pages-1 && corruption == "phantom" && place == "mem+disk" && base%int(PageSize) == 1 {
						labels := []string{}
						for _, s := range trace {
							labels = append(labels, s.Label())
						}
						r.Sample(map[string]any{"case": c, "meaning": "highest clock exactly on a page boundary: the last page holds one transaction", "write_steps_of_the_repair": labels})
					}
					if !withFaults {
						continue
					}
					for _, st := range trace {
						if st.N > firstPass || r.Expired() {
							break
						}
						for _, mode := range []fault.Mode{fault.Error, fault.Stop} {
							if !fault.Applicable(st.Kind, mode) {
								continue
							}
							fc := c
							fc.Mode, fc.At, fc.Label = mode.String(), st.N, st.Label()
							out, _, _ := runOne(fc, fcase{mode, st.N})
							runs++
							r.Eval(ev.Key(fc))
							r.Outcome(out)
						}
					}
				}
			}
		}
	}
	r.AddExtra("repair_runs", runs)
	_ = os.Remove
}
