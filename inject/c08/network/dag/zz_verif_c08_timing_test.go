//go:build verif

package dag

import (
	"fmt"
	"os"
	"testing"
	"time"
)

func TestVerifC08Timing(t *testing.T) {
	c08Quiet()
	t0 := time.Now()
	w := newC08World(t, 0, 2, 511)
	fmt.Println("world", time.Since(t0))
	for _, base := range []int{2, 511} {
		st, _ := os.Stat(w.bases[base])
		fmt.Println("base file", base, st.Size())
	}
	{
		in := w.fresh(2)
		n := 200
		a := time.Now()
		for i := 0; i < n; i++ {
			in.st.IBLT(0)
		}
		fmt.Println("IBLT(0)", time.Since(a)/time.Duration(n))
		a = time.Now()
		for i := 0; i < n; i++ {
			ib, _ := in.st.IBLT(0)
			(&ib).MarshalBinary()
		}
		fmt.Println("IBLT(0)+marshal", time.Since(a)/time.Duration(n))
		a = time.Now()
		for i := 0; i < n; i++ {
			in.st.Diagnostics()
		}
		fmt.Println("Diagnostics", time.Since(a)/time.Duration(n))
		a = time.Now()
		for i := 0; i < n; i++ {
			in.st.XOR(0)
		}
		fmt.Println("XOR", time.Since(a)/time.Duration(n))
		a = time.Now()
		for i := 0; i < n; i++ {
			in.st.Head(c08ctx)
		}
		fmt.Println("Head (one read tx)", time.Since(a)/time.Duration(n))
		in.discard()
	}
	for _, base := range []int{0, 2, 511} {
		var tf, ta, tj, tr, td time.Duration
		n := 50
		for i := 0; i < n; i++ {
			a := time.Now()
			in := w.fresh(base)
			b := time.Now()
			if base == 0 {
				_ = in.apply(c08Event{Kind: "add", Name: "n()#0"})
			} else {
				_ = in.apply(c08Event{Kind: "add", Name: fmt.Sprintf("n(b%d)#0", base-1)})
			}
			c := time.Now()
			in.judge()
			d := time.Now()
			in.judgeReloaded()
			e := time.Now()
			in.discard()
			f := time.Now()
			tf += b.Sub(a)
			ta += c.Sub(b)
			tj += d.Sub(c)
			tr += e.Sub(d)
			td += f.Sub(e)
		}
		fmt.Printf("base %d: fresh %v apply %v judge %v reload %v discard %v\n", base, tf/time.Duration(n), ta/time.Duration(n), tj/time.Duration(n), tr/time.Duration(n), td/time.Duration(n))
	}
}
