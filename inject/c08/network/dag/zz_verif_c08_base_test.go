//go:build verif

// C08 — DAG digests, indexes, head and counters always equal what the stored set implies.
//
// In-package harness (form B), injected into network/dag by the overlay. This file holds what all parts
// share: the transaction pool with structural names, snapshot files of long chains, real instances
// (bbolt file -> fault.KV -> dag.State), the event menu and the reference fold of DESIGN App. B.2.
package dag

import (
	"bytes"
	"context"
	"crypto/sha256"
	"encoding/binary"
	"encoding/hex"
	"errors"
	"fmt"
	"io"
	"os"
	"path/filepath"
	"sort"
	"strconv"
	"strings"
	"testing"
	"time"

	"github.com/nuts-foundation/go-stoabs"
	"github.com/nuts-foundation/go-stoabs/bbolt"
	"github.com/nuts-foundation/nuts-node/core"
	"github.com/nuts-foundation/nuts-node/crypto/hash"
	"github.com/nuts-foundation/nuts-node/network/dag/tree"
	"github.com/sirupsen/logrus"

	"verif/ev"
	"verif/fault"
)

var c08ctx = context.Background()

func c08Quiet() {
	logrus.SetOutput(io.Discard)
	logrus.SetLevel(logrus.PanicLevel)
}

// ---------------------------------------------------------------------------------------------- world

// c08World owns the transaction pool of one worker process. Every transaction has a STRUCTURAL name:
// "b<i>" is the i-th transaction of the base chain (clock i); "n(<p>,<q>)#k" is the k-th transaction whose
// previous transactions are exactly the named ones; "ghost" is a root that is never added. The same name
// always yields the same signed transaction within a process, so histories are replayable event lists.
type c08World struct {
	t       testing.TB
	dir     string
	chain   []Transaction
	bases   map[int]string // number of chain transactions loaded -> snapshot file
	txs     map[string]Transaction
	nums    map[string]uint32
	names   map[hash.SHA256Hash]string
	nextNum uint32
	seq     int
	// soft reports machinery trouble that must never fail the check (set by the test to ev.Run.NotExhaustive)
	soft func(msg string)
}

func (w *c08World) trouble(format string, args ...any) {
	msg := fmt.Sprintf(format, args...)
	if w.soft != nil {
		w.soft(msg)
	} else {
		w.t.Logf("harness trouble: %s", msg)
	}
}

func c08Payload(num uint32) []byte {
	p := make([]byte, 4)
	binary.BigEndian.PutUint32(p, num)
	return p
}

var c08SignTime = time.Date(2024, 1, 1, 0, 0, 0, 0, time.UTC)

func newC08World(t testing.TB, baseLens ...int) *c08World {
	dir, err := os.MkdirTemp("", "c08w")
	if err != nil {
		t.Fatal(err)
	}
	t.Cleanup(func() { os.RemoveAll(dir) })
	w := &c08World{t: t, dir: dir, bases: map[int]string{}, txs: map[string]Transaction{}, nums: map[string]uint32{},
		names: map[hash.SHA256Hash]string{}, nextNum: 1_000_000}
	maxLen := 0
	want := map[int]bool{}
	for _, l := range baseLens {
		want[l] = true
		if l > maxLen {
			maxLen = l
		}
	}
	// the chain: generated once
	for i := 0; i < maxLen; i++ {
		var prevs []Transaction
		if i > 0 {
			prevs = []Transaction{w.chain[i-1]}
		}
		tx := CreateSignedTestTransaction(uint32(i), c08SignTime, nil, "application/did+json", true, prevs...)
		name := "b" + strconv.Itoa(i)
		w.chain = append(w.chain, tx)
		w.txs[name], w.nums[name], w.names[tx.Ref()] = tx, uint32(i), name
	}
	// loaded once through the real Add, snapshot files taken at the wanted lengths
	path := filepath.Join(dir, "load.db")
	in := w.openPath(path)
	if want[0] {
		w.bases[0] = "" // the empty base has no file
	}
	for i, tx := range w.chain {
		if err := in.st.Add(c08ctx, tx, c08Payload(uint32(i))); err != nil {
			t.Fatalf("loading base chain: add %d: %v", i, err)
		}
		if want[i+1] {
			snap := filepath.Join(dir, fmt.Sprintf("base%d.db", i+1))
			c08Copy(t, path, snap)
			w.bases[i+1] = snap
		}
	}
	in.close()
	os.Remove(path)
	return w
}

func c08Copy(t testing.TB, from, to string) {
	b, err := os.ReadFile(from)
	if err != nil {
		t.Fatal(err)
	}
	if err := os.WriteFile(to, b, 0o600); err != nil {
		t.Fatal(err)
	}
}

// parentsOf parses the structural name.
func c08ParentsOf(name string) []string {
	if strings.HasPrefix(name, "b") {
		i, _ := strconv.Atoi(name[1:])
		if i == 0 {
			return nil
		}
		return []string{"b" + strconv.Itoa(i-1)}
	}
	if strings.HasPrefix(name, "n(") {
		inner := name[2:strings.LastIndex(name, ")")]
		if inner == "" {
			return nil
		}
		// split at commas outside parentheses (parents may be merges themselves)
		var out []string
		depth, start := 0, 0
		for i := 0; i < len(inner); i++ {
			switch inner[i] {
			case '(':
				depth++
			case ')':
				depth--
			case ',':
				if depth == 0 {
					out = append(out, inner[start:i])
					start = i + 1
				}
			}
		}
		return append(out, inner[start:])
	}
	return nil
}

func c08ChildName(parents []string, k int) string {
	p := append([]string(nil), parents...)
	sort.Strings(p)
	return "n(" + strings.Join(p, ",") + ")#" + strconv.Itoa(k)
}

// tx returns the transaction with the given structural name, creating (and signing) it on first use.
func (w *c08World) tx(name string) (Transaction, []byte) {
	if tx, ok := w.txs[name]; ok {
		return tx, c08Payload(w.nums[name])
	}
	var prevs []Transaction
	for _, p := range c08ParentsOf(name) {
		ptx, _ := w.tx(p)
		prevs = append(prevs, ptx)
	}
	num := w.nextNum
	w.nextNum++
	tx := CreateSignedTestTransaction(num, c08SignTime, nil, "application/did+json", true, prevs...)
	w.txs[name], w.nums[name], w.names[tx.Ref()] = tx, num, name
	return tx, c08Payload(num)
}

func (w *c08World) nameOf(ref hash.SHA256Hash) string {
	if n, ok := w.names[ref]; ok {
		return n
	}
	return "?" + ref.String()[:8]
}

// ---------------------------------------------------------------------------------------------- instances

type c08Inst struct {
	w     *c08World
	path  string
	inner stoabs.KVStore
	kv    *fault.KV
	st    *state
	j     *c08Judgement // last judgement (stashed for the BFS canon)
}

func (w *c08World) openPath(path string) *c08Inst {
	inner, err := bbolt.CreateBBoltStore(path, stoabs.WithNoSync(), stoabs.WithLockAcquireTimeout(10*time.Minute))
	if err != nil {
		w.t.Fatalf("open %s: %v", path, err)
	}
	kv := fault.Wrap(inner)
	s, err := NewState(kv, NewPrevTransactionsVerifier(), NewTransactionSignatureVerifier(nil))
	if err != nil {
		w.t.Fatal(err)
	}
	if err := s.(*state).Configure(core.ServerConfig{}); err != nil {
		w.t.Fatal(err)
	}
	return &c08Inst{w: w, path: path, inner: inner, kv: kv, st: s.(*state)}
}

// fresh opens a new instance on a private copy of the base snapshot (start-up from a persisted state is the
// node's own loadState).
func (w *c08World) fresh(baseLen int) *c08Inst {
	w.seq++
	path := filepath.Join(w.dir, fmt.Sprintf("i%d.db", w.seq))
	snap, ok := w.bases[baseLen]
	if !ok {
		w.t.Fatalf("no base of length %d", baseLen)
	}
	if snap != "" {
		c08Copy(w.t, snap, path)
	}
	return w.openPath(path)
}

func (in *c08Inst) close() {
	in.st.xorTreeRepair.ticker.Stop()
	_ = in.st.Shutdown()
	ctx, cancel := context.WithTimeout(c08ctx, time.Minute)
	defer cancel()
	if err := in.inner.Close(ctx); err != nil {
		// the store is leaked; nothing is judged by this
		in.w.trouble("a store could not be closed (leaked)")
	}
}

func (in *c08Inst) discard() {
	in.close()
	os.Remove(in.path)
}

// reopen closes this instance and starts a new one on the same file (the restart).
func (in *c08Inst) reopen() *c08Inst {
	in.close()
	return in.w.openPath(in.path)
}

// judgeReloaded judges a second instance opened on a copy of the file as it is now (the live instance is
// quiescent: no transaction is open, bbolt has written every committed page with write(2)).
func (in *c08Inst) judgeReloaded() *c08Judgement { return in.judgeReloadedOpt(false) }

func (in *c08Inst) judgeReloadedOpt(full bool) *c08Judgement {
	in.w.seq++
	cp := filepath.Join(in.w.dir, fmt.Sprintf("r%d.db", in.w.seq))
	c08Copy(in.w.t, in.path, cp)
	other := in.w.openPath(cp)
	j := other.judgeOpt(full)
	other.discard()
	return j
}

// ---------------------------------------------------------------------------------------------- events

type c08Event struct {
	Kind string `json:"kind"` // add | dup | root2 | ghostprev | badpayload
	Name string `json:"name"`
}

func (e c08Event) String() string { return e.Kind + ":" + e.Name }

func c08HistKey(base int, hist []c08Event) string {
	parts := make([]string, len(hist))
	for i, e := range hist {
		parts[i] = e.String()
	}
	return "B" + strconv.Itoa(base) + "|" + strings.Join(parts, ";")
}

// valid tells whether the event is an addition that the node must admit in a state where its parents are present.
func (e c08Event) valid() bool { return e.Kind == "add" }

// apply performs the event on the real state.
func (in *c08Inst) apply(e c08Event) error {
	switch e.Kind {
	case "add", "dup", "root2", "ghostprev":
		tx, payload := in.w.tx(e.Name)
		return in.st.Add(c08ctx, tx, payload)
	case "badpayload":
		tx, _ := in.w.tx(e.Name)
		return in.st.Add(c08ctx, tx, []byte("not the payload"))
	}
	in.w.t.Fatalf("unknown event kind %q", e.Kind)
	return nil
}

// c08Menu lists the events offered in a state whose stored set has the given names. Valid additions first
// (children of every transaction in the window = the last two base transactions and everything added since;
// merges of pairs of tips), then the rejected writes. Pure function of the name set.
func c08Menu(present []string, baseLen int, withRejects bool) []c08Event {
	set := map[string]bool{}
	for _, n := range present {
		set[n] = true
	}
	if len(present) == 0 {
		out := []c08Event{{Kind: "add", Name: "n()#0"}}
		if withRejects {
			out = append(out, c08Event{Kind: "badpayload", Name: "n()#0"}, c08Event{Kind: "ghostprev", Name: "n(ghost)#0"})
		}
		return out
	}
	var window []string
	for _, i := range []int{baseLen - 2, baseLen - 1} {
		if i >= 0 && set["b"+strconv.Itoa(i)] {
			window = append(window, "b"+strconv.Itoa(i))
		}
	}
	var added []string
	for _, n := range present {
		if strings.HasPrefix(n, "n(") {
			added = append(added, n)
		}
	}
	sort.Strings(added)
	window = append(window, added...)
	hasChild := map[string]bool{}
	for _, n := range present {
		for _, p := range c08ParentsOf(n) {
			hasChild[p] = true
		}
	}
	next := func(parents []string) string {
		for k := 0; ; k++ {
			if n := c08ChildName(parents, k); !set[n] {
				return n
			}
		}
	}
	var out []c08Event
	for _, p := range window {
		out = append(out, c08Event{Kind: "add", Name: next([]string{p})})
	}
	var tips []string
	for _, p := range window {
		if !hasChild[p] {
			tips = append(tips, p)
		}
	}
	for i := 0; i < len(tips); i++ {
		for j := i + 1; j < len(tips); j++ {
			if n := c08ChildName([]string{tips[i], tips[j]}, 0); !set[n] {
				out = append(out, c08Event{Kind: "add", Name: n})
			}
		}
	}
	if withRejects {
		last := window[len(window)-1]
		out = append(out,
			c08Event{Kind: "dup", Name: last},
			c08Event{Kind: "root2", Name: "n()#1"},
			c08Event{Kind: "ghostprev", Name: "n(ghost)#0"},
			c08Event{Kind: "badpayload", Name: next([]string{last})})
	}
	return out
}

// c08ModelApply is the name set after an event that the node is expected to treat as the menu says.
func c08ModelApply(present []string, e c08Event) []string {
	if e.valid() {
		return append(append([]string(nil), present...), e.Name)
	}
	return present
}

func c08BaseNames(baseLen int) []string {
	out := make([]string, baseLen)
	for i := range out {
		out[i] = "b" + strconv.Itoa(i)
	}
	return out
}

// ---------------------------------------------------------------------------------------------- reference fold

// c08Judgement is the result of comparing every statement-relevant output of one real instance with the
// reference fold over the stored set as the node lists it.
type c08Judgement struct {
	Fails  []string // failed clauses: listing-set, listing-order, xor, iblt, lc-high, tx-count, head
	Detail string   // first failure, written out
	Digest string   // hash over the stored set and all outputs (for before/after-reload comparison)
	Names  []string // the listing, as structural names
	Head   string
	LcHigh uint32
	Broken string // the store could not be read: nothing is judged
}

func (j *c08Judgement) fail(clause, format string, args ...any) {
	for _, f := range j.Fails {
		if f == clause {
			return
		}
	}
	j.Fails = append(j.Fails, clause)
	if j.Detail == "" {
		j.Detail = clause + ": " + fmt.Sprintf(format, args...)
	}
}

func c08PageEnd(c uint32) uint32 { return (c/PageSize+1)*PageSize - 1 }

func c08Diag(s *state, title string) any {
	for _, d := range s.Diagnostics() {
		if d.Name() == title {
			return d.Result()
		}
	}
	return nil
}

// judge evaluates App. B.2 on the instance. It must be called at a quiescent moment.
//
// The stored set S is the key set of the transaction shelf; the clock of each member is known to the harness
// (it made every transaction; parsing 2 000 stored transactions per judgement would cost ~0.1 s). The node's
// listing FindBetweenLC is compared with S over the whole clock range when the set is small or full is asked
// for, and over the tail [highest clock - 3, max) otherwise; below the tail the raw clock index is compared
// with S instead (what the listing function reads).
func (in *c08Inst) judge() *c08Judgement { return in.judgeOpt(false) }

// judgeFull always lists the whole range.
func (in *c08Inst) judgeFull() *c08Judgement { return in.judgeOpt(true) }

type c08Member struct {
	ref   hash.SHA256Hash
	clock uint32
}

func (in *c08Inst) judgeOpt(full bool) *c08Judgement {
	s := in.st
	j := &c08Judgement{}
	h := sha256.New()
	// the stored set itself: keys of the transaction shelf
	var T []c08Member
	stored := map[hash.SHA256Hash]uint32{}
	index := map[uint32][]hash.SHA256Hash{}
	if err := s.db.Read(c08ctx, func(tx stoabs.ReadTx) error { return nil }); err != nil {
		j.Broken = "the store cannot be read: " + err.Error()
		in.j = j
		return j
	}
	_ = s.db.Read(c08ctx, func(tx stoabs.ReadTx) error {
		_ = tx.GetShelfReader(transactionsShelf).Iterate(func(k stoabs.Key, v []byte) error {
			ref := hash.FromSlice(k.Bytes())
			var clock uint32
			if name, ok := in.w.names[ref]; ok {
				clock = in.w.txs[name].Clock()
			} else if parsed, err := ParseTransaction(v); err == nil {
				clock = parsed.Clock()
			} else {
				j.fail("listing-set", "stored transaction %s cannot be parsed: %v", ref, err)
			}
			stored[ref] = clock
			T = append(T, c08Member{ref, clock})
			return nil
		}, stoabs.HashKey{})
		return tx.GetShelfReader(clockShelf).Iterate(func(k stoabs.Key, v []byte) error {
			c := binary.BigEndian.Uint32(k.Bytes())
			index[c] = append(index[c], parseHashList(v)...)
			return nil
		}, stoabs.Uint32Key(0))
	})
	sort.Slice(T, func(a, b int) bool {
		if T[a].clock != T[b].clock {
			return T[a].clock < T[b].clock
		}
		return T[a].ref.Compare(T[b].ref) < 0
	})
	var lcHigh uint32
	for _, m := range T {
		if m.clock > lcHigh {
			lcHigh = m.clock
		}
		j.Names = append(j.Names, in.w.nameOf(m.ref))
	}
	// the clock index holds every member exactly once, under its own clock
	nIndexed := 0
	for c, refs := range index {
		seen := map[hash.SHA256Hash]bool{}
		for _, ref := range refs {
			nIndexed++
			if sc, ok := stored[ref]; !ok || sc != c || seen[ref] {
				j.fail("clock-index", "clock index lists %s under clock %d (stored=%v, its clock %d, repeated=%v)", in.w.nameOf(ref), c, ok, sc, seen[ref])
			}
			seen[ref] = true
		}
	}
	if nIndexed != len(T) {
		j.fail("clock-index", "%d transactions stored, %d entries in the clock index", len(T), nIndexed)
	}
	// the node's listing
	lo := uint32(0)
	if !full && len(T) > 64 && lcHigh > 3 {
		lo = lcHigh - 3
	}
	L, err := s.FindBetweenLC(c08ctx, lo, MaxLamportClock)
	if err != nil {
		j.fail("listing-set", "FindBetweenLC(%d,max) failed: %v", lo, err)
	}
	listed := map[hash.SHA256Hash]bool{}
	prev := uint32(0)
	for i, tx := range L {
		if listed[tx.Ref()] {
			j.fail("listing-set", "transaction %s listed twice", in.w.nameOf(tx.Ref()))
		}
		listed[tx.Ref()] = true
		if sc, ok := stored[tx.Ref()]; !ok {
			j.fail("listing-set", "listed transaction %s is not stored", in.w.nameOf(tx.Ref()))
		} else if sc != tx.Clock() {
			j.fail("listing-set", "listed transaction %s has clock %d, harness knows %d", in.w.nameOf(tx.Ref()), tx.Clock(), sc)
		}
		if i > 0 && tx.Clock() < prev {
			j.fail("listing-order", "clock %d listed after clock %d", tx.Clock(), prev)
		}
		prev = tx.Clock()
	}
	want := 0
	for _, m := range T {
		if m.clock >= lo {
			want++
			if !listed[m.ref] {
				j.fail("listing-set", "stored transaction %s (clock %d) is missing from FindBetweenLC(%d,max)", in.w.nameOf(m.ref), m.clock, lo)
			}
		}
	}
	if want != len(listed) {
		j.fail("listing-set", "%d transactions stored with clock >= %d, %d listed", want, lo, len(listed))
	}
	j.LcHigh = lcHigh
	sortedNames := append([]string(nil), j.Names...)
	sort.Strings(sortedNames)
	fmt.Fprintf(h, "set=%v\n", sortedNames)

	// counters
	if got := s.lamportClockHigh.Load(); got != lcHigh {
		j.fail("lc-high", "in-memory highest clock %d, stored set implies %d", got, lcHigh)
	}
	if got, _ := c08Diag(s, "dag_lc_high").(uint32); got != lcHigh {
		j.fail("lc-high", "diagnostics dag_lc_high %d, stored set implies %d", got, lcHigh)
	}
	var persistedLC uint32
	var persistedCount uint64
	_ = s.db.Read(c08ctx, func(tx stoabs.ReadTx) error {
		persistedLC = s.graph.getHighestClockValue(tx)
		persistedCount = s.graph.getNumberOfTransactions(tx)
		return nil
	})
	if persistedLC != lcHigh {
		j.fail("lc-high", "persisted lc_high %d, stored set implies %d", persistedLC, lcHigh)
	}
	if persistedCount != uint64(len(T)) {
		j.fail("tx-count", "persisted tx_num %d, stored set has %d", persistedCount, len(T))
	}
	if got, _ := c08Diag(s, TransactionCountDiagnostic).(uint); uint64(got) != uint64(len(T)) {
		j.fail("tx-count", "diagnostics transaction_count %d, stored set has %d", got, len(T))
	}
	fmt.Fprintf(h, "lc=%d n=%d\n", s.lamportClockHigh.Load(), persistedCount)

	// head
	head, err := s.Head(c08ctx)
	if err != nil {
		j.fail("head", "Head failed: %v", err)
	}
	j.Head = in.w.nameOf(head)
	if len(T) == 0 {
		if !head.Equals(hash.EmptyHash()) {
			j.fail("head", "head %s on an empty DAG", j.Head)
		}
		j.Head = ""
	} else {
		ok := false
		for _, m := range T {
			if m.ref.Equals(head) && m.clock == lcHigh {
				ok = true
			}
		}
		if !ok {
			j.fail("head", "head %s is not one of the stored transactions with the highest clock %d", j.Head, lcHigh)
		}
	}
	fmt.Fprintf(h, "head=%s\n", j.Head)

	// prefix folds per page
	pages := int(lcHigh/PageSize) + 1
	xorAt := make([]hash.SHA256Hash, pages) // xor of all refs with clock <= end of page p
	ibltAt := make([][]byte, pages)
	var acc hash.SHA256Hash
	ib := tree.NewIblt(IbltNumBuckets)
	byPage := make([][]hash.SHA256Hash, pages)
	for _, m := range T {
		p := int(m.clock / PageSize)
		byPage[p] = append(byPage[p], m.ref)
	}
	for p := 0; p < pages; p++ {
		for _, ref := range byPage[p] {
			for i := range acc {
				acc[i] ^= ref[i]
			}
			ib.Insert(ref)
		}
		xorAt[p] = acc
		ibltAt[p], _ = ib.MarshalBinary()
	}
	refFor := func(c uint32) (int, uint32) { // page index of the fold, expected clock
		if c < lcHigh {
			pe := c08PageEnd(c)
			if pe < lcHigh {
				return int(c / PageSize), pe
			}
			return pages - 1, lcHigh
		}
		return pages - 1, lcHigh
	}
	clocks := map[uint32]bool{0: true, 1: true, 511: true, 512: true, 513: true, MaxLamportClock: true, MaxLamportClock - 1: true,
		lcHigh: true, lcHigh + 1: true}
	if lcHigh > 0 {
		clocks[lcHigh-1] = true
	}
	for p := 0; p <= pages; p++ {
		b := uint32(p) * PageSize
		clocks[b] = true
		clocks[b+1] = true
		if b > 0 {
			clocks[b-1] = true
		}
	}
	cs := make([]uint32, 0, len(clocks))
	for c := range clocks {
		cs = append(cs, c)
	}
	sort.Slice(cs, func(a, b int) bool { return cs[a] < cs[b] })
	for _, c := range cs {
		p, wantClock := refFor(c)
		gotX, gotXC := s.XOR(c)
		if !gotX.Equals(xorAt[p]) || gotXC != wantClock {
			j.fail("xor", "XOR(%d) = (%s, %d), fold over the stored set gives (%s, %d)", c, gotX.String()[:12], gotXC, xorAt[p].String()[:12], wantClock)
		}
		fmt.Fprintf(h, "c=%d x=%s/%d\n", c, gotX, gotXC)
		// the IBLT query clones 45 kB per call: asked at the first and last clock of every page, around the highest
		// clock and at the maximum (every distinct answer the function can give is among these)
		if !(c%PageSize == 0 || c%PageSize == PageSize-1 || c+1 == lcHigh || c == lcHigh || c == lcHigh+1 || c == MaxLamportClock) {
			continue
		}
		gotI, gotIC := s.IBLT(c)
		gb, _ := (&gotI).MarshalBinary()
		if !bytes.Equal(gb, ibltAt[p]) || gotIC != wantClock {
			j.fail("iblt", "IBLT(%d) (clock %d) differs from the fold over the stored set (clock %d)", c, gotIC, wantClock)
		}
		fmt.Fprintf(h, "c=%d i=%x/%d\n", c, sha256.Sum256(gb), gotIC)
	}
	if got := c08Diag(s, "dag_xor"); fmt.Sprint(got) != fmt.Sprint(xorAt[pages-1]) {
		j.fail("xor", "diagnostics dag_xor %v, fold gives %s", got, xorAt[pages-1])
	}
	sort.Strings(j.Fails)
	j.Digest = hex.EncodeToString(h.Sum(nil)[:12])
	in.j = j
	return j
}

// listNames is the stored set as structural names (no judgement).
func (in *c08Inst) listNames() []string {
	if in.j != nil {
		return in.j.Names
	}
	var out []string
	_ = in.st.db.Read(c08ctx, func(tx stoabs.ReadTx) error {
		return tx.GetShelfReader(transactionsShelf).Iterate(func(k stoabs.Key, _ []byte) error {
			out = append(out, in.w.nameOf(hash.FromSlice(k.Bytes())))
			return nil
		}, stoabs.HashKey{})
	})
	return out
}

// c08Differs: both judgements are clean and their outputs differ.
func c08Differs(a, b *c08Judgement) bool {
	return a.Broken == "" && b.Broken == "" && len(a.Fails) == 0 && len(b.Fails) == 0 && a.Digest != b.Digest
}

// canon: the stored set by structural names plus the head (the only order-dependent facts futures depend on).
func (j *c08Judgement) canon() string {
	n := append([]string(nil), j.Names...)
	sort.Strings(n)
	return strings.Join(n, ",") + "|head=" + j.Head
}

// ---------------------------------------------------------------------------------------------- reporting

// c08Report turns a failed judgement into a violation. scenario / class are structural.
func c08Report(r *ev.Run, scenario, class string, j *c08Judgement, replay any) {
	if j.Broken != "" {
		r.NotExhaustive("some judgements could not read the store (skipped)")
		return
	}
	if len(j.Fails) == 0 {
		return
	}
	sig := "C08|" + scenario + "|" + class + "|" + strings.Join(j.Fails, "+")
	r.Violation(sig, j.Detail, replay)
}

func c08ErrClass(err error) string {
	switch {
	case err == nil:
		return "ok"
	case errors.Is(err, fault.ErrInjected):
		return "injected-error"
	case errors.Is(err, errRootAlreadyExists):
		return "root-exists"
	case errors.Is(err, ErrPreviousTransactionMissing):
		return "prev-missing"
	case strings.Contains(err.Error(), "PayloadHash"):
		return "payload-mismatch"
	}
	return "other-error"
}
