// Package fault holds the wrappers through which a harness makes the environment of the node fail
// or the node "stop" at a chosen point.
//
// KV wraps a stoabs.KVStore (the real bbolt store of go-stoabs) and numbers every step of every WRITE
// transaction that passes through it:
//
//	begin, each Put / Delete (with the shelf name), commit, each AfterCommit callback, each OnRollback callback
//
// (nested transactions started from a callback are numbered in the order in which they happen, so one
// dag.State.Add with two persistent subscribers is: begin, put payloads, put _x_jobs, …, commit, aftercommit,
// begin, delete _y_jobs, commit, begin, delete _x_jobs, commit, aftercommit).
//
// A Plan arms exactly one fault at step number At (1-based, counted from Arm):
//
//   - Error: the step fails the way the store would fail it. begin -> Write returns a database error and
//     nothing else happens (like a failed bbolt Begin / lock time-out: no rollback callback);
//     put/delete -> that call returns a database error and is not applied (what the caller does with it is the
//     caller's business; when it aborts, the transaction is rolled back and the OnRollback callbacks run);
//     commit -> the transaction is rolled back, OnRollback callbacks run, Write returns stoabs.ErrCommitFailed.
//     Callback steps cannot fail (see Applicable).
//   - Stop: the process "dies" immediately BEFORE the step takes effect. The store is marked dead; a transaction
//     that is open is never committed; no callback of the dead instance runs any more; every later call on the
//     dead store fails. On the goroutine that armed the plan (the owner) the Stopped sentinel is raised as a
//     panic that unwinds the caller; on any other goroutine (background retries) the call returns ErrStopped.
//
// Two facts about go-stoabs' bbolt store shape the implementation. (1) It has no panic safety: a panic
// inside the transaction function leaves its lock held and the next Close hangs. So a stop inside a
// transaction poisons the transaction (every further write call fails, the wrapped function's result is
// replaced by an error so that bbolt rolls back) and the sentinel is raised only after the inner store call
// has returned. The application code between the stop point and the end of its transaction function still
// runs, but it can only touch the abandoned in-memory instance. (2) It takes its own RW lock for reads as
// well, with a real-time acquisition time-out; under the baton scheduler (verif/sched) a thread that waits for
// it while holding the baton would stall the exploration, so with VirtualLock(true) both Read and Write first
// pass a scheduler-visible RW lock owned by KV.
//
// AfterCommit and OnRollback options are stripped from the option list handed to the inner store and invoked
// by KV itself, one by one, in order, after the inner call has returned (which is when the real store invokes
// them: after commit / roll-back and after releasing its lock). tx.Store() of every transaction handed to
// the application returns the *KV, so identity checks such as the dag notifier's `tx.Store() != p.db` hold
// when the application was given the *KV as its store.
//
// Torn writes below bbolt's commit are not modelled: bbolt's atomic commit is trusted base.
package fault

import (
	"bytes"
	"context"
	"errors"
	"fmt"
	"runtime"
	"strconv"
	"sync"

	"github.com/nuts-foundation/go-stoabs"

	"verif/shim/vsync"
)

// Step kinds.
const (
	Begin       = "begin"
	Put         = "put"
	Delete      = "delete"
	Commit      = "commit"
	AfterCommit = "aftercommit"
	OnRollback  = "onrollback"
	// ReadOp is a Read / ReadShelf call; numbered only after NumberReads(true).
	ReadOp = "read"
	// Get and Iterate are the reads made INSIDE a write transaction (Get; Iterate / Range / Empty on a shelf of the
	// transaction); numbered only after NumberTxReads(true).
	Get     = "get"
	Iterate = "iterate"
)

// Mode of a planned fault.
type Mode int

const (
	// None only counts and records steps.
	None Mode = iota
	// Error makes the step fail with a database error.
	Error
	// Stop makes the process die immediately before the step.
	Stop
)

func (m Mode) String() string {
	switch m {
	case Error:
		return "error"
	case Stop:
		return "stop"
	}
	return "none"
}

// Step is one numbered step of a write transaction.
type Step struct {
	N     int    `json:"n"`               // 1-based number since Arm
	Kind  string `json:"kind"`            // begin | put | delete | commit | aftercommit | onrollback
	Shelf string `json:"shelf,omitempty"` // put / delete: shelf name; begin of WriteShelf: shelf name
	Tx    int    `json:"tx"`              // 1-based sequence number of the write transaction since Arm
	Idx   int    `json:"idx,omitempty"`   // callbacks: index of the callback within its transaction
}

// Label is a structural name of the step without counters ("put xorBucket", "aftercommit#1").
func (s Step) Label() string {
	switch s.Kind {
	case Put, Delete:
		return s.Kind + " " + s.Shelf
	case AfterCommit, OnRollback:
		return s.Kind + "#" + strconv.Itoa(s.Idx)
	case ReadOp:
		if s.Shelf != "" {
			return s.Kind + " " + s.Shelf
		}
	case Get, Iterate:
		return s.Kind + " " + s.Shelf
	}
	return s.Kind
}

// Plan is one fault at one step.
type Plan struct {
	Mode Mode `json:"mode"`
	At   int  `json:"at"`
}

// Applicable tells whether a fault mode makes sense at a step kind (callbacks cannot return an error).
func Applicable(kind string, m Mode) bool {
	if m == Error {
		return kind != AfterCommit && kind != OnRollback
	}
	return true
}

// ErrInjected is the cause wrapped in the database error that an Error fault returns.
var ErrInjected = errors.New("verif: injected storage failure")

// ErrStopped is what a dead store returns on goroutines other than the owner.
var ErrStopped = stoabs.DatabaseError(errors.New("verif: process stopped, store is dead"))

// Stopped is the sentinel panic value raised on the owner goroutine when a Stop fault fires.
type Stopped struct{ At Step }

func (s Stopped) String() string { return "verif stop before step " + strconv.Itoa(s.At.N) + " " + s.At.Label() }

// KV is the fault-injecting store wrapper.
type KV struct {
	inner stoabs.KVStore

	mu      sync.Mutex
	plan    Plan
	steps   int
	txs     int
	trace   []Step
	fired   bool
	firedAt Step
	dead    bool
	owner   int64
	keep    bool

	virtual bool
	vlock   vsync.RWMutex
	reads   bool
	txReads bool
	when    func(Step) bool

	// Hook, when set, is called before every numbered step takes effect (after numbering, before a planned
	// fault is applied), on the goroutine that performs the step. Set it before use; not synchronised.
	Hook func(Step)
	// ReadHook, when set, is called at the start of every Read / ReadShelf.
	ReadHook func(shelf string)
}

var _ stoabs.KVStore = (*KV)(nil)

// Wrap wraps a real store. Nothing is armed: steps are numbered and recorded, no fault fires.
func Wrap(inner stoabs.KVStore) *KV { return &KV{inner: inner, keep: true} }

// Inner returns the wrapped store (for closing an abandoned instance).
func (k *KV) Inner() stoabs.KVStore { return k.inner }

// VirtualLock switches the scheduler-visible RW lock in front of Read and Write on or off.
func (k *KV) VirtualLock(on bool) { k.virtual = on }

// NumberReads makes every Read / ReadShelf call a numbered step of kind ReadOp (Shelf = the shelf of ReadShelf, "" for
// Read), so that it can be made to fail (the call returns a database error, the function is not run) or be a stop
// point. Off by default: the numbering of harnesses that enumerate write steps only is not affected.
func (k *KV) NumberReads(on bool) { k.mu.Lock(); k.reads = on; k.mu.Unlock() }

func (k *KV) numbersReads() bool { k.mu.Lock(); defer k.mu.Unlock(); return k.reads }

// readStep numbers a read call; a non-nil error ends the call.
func (k *KV) readStep(shelf string) error {
	if !k.numbersReads() {
		return nil
	}
	switch v, s := k.step(ReadOp, shelf, 0, 0); v {
	case failStep:
		return injected(s)
	case stopHere, alreadyDead:
		return k.die()
	}
	return nil
}

// KeepTrace switches recording of the step trace (on by default; numbering is not affected).
func (k *KV) KeepTrace(on bool) { k.mu.Lock(); k.keep = on; k.mu.Unlock() }

// Arm resets numbering and trace, installs the plan and makes the calling goroutine the owner.
func (k *KV) Arm(p Plan) {
	k.mu.Lock()
	k.plan, k.steps, k.txs, k.trace, k.fired, k.firedAt = p, 0, 0, nil, false, Step{}
	k.when = nil
	k.owner = goid()
	k.mu.Unlock()
}

// Disarm removes the plan (numbering continues).
func (k *KV) Disarm() { k.mu.Lock(); k.plan = Plan{}; k.mu.Unlock() }

// Trace returns the steps recorded since Arm.
func (k *KV) Trace() []Step {
	k.mu.Lock()
	defer k.mu.Unlock()
	return append([]Step(nil), k.trace...)
}

// Steps returns the number of steps since Arm.
func (k *KV) Steps() int { k.mu.Lock(); defer k.mu.Unlock(); return k.steps }

// Fired reports whether the planned fault was applied, and at which step.
func (k *KV) Fired() (bool, Step) { k.mu.Lock(); defer k.mu.Unlock(); return k.fired, k.firedAt }

// Dead reports whether a Stop fault has fired (the instance must be abandoned).
func (k *KV) Dead() bool { k.mu.Lock(); defer k.mu.Unlock(); return k.dead }

// Kill marks the store dead without a step (the harness decides that the process stops here, e.g. between
// two operations). Later calls fail like after a Stop fault.
func (k *KV) Kill() { k.mu.Lock(); k.dead = true; k.mu.Unlock() }

// Run calls fn and recovers the Stopped sentinel (returned non-nil when a stop unwound fn). Other panics
// propagate. Never call Run from inside a store transaction.
func Run(fn func()) (stopped *Stopped) {
	defer func() {
		if r := recover(); r != nil {
			if s, ok := r.(Stopped); ok {
				stopped = &s
				return
			}
			panic(r)
		}
	}()
	fn()
	return nil
}

func goid() int64 {
	var buf [64]byte
	n := runtime.Stack(buf[:], false)
	b := buf[:n]
	b = b[len("goroutine "):]
	i := bytes.IndexByte(b, ' ')
	id, _ := strconv.ParseInt(string(b[:i]), 10, 64)
	return id
}

type verdict int

const (
	proceed verdict = iota
	failStep
	stopHere
	alreadyDead
)

// step numbers one step and decides what happens to it.
func (k *KV) step(kind, shelf string, tx, idx int) (verdict, Step) {
	k.mu.Lock()
	if k.dead {
		k.mu.Unlock()
		return alreadyDead, Step{}
	}
	k.steps++
	s := Step{N: k.steps, Kind: kind, Shelf: shelf, Tx: tx, Idx: idx}
	if k.keep {
		k.trace = append(k.trace, s)
	}
	v := proceed
	if k.plan.Mode != None && !k.fired && (k.plan.At == s.N || k.when != nil && k.when(s)) {
		switch k.plan.Mode {
		case Error:
			if Applicable(kind, Error) {
				v, k.fired, k.firedAt = failStep, true, s
			}
		case Stop:
			v, k.fired, k.firedAt, k.dead = stopHere, true, s, true
		}
	}
	hook := k.Hook
	k.mu.Unlock()
	if hook != nil {
		hook(s)
	}
	return v, s
}

// die ends a call on a dead store: sentinel panic on the owner goroutine, ErrStopped elsewhere.
// Must only be called when no inner store call is in progress on this goroutine.
func (k *KV) die() error {
	k.mu.Lock()
	owner, at := k.owner, k.firedAt
	k.mu.Unlock()
	if owner != 0 && owner == goid() {
		panic(Stopped{At: at})
	}
	return ErrStopped
}

func injected(s Step) error {
	return stoabs.DatabaseError(fmt.Errorf("%w at step %d (%s)", ErrInjected, s.N, s.Label()))
}

func (k *KV) newTx() int { k.mu.Lock(); defer k.mu.Unlock(); k.txs++; return k.txs }

func (k *KV) isDead() bool { k.mu.Lock(); defer k.mu.Unlock(); return k.dead }

// txState is shared by the wrappers of one write transaction.
type txState struct {
	kv       *KV
	seq      int
	poisoned bool // a stop fired inside this transaction: nothing more is written, it will not commit
}

var errPoison = errors.New("verif: transaction abandoned (stop)")
var errCommitFault = errors.New("verif: commit refused")

func splitOpts(opts []stoabs.TxOption) (pass, after, rollback []stoabs.TxOption) {
	for _, o := range opts {
		switch o.(type) {
		case *stoabs.AfterCommitOption:
			after = append(after, o)
		case *stoabs.OnRollbackOption:
			rollback = append(rollback, o)
		default:
			pass = append(pass, o)
		}
	}
	return
}

// Write implements stoabs.KVStore.
func (k *KV) Write(ctx context.Context, fn func(stoabs.WriteTx) error, opts ...stoabs.TxOption) error {
	pass, after, rollback := splitOpts(opts)
	return k.write(ctx, "", after, rollback, func(st *txState, run func(func() error) error) error {
		return k.inner.Write(ctx, func(itx stoabs.WriteTx) error {
			return run(func() error { return fn(&wtx{st: st, inner: itx}) })
		}, pass...)
	})
}

// WriteShelf implements stoabs.KVStore.
func (k *KV) WriteShelf(ctx context.Context, shelfName string, fn func(stoabs.Writer) error) error {
	return k.write(ctx, shelfName, nil, nil, func(st *txState, run func(func() error) error) error {
		return k.inner.WriteShelf(ctx, shelfName, func(w stoabs.Writer) error {
			return run(func() error { return fn(&writer{Writer: w, st: st, shelf: shelfName}) })
		})
	})
}

// write is the common body of Write and WriteShelf. call performs the inner store call; it hands the
// application function to run, which adds the commit step and the poison handling.
func (k *KV) write(_ context.Context, shelf string, after, rollback []stoabs.TxOption,
	call func(st *txState, run func(func() error) error) error) error {
	if k.isDead() {
		return k.die()
	}
	st := &txState{kv: k, seq: k.newTx()}
	switch v, s := k.step(Begin, shelf, st.seq, 0); v {
	case failStep:
		return injected(s)
	case stopHere, alreadyDead:
		return k.die()
	}
	if k.virtual {
		k.vlock.Lock()
	}
	entered, commitFault := false, false
	var commitStep Step
	err := call(st, func(app func() error) error {
		entered = true
		appErr := app()
		if st.poisoned {
			return errPoison
		}
		if appErr != nil {
			return appErr // roll-back path of the application itself: no commit step
		}
		switch v, s := k.step(Commit, "", st.seq, 0); v {
		case failStep:
			commitFault, commitStep = true, s
			return errCommitFault
		case stopHere, alreadyDead:
			st.poisoned = true
			return errPoison
		}
		return nil
	})
	if k.virtual {
		k.vlock.Unlock()
	}
	// the inner call has returned: its lock is released, the bbolt transaction is committed or rolled back
	if st.poisoned || k.isDead() {
		return k.die()
	}
	if err == nil {
		for i, o := range after {
			switch v, _ := k.step(AfterCommit, "", st.seq, i+1); v {
			case stopHere, alreadyDead:
				return k.die()
			}
			stoabs.AfterCommitOption{}.Invoke([]stoabs.TxOption{o})
			if k.isDead() { // a nested transaction of the callback hit the stop on another path
				return k.die()
			}
		}
		return nil
	}
	if commitFault {
		err = fmt.Errorf("%w: %w", stoabs.ErrCommitFailed, injected(commitStep))
	}
	if entered {
		// the real store invokes the roll-back callbacks whenever the transaction function ran and the
		// transaction did not commit
		for i, o := range rollback {
			switch v, _ := k.step(OnRollback, "", st.seq, i+1); v {
			case stopHere, alreadyDead:
				return k.die()
			}
			stoabs.OnRollbackOption{}.Invoke([]stoabs.TxOption{o})
			if k.isDead() {
				return k.die()
			}
		}
	}
	return err
}

// Read implements stoabs.KVStore.
func (k *KV) Read(ctx context.Context, fn func(stoabs.ReadTx) error) error {
	if k.isDead() {
		return k.die()
	}
	if h := k.ReadHook; h != nil {
		h("")
	}
	if err := k.readStep(""); err != nil {
		return err
	}
	if k.virtual {
		k.vlock.RLock()
		defer k.vlock.RUnlock()
	}
	return k.inner.Read(ctx, func(itx stoabs.ReadTx) error { return fn(&rtx{kv: k, inner: itx}) })
}

// ReadShelf implements stoabs.KVStore.
func (k *KV) ReadShelf(ctx context.Context, shelfName string, fn func(stoabs.Reader) error) error {
	if k.isDead() {
		return k.die()
	}
	if h := k.ReadHook; h != nil {
		h(shelfName)
	}
	if err := k.readStep(shelfName); err != nil {
		return err
	}
	if k.virtual {
		k.vlock.RLock()
		defer k.vlock.RUnlock()
	}
	return k.inner.ReadShelf(ctx, shelfName, fn)
}

// Close closes the inner store.
func (k *KV) Close(ctx context.Context) error { return k.inner.Close(ctx) }

type rtx struct {
	kv    *KV
	inner stoabs.ReadTx
}

func (t *rtx) GetShelfReader(shelfName string) stoabs.Reader { return t.inner.GetShelfReader(shelfName) }
func (t *rtx) Store() stoabs.KVStore                         { return t.kv }
func (t *rtx) Unwrap() interface{}                           { return t.inner.Unwrap() }

type wtx struct {
	st    *txState
	inner stoabs.WriteTx
}

func (t *wtx) GetShelfReader(shelfName string) stoabs.Reader {
	if t.st.kv.numbersTxReads() {
		return &txReader{Reader: t.inner.GetShelfReader(shelfName), st: t.st, shelf: shelfName}
	}
	return t.inner.GetShelfReader(shelfName)
}
func (t *wtx) Store() stoabs.KVStore { return t.st.kv }
func (t *wtx) Unwrap() interface{}                           { return t.inner.Unwrap() }
func (t *wtx) GetShelfWriter(shelfName string) stoabs.Writer {
	if t.st.poisoned {
		return stoabs.NewErrorWriter(errPoison)
	}
	return &writer{Writer: t.inner.GetShelfWriter(shelfName), st: t.st, shelf: shelfName}
}

type writer struct {
	stoabs.Writer // reads go straight to the real shelf
	st            *txState
	shelf         string
}

func (w *writer) mutate(kind string, do func() error) error {
	if w.st.poisoned {
		return stoabs.DatabaseError(errPoison)
	}
	switch v, s := w.st.kv.step(kind, w.shelf, w.st.seq, 0); v {
	case failStep:
		return injected(s)
	case stopHere, alreadyDead:
		w.st.poisoned = true
		return stoabs.DatabaseError(errPoison)
	}
	return do()
}

func (w *writer) Put(key stoabs.Key, value []byte) error {
	return w.mutate(Put, func() error { return w.Writer.Put(key, value) })
}

func (w *writer) Delete(key stoabs.Key) error {
	return w.mutate(Delete, func() error { return w.Writer.Delete(key) })
}

// ---------------------------------------------------------------------------------------------- additions
//
// NumberTxReads makes the reads that the application makes INSIDE a write transaction numbered steps too: Get ->
// "get <shelf>", Iterate / Range / Empty -> "iterate <shelf>" (through a shelf writer as well as through a shelf reader of the
// transaction). An Error fault makes that call return a database error (what the caller does with it is the caller's
// business); a Stop fault poisons the transaction like a stop before a Put. Off by default: the numbering of harnesses that
// do not ask for it is unchanged.
func (k *KV) NumberTxReads(on bool) { k.mu.Lock(); k.txReads = on; k.mu.Unlock() }

func (k *KV) numbersTxReads() bool { k.mu.Lock(); defer k.mu.Unlock(); return k.txReads }

// ArmWhen is Arm with a predicate instead of a step number: the fault fires at the FIRST step for which pred is true (steps
// are numbered as usual). For phases whose global numbering is not deterministic (free-running retry loops) but in which
// "the n-th read of shelf X" is well defined; pred is called under the wrapper's lock and must not call into the KV.
func (k *KV) ArmWhen(m Mode, pred func(Step) bool) {
	k.Arm(Plan{Mode: m, At: -1})
	k.mu.Lock()
	k.when = pred
	k.mu.Unlock()
}

// txRead numbers one read inside a write transaction; a non-nil error ends the call.
func txRead(st *txState, kind, shelf string) error {
	if !st.kv.numbersTxReads() {
		return nil
	}
	if st.poisoned {
		return stoabs.DatabaseError(errPoison)
	}
	switch v, s := st.kv.step(kind, shelf, st.seq, 0); v {
	case failStep:
		return injected(s)
	case stopHere, alreadyDead:
		st.poisoned = true
		return stoabs.DatabaseError(errPoison)
	}
	return nil
}

// txReader wraps a shelf reader of a write transaction (only used with NumberTxReads).
type txReader struct {
	stoabs.Reader
	st    *txState
	shelf string
}

func (r *txReader) Get(key stoabs.Key) ([]byte, error) {
	if err := txRead(r.st, Get, r.shelf); err != nil {
		return nil, err
	}
	return r.Reader.Get(key)
}

func (r *txReader) Empty() (bool, error) {
	if err := txRead(r.st, Iterate, r.shelf); err != nil {
		return false, err
	}
	return r.Reader.Empty()
}

func (r *txReader) Iterate(callback stoabs.CallerFn, keyType stoabs.Key) error {
	if err := txRead(r.st, Iterate, r.shelf); err != nil {
		return err
	}
	return r.Reader.Iterate(callback, keyType)
}

func (r *txReader) Range(from stoabs.Key, to stoabs.Key, callback stoabs.CallerFn, stopAtNil bool) error {
	if err := txRead(r.st, Iterate, r.shelf); err != nil {
		return err
	}
	return r.Reader.Range(from, to, callback, stopAtNil)
}

func (w *writer) Get(key stoabs.Key) ([]byte, error) {
	if err := txRead(w.st, Get, w.shelf); err != nil {
		return nil, err
	}
	return w.Writer.Get(key)
}

func (w *writer) Empty() (bool, error) {
	if err := txRead(w.st, Iterate, w.shelf); err != nil {
		return false, err
	}
	return w.Writer.Empty()
}

func (w *writer) Iterate(callback stoabs.CallerFn, keyType stoabs.Key) error {
	if err := txRead(w.st, Iterate, w.shelf); err != nil {
		return err
	}
	return w.Writer.Iterate(callback, keyType)
}

func (w *writer) Range(from stoabs.Key, to stoabs.Key, callback stoabs.CallerFn, stopAtNil bool) error {
	if err := txRead(w.st, Iterate, w.shelf); err != nil {
		return err
	}
	return w.Writer.Range(from, to, callback, stopAtNil)
}
