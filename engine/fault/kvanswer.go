package fault

import (
	"context"
	"errors"
	"strings"
	"sync"

	"github.com/nuts-foundation/go-stoabs"
	stoabsutil "github.com/nuts-foundation/go-stoabs/util"
)

// AnswerKV adds the dimension "WHICH error does the store answer" to KV.
//
// KV fails a step with one fixed error value (a database error wrapping ErrInjected). How the application classifies a
// storage failure (retry or give up, transient or fatal) depends on the error VALUE and on every wrapping layer between
// the store and the classifier, so a harness that judges such a classification must be able to choose the value. AnswerKV
// sits in front of a *KV, hands the application transaction / shelf wrappers of its own, and replaces the injected error
// by the configured answer AT THE POINT WHERE THE STORE CALL RETURNS (begin: the Write / WriteShelf / Read / ReadShelf call
// itself; put / delete / get / iterate: that call on the shelf; commit: the Write / WriteShelf call, in the form the real
// bbolt store of go-stoabs gives a failed commit, ErrCommitFailed wrapping the cause). Everything the application does with
// the error afterwards (wrapping, formatting, dropping) is the application's own.
//
// Numbering, arming, traces, stop faults: all of the embedded *KV. With no answer set the behaviour is that of KV.
type AnswerKV struct {
	*KV
	amu    sync.Mutex
	answer func(Step) error
}

var _ stoabs.KVStore = (*AnswerKV)(nil)

// WithAnswers wraps a KV.
func WithAnswers(k *KV) *AnswerKV { return &AnswerKV{KV: k} }

// SetAnswer installs the function that yields the error for the step at which the planned Error fault fires (nil, or a nil
// result: KV's own error). For a commit step the result is the CAUSE; it is wrapped in stoabs.ErrCommitFailed the way the
// bbolt store does, unless it already is a commit failure.
func (a *AnswerKV) SetAnswer(fn func(Step) error) { a.amu.Lock(); a.answer = fn; a.amu.Unlock() }

func (a *AnswerKV) translate(err error) error {
	if err == nil || !errors.Is(err, ErrInjected) {
		return err
	}
	a.amu.Lock()
	fn := a.answer
	a.amu.Unlock()
	if fn == nil {
		return err
	}
	_, at := a.KV.Fired()
	ans := fn(at)
	if ans == nil {
		return err
	}
	if at.Kind == Commit && !IsCommitFailure(ans) {
		return stoabsutil.WrapError(stoabs.ErrCommitFailed, ans)
	}
	return ans
}

// IsCommitFailure tells whether err is (wraps) go-stoabs' commit failure value itself (ErrDatabase.Is matches ANY database
// error, so errors.Is(err, stoabs.ErrCommitFailed) cannot be used for this).
func IsCommitFailure(err error) bool {
	for e := err; e != nil; e = errors.Unwrap(e) {
		if strings.HasPrefix(e.Error(), stoabs.ErrCommitFailed.Error()) {
			return true
		}
	}
	return false
}

// Write implements stoabs.KVStore.
func (a *AnswerKV) Write(ctx context.Context, fn func(stoabs.WriteTx) error, opts ...stoabs.TxOption) error {
	return a.translate(a.KV.Write(ctx, func(tx stoabs.WriteTx) error { return fn(&answerWTx{a: a, inner: tx}) }, opts...))
}

// WriteShelf implements stoabs.KVStore.
func (a *AnswerKV) WriteShelf(ctx context.Context, shelfName string, fn func(stoabs.Writer) error) error {
	return a.translate(a.KV.WriteShelf(ctx, shelfName, func(w stoabs.Writer) error { return fn(&answerWriter{a: a, inner: w}) }))
}

// Read implements stoabs.KVStore.
func (a *AnswerKV) Read(ctx context.Context, fn func(stoabs.ReadTx) error) error {
	return a.translate(a.KV.Read(ctx, func(tx stoabs.ReadTx) error { return fn(&answerRTx{a: a, inner: tx}) }))
}

// ReadShelf implements stoabs.KVStore.
func (a *AnswerKV) ReadShelf(ctx context.Context, shelfName string, fn func(stoabs.Reader) error) error {
	return a.translate(a.KV.ReadShelf(ctx, shelfName, func(r stoabs.Reader) error { return fn(&answerReader{a: a, inner: r}) }))
}

type answerRTx struct {
	a     *AnswerKV
	inner stoabs.ReadTx
}

func (t *answerRTx) GetShelfReader(shelfName string) stoabs.Reader {
	return &answerReader{a: t.a, inner: t.inner.GetShelfReader(shelfName)}
}
func (t *answerRTx) Store() stoabs.KVStore { return t.a }
func (t *answerRTx) Unwrap() interface{}   { return t.inner.Unwrap() }

type answerWTx struct {
	a     *AnswerKV
	inner stoabs.WriteTx
}

func (t *answerWTx) GetShelfReader(shelfName string) stoabs.Reader {
	return &answerReader{a: t.a, inner: t.inner.GetShelfReader(shelfName)}
}
func (t *answerWTx) GetShelfWriter(shelfName string) stoabs.Writer {
	return &answerWriter{a: t.a, inner: t.inner.GetShelfWriter(shelfName)}
}
func (t *answerWTx) Store() stoabs.KVStore { return t.a }
func (t *answerWTx) Unwrap() interface{}   { return t.inner.Unwrap() }

type answerReader struct {
	a     *AnswerKV
	inner stoabs.Reader
}

func (r *answerReader) Get(key stoabs.Key) ([]byte, error) {
	v, err := r.inner.Get(key)
	return v, r.a.translate(err)
}
func (r *answerReader) Empty() (bool, error) {
	v, err := r.inner.Empty()
	return v, r.a.translate(err)
}
func (r *answerReader) Iterate(callback stoabs.CallerFn, keyType stoabs.Key) error {
	return r.a.translate(r.inner.Iterate(callback, keyType))
}
func (r *answerReader) Range(from stoabs.Key, to stoabs.Key, callback stoabs.CallerFn, stopAtNil bool) error {
	return r.a.translate(r.inner.Range(from, to, callback, stopAtNil))
}
func (r *answerReader) Stats() stoabs.ShelfStats { return r.inner.Stats() }

type answerWriter struct {
	a     *AnswerKV
	inner stoabs.Writer
}

func (w *answerWriter) Get(key stoabs.Key) ([]byte, error) {
	v, err := w.inner.Get(key)
	return v, w.a.translate(err)
}
func (w *answerWriter) Empty() (bool, error) {
	v, err := w.inner.Empty()
	return v, w.a.translate(err)
}
func (w *answerWriter) Iterate(callback stoabs.CallerFn, keyType stoabs.Key) error {
	return w.a.translate(w.inner.Iterate(callback, keyType))
}
func (w *answerWriter) Range(from stoabs.Key, to stoabs.Key, callback stoabs.CallerFn, stopAtNil bool) error {
	return w.a.translate(w.inner.Range(from, to, callback, stopAtNil))
}
func (w *answerWriter) Stats() stoabs.ShelfStats { return w.inner.Stats() }
func (w *answerWriter) Put(key stoabs.Key, value []byte) error {
	return w.a.translate(w.inner.Put(key, value))
}
func (w *answerWriter) Delete(key stoabs.Key) error { return w.a.translate(w.inner.Delete(key)) }
