// fault.Pool: a gorm.ConnPool wrapper that numbers every SQL step (transaction begin, each statement
// inside a transaction, commit, rollback, and every standalone statement), can inject an error or a
// "stop" at step k, and is a scheduling point for verif/sched at transaction begin and at standalone
// statements. The node runs SQLite with SetMaxOpenConns(1): a gorm transaction or a standalone statement is
// the atomic unit, and the single connection is modelled as a virtual lock so that a thread waiting for it
// is simply "not enabled" for the scheduler (no real blocking ever happens under the baton).
//
// Install AFTER the database is opened and migrated, BEFORE the component under test is constructed:
//
//	p := fault.InstallPool(db)        // db.ConnPool = p; db.Statement.ConnPool = p
//
// Stop semantics: "stop at step k" means steps 1..k-1 were performed and step k is not: every open real
// transaction is rolled back by the wrapper itself (this is what SQLite's journal does when the file is
// re-opened after a kill; SQLite's atomic commit is trusted base), the pool is halted (any later call made
// by deferred code of the abandoned instance re-raises the sentinel and has no effect) and the sentinel
// PoolStopped is raised as a panic, to be recovered by the harness (PoolRecover). Restart() models the
// process restart. Error semantics: step k is not performed and returns ErrPoolInjected (an injected error
// at commit rolls the real transaction back; at rollback the real rollback is still performed).
package fault

import (
	"context"
	"database/sql"
	"errors"
	"fmt"
	"regexp"
	"strings"
	"sync"

	"gorm.io/gorm"

	"verif/sched"
)

// PoolMode selects what happens at the armed step.
type PoolMode int

const (
	PoolOff   PoolMode = iota
	PoolError          // the step is not performed and returns ErrPoolInjected
	PoolStop           // the step is not performed; open transactions are discarded; PoolStopped is raised
)

func (m PoolMode) String() string {
	switch m {
	case PoolError:
		return "error"
	case PoolStop:
		return "stop"
	}
	return "off"
}

// ErrPoolInjected is the error returned by an armed step in PoolError mode.
var ErrPoolInjected = errors.New("fault.Pool: injected SQL error")

// PoolStep is one numbered step.
type PoolStep struct {
	N     int    `json:"n"`     // 1-based number since the last ResetSteps
	Tx    int    `json:"tx"`    // ordinal of the transaction since the last ResetSteps (0 = standalone / external)
	Kind  string `json:"kind"`  // begin | stmt | commit | rollback | exec | query | ext
	Label string `json:"label"` // normalised statement ("INSERT did_document_version") or external label
}

func (s PoolStep) String() string { return fmt.Sprintf("%d:tx%d:%s:%s", s.N, s.Tx, s.Kind, s.Label) }

// PoolStopped is the sentinel panic value of a stop.
type PoolStopped struct{ Step PoolStep }

func (s PoolStopped) String() string { return "fault.Pool stop at " + s.Step.String() }

// PoolRecover runs fn and reports whether it was ended by a stop sentinel. Any other panic is re-raised.
func PoolRecover(fn func()) (stopped *PoolStopped) {
	defer func() {
		if r := recover(); r != nil {
			if s, ok := r.(PoolStopped); ok {
				stopped = &s
				return
			}
			panic(r)
		}
	}()
	fn()
	return nil
}

// Pool wraps the connection pool of a gorm.DB.
type Pool struct {
	inner gorm.ConnPool

	mu      sync.Mutex
	steps   []PoolStep
	n       int
	txSeq   int
	armAt   int
	armPred func(PoolStep) bool
	armMode PoolMode
	fired   *PoolStep
	halted  bool
	open    map[*poolTx]struct{}
	busy    bool // the virtual single connection
	// SchedPoints switches the scheduling points (and the virtual connection lock) on. Default true; they are
	// no-ops outside a sched exploration anyway.
	SchedPoints bool
	// Trace, when set, is called for every step (after numbering, before a fault is applied).
	Trace func(PoolStep)
}

var (
	_ gorm.ConnPool         = (*Pool)(nil)
	_ gorm.ConnPoolBeginner = (*Pool)(nil)
	_ gorm.GetDBConnector   = (*Pool)(nil)
	_ gorm.ConnPool         = (*poolTx)(nil)
	_ gorm.TxCommitter      = (*poolTx)(nil)
)

// NewPool wraps inner (normally the *sql.DB of a gorm.DB).
func NewPool(inner gorm.ConnPool) *Pool {
	return &Pool{inner: inner, open: map[*poolTx]struct{}{}, SchedPoints: true}
}

// InstallPool wraps the connection pool of db in place and returns the wrapper.
func InstallPool(db *gorm.DB) *Pool {
	p := NewPool(db.ConnPool)
	db.ConnPool = p
	db.Statement.ConnPool = p
	return p
}

// Inner returns the wrapped pool.
func (p *Pool) Inner() gorm.ConnPool { return p.inner }

// GetDBConn lets gorm's DB() find the *sql.DB behind the wrapper.
func (p *Pool) GetDBConn() (*sql.DB, error) {
	if d, ok := p.inner.(*sql.DB); ok {
		return d, nil
	}
	if c, ok := p.inner.(gorm.GetDBConnector); ok {
		return c.GetDBConn()
	}
	return nil, gorm.ErrInvalidDB
}

// ResetSteps restarts the numbering at 1 and forgets the log and the armed fault.
func (p *Pool) ResetSteps() {
	p.mu.Lock()
	p.steps, p.n, p.txSeq, p.armAt, p.armPred, p.armMode, p.fired = nil, 0, 0, 0, nil, PoolOff, nil
	p.mu.Unlock()
}

// Arm injects mode at step number k (counted from the last ResetSteps). One shot.
func (p *Pool) Arm(k int, mode PoolMode) {
	p.mu.Lock()
	p.armAt, p.armPred, p.armMode, p.fired = k, nil, mode, nil
	p.mu.Unlock()
}

// ArmWhen injects mode at the first step for which pred holds (e.g. an external step addressed by its label,
// whose number depends on an order the harness does not control). One shot. pred must not call the pool.
func (p *Pool) ArmWhen(pred func(PoolStep) bool, mode PoolMode) {
	p.mu.Lock()
	p.armAt, p.armPred, p.armMode, p.fired = 0, pred, mode, nil
	p.mu.Unlock()
}

// Disarm removes an armed fault that has not fired.
func (p *Pool) Disarm() { p.mu.Lock(); p.armAt, p.armPred, p.armMode = 0, nil, PoolOff; p.mu.Unlock() }

// Fired returns the step at which the armed fault was applied (nil = not reached).
func (p *Pool) Fired() *PoolStep { p.mu.Lock(); defer p.mu.Unlock(); return p.fired }

// Steps returns a copy of the step log since the last ResetSteps.
func (p *Pool) Steps() []PoolStep {
	p.mu.Lock()
	defer p.mu.Unlock()
	return append([]PoolStep{}, p.steps...)
}

// StepCount returns the number of steps since the last ResetSteps.
func (p *Pool) StepCount() int { p.mu.Lock(); defer p.mu.Unlock(); return p.n }

// Halted reports whether a stop has fired and Restart has not been called yet.
func (p *Pool) Halted() bool { p.mu.Lock(); defer p.mu.Unlock(); return p.halted }

// OpenTransactions returns the number of real transactions currently open through the wrapper.
func (p *Pool) OpenTransactions() int { p.mu.Lock(); defer p.mu.Unlock(); return len(p.open) }

// Restart models the process restart after a stop: whatever transaction is still open is discarded, the
// virtual connection is free again and the pool accepts calls. The step log is kept (use ResetSteps).
func (p *Pool) Restart() {
	p.mu.Lock()
	p.discardOpenLocked()
	p.halted, p.busy = false, false
	p.armAt, p.armPred, p.armMode = 0, nil, PoolOff
	p.mu.Unlock()
}

func (p *Pool) discardOpenLocked() {
	for t := range p.open {
		if !t.done {
			t.done = true
			_ = t.real.Rollback()
		}
		delete(p.open, t)
	}
	p.busy = false
}

// External numbers a step that is not an SQL call (e.g. "before nuts.Commit") so that other seams of the
// harness share the cut-point numbering. Returns ErrPoolInjected / raises the stop like an SQL step.
func (p *Pool) External(label string) error {
	return p.step(0, "ext", label)
}

// step numbers one step and applies the armed fault. It returns the injected error, raises the stop
// sentinel, or returns nil when the step has to be performed.
func (p *Pool) step(tx int, kind, label string) error {
	p.mu.Lock()
	if p.halted {
		p.mu.Unlock()
		panic(PoolStopped{Step: PoolStep{Kind: kind, Label: "after-stop:" + label}})
	}
	p.n++
	s := PoolStep{N: p.n, Tx: tx, Kind: kind, Label: label}
	p.steps = append(p.steps, s)
	tr := p.Trace
	mode := PoolOff
	if p.armMode != PoolOff && ((p.armPred == nil && p.n == p.armAt) || (p.armPred != nil && p.armPred(s))) {
		mode = p.armMode
		p.armMode = PoolOff
		p.fired = &s
		if mode == PoolStop {
			p.halted = true
			p.discardOpenLocked()
		}
	}
	p.mu.Unlock()
	if tr != nil {
		tr(s)
	}
	switch mode {
	case PoolError:
		return fmt.Errorf("%w (step %s)", ErrPoolInjected, s)
	case PoolStop:
		panic(PoolStopped{Step: s})
	}
	return nil
}

func (p *Pool) acquire(label string) {
	if !p.SchedPoints {
		p.mu.Lock()
		p.busy = true
		p.mu.Unlock()
		return
	}
	sched.Acquire(label, func() bool {
		p.mu.Lock()
		defer p.mu.Unlock()
		if p.busy {
			return false
		}
		p.busy = true
		return true
	}, func() bool {
		p.mu.Lock()
		defer p.mu.Unlock()
		return !p.busy
	})
}

func (p *Pool) release() { p.mu.Lock(); p.busy = false; p.mu.Unlock() }

// ---- gorm.ConnPool (standalone statements) -------------------------------------------------------------

func (p *Pool) PrepareContext(ctx context.Context, query string) (*sql.Stmt, error) {
	return p.inner.PrepareContext(ctx, query)
}

func (p *Pool) ExecContext(ctx context.Context, query string, args ...interface{}) (sql.Result, error) {
	label := SQLLabel(query)
	p.acquire("sql:exec " + label)
	defer p.release()
	if err := p.step(0, "exec", label); err != nil {
		return nil, err
	}
	return p.inner.ExecContext(ctx, query, args...)
}

func (p *Pool) QueryContext(ctx context.Context, query string, args ...interface{}) (*sql.Rows, error) {
	label := SQLLabel(query)
	p.acquire("sql:query " + label)
	// gorm closes the rows before the calling thread reaches its next scheduling point, so the virtual
	// connection can be handed back when the call returns.
	defer p.release()
	if err := p.step(0, "query", label); err != nil {
		return nil, err
	}
	return p.inner.QueryContext(ctx, query, args...)
}

func (p *Pool) QueryRowContext(ctx context.Context, query string, args ...interface{}) *sql.Row {
	label := SQLLabel(query)
	p.acquire("sql:query " + label)
	defer p.release()
	if err := p.step(0, "query", label); err != nil {
		return p.inner.QueryRowContext(canceledContext(), query, args...)
	}
	return p.inner.QueryRowContext(ctx, query, args...)
}

func canceledContext() context.Context {
	c, cancel := context.WithCancel(context.Background())
	cancel()
	return c
}

// ---- gorm.ConnPoolBeginner -----------------------------------------------------------------------------

type realTx interface {
	gorm.ConnPool
	gorm.TxCommitter
}

// BeginTx starts a real transaction and returns its wrapper.
func (p *Pool) BeginTx(ctx context.Context, opts *sql.TxOptions) (gorm.ConnPool, error) {
	p.acquire("sql:begin")
	p.mu.Lock()
	p.txSeq++
	seq := p.txSeq
	p.mu.Unlock()
	ok := false
	defer func() {
		if !ok {
			p.release()
		}
	}()
	if err := p.step(seq, "begin", "BEGIN"); err != nil {
		return nil, err
	}
	var real realTx
	switch b := p.inner.(type) {
	case gorm.TxBeginner:
		t, err := b.BeginTx(ctx, opts)
		if err != nil {
			return nil, err
		}
		real = t
	case gorm.ConnPoolBeginner:
		c, err := b.BeginTx(ctx, opts)
		if err != nil {
			return nil, err
		}
		rt, isTx := c.(realTx)
		if !isTx {
			return nil, gorm.ErrInvalidTransaction
		}
		real = rt
	default:
		return nil, gorm.ErrInvalidTransaction
	}
	t := &poolTx{p: p, real: real, seq: seq}
	p.mu.Lock()
	p.open[t] = struct{}{}
	p.mu.Unlock()
	ok = true
	return t, nil
}

// poolTx wraps one real transaction.
type poolTx struct {
	p    *Pool
	real realTx
	seq  int
	done bool
}

func (t *poolTx) finished() bool { t.p.mu.Lock(); defer t.p.mu.Unlock(); return t.done }

func (t *poolTx) PrepareContext(ctx context.Context, query string) (*sql.Stmt, error) {
	return t.real.PrepareContext(ctx, query)
}

func (t *poolTx) ExecContext(ctx context.Context, query string, args ...interface{}) (sql.Result, error) {
	if err := t.p.step(t.seq, "stmt", SQLLabel(query)); err != nil {
		return nil, err
	}
	if t.finished() {
		return nil, sql.ErrTxDone
	}
	return t.real.ExecContext(ctx, query, args...)
}

func (t *poolTx) QueryContext(ctx context.Context, query string, args ...interface{}) (*sql.Rows, error) {
	if err := t.p.step(t.seq, "stmt", SQLLabel(query)); err != nil {
		return nil, err
	}
	if t.finished() {
		return nil, sql.ErrTxDone
	}
	return t.real.QueryContext(ctx, query, args...)
}

func (t *poolTx) QueryRowContext(ctx context.Context, query string, args ...interface{}) *sql.Row {
	if err := t.p.step(t.seq, "stmt", SQLLabel(query)); err != nil {
		return t.real.QueryRowContext(canceledContext(), query, args...)
	}
	return t.real.QueryRowContext(ctx, query, args...)
}

func (t *poolTx) end(commit bool) error {
	p := t.p
	p.mu.Lock()
	if t.done {
		// finished by a stop / restart / an injected commit error: nothing left to do (what gorm's deferred
		// Rollback sees after a fault)
		p.mu.Unlock()
		return sql.ErrTxDone
	}
	p.mu.Unlock()
	kind := "rollback"
	if commit {
		kind = "commit"
	}
	injected := p.step(t.seq, kind, strings.ToUpper(kind)) // may raise the stop (which discards t)
	p.mu.Lock()
	if t.done {
		p.mu.Unlock()
		return sql.ErrTxDone
	}
	t.done = true
	delete(p.open, t)
	p.mu.Unlock()
	var err error
	if commit && injected == nil {
		err = t.real.Commit()
	} else {
		err = t.real.Rollback()
	}
	p.release()
	if injected != nil {
		return injected
	}
	return err
}

func (t *poolTx) Commit() error   { return t.end(true) }
func (t *poolTx) Rollback() error { return t.end(false) }

// ---- labels --------------------------------------------------------------------------------------------

var (
	reSQLWord  = regexp.MustCompile("^[\\s(]*([A-Za-z]+)")
	reSQLTable = regexp.MustCompile("(?i)\\b(?:INTO|FROM|UPDATE|TABLE)\\s+[`\"\\[]?([A-Za-z_][A-Za-z0-9_]*)")
)

// SQLLabel reduces a statement to "<VERB> <first table>" (stable across runs: no values, no generated names).
func SQLLabel(query string) string {
	verb := ""
	if m := reSQLWord.FindStringSubmatch(query); m != nil {
		verb = strings.ToUpper(m[1])
	}
	switch verb {
	case "SAVEPOINT", "RELEASE", "ROLLBACK", "BEGIN", "COMMIT", "PRAGMA":
		return verb
	}
	if m := reSQLTable.FindStringSubmatch(query); m != nil {
		return verb + " " + strings.ToLower(m[1])
	}
	return verb
}
