// Package netlab is the in-process "internet" of the outbound-HTTP harnesses (C18, C20): TLS and plain
// listeners on loopback, reached by name through client.SafeHttpTransport.DialContext, every request recorded.
// Nothing leaves the process: a name without a route fails to dial.
package netlab

import (
	"context"
	"crypto/ecdsa"
	"crypto/elliptic"
	"crypto/rand"
	"crypto/tls"
	"crypto/x509"
	"crypto/x509/pkix"
	"fmt"
	"io"
	"log"
	"math/big"
	"net"
	"net/http"
	"sync"
	"time"

	"github.com/nuts-foundation/nuts-node/http/client"
)

// Hit is one request that reached a listener.
type Hit struct {
	Listener string `json:"listener"`
	Scheme   string `json:"scheme"`
	Host     string `json:"host"` // Host header
	Method   string `json:"method"`
	URI      string `json:"uri"` // request target as received
}

// Dial is one connection attempt made through the transport.
type Dial struct {
	Addr   string `json:"addr"`
	Routed bool   `json:"routed"`
}

// Handler answers a request; listener is the name given to AddTLS / AddPlain.
type Handler func(listener string, w http.ResponseWriter, r *http.Request)

type Lab struct {
	mu      sync.Mutex
	hits    []Hit
	dials   []Dial
	routes  map[string]string // "host:port" as dialled -> loopback address
	handler Handler
	servers []*http.Server
	cert    tls.Certificate
}

func New(h Handler) *Lab {
	key, err := ecdsa.GenerateKey(elliptic.P256(), rand.Reader)
	if err != nil {
		panic(err)
	}
	tpl := &x509.Certificate{SerialNumber: big.NewInt(1), Subject: pkix.Name{CommonName: "verif netlab"},
		NotBefore: time.Now().Add(-time.Hour), NotAfter: time.Now().Add(240 * time.Hour),
		KeyUsage: x509.KeyUsageDigitalSignature | x509.KeyUsageCertSign, BasicConstraintsValid: true, IsCA: true,
		ExtKeyUsage: []x509.ExtKeyUsage{x509.ExtKeyUsageServerAuth}, DNSNames: []string{"*"}}
	der, err := x509.CreateCertificate(rand.Reader, tpl, tpl, &key.PublicKey, key)
	if err != nil {
		panic(err)
	}
	return &Lab{routes: map[string]string{}, handler: h, cert: tls.Certificate{Certificate: [][]byte{der}, PrivateKey: key}}
}

// SetHandler replaces the handler (between cases).
func (l *Lab) SetHandler(h Handler) { l.mu.Lock(); l.handler = h; l.mu.Unlock() }

func (l *Lab) serve(name, scheme string, ln net.Listener, hostports []string) {
	srv := &http.Server{Handler: http.HandlerFunc(func(w http.ResponseWriter, r *http.Request) {
		l.mu.Lock()
		l.hits = append(l.hits, Hit{Listener: name, Scheme: scheme, Host: r.Host, Method: r.Method, URI: r.RequestURI})
		h := l.handler
		l.mu.Unlock()
		w.Header().Set("Cache-Control", "no-store")
		h(name, w, r)
	}), ErrorLog: log.New(io.Discard, "", 0)}
	l.mu.Lock()
	for _, hp := range hostports {
		l.routes[hp] = ln.Addr().String()
	}
	l.servers = append(l.servers, srv)
	l.mu.Unlock()
	go srv.Serve(ln)
}

// AddTLS starts a TLS listener called name that is reached by dialling any of hostports ("example.nl:443").
func (l *Lab) AddTLS(name string, hostports ...string) {
	ln, err := net.Listen("tcp", "127.0.0.1:0")
	if err != nil {
		panic(err)
	}
	l.serve(name, "https", tls.NewListener(ln, &tls.Config{Certificates: []tls.Certificate{l.cert}}), hostports)
}

// AddPlain starts a plain-HTTP listener.
func (l *Lab) AddPlain(name string, hostports ...string) {
	ln, err := net.Listen("tcp", "127.0.0.1:0")
	if err != nil {
		panic(err)
	}
	l.serve(name, "http", ln, hostports)
}

// Passthrough lets addr ("localhost:1234") be dialled for real (loopback addresses of the node under test only).
func (l *Lab) Passthrough(addr string) {
	l.mu.Lock()
	l.routes[addr] = addr
	l.mu.Unlock()
}

// DialContext routes by the dialled name; unknown names are refused (and recorded).
func (l *Lab) DialContext(ctx context.Context, network, addr string) (net.Conn, error) {
	l.mu.Lock()
	target, ok := l.routes[addr]
	l.dials = append(l.dials, Dial{Addr: addr, Routed: ok})
	l.mu.Unlock()
	if !ok {
		return nil, fmt.Errorf("netlab: no route to %s", addr)
	}
	var d net.Dialer
	return d.DialContext(ctx, network, target)
}

// TLSClientConfig trusts the lab's listeners.
func (l *Lab) TLSClientConfig() *tls.Config {
	return &tls.Config{InsecureSkipVerify: true, MinVersion: tls.VersionTLS12}
}

// Install makes the node's outbound transport (and net/http's default transport, used by json-gold's
// document loader) dial into the lab.
func (l *Lab) Install() {
	client.SafeHttpTransport.DialContext = l.DialContext
	client.SafeHttpTransport.TLSClientConfig.InsecureSkipVerify = true
	client.SafeHttpTransport.DisableKeepAlives = true
	client.SafeHttpTransport.Proxy = nil
	if dt, ok := http.DefaultTransport.(*http.Transport); ok {
		dt.DialContext = l.DialContext
		dt.Proxy = nil
		dt.DisableKeepAlives = true
		if dt.TLSClientConfig == nil {
			dt.TLSClientConfig = &tls.Config{}
		}
		dt.TLSClientConfig.InsecureSkipVerify = true
	}
}

// Take returns and clears the recorded requests and dials.
func (l *Lab) Take() ([]Hit, []Dial) {
	l.mu.Lock()
	defer l.mu.Unlock()
	h, d := l.hits, l.dials
	l.hits, l.dials = nil, nil
	return h, d
}

func (l *Lab) Close() {
	for _, s := range l.servers {
		s.Close()
	}
}
