// C04 — Internal API auth cannot be bypassed; internal routes stay off the public port.
//
// Real http.Engine (Configure + Start) on loopback ports with token_v2 authentication, probe handlers
// registered through the engine's router; requests are written as raw bytes over TCP so that request
// targets that net/http's client can never emit (absolute-form, authority-form, `*`, undecoded
// escapes) are reached. A twin engine WITHOUT authentication receives the same bytes and tells
// whether a request routes to an /internal handler at all.
package c04

import (
	"bufio"
	"context"
	"crypto/ecdsa"
	"crypto/ed25519"
	"crypto/elliptic"
	"crypto/rand"
	"crypto/rsa"
	"encoding/base64"
	"encoding/json"
	"fmt"
	"io"
	"math/big"
	"net"
	nethttp "net/http"
	"os"
	"path/filepath"
	"sort"
	"strings"
	"sync"
	"testing"
	"time"

	"github.com/labstack/echo/v4"
	"github.com/lestrrat-go/jwx/v2/jwa"
	"github.com/lestrrat-go/jwx/v2/jwk"
	"github.com/lestrrat-go/jwx/v2/jws"
	"github.com/nuts-foundation/nuts-node/audit"
	"github.com/nuts-foundation/nuts-node/core"
	nutshttp "github.com/nuts-foundation/nuts-node/http"
	"github.com/sirupsen/logrus"
	"golang.org/x/crypto/ssh"

	"verif/ev"
)

const audience = "verif-aud"

type hit struct {
	Engine string // "auth" | "twin" | "same"
	Route  string
	Port   string
}

var (
	hitsMu sync.Mutex
	hits   []hit
)

func takeHits() []hit {
	hitsMu.Lock()
	defer hitsMu.Unlock()
	h := hits
	hits = nil
	return h
}

func freePort(t *testing.T) string {
	l, err := net.Listen("tcp", "127.0.0.1:0")
	if err != nil {
		t.Fatal(err)
	}
	defer l.Close()
	return l.Addr().String()
}

var probeRoutes = []string{"/internal", "/internal/probe", "/internal/probe/sub", "/internal/p/:id", "/internal/w/*",
	"/status", "/status/diagnostics", "/metrics", "/health", "/public/probe", "/iam/:id/did.json", "/"}

// every probe route has a handler for EVERY method (a request that is let through must find a handler to show it)
var probeMethods = []string{"GET", "POST", "HEAD", "OPTIONS", "PUT", "DELETE", "CONNECT", "PATCH", "TRACE", "PROPFIND", "REPORT", "VERIFX"}

type engineInst struct {
	tag          string
	eng          *nutshttp.Engine
	internalAddr string
	publicAddr   string
}

func startEngine(t *testing.T, tag string, auth bool, same bool, keysPath string) *engineInst {
	e := nutshttp.New(func() {}, nil)
	cfg := e.Config().(*nutshttp.Config)
	cfg.Log = nutshttp.LogNothingLevel
	cfg.Internal.Address = freePort(t)
	if same {
		cfg.Public.Address = cfg.Internal.Address
	} else {
		cfg.Public.Address = freePort(t)
	}
	if auth {
		cfg.Internal.Auth = nutshttp.AuthConfig{Type: nutshttp.BearerTokenAuthV2, AuthorizedKeysPath: keysPath, Audience: audience}
	}
	if err := e.Configure(core.ServerConfig{Strictmode: true, DIDMethods: []string{"web"}}); err != nil {
		t.Fatal(err)
	}
	for _, route := range probeRoutes {
		route := route
		h := func(c echo.Context) error {
			port := ""
			if a, ok := c.Request().Context().Value(nethttp.LocalAddrContextKey).(net.Addr); ok {
				port = a.String()
			}
			hitsMu.Lock()
			hits = append(hits, hit{Engine: tag, Route: route, Port: port})
			hitsMu.Unlock()
			return c.String(200, "ran "+route)
		}
		for _, m := range probeMethods {
			e.Router().Add(m, route, h)
		}
	}
	if err := e.Start(); err != nil {
		t.Fatal(err)
	}
	inst := &engineInst{tag: tag, eng: e, internalAddr: cfg.Internal.Address, publicAddr: cfg.Public.Address}
	for _, a := range []string{inst.internalAddr, inst.publicAddr} {
		ok := false
		for i := 0; i < 500 && !ok; i++ {
			c, err := net.DialTimeout("tcp", a, time.Second)
			if err == nil {
				c.Close()
				ok = true
			} else {
				time.Sleep(5 * time.Millisecond)
			}
		}
		if !ok {
			t.Fatalf("listener %s did not come up", a)
		}
	}
	t.Cleanup(func() { _ = e.Shutdown() })
	return inst
}

// send writes raw bytes and returns the status code of the first response: 0 = the server closed the connection without
// a response, -1 = NO ANSWER (could not connect, write or read within the deadline). No answer is a machine-load hiccup,
// never a verdict: the request is sent again (twice), and callers skip the "answered 401" clause for -1. (A handler
// that ran is recorded by the handler itself, whatever became of the response.)
func send(addr string, raw string) int {
	code := -1
	for attempt := 0; attempt < 3 && code == -1; attempt++ {
		code = sendOnce(addr, raw, time.Duration(3+4*attempt)*time.Second)
	}
	return code
}

func sendOnce(addr string, raw string, patience time.Duration) int {
	c, err := net.DialTimeout("tcp", addr, patience)
	if err != nil {
		return -1
	}
	defer c.Close()
	_ = c.SetDeadline(time.Now().Add(patience))
	if _, err := io.WriteString(c, raw); err != nil {
		return -1
	}
	br := bufio.NewReader(c)
	line, err := br.ReadString('\n')
	if err != nil {
		if ne, ok := err.(net.Error); ok && ne.Timeout() {
			return -1
		}
		return 0
	}
	var proto string
	var code int
	fmt.Sscanf(line, "%s %d", &proto, &code)
	for n := 0; code >= 100 && code < 200 && code != 101 && n < 3; n++ {
		// interim response (100 Continue): the final status line follows the empty line
		for {
			l, err := br.ReadString('\n')
			if err != nil {
				return code
			}
			if strings.TrimSpace(l) == "" {
				break
			}
		}
		l, err := br.ReadString('\n')
		if err != nil {
			return code
		}
		fmt.Sscanf(l, "%s %d", &proto, &code)
	}
	return code
}

// requestHeaders is the header alphabet of the raw-request grammar: headers (and header/method combinations) that
// proxies, browsers and frameworks give a meaning that could let a request around the token check: CORS preflight,
// forwarding / client-address headers, URL and method override headers, protocol upgrades, other credentials,
// body-framing oddities.
var requestHeaders = []string{
	"Origin: https://admin.example", "Origin: null", "Access-Control-Request-Method: POST", "Access-Control-Request-Headers: authorization",
	"X-Forwarded-For: 127.0.0.1", "X-Forwarded-Host: localhost", "X-Forwarded-Proto: https", "X-Forwarded-Prefix: /public",
	"Forwarded: for=127.0.0.1;host=localhost;proto=https", "X-Real-IP: 127.0.0.1", "X-Original-URL: /public/probe", "X-Rewrite-URL: /public/probe",
	"X-Forwarded-Uri: /public/probe", "X-HTTP-Method-Override: OPTIONS", "X-HTTP-Method-Override: GET", "Upgrade: websocket", "Upgrade: h2c",
	"Connection: Upgrade, HTTP2-Settings", "HTTP2-Settings: AAMAAABkAAQCAAAAAAIAAAAA", "Sec-WebSocket-Key: dGhlIHNhbXBsZSBub25jZQ==", "Via: 1.1 internal-proxy",
	"Proxy-Authorization: Bearer x", "Cookie: token=x; session=admin", "Referer: http://localhost/internal/", "Expect: 100-continue",
	"Transfer-Encoding: chunked", "Transfer-Encoding: identity", "Content-Length: 5", "Content-Type: application/json", "X-Requested-With: XMLHttpRequest",
	"Authorization: Basic YWRtaW46YWRtaW4=", "X-Api-Key: x", "X-Internal: true",
}

// headerSets: all singles and pairs (thorough: triples) of the header alphabet, by index.
func headerSets(n int, triples bool) [][]int {
	var out [][]int
	for i := 0; i < n; i++ {
		out = append(out, []int{i})
	}
	for i := 0; i < n; i++ {
		for j := i + 1; j < n; j++ {
			out = append(out, []int{i, j})
		}
	}
	if triples {
		for i := 0; i < n; i++ {
			for j := i + 1; j < n; j++ {
				for k := j + 1; k < n; k++ {
					out = append(out, []int{i, j, k})
				}
			}
		}
	}
	return out
}

// ------------------------------------------------------------------ request-target grammar

type target struct {
	Method, Target, Version, Host string
	Desc                          string
}

func pathRewrites(p string) map[string]string {
	out := map[string]string{}
	add := func(name, v string) {
		if v != p {
			out[v] = name
		}
	}
	for i := 0; i < len(p); i++ {
		ch := p[i]
		if ch == '/' {
			add("dupslash", p[:i]+"//"+p[i+1:])
			add("dot", p[:i]+"/./"+p[i+1:])
			add("dotdot", p[:i]+"/x/../"+p[i+1:])
			add("backslash", p[:i]+"\\"+p[i+1:])
			if i > 0 {
				add("enc-slash", p[:i]+"%2F"+p[i+1:])
				add("enc-slash-lc", p[:i]+"%2f"+p[i+1:])
				add("param", p[:i]+";a=b/"+p[i+1:])
			}
			add("encdot", p[:i]+"/%2e/"+p[i+1:])
			add("encdotdot", p[:i]+"/x/%2e%2e/"+p[i+1:])
			continue
		}
		add("pct", p[:i]+fmt.Sprintf("%%%02X", ch)+p[i+1:])
		add("pct-lc", p[:i]+fmt.Sprintf("%%%02x", ch)+p[i+1:])
		add("dblpct", p[:i]+fmt.Sprintf("%%25%02X", ch)+p[i+1:])
		if ch >= 'a' && ch <= 'z' {
			add("upper1", p[:i]+string(ch-32)+p[i+1:])
		}
	}
	add("upper", strings.ToUpper(p))
	add("title", "/"+strings.ToUpper(p[1:2])+p[2:])
	add("trailing", p+"/")
	add("trailing-dot", p+"/.")
	add("trailing-dotdot", p+"/x/..")
	add("lead-dotdot", "/.."+p)
	add("lead-public", "/public/.."+p)
	add("lead-public-enc", "/public/%2e%2e"+p)
	add("lead-public-encslash", "/public%2F.."+p)
	add("nul", p+"%00")
	add("semicolon", p+";x")
	add("tab", p+"%09")
	add("space", p+"%20")
	return out
}

var suffixes = []string{"", "?q=1", "?", "#f", "/?x", "?/internal/", "?x=/../internal", "??", "?%2F"}

func buildTargets(base []string, depth int, hostPort string) []target {
	seen := map[string]bool{}
	var out []target
	add := func(t target) {
		k := t.Method + " " + t.Target + " " + t.Version + " " + t.Host
		if !seen[k] {
			seen[k] = true
			out = append(out, t)
		}
	}
	for _, b := range base {
		paths := map[string]string{b: "plain"}
		frontier := map[string]string{b: "plain"}
		for d := 0; d < depth; d++ {
			next := map[string]string{}
			for p, name := range frontier {
				for q, n2 := range pathRewrites(p) {
					if _, ok := paths[q]; !ok {
						paths[q] = name + "+" + n2
						next[q] = name + "+" + n2
					}
				}
			}
			frontier = next
		}
		keys := make([]string, 0, len(paths))
		for p := range paths {
			keys = append(keys, p)
		}
		sort.Strings(keys)
		for _, p := range keys {
			name := paths[p]
			for _, sfx := range suffixes {
				if name != "plain" && strings.Count(name, "+") >= 2 && sfx != "" && sfx != "?q=1" {
					continue // deep rewrites get the two main suffixes only
				}
				forms := []struct{ n, t string }{
					{"origin", p + sfx},
					{"abs-http", "http://" + hostPort + p + sfx},
					{"abs-https", "https://" + hostPort + p + sfx},
					{"abs-otherhost", "http://example.com" + p + sfx},
					{"abs-nohost", "http://" + p + sfx},
					{"abs-userinfo", "http://u:p@" + hostPort + p + sfx},
					{"abs-scheme-only", "x:" + p + sfx},
					{"double-slash-authority", "//" + hostPort + p + sfx},
				}
				for _, f := range forms {
					methods := []string{"GET"}
					if name == "plain" || strings.Count(name, "+") == 1 {
						methods = []string{"GET", "POST", "HEAD", "OPTIONS", "get", "PUT"}
					}
					for _, m := range methods {
						versions := []string{"HTTP/1.1"}
						if name == "plain" {
							versions = []string{"HTTP/1.1", "HTTP/1.0"}
						}
						for _, v := range versions {
							hosts := []string{hostPort}
							if name == "plain" {
								hosts = []string{hostPort, "other.example", "internal", ""}
							}
							for _, h := range hosts {
								add(target{Method: m, Target: f.t, Version: v, Host: h, Desc: b + " " + name + " " + f.n + " sfx=" + sfx})
							}
						}
					}
				}
			}
		}
	}
	// dot segments that climb OUT of /internal once decoded / cleaned, bound whole to a path parameter or a wildcard:
	// the router dispatches on the path as sent, so these still reach the /internal handler
	for _, prefix := range []string{"/internal/p/", "/internal/w/", "/internal/w/a/", "/internal/probe/"} {
		for _, unit := range []string{"../", "..%2F", "..%2f", "%2e%2e/", "%2e%2e%2f", "%2E%2E%2F", ".%2e/", "%2e./", "..;/", "..\\", "..%5C", "..%5c"} {
			for k := 1; k <= 4; k++ {
				for _, tail := range []string{"x", "public/probe", "", "status"} {
					pth := prefix + strings.Repeat(unit, k) + tail
					for _, f := range []struct{ n, t string }{{"origin", pth}, {"origin-query", pth + "?q=1"}, {"abs-http", "http://" + hostPort + pth}} {
						add(target{Method: "GET", Target: f.t, Version: "HTTP/1.1", Host: hostPort,
							Desc: prefix + " climb-out:" + unit + " " + f.n + " k=" + fmt.Sprint(k) + " tail=" + tail})
					}
				}
			}
		}
	}
	// forms without a path
	for _, m := range []string{"OPTIONS", "GET", "CONNECT"} {
		add(target{Method: m, Target: "*", Version: "HTTP/1.1", Host: hostPort, Desc: "asterisk"})
		add(target{Method: m, Target: hostPort, Version: "HTTP/1.1", Host: hostPort, Desc: "authority"})
		add(target{Method: m, Target: "internal:80", Version: "HTTP/1.1", Host: hostPort, Desc: "authority-internal"})
		add(target{Method: m, Target: hostPort + "/internal/probe", Version: "HTTP/1.1", Host: hostPort, Desc: "authority+path"})
	}
	return out
}

func (t target) raw(authz []string) string { return t.rawH(authz, nil) }

// rawH also writes extra header lines ("Name: value") before the Authorization headers.
func (t target) rawH(authz []string, extra []string) string {
	var sb strings.Builder
	sb.WriteString(t.Method + " " + t.Target + " " + t.Version + "\r\n")
	if t.Host != "" {
		sb.WriteString("Host: " + t.Host + "\r\n")
	}
	for _, h := range extra {
		sb.WriteString(h + "\r\n")
	}
	for _, a := range authz {
		sb.WriteString("Authorization: " + a + "\r\n")
	}
	sb.WriteString("Connection: close\r\nContent-Length: 0\r\n\r\n")
	return sb.String()
}

// ------------------------------------------------------------------ tokens

type signer struct {
	listed     bool // written to the authorized_keys file (authorised signers always are)
	name       string
	priv       any
	pub        ssh.PublicKey
	authorized bool
	comment    string
}

type tokenSpec struct {
	Desc   string
	Signer int            // index into signers
	Alg    string         // JWS alg used to sign ("none", "HS256" = MAC with public key bytes)
	Claims map[string]any // as sent
	Hdr    map[string]any // extra protected headers
	Form   string         // compact | json-general-1 | json-general-2 (second signature by unauthorized key first/last) | flattened
	Mangle string         // "", "flip-sig", "flip-payload", "trunc"
}

var now = time.Now()

func baseClaims(iss string) map[string]any {
	return map[string]any{"iss": iss, "sub": "admin", "aud": []string{audience}, "jti": "6f7ad0c4-1d9c-4b8e-9d0a-0a9c0c0f3a11",
		"iat": now.Add(-time.Minute).Unix(), "nbf": now.Add(-time.Minute).Unix(), "exp": now.Add(time.Hour).Unix()}
}

func cloneClaims(m map[string]any) map[string]any {
	o := map[string]any{}
	for k, v := range m {
		o[k] = v
	}
	return o
}

type claimDefect struct {
	name  string
	apply func(m map[string]any)
	bad   bool // makes the token unacceptable per the statement
}

func claimDefects() []claimDefect {
	d := func(name string, bad bool, f func(m map[string]any)) claimDefect { return claimDefect{name, f, bad} }
	return []claimDefect{
		d("aud-wrong", true, func(m map[string]any) { m["aud"] = []string{"other"} }),
		d("aud-missing", true, func(m map[string]any) { delete(m, "aud") }),
		d("aud-string", false, func(m map[string]any) { m["aud"] = audience }),
		d("aud-list-with-right", false, func(m map[string]any) { m["aud"] = []string{"other", audience} }),
		d("aud-prefix", true, func(m map[string]any) { m["aud"] = []string{audience + "x"} }),
		d("aud-case", true, func(m map[string]any) { m["aud"] = []string{strings.ToUpper(audience)} }),
		d("iss-wrong", true, func(m map[string]any) { m["iss"] = "mallory" }),
		d("iss-missing", true, func(m map[string]any) { delete(m, "iss") }),
		d("iss-uppercase", true, func(m map[string]any) { m["iss"] = strings.ToUpper(str(m["iss"])) }),
		d("iss-suffix", true, func(m map[string]any) { m["iss"] = str(m["iss"]) + "x" }),
		d("iss-prefix-of-name", true, func(m map[string]any) { m["iss"] = (str(m["iss"]) + "abc")[:3] }),
		d("iss-trailing-space", true, func(m map[string]any) { m["iss"] = str(m["iss"]) + " " }),
		d("iss-other-authorized-user", true, func(m map[string]any) { m["iss"] = "bob-ed25519" }),
		d("sub-missing", true, func(m map[string]any) { delete(m, "sub") }),
		d("sub-empty", true, func(m map[string]any) { m["sub"] = "" }),
		d("jti-missing", true, func(m map[string]any) { delete(m, "jti") }),
		d("jti-not-uuid", true, func(m map[string]any) { m["jti"] = "1234" }),
		d("jti-empty", true, func(m map[string]any) { m["jti"] = "" }),
		d("exp-missing", true, func(m map[string]any) { delete(m, "exp") }),
		d("iat-missing", true, func(m map[string]any) { delete(m, "iat") }),
		d("nbf-missing", true, func(m map[string]any) { delete(m, "nbf") }),
		d("expired", true, func(m map[string]any) { m["exp"] = now.Add(-30 * time.Second).Unix() }),
		d("nbf-future", true, func(m map[string]any) { m["nbf"] = now.Add(30 * time.Minute).Unix() }),
		d("iat-future", true, func(m map[string]any) {
			m["iat"] = now.Add(30 * time.Minute).Unix()
		}),
		d("life-24.5h-exact", false, func(m map[string]any) {
			m["iat"], m["nbf"] = now.Add(-time.Minute).Unix(), now.Add(-time.Minute).Unix()
			m["exp"] = now.Add(-time.Minute).Add(1470 * time.Minute).Unix()
		}),
		d("life-24.5h+1s-after-nbf", true, func(m map[string]any) {
			m["exp"] = now.Add(-time.Minute).Add(1470*time.Minute + time.Second).Unix()
		}),
		d("life-long-after-iat-only", true, func(m map[string]any) {
			m["iat"] = now.Add(-48 * time.Hour).Unix()
			m["nbf"] = now.Add(-time.Minute).Unix()
			m["exp"] = now.Add(time.Hour).Unix()
		}),
		d("life-10y", true, func(m map[string]any) { m["exp"] = now.Add(87600 * time.Hour).Unix() }),
		d("iat-after-nbf", true, func(m map[string]any) {
			m["iat"] = now.Add(-10 * time.Second).Unix()
			m["nbf"] = now.Add(-time.Minute).Unix()
		}),
		d("exp-string", true, func(m map[string]any) { m["exp"] = "never" }),
		// zero / negative timestamps (the systematic family of numeric extremes is timeExtremes below)
		d("exp-zero", true, func(m map[string]any) { m["exp"] = int64(0) }),
		d("exp-zero-old-iat-nbf", true, func(m map[string]any) { m["exp"], m["iat"], m["nbf"] = int64(0), int64(1), int64(1) }),
		d("exp-one", true, func(m map[string]any) { m["exp"] = int64(1) }),
		d("exp-negative", true, func(m map[string]any) { m["exp"] = int64(-1) }),
		d("nbf-iat-zero", true, func(m map[string]any) { m["iat"], m["nbf"] = int64(0), int64(0) }),
		d("exp-float", false, func(m map[string]any) { m["exp"] = float64(now.Unix()+3600) + 0.5 }),
		d("extra-claim", false, func(m map[string]any) { m["admin"] = true }),
	}
}

func str(v any) string { s, _ := v.(string); return s }

func b64(b []byte) string { return base64.RawURLEncoding.EncodeToString(b) }

func (s tokenSpec) build(t *testing.T, signers []*signer) string {
	tok, _ := s.build2(t, signers)
	return tok
}

// build2 also reports whether the (first) signature is a genuine asymmetric signature by the signer's private key.
func (s tokenSpec) build2(t *testing.T, signers []*signer) (string, bool) {
	genuine := false
	sg := signers[s.Signer]
	payload, _ := json.Marshal(s.Claims)
	kid := ssh.FingerprintSHA256(sg.pub)
	mkHdr := func(alg string, k string) jws.Headers {
		h := jws.NewHeaders()
		_ = h.Set("typ", "JWT")
		_ = h.Set("kid", k)
		for hk, hv := range s.Hdr {
			_ = h.Set(hk, hv)
		}
		return h
	}
	signOne := func(sg *signer, alg string) (string, string) { // protected b64, signature b64
		hdr := map[string]any{"typ": "JWT", "kid": ssh.FingerprintSHA256(sg.pub), "alg": alg}
		for hk, hv := range s.Hdr {
			hdr[hk] = hv
		}
		hb, _ := json.Marshal(hdr)
		prot := b64(hb)
		input := prot + "." + b64(payload)
		switch alg {
		case "none":
			return prot, ""
		case "HS256", "HS384", "HS512":
			// MAC keyed with the *public* key bytes (algorithm-confusion attack)
			key, _ := jwk.FromRaw(sg.pub.Marshal())
			out, err := jws.Sign(payload, jws.WithKey(jwa.SignatureAlgorithm(alg), key, jws.WithProtectedHeaders(mkHdr(alg, kid))))
			if err != nil {
				t.Fatalf("hmac sign: %v", err)
			}
			parts := strings.Split(string(out), ".")
			return parts[0], parts[2]
		}
		out, err := jws.Sign(payload, jws.WithKey(jwa.SignatureAlgorithm(alg), sg.priv, jws.WithProtectedHeaders(mkHdr(alg, ssh.FingerprintSHA256(sg.pub)))))
		if err != nil {
			// algorithm does not fit the key: fabricate a signature of plausible length
			return prot, b64([]byte(strings.Repeat("\x01", 64)))
		}
		_ = input
		if sg == signers[s.Signer] {
			genuine = true
		}
		parts := strings.Split(string(out), ".")
		return parts[0], parts[2]
	}
	prot, sig := signOne(sg, s.Alg)
	pl := b64(payload)
	switch s.Mangle {
	case "flip-sig":
		if len(sig) > 4 {
			b, _ := base64.RawURLEncoding.DecodeString(sig)
			b[len(b)/2] ^= 1
			sig = b64(b)
		}
	case "flip-payload":
		c := cloneClaims(s.Claims)
		c["sub"] = "root"
		pb, _ := json.Marshal(c)
		pl = b64(pb)
	case "trunc":
		if len(sig) > 4 {
			sig = sig[:len(sig)-4]
		}
	}
	switch s.Form {
	case "", "compact":
		return prot + "." + pl + "." + sig, genuine
	case "flattened":
		j, _ := json.Marshal(map[string]any{"payload": pl, "protected": prot, "signature": sig})
		return string(j), genuine
	case "json-general-1":
		j, _ := json.Marshal(map[string]any{"payload": pl, "signatures": []any{map[string]any{"protected": prot, "signature": sig}}})
		return string(j), genuine
	case "json-general-2-authorized-first", "json-general-2-authorized-last":
		var other *signer
		for _, o := range signers {
			if !o.authorized {
				other = o
				break
			}
		}
		oprot, osig := signOne(other, "ES256")
		a := map[string]any{"protected": prot, "signature": sig}
		b := map[string]any{"protected": oprot, "signature": osig}
		sigs := []any{a, b}
		if s.Form == "json-general-2-authorized-last" {
			sigs = []any{b, a}
		}
		j, _ := json.Marshal(map[string]any{"payload": pl, "signatures": sigs})
		return string(j), genuine
	}
	t.Fatalf("unknown form %s", s.Form)
	return "", false
}

func allowedAlg(keyKind, alg string) bool {
	switch keyKind {
	case "ecdsa256":
		return alg == "ES256"
	case "ecdsa384":
		return alg == "ES384"
	case "ed25519":
		return alg == "EdDSA"
	case "rsa":
		return alg == "RS512" || alg == "PS512"
	}
	return false
}

// acceptable is the reference predicate transcribed from the statement, evaluated on the token as sent:
// signed by an authorised key (with an allowed asymmetric algorithm that fits the key), configured audience,
// key owner's name as issuer, a subject, a UUID token id and a bounded lifetime within its validity.
// Which algorithms are allowed, and whether the algorithm fits the key, is the subject of C17; here a token
// counts as "signed by an authorised key" when its signature was really produced with that key's private
// half under an asymmetric algorithm (genuine), whatever the algorithm name.
func acceptable(s tokenSpec, signers []*signer, genuine bool) bool {
	sg := signers[s.Signer]
	if !sg.authorized || s.Mangle != "" || !genuine {
		return false
	}
	c := s.Claims
	auds := []string{}
	switch a := c["aud"].(type) {
	case string:
		auds = []string{a}
	case []string:
		auds = a
	}
	okAud := false
	for _, a := range auds {
		okAud = okAud || a == audience
	}
	if !okAud {
		return false
	}
	if iss, _ := c["iss"].(string); iss != sg.comment || iss == "" {
		return false
	}
	if sub, _ := c["sub"].(string); sub == "" {
		return false
	}
	jti, _ := c["jti"].(string)
	if len(jti) != 36 {
		return false
	}
	// The time claims are judged on the numbers AS SENT, with exact (arbitrary precision) arithmetic: a NumericDate is
	// any JSON number (RFC 7519: may carry a fraction, may be written with an exponent, is not bounded). The documented
	// rules (docs api-authentication, tokenV2.bestPracticesCheck): exp in the future, nbf and iat not in the future,
	// exp at most 24.5 h (88200 s) after nbf and after iat, iat not after nbf. Two seconds of slack (clock reading,
	// truncation of fractions to whole seconds) only ever make the predicate MORE permissive.
	iat, ok1 := claimNumber(c["iat"])
	nbf, ok2 := claimNumber(c["nbf"])
	exp, ok3 := claimNumber(c["exp"])
	if !ok1 || !ok2 || !ok3 {
		return false
	}
	rat := func(n int64) *big.Rat { return new(big.Rat).SetInt64(n) }
	n := rat(time.Now().Unix())
	slack := rat(2)
	sub := func(a, b *big.Rat) *big.Rat { return new(big.Rat).Sub(a, b) }
	add := func(a, b *big.Rat) *big.Rat { return new(big.Rat).Add(a, b) }
	if exp.Cmp(sub(n, slack)) <= 0 || nbf.Cmp(add(n, slack)) > 0 || iat.Cmp(add(n, slack)) > 0 {
		return false
	}
	if exp.Sign() <= 0 {
		return false
	}
	// distances between claims: exact when all three are whole seconds (as the implementation compares whole-second
	// times); one second of slack when a fraction is involved (fractions may be truncated before comparing)
	dslack := rat(0)
	if !exp.IsInt() || !nbf.IsInt() || !iat.IsInt() {
		dslack = rat(1)
	}
	maxLife := add(rat(1470*60), dslack)
	if sub(exp, nbf).Cmp(maxLife) > 0 || sub(exp, iat).Cmp(maxLife) > 0 || iat.Cmp(add(nbf, dslack)) > 0 {
		return false
	}
	return true
}

// claimNumber returns the exact value of a time claim as it is sent: the JSON number literal the claim is serialised to.
func claimNumber(v any) (*big.Rat, bool) {
	switch x := v.(type) {
	case int64, int, float64, json.Number:
	case string:
		r, ok := new(big.Rat).SetString(strings.TrimSpace(x))
		return r, ok
	default:
		return nil, false
	}
	lit, err := json.Marshal(v)
	if err != nil {
		return nil, false
	}
	x, ok := new(big.Rat).SetString(string(lit))
	return x, ok
}

func mustRSA(bits int) *rsa.PrivateKey {
	for {
		k, err := rsa.GenerateKey(rand.Reader, bits)
		if err != nil {
			panic(err)
		}
		if k.N.BitLen() == bits {
			return k
		}
	}
}

func weak(s *signer) *signer { s.listed = true; return s }

func makeSigners(t *testing.T) []*signer {
	mk := func(name string, priv any, pub any, authorized bool) *signer {
		if k, ok := priv.(*rsa.PrivateKey); ok && pub == nil {
			pub = &k.PublicKey
		}
		sp, err := ssh.NewPublicKey(pub)
		if err != nil {
			t.Fatal(err)
		}
		return &signer{name: name, priv: priv, pub: sp, authorized: authorized, comment: name}
	}
	e1, _ := ecdsa.GenerateKey(elliptic.P256(), rand.Reader)
	e2, _ := ecdsa.GenerateKey(elliptic.P384(), rand.Reader)
	edPub, edPriv, _ := ed25519.GenerateKey(rand.Reader)
	r1, _ := rsa.GenerateKey(rand.Reader, 2048)
	m1, _ := ecdsa.GenerateKey(elliptic.P256(), rand.Reader)
	return []*signer{
		mk("alice-ecdsa256", e1, &e1.PublicKey, true),
		mk("carol-ecdsa384", e2, &e2.PublicKey, true),
		mk("bob-ed25519", edPriv, edPub, true),
		mk("dave-rsa", r1, &r1.PublicKey, true),
		mk("mallory-ecdsa256", m1, &m1.PublicKey, false),
		// keys that ARE written to authorized_keys but do not meet the documented minimum (RSA >= 2048 bit):
		// they authorise nobody (boundary sizes just below the minimum, and a clearly weak one)
		weak(mk("eve-rsa", mustRSA(2047), nil, false)),
		weak(mk("fay-rsa", mustRSA(2041), nil, false)),
		weak(mk("gus-rsa", mustRSA(1024), nil, false)),
	}
}

// writeKeys writes the authorized_keys file: the authorised signers and the listed-but-too-weak ones.
func writeKeys(t *testing.T, signers []*signer) string {
	keys := ""
	for _, s := range signers {
		if s.authorized || s.listed {
			keys += strings.TrimSpace(string(ssh.MarshalAuthorizedKey(s.pub))) + " " + s.comment + "\n"
		}
	}
	keysPath := filepath.Join(t.TempDir(), "authorized_keys")
	if err := os.WriteFile(keysPath, []byte(keys), 0o600); err != nil {
		t.Fatal(err)
	}
	return keysPath
}

func tokenSpecs(signers []*signer, pairs bool) []tokenSpec {
	var out []tokenSpec
	defects := claimDefects()
	for si, sg := range signers {
		kind := strings.SplitN(sg.name, "-", 2)[1]
		algs := []string{"none", "HS256", "HS512"}
		switch kind {
		case "ecdsa256":
			algs = append(algs, "ES256", "ES384")
		case "ecdsa384":
			algs = append(algs, "ES384", "ES256")
		case "ed25519":
			algs = append(algs, "EdDSA")
		case "rsa":
			algs = append(algs, "RS256", "RS384", "RS512", "PS256", "PS384", "PS512")
		}
		for _, alg := range algs {
			out = append(out, tokenSpec{Desc: sg.name + " alg=" + alg, Signer: si, Alg: alg, Claims: baseClaims(sg.comment)})
		}
		good := map[string]string{"ecdsa256": "ES256", "ecdsa384": "ES384", "ed25519": "EdDSA", "rsa": "PS512"}[kind]
		for _, m := range []string{"flip-sig", "flip-payload", "trunc"} {
			out = append(out, tokenSpec{Desc: sg.name + " " + m, Signer: si, Alg: good, Claims: baseClaims(sg.comment), Mangle: m})
		}
		for _, f := range []string{"flattened", "json-general-1", "json-general-2-authorized-first", "json-general-2-authorized-last"} {
			out = append(out, tokenSpec{Desc: sg.name + " form=" + f, Signer: si, Alg: good, Claims: baseClaims(sg.comment), Form: f})
		}
		if si > 1 && sg.authorized {
			continue // claim lattice on two authorised keys and the unauthorised one
		}
		for i, d := range defects {
			c := baseClaims(sg.comment)
			d.apply(c)
			out = append(out, tokenSpec{Desc: sg.name + " " + d.name, Signer: si, Alg: good, Claims: c})
			if pairs && si == 0 {
				for j := i + 1; j < len(defects); j++ {
					c2 := baseClaims(sg.comment)
					d.apply(c2)
					defects[j].apply(c2)
					out = append(out, tokenSpec{Desc: sg.name + " " + d.name + "+" + defects[j].name, Signer: si, Alg: good, Claims: c2})
				}
			}
		}
		// numeric extremes of every time claim and of their pairwise distances (on one authorised key; thorough: two)
		if si == 0 || (pairs && si == 1) {
			for _, d := range timeExtremes() {
				c := baseClaims(sg.comment)
				d.apply(c)
				out = append(out, tokenSpec{Desc: sg.name + " " + d.name, Signer: si, Alg: good, Claims: c})
			}
		}
	}
	// the unauthorised signer claiming an authorised user's name
	c := baseClaims("alice-ecdsa256")
	out = append(out, tokenSpec{Desc: "mallory as alice", Signer: 4, Alg: "ES256", Claims: c})
	return out
}

// timeExtremes is the family "numeric extremes of the time claims": every claim (exp, nbf, iat), the pair nbf+iat and
// the whole validity window is moved away from now by every offset of a list of machine-arithmetic boundaries (powers
// of two, the int64-nanosecond horizon floor(2^63/1e9) s = 292.27 y and its multiples - where time.Duration and
// multiplications by 1e9 wrap around -, 2^53, centuries), and set to absolute extremes (zero, negative, year 1, year
// 9999, int64 limits, beyond int64, exponent and fractional literals). Values are sent as exact JSON number literals.
// Whether a token is acceptable is NOT stated here: the reference predicate judges the claims as sent.
func timeExtremes() []claimDefect {
	var out []claimDefect
	lit := func(x *big.Int) any {
		if x.IsInt64() {
			return x.Int64()
		}
		return json.Number(x.String())
	}
	nowB := big.NewInt(now.Unix())
	at := func(off *big.Int) any { return lit(new(big.Int).Add(nowB, off)) }
	neg := func(x *big.Int) *big.Int { return new(big.Int).Neg(x) }
	plus := func(x *big.Int, d int64) *big.Int { return new(big.Int).Add(x, big.NewInt(d)) }
	pow2 := func(n uint) *big.Int { return new(big.Int).Lsh(big.NewInt(1), n) }

	type off struct {
		name string
		v    *big.Int
	}
	offs := []off{
		{"2^31-1", plus(pow2(31), -1)}, {"2^31", pow2(31)}, {"2^32-1", plus(pow2(32), -1)}, {"2^32", pow2(32)},
		{"2^53", pow2(53)}, {"2^53+1", plus(pow2(53), 1)}, {"1000y", big.NewInt(31556952000)}, {"2^62", pow2(62)},
		{"2^63-1", plus(pow2(63), -1)}, {"2^63", pow2(63)}, {"2^64", pow2(64)},
	}
	// multiples of the int64 nanosecond horizon: m * 2^63 / 1e9 seconds (m even: a full wrap of 2^64 ns)
	for m := int64(1); m <= 6; m++ {
		q := new(big.Int).Div(new(big.Int).Mul(big.NewInt(m), pow2(63)), big.NewInt(1_000_000_000))
		for _, d := range []int64{-1, 0, 1, 2, 3600, 86400 * 365} {
			offs = append(offs, off{fmt.Sprintf("%d*floor(2^63/1e9)%+d", m, d), plus(q, d)})
		}
	}
	add := func(name string, f func(m map[string]any)) { out = append(out, claimDefect{name: "time-extreme/" + name, apply: f}) }
	for _, o := range offs {
		o := o
		add("exp=now+K/"+o.name, func(m map[string]any) { m["exp"] = at(o.v) })
		add("exp=nbf+K/"+o.name, func(m map[string]any) { m["exp"] = lit(new(big.Int).Add(big.NewInt(m["nbf"].(int64)), o.v)) })
		add("nbf=now-K/"+o.name, func(m map[string]any) { m["nbf"] = at(neg(o.v)) })
		add("iat=now-K/"+o.name, func(m map[string]any) { m["iat"] = at(neg(o.v)) })
		add("nbf,iat=now-K/"+o.name, func(m map[string]any) { m["nbf"], m["iat"] = at(neg(o.v)), at(neg(o.v)) })
		add("nbf=now+K/"+o.name, func(m map[string]any) { m["nbf"] = at(o.v) })
		add("iat=now+K/"+o.name, func(m map[string]any) { m["iat"] = at(o.v) })
		add("window=now+K/"+o.name, func(m map[string]any) {
			m["iat"], m["nbf"], m["exp"] = at(plus(o.v, -60)), at(plus(o.v, -60)), at(plus(o.v, 3600))
		})
		add("window=now-K/"+o.name, func(m map[string]any) {
			m["iat"], m["nbf"], m["exp"] = at(plus(neg(o.v), -60)), at(plus(neg(o.v), -60)), at(plus(neg(o.v), 3600))
		})
		// the lower ends far in the past AND the upper end far in the future: the distance is twice the offset
		add("nbf,iat=now-K,exp=now+K/"+o.name, func(m map[string]any) {
			m["nbf"], m["iat"], m["exp"] = at(neg(o.v)), at(neg(o.v)), at(o.v)
		})
	}
	// absolute values
	type abs struct {
		name string
		v    any
	}
	absolutes := []abs{
		{"0", int64(0)}, {"1", int64(1)}, {"-1", int64(-1)}, {"-2^31", int64(-1 << 31)}, {"2^31-1", int64(1<<31 - 1)}, {"2^31", int64(1 << 31)},
		{"2^32", int64(1 << 32)}, {"9999-12-31T23:59:59Z", int64(253402300799)}, {"10000-01-01", int64(253402300800)},
		{"0001-01-01(zero time.Time)", int64(-62135596800)}, {"0001-01-01-1s", int64(-62135596801)}, {"0001-01-01+1s", int64(-62135596799)},
		{"-2^62", int64(-1 << 62)}, {"-2^63", json.Number("-9223372036854775808")}, {"2^63-1", int64(1<<63 - 1)},
		{"2^63-62135596800(time.Time wrap)", lit(new(big.Int).Sub(pow2(63), big.NewInt(62135596800)))},
		{"2^63-62135596801", lit(new(big.Int).Sub(pow2(63), big.NewInt(62135596801)))},
		{"2^63", lit(pow2(63))}, {"2^64", lit(pow2(64))}, {"2^64+now+3600", lit(plus(new(big.Int).Add(pow2(64), nowB), 3600))},
		{"2^32+now+3600", lit(plus(new(big.Int).Add(pow2(32), nowB), 3600))},
		{"1e11", json.Number("1e11")}, {"1e18", json.Number("1e18")}, {"1e19", json.Number("1e19")}, {"1e30", json.Number("1e30")},
		{"1e308", json.Number("1e308")}, {"1e400", json.Number("1e400")}, {"-1e18", json.Number("-1e18")}, {"-1e30", json.Number("-1e30")},
		{"1e-9", json.Number("1e-9")}, {"0.5", json.Number("0.5")}, {"-0", json.Number("-0")}, {"-0.0", json.Number("-0.0")},
		{"9223372036854775807.5", json.Number("9223372036854775807.5")}, {"9.223372036854775807e18", json.Number("9.223372036854775807e18")},
		{"now+3600-as-float-literal", json.Number(fmt.Sprintf("%d.0", now.Unix()+3600))},
		{"now+3600-as-exponent-literal", json.Number(fmt.Sprintf("%d.%09de9", (now.Unix()+3600)/1_000_000_000, (now.Unix()+3600)%1_000_000_000))},
		{"now+10y-as-exponent-literal", json.Number(fmt.Sprintf("%d.%09de9", (now.Unix()+315360000)/1_000_000_000, (now.Unix()+315360000)%1_000_000_000))},
		{"now+3600.999999999", json.Number(fmt.Sprintf("%d.999999999", now.Unix()+3600))},
		{"now+88100.5(inside)", json.Number(fmt.Sprintf("%d.5", now.Unix()+88100))},
		{"now+88180.5(beyond)", json.Number(fmt.Sprintf("%d.5", now.Unix()+88180))},
		{"now-60.5", json.Number(fmt.Sprintf("%d.5", now.Unix()-60))}, {"now-3600-as-float-literal", json.Number(fmt.Sprintf("%d.0", now.Unix()-3600))},
		{"now+1800.5", json.Number(fmt.Sprintf("%d.5", now.Unix()+1800))},
		// the same claim as another JSON type (a NumericDate is a JSON number; a numeric string is judged by its value,
		// which only makes the reference more permissive)
		{"string(now+3600)", fmt.Sprint(now.Unix() + 3600)}, {"string(now-60)", fmt.Sprint(now.Unix() - 60)},
		{"string(now+1000y)", fmt.Sprint(now.Unix() + 31556952000)}, {"string(2^63)", "9223372036854775808"}, {"string(1e400)", "1e400"},
		{"string-empty", ""}, {"string-space-number", " " + fmt.Sprint(now.Unix()+3600)}, {"null", nil}, {"true", true}, {"false", false},
		{"array(now+3600)", []any{now.Unix() + 3600}}, {"empty-array", []any{}}, {"object", map[string]any{"seconds": now.Unix() + 3600}},
	}
	for _, a := range absolutes {
		a := a
		add("exp=absolute/"+a.name, func(m map[string]any) { m["exp"] = a.v })
		add("nbf=absolute/"+a.name, func(m map[string]any) { m["nbf"] = a.v })
		add("iat=absolute/"+a.name, func(m map[string]any) { m["iat"] = a.v })
		add("nbf,iat=absolute/"+a.name, func(m map[string]any) { m["nbf"], m["iat"] = a.v, a.v })
		add("exp,nbf,iat=absolute/"+a.name, func(m map[string]any) { m["exp"], m["nbf"], m["iat"] = a.v, a.v, a.v })
	}
	return out
}

func normClaims(m map[string]any) map[string]any {
	// unix times as int64 so that the predicate sees what was sent
	for _, k := range []string{"iat", "nbf", "exp"} {
		switch v := m[k].(type) {
		case int:
			m[k] = int64(v)
		}
	}
	return m
}

// normClaimsJSON restores a claim set decoded from a replay file (numbers decoded as json.Number, so that the literal
// that was sent is sent again): integer literals within int64 become int64, everything else stays the literal.
func normClaimsJSON(m map[string]any) map[string]any {
	for k, v := range m {
		if n, ok := v.(json.Number); ok {
			if i, err := n.Int64(); err == nil {
				m[k] = i
			}
		}
		if f, ok := v.(float64); ok && f == float64(int64(f)) {
			m[k] = int64(f)
		}
	}
	if a, ok := m["aud"].([]any); ok {
		var ss []string
		for _, x := range a {
			if s, ok := x.(string); ok {
				ss = append(ss, s)
			}
		}
		m["aud"] = ss
	}
	return m
}

// authShapes renders Authorization header sets for a token.
func authShapes(tok string) map[string][]string {
	return map[string][]string{
		"bearer":            {"Bearer " + tok},
		"bearer-lower":      {"bearer " + tok},
		"bearer-upper":      {"BEARER " + tok},
		"bearer-tab":        {"Bearer\t" + tok},
		"bearer-2spaces":    {"Bearer  " + tok},
		"bearer-trailing":   {"Bearer " + tok + " "},
		"basic":             {"Basic " + tok},
		"no-scheme":         {tok},
		"three-fields":      {"Bearer " + tok + " x"},
		"two-headers-good1": {"Bearer " + tok, "Bearer garbage"},
		"two-headers-good2": {"Bearer garbage", "Bearer " + tok},
		"comma-joined":      {"Bearer garbage, Bearer " + tok},
	}
}

func isInternalRoute(r string) bool {
	return r == "/internal" || strings.HasPrefix(r, "/internal/")
}
func isInternalListenerRoute(r string) bool {
	for _, p := range []string{"/internal", "/status", "/metrics", "/health"} {
		if r == p || strings.HasPrefix(r, p+"/") {
			return true
		}
	}
	return false
}

func TestVerifC04(t *testing.T) {
	logrus.SetOutput(io.Discard)
	logrus.SetLevel(logrus.PanicLevel)
	audit.VerifSilence()
	r := ev.Start(t, "C04")
	defer r.Finish()
	r.Rule("raw-TCP request lines from a rewrite grammar (forms x per-character path rewrites to depth d x suffixes x methods x versions x Host) " +
		"without token, and Authorization shapes x token specs (key x alg x claim-defect lattice x serialisation) on routed targets; " +
		"a case is non-trivial when the twin engine without authentication routes it to a probe handler, or when it carries a token")
	r.Assume("net/http server and echo router are exercised, not modelled; time-dependent claims are placed >= 30 s away from their bounds")

	signers := makeSigners(t)
	keysPath := writeKeys(t, signers)
	auth := startEngine(t, "auth", true, false, keysPath)
	twin := startEngine(t, "twin", false, false, keysPath)
	same := startEngine(t, "same", true, true, keysPath)
	_ = context.Background

	// --replay: send exactly the recorded request to the engine with authentication and report what ran
	var rc struct {
		Raw     string          `json:"raw"`
		RawSpec json.RawMessage `json:"spec"`
		Spec    *tokenSpec      `json:"-"`
		Header  []string        `json:"header"`
		Target  *target         `json:"target"`
	}
	replaying := r.ReplayCase(&rc)
	if !replaying && os.Getenv("VERIF_REPLAY") != "" {
		return // a replay of another part's case
	}
	if replaying {
		raw := strings.ReplaceAll(rc.Raw, "ADDR", auth.internalAddr)
		want := false
		if len(rc.RawSpec) > 0 && string(rc.RawSpec) != "null" {
			dec := json.NewDecoder(strings.NewReader(string(rc.RawSpec)))
			dec.UseNumber()
			rc.Spec = &tokenSpec{}
			if err := dec.Decode(rc.Spec); err != nil {
				t.Fatalf("replay spec: %v", err)
			}
		}
		if rc.Spec != nil {
			rc.Spec.Claims = normClaimsJSON(rc.Spec.Claims)
			tok, genuine := rc.Spec.build2(t, signers)
			want = acceptable(*rc.Spec, signers, genuine)
			raw = rc.Target.raw([]string{"Bearer " + tok})
		}
		takeHits()
		code := send(auth.internalAddr, raw)
		ah := takeHits()
		fmt.Printf("REPLAY status=%d handlers_ran=%v token_acceptable=%v\n%s\n", code, ah, want, raw)
		r.Eval("replay")
		r.Eval("replay2")
		r.Sample(map[string]any{"replayed": raw, "status": code})
		for _, h := range ah {
			if isInternalRoute(h.Route) && !want {
				r.Violation("C04|replay", "replayed request reached "+h.Route+" without an acceptable token", map[string]any{"raw": rc.Raw})
			}
		}
		return
	}

	// ---- listener configurations with a degenerate internal address: the engine must refuse them, or at least
	// must not serve an internal-listener route on the public listener
	if r.Mine(0) {
		for _, addr := range []string{"", " ", ":", "-"} {
			e := nutshttp.New(func() {}, nil)
			cfg := e.Config().(*nutshttp.Config)
			cfg.Log = nutshttp.LogNothingLevel
			cfg.Internal.Address = addr
			cfg.Public.Address = freePort(t)
			cfg.Internal.Auth = nutshttp.AuthConfig{Type: nutshttp.BearerTokenAuthV2, AuthorizedKeysPath: keysPath, Audience: audience}
			err := e.Configure(core.ServerConfig{Strictmode: true, DIDMethods: []string{"web"}})
			r.Eval("listener-config|internal-address=" + fmt.Sprintf("%q", addr))
			r.Outcome(fmt.Sprintf("degenerate internal address %q: configure error=%v", addr, err != nil))
			if err != nil {
				continue
			}
			for _, route := range probeRoutes {
				route := route
				e.Router().Add("GET", route, func(c echo.Context) error {
					hitsMu.Lock()
					hits = append(hits, hit{Engine: "degenerate", Route: route})
					hitsMu.Unlock()
					return c.String(200, "ran")
				})
			}
			_ = e.Start()
			up := false
			for i := 0; i < 200 && !up; i++ {
				if c, err := net.DialTimeout("tcp", cfg.Public.Address, time.Second); err == nil {
					c.Close()
					up = true
				} else {
					time.Sleep(5 * time.Millisecond)
				}
			}
			if up {
				takeHits()
				for _, pth := range []string{"/internal/probe", "/internal", "/status", "/status/diagnostics", "/metrics", "/health"} {
					send(cfg.Public.Address, target{Method: "GET", Target: pth, Version: "HTTP/1.1", Host: "x"}.raw(nil))
				}
				for _, h := range takeHits() {
					if isInternalListenerRoute(h.Route) {
						r.Violation("C04|public-listener|degenerate-internal-address|"+h.Route,
							fmt.Sprintf("internal address %q is accepted and handler %s is served by the public listener", addr, h.Route),
							map[string]any{"internal_address": addr})
					}
				}
			}
			_ = e.Shutdown()
		}
	}

	depth := 1
	if r.Thorough() {
		depth = 2
	}
	r.Bound("path_rewrite_depth", depth)

	// vacuity guards
	good := tokenSpec{Signer: 0, Alg: "ES256", Claims: normClaims(baseClaims(signers[0].comment))}
	goodTok, gen := good.build2(t, signers)
	if !acceptable(good, signers, gen) {
		t.Fatal("harness: reference predicate refuses the valid token")
	}
	canon := target{Method: "GET", Target: "/internal/probe", Version: "HTTP/1.1", Host: auth.internalAddr}
	takeHits()
	if code := send(auth.internalAddr, canon.raw([]string{"Bearer " + goodTok})); code != 200 || len(takeHits()) < 1 {
		t.Fatalf("harness: valid token on canonical path not served (status %d)", code)
	}
	if code := send(auth.internalAddr, canon.raw(nil)); code != 401 || len(takeHits()) != 0 {
		t.Fatalf("harness: canonical path without token: status %d", code)
	}

	// (interleavings of concurrent requests: part `sched`, sched_test.go)

	// ---- part 1: request-target grammar without / with an unacceptable token
	bases := []string{"/internal/probe", "/internal", "/internal/p/7", "/internal/w/a/b", "/status", "/metrics", "/health", "/status/diagnostics"}
	targets := buildTargets(bases, depth, "HOSTPORT")
	r.Bound("request_targets", len(targets))
	badTok := tokenSpec{Signer: 4, Alg: "ES256", Claims: normClaims(baseClaims("alice-ecdsa256"))}.build(t, signers)
	idx := 0
	for _, tg := range targets {
		idx++
		if !r.Mine(idx) {
			continue
		}
		if r.Expired() {
			break
		}
		for _, authz := range [][]string{nil, {"Bearer " + badTok}} {
			concrete := func(addr string) string {
				x := tg
				x.Target = strings.ReplaceAll(x.Target, "HOSTPORT", addr)
				x.Host = strings.ReplaceAll(x.Host, "HOSTPORT", addr)
				return x.raw(authz)
			}
			// twin: does it route at all?
			takeHits()
			send(twin.internalAddr, concrete(twin.internalAddr))
			th := takeHits()
			routedInternal := len(th) > 0 && isInternalRoute(th[0].Route)
			// engine with auth, internal listener
			code := send(auth.internalAddr, concrete(auth.internalAddr))
			ah := takeHits()
			key := ""
			if len(th) > 0 {
				key = tg.Method + " " + tg.Target + fmt.Sprint(authz != nil)
			}
			r.Eval(key)
			r.Outcome(fmt.Sprintf("internal-listener routed=%v status=%d ran=%d", routedInternal, code, len(ah)))
			for _, h := range ah {
				if isInternalRoute(h.Route) {
					r.Violation("C04|bypass|"+classify(tg), fmt.Sprintf("handler %s ran without an acceptable token for request line %q (%s)", h.Route, tg.Method+" "+tg.Target+" "+tg.Version, tg.Desc),
						map[string]any{"raw": concrete("ADDR"), "desc": tg.Desc})
				}
			}
			if code == -1 {
				r.NotExhaustive("a request got no answer in three attempts (machine load)")
			}
			if routedInternal && len(ah) == 0 && code != 401 && code != -1 {
				r.Violation("C04|not-401|"+classify(tg), fmt.Sprintf("request %q routes to an /internal handler but an unauthenticated request is answered %d instead of 401", tg.Method+" "+tg.Target, code),
					map[string]any{"raw": concrete("ADDR"), "desc": tg.Desc})
			}
			// same-address configuration: authentication must still guard /internal
			code2 := send(same.internalAddr, concrete(same.internalAddr))
			sh := takeHits()
			for _, h := range sh {
				if isInternalRoute(h.Route) {
					r.Violation("C04|bypass-same-address|"+classify(tg), fmt.Sprintf("handler %s ran without an acceptable token (single listener) for %q", h.Route, tg.Method+" "+tg.Target),
						map[string]any{"raw": concrete("ADDR"), "desc": tg.Desc})
				}
			}
			_ = code2
			// public listener: no internal-listener route is ever served there
			send(auth.publicAddr, concrete(auth.publicAddr))
			send(twin.publicAddr, concrete(twin.publicAddr))
			for _, h := range takeHits() {
				if isInternalListenerRoute(h.Route) {
					r.Violation("C04|public-listener|"+h.Route, fmt.Sprintf("handler %s was served by the public listener for %q", h.Route, tg.Method+" "+tg.Target),
						map[string]any{"raw": concrete("ADDR"), "desc": tg.Desc})
				}
			}
		}
		if idx%997 == 1 {
			r.Sample(map[string]string{"request_line": tg.Method + " " + tg.Target + " " + tg.Version, "host": tg.Host, "desc": tg.Desc})
		}
	}

	// ---- part 1b: request HEADERS (and the methods that only matter with them) as a dimension of the request grammar:
	// every protected base route x every method (incl. OPTIONS / HEAD / TRACE / CONNECT / PATCH / WebDAV / an unknown one)
	// x all singles and pairs (thorough: triples) of the header alphabet, without token (singles also with a token of an
	// unauthorised key). Oracle unchanged: handler ran => the request's token is acceptable (it never is here); a request
	// that the twin routes to an /internal handler and that is refused is answered 401.
	{
		hsets := headerSets(len(requestHeaders), r.Thorough())
		r.Bound("header_alphabet", len(requestHeaders))
		r.Bound("header_sets", len(hsets))
		hroutes := []string{"/internal/probe", "/internal", "/internal/p/7", "/internal/w/a/b"}
		var violating [][]int // header sets already reported: supersets say nothing new
		contains := func(set, sub []int) bool {
			for _, x := range sub {
				found := false
				for _, y := range set {
					found = found || x == y
				}
				if !found {
					return false
				}
			}
			return true
		}
		for _, hs := range hsets {
			idx++
			if !r.Mine(idx) {
				continue
			}
			if r.Expired() {
				break
			}
			skip := false
			for _, v := range violating {
				skip = skip || contains(hs, v)
			}
			if skip {
				continue
			}
			var extra, names []string
			for _, i := range hs {
				extra = append(extra, requestHeaders[i])
				names = append(names, strings.ToLower(strings.SplitN(requestHeaders[i], ":", 2)[0]))
			}
			sort.Strings(names)
			authzs := [][]string{nil}
			if len(hs) == 1 {
				authzs = append(authzs, []string{"Bearer " + badTok})
			}
			for _, route := range hroutes {
				for _, m := range probeMethods {
					for _, authz := range authzs {
						tg := target{Method: m, Target: route, Version: "HTTP/1.1", Host: "x"}
						raw := tg.rawH(authz, extra)
						takeHits()
						code := send(auth.internalAddr, raw)
						ah := takeHits()
						r.Eval("hdr|" + m + " " + route + "|" + strings.Join(extra, "|") + fmt.Sprint(authz != nil))
						r.Outcome(fmt.Sprintf("headers status=%d ran=%d", code, len(ah)))
						bad := false
						for _, h := range ah {
							if isInternalRoute(h.Route) {
								bad = true
								r.Violation("C04|bypass|header|"+m+"|"+strings.Join(names, "+"),
									fmt.Sprintf("handler %s ran without an acceptable token for %s %s with header(s) %q", h.Route, m, route, extra),
									map[string]any{"raw": raw, "desc": "headers " + strings.Join(extra, " | ")})
							}
						}
						if bad {
							violating = append(violating, hs)
						}
						if code == -1 {
							r.NotExhaustive("a request got no answer in three attempts (machine load)")
						}
						if len(ah) == 0 && code != 401 && code != -1 {
							// refused some other way: 401 is owed only if the request routes to an /internal handler at all
							send(twin.internalAddr, raw)
							th := takeHits()
							if len(th) > 0 && isInternalRoute(th[0].Route) {
								r.Violation("C04|not-401|header|"+m+"|"+strings.Join(names, "+"),
									fmt.Sprintf("%s %s with header(s) %q routes to an /internal handler but is answered %d instead of 401 without a token", m, route, extra, code),
									map[string]any{"raw": raw, "desc": "headers " + strings.Join(extra, " | ")})
							}
						}
					}
				}
			}
		}
	}

	// ---- part 2: Authorization shapes x token lattice on routed targets
	specs := tokenSpecs(signers, r.Thorough())
	r.Bound("token_specs", len(specs))
	routed := []target{canon,
		{Method: "POST", Target: "/internal/probe/sub?x=1", Version: "HTTP/1.1", Host: "x"},
		{Method: "GET", Target: "/internal/p/9", Version: "HTTP/1.0", Host: "x"}}
	accepted := 0
	for si, s := range specs {
		idx++
		if !r.Mine(idx) {
			continue
		}
		if r.Expired() {
			break
		}
		s.Claims = normClaims(s.Claims)
		tok, genuine := s.build2(t, signers)
		want := acceptable(s, signers, genuine)
		shapes := authShapes(tok)
		names := make([]string, 0, len(shapes))
		for n := range shapes {
			names = append(names, n)
		}
		sort.Strings(names)
		for _, sn := range names {
			if sn != "bearer" && si%7 != 0 && want == false {
				continue // non-canonical header shapes: every acceptable token + every 7th unacceptable one
			}
			for ti, tg := range routed {
				if ti > 0 && sn != "bearer" {
					continue
				}
				takeHits()
				code := send(auth.internalAddr, tg.raw(shapes[sn]))
				ah := takeHits()
				r.Eval("tok|" + s.Desc + "|" + sn + "|" + tg.Target)
				r.Outcome(fmt.Sprintf("token acceptable=%v status=%d ran=%d", want, code, len(ah)))
				if len(ah) > 0 {
					accepted++
					if !want {
						r.Violation("C04|token|"+tokenClass(s), fmt.Sprintf("handler ran for a token the statement refuses: %s (header shape %s)", s.Desc, sn),
							map[string]any{"spec": s, "header": shapes[sn], "target": tg})
					}
				} else if code == -1 {
					r.NotExhaustive("a request got no answer in three attempts (machine load)")
				} else if code != 401 {
					r.Violation("C04|token-not-401|"+tokenClass(s), fmt.Sprintf("refused token answered %d instead of 401: %s (%s)", code, s.Desc, sn),
						map[string]any{"spec": s, "header": shapes[sn], "target": tg})
				}
				if want && sn == "bearer" && len(ah) == 0 {
					// converse: vacuity guard only (the statement says "unless"), reported as observation
					r.Observation("acceptable-token-refused", s.Desc)
				}
			}
		}
		if si%40 == 0 {
			r.Sample(map[string]any{"token": s.Desc, "acceptable": want})
		}
	}
	r.Extra("tokens_accepted", int64(accepted))

	// ---- part 3: token life-cycle histories. Every sequence (depth <= 3, at most one wait) over
	// {present the token, present it with a flipped signature, present it re-signed by an unauthorised key,
	//  present it on another /internal route, wait until it has expired}; each sequence has its own short-lived
	// token, all sequences run concurrently (they only sleep), every presentation is judged at the moment it is made.
	if r.Mine(0) {
		type evt string
		alphabet := []evt{"present", "present-flipped", "present-foreign", "present-other-route", "wait"}
		var seqs [][]evt
		var gen func(cur []evt)
		gen = func(cur []evt) {
			if len(cur) > 0 {
				seqs = append(seqs, append([]evt{}, cur...))
			}
			if len(cur) == 3 {
				return
			}
			for _, e := range alphabet {
				if e == "wait" {
					skip := len(cur) == 0
					for _, c := range cur {
						skip = skip || c == "wait"
					}
					if skip {
						continue
					}
				}
				gen(append(cur, e))
			}
		}
		gen(nil)
		r.Bound("lifecycle_sequences", len(seqs))
		var wg sync.WaitGroup
		var lmu sync.Mutex
		firstAccepted, lateRefused := 0, 0
		const life = 5 * time.Second
		for qi, seq := range seqs {
			wg.Add(1)
			go func(qi int, seq []evt) {
				defer wg.Done()
				start := time.Now()
				claims := normClaims(baseClaims(signers[0].comment))
				claims["jti"] = fmt.Sprintf("00000000-0000-4000-8000-%012d", qi)
				claims["exp"] = start.Add(life).Unix()
				spec := tokenSpec{Signer: 0, Alg: "ES256", Claims: claims}
				tok, _ := spec.build2(t, signers)
				flipped, _ := tokenSpec{Signer: 0, Alg: "ES256", Claims: claims, Mangle: "flip-sig"}.build2(t, signers)
				foreign, _ := tokenSpec{Signer: 4, Alg: "ES256", Claims: claims}.build2(t, signers)
				// a private route per sequence so that concurrent sequences do not see each other's hits
				route := fmt.Sprintf("/internal/p/%d", qi)
				for si, e := range seq {
					var code int
					var cred string
					tgt := target{Method: "GET", Target: route, Version: "HTTP/1.1", Host: "x"}
					genuineTok := false
					switch e {
					case "wait":
						time.Sleep(time.Until(start.Add(life + 3*time.Second)))
						continue
					case "present":
						cred, genuineTok = tok, true
					case "present-flipped":
						cred = flipped
					case "present-foreign":
						cred = foreign
					case "present-other-route":
						cred, genuineTok = tok, true
						tgt.Target = fmt.Sprintf("/internal/w/%d", qi)
					}
					n := time.Now()
					code = send(auth.internalAddr, tgt.raw([]string{"Bearer " + cred}))
					expUnix := claims["exp"].(int64)
					definitelyExpired := n.Unix() >= expUnix+2
					definitelyValid := n.Unix() < expUnix-1 && time.Now().Unix() < expUnix-1
					ran := code == 200
					lmu.Lock()
					r.Eval(fmt.Sprintf("life|%v|%d", seq, si))
					r.Outcome(fmt.Sprintf("lifecycle event=%s expired=%v status=%d", e, definitelyExpired, code))
					if si == 0 && ran {
						firstAccepted++
					}
					if ran && (!genuineTok || definitelyExpired) {
						r.Violation(fmt.Sprintf("C04|token-lifecycle|%s|expired=%v", e, definitelyExpired),
							fmt.Sprintf("sequence %v: step %d (%s) was served although the credential is not acceptable at that moment (expired=%v)", seq, si, e, definitelyExpired),
							map[string]any{"sequence": seq, "step": si})
					}
					if code == -1 {
						r.NotExhaustive("a request got no answer in three attempts (machine load)")
					}
					if !ran && code != 401 && code != -1 {
						r.Violation("C04|token-lifecycle-not-401|"+string(e), fmt.Sprintf("sequence %v: refused step answered %d", seq, code), map[string]any{"sequence": seq, "step": si})
					}
					if definitelyExpired && !ran {
						lateRefused++
					}
					_ = definitelyValid
					lmu.Unlock()
				}
			}(qi, seq)
		}
		wg.Wait()
		takeHits()
		r.Extra("lifecycle_first_presentations_accepted", int64(firstAccepted))
		r.Extra("lifecycle_expired_presentations_refused", int64(lateRefused))
		if firstAccepted == 0 {
			r.NotExhaustive("token life-cycle part was vacuous on this run (machine too slow: no first presentation was accepted)")
		}
		r.Sample(map[string]any{"lifecycle_sequence": seqs[len(seqs)/2]})
	}
}

func classify(t target) string {
	// structural class of the request target: form + first rewrite name
	d := strings.Fields(t.Desc)
	if len(d) >= 3 {
		return d[2] + "|" + d[1] + "|" + d[0]
	}
	return t.Desc
}

func tokenClass(s tokenSpec) string {
	parts := strings.SplitN(s.Desc, " ", 2)
	cls := s.Desc
	if len(parts) == 2 {
		cls = parts[1]
	}
	// the numeric-extremes family: one class per placement (which claims are moved, in which direction); the value is
	// in the description of the violation
	if f := strings.Split(cls, "/"); len(f) >= 3 && f[0] == "time-extreme" {
		cls = "time-extreme|" + f[1]
	}
	return cls
}
