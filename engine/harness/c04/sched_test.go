// C04, part `sched` — the property is quantified over ALL requests, also those that are in flight at the same time.
//
// 2 (thorough: also 3) concurrent requests are driven through the REAL http.Engine configuration (New + Configure, the
// same construction the raw part uses: internal listener with token_v2 authentication, public listener, probe handlers
// registered through the engine's router; the listeners are not started, every request is a scheduler thread that calls
// ServeHTTP of the echo server of the listener it arrives on, with an httptest recorder). The echo middleware chain has
// no locks, so the scheduling points are put where a real server can be preempted: the overlay copy of echo.go (two nil
// hooks, see /verif/overlay/echo@v4.13.0) tells the harness about every echo server the engine creates and lets it wrap
// every middleware the engine installs: one point before the middleware function is applied to `next` (echo does that
// on EVERY request), one before the resulting handler runs, one when it passes control on to `next`, one when `next`
// returns to it. Every sync primitive of http/ and http/tokenV2 is a scheduling point too (rewrite_sync -> vsync).
// A depth-first search enumerates every interleaving (no preemption bound for the 1-middleware chain the raw part uses;
// a stated preemption bound for the full chain with rate limiter and loggers and for triples).
package c04

import (
	"fmt"
	"io"
	nethttp "net/http"
	"net/http/httptest"
	"os"
	"sort"
	"strings"
	"testing"
	"time"

	"github.com/labstack/echo/v4"
	"github.com/nuts-foundation/nuts-node/audit"
	"github.com/nuts-foundation/nuts-node/core"
	nutshttp "github.com/nuts-foundation/nuts-node/http"
	"github.com/sirupsen/logrus"

	"verif/ev"
	"verif/sched"
)

// ------------------------------------------------------------------ world

type schedConfig struct {
	Name string
	Same bool // internal and public interface on one address (one echo server)
	Full bool // rate limiter + request logger + body logger installed besides the authentication
}

var schedConfigs = []schedConfig{
	{Name: "two-listeners"},
	{Name: "same-address", Same: true},
	{Name: "two-listeners-full-chain", Full: true},
}

var schedRoutes = []string{"/internal/a", "/internal/b", "/public/x", "/health", "/metrics", "/status"}

type handlerRun struct {
	Route    string
	ReqID    string // request id the handler OBSERVED on the context it was called with
	OnPublic bool   // the echo server of the context is the public listener's (two-listener configurations)
	User     string
}

type world struct {
	cfg      schedConfig
	eng      *nutshttp.Engine
	echos    []*echo.Echo
	internal *echo.Echo
	public   *echo.Echo
	chain    map[*echo.Echo]int
	runs     []handlerRun
}

// newWorld builds a fresh engine. Not safe for concurrent use (global echo hooks): worlds are built one at a time.
func newWorld(cfg schedConfig, keysPath string) (*world, error) {
	w := &world{cfg: cfg, chain: map[*echo.Echo]int{}}
	echo.VerifOnNew = func(e *echo.Echo) { w.echos = append(w.echos, e) }
	echo.VerifOnUse = func(e *echo.Echo, pre bool, mws []echo.MiddlewareFunc) []echo.MiddlewareFunc {
		out := make([]echo.MiddlewareFunc, len(mws))
		for i, m := range mws {
			m := m
			name := fmt.Sprintf("mw%d", w.chain[e])
			if pre {
				name = "pre-" + name
			}
			w.chain[e]++
			out[i] = func(next echo.HandlerFunc) echo.HandlerFunc {
				sched.Point("apply:" + name)
				inner := m(func(c echo.Context) error {
					sched.Point("next-called-by:" + name)
					err := next(c)
					sched.Point("next-returned-to:" + name)
					return err
				})
				return func(c echo.Context) error {
					sched.Point("run:" + name)
					return inner(c)
				}
			}
		}
		return out
	}
	echo.VerifOnServe = func(e *echo.Echo, position string) {
		// a server without any middleware still has the window between routing and running the handler
		if w.chain[e] == 0 {
			sched.Point("serve:" + position)
		}
	}
	defer func() { echo.VerifOnNew, echo.VerifOnUse = nil, nil }()

	e := nutshttp.New(func() {}, nil)
	c := e.Config().(*nutshttp.Config)
	c.Log = nutshttp.LogNothingLevel
	didMethods := []string{"web"}
	if cfg.Full {
		c.Log = nutshttp.LogMetadataAndBodyLevel
		didMethods = []string{"web", "nuts"}
	}
	c.Internal.Address = "127.0.0.1:18081"
	c.Public.Address = "127.0.0.1:18080"
	if cfg.Same {
		c.Public.Address = c.Internal.Address
	}
	c.Internal.Auth = nutshttp.AuthConfig{Type: nutshttp.BearerTokenAuthV2, AuthorizedKeysPath: keysPath, Audience: audience}
	if err := e.Configure(core.ServerConfig{Strictmode: true, DIDMethods: didMethods}); err != nil {
		return nil, err
	}
	w.eng = e
	for _, route := range schedRoutes {
		route := route
		h := func(c echo.Context) error {
			id := c.Request().Header.Get("X-Verif-Req")
			user, _ := c.Get(core.UserContextKey).(string)
			w.runs = append(w.runs, handlerRun{Route: route, ReqID: id, OnPublic: !cfg.Same && c.Echo() == w.public, User: user})
			return c.String(200, "route="+route+";req="+id)
		}
		for _, m := range []string{"GET", "POST"} {
			e.Router().Add(m, route, h)
		}
	}
	// which echo server belongs to which listener is read off the routes the engine's router gave them
	has := func(e *echo.Echo, path string) bool {
		for _, rt := range e.Routes() {
			if rt.Path == path {
				return true
			}
		}
		return false
	}
	for _, es := range w.echos {
		if has(es, "/internal/a") {
			w.internal = es
		}
		if has(es, "/public/x") {
			w.public = es
		}
	}
	if w.internal == nil || w.public == nil {
		return nil, fmt.Errorf("could not identify the echo servers of the listeners (%d created)", len(w.echos))
	}
	if cfg.Same != (w.internal == w.public) {
		return nil, fmt.Errorf("configuration %s: internal and public echo server identical=%v", cfg.Name, w.internal == w.public)
	}
	return w, nil
}

// ------------------------------------------------------------------ request alphabet

type schedReq struct {
	Kind     string
	Method   string
	Path     string
	Public   bool // arrives on the public listener
	Authz    string
	TokenOK  bool   // the reference predicate accepts the token the request carries
	Issuer   string // iss of the token (when it carries one)
	RefCode  map[string]int
	RefRoute map[string]string
}

func schedAlphabet(t *testing.T, signers []*signer) []*schedReq {
	mk := func(si int, alg string, mut func(m map[string]any)) (string, bool) {
		c := normClaims(baseClaims(signers[si].comment))
		if mut != nil {
			mut(c)
		}
		spec := tokenSpec{Signer: si, Alg: alg, Claims: c}
		tok, genuine := spec.build2(t, signers)
		return "Bearer " + tok, acceptable(spec, signers, genuine)
	}
	aliceTok, aliceOK := mk(0, "ES256", nil)
	bobTok, bobOK := mk(2, "EdDSA", nil)
	malloryTok, malloryOK := mk(4, "ES256", func(m map[string]any) { m["iss"] = signers[0].comment })
	staleTok, staleOK := mk(0, "ES256", func(m map[string]any) {
		m["iat"], m["nbf"] = now.Add(-2*time.Hour).Unix(), now.Add(-2*time.Hour).Unix()
		m["exp"] = now.Add(-time.Hour).Unix()
	})
	if !aliceOK || !bobOK || malloryOK || staleOK {
		t.Fatalf("harness: reference predicate on the alphabet's tokens: %v %v %v %v", aliceOK, bobOK, malloryOK, staleOK)
	}
	return []*schedReq{
		{Kind: "token-internal-a", Method: "GET", Path: "/internal/a", Authz: aliceTok, TokenOK: true, Issuer: signers[0].comment},
		{Kind: "token-internal-b", Method: "POST", Path: "/internal/b?x=1", Authz: bobTok, TokenOK: true, Issuer: signers[2].comment},
		{Kind: "anon-internal", Method: "GET", Path: "/internal/a"},
		{Kind: "badtoken-internal", Method: "GET", Path: "/internal/b", Authz: malloryTok},
		{Kind: "staletoken-internal", Method: "POST", Path: "/internal/a", Authz: staleTok},
		{Kind: "anon-public", Method: "GET", Path: "/public/x", Public: true},
		{Kind: "anon-internal-path-on-public", Method: "GET", Path: "/internal/a", Public: true},
		{Kind: "anon-health", Method: "GET", Path: "/health"},
		{Kind: "anon-metrics", Method: "GET", Path: "/metrics"},
		{Kind: "anon-status", Method: "GET", Path: "/status"},
		{Kind: "anon-status-on-public", Method: "GET", Path: "/status", Public: true},
	}
}

func (w *world) serve(rq *schedReq, id string) *httptest.ResponseRecorder {
	rec := httptest.NewRecorder()
	req := httptest.NewRequest(rq.Method, rq.Path, nil)
	req.Header.Set("X-Verif-Req", id)
	if rq.Authz != "" {
		req.Header.Set("Authorization", rq.Authz)
	}
	target := w.internal
	if rq.Public {
		target = w.public
	}
	target.ServeHTTP(rec, req)
	return rec
}

func bodyRoute(body string) (route, id string, ok bool) {
	if !strings.HasPrefix(body, "route=") {
		return "", "", false
	}
	parts := strings.SplitN(strings.TrimPrefix(body, "route="), ";req=", 2)
	if len(parts) != 2 {
		return "", "", false
	}
	return parts[0], parts[1], true
}

// ------------------------------------------------------------------ test

type schedCase struct {
	Config   string   `json:"config"`
	Kinds    []string `json:"kinds"`
	Bound    int      `json:"bound"`
	Schedule []int    `json:"schedule,omitempty"`
}

func multisets(n, k int) [][]int {
	var out [][]int
	var gen func(start int, cur []int)
	gen = func(start int, cur []int) {
		if len(cur) == k {
			out = append(out, append([]int{}, cur...))
			return
		}
		for i := start; i < n; i++ {
			gen(i, append(cur, i))
		}
	}
	gen(0, nil)
	return out
}

func TestVerifC04Sched(t *testing.T) {
	logrus.SetOutput(io.Discard)
	logrus.SetLevel(logrus.PanicLevel)
	audit.VerifSilence()
	r := ev.Start(t, "C04")
	defer r.Finish()
	r.Rule("every interleaving of 2 (thorough: 3) concurrent requests, each a scheduler thread calling ServeHTTP of the echo server of its listener on a fresh " +
		"real http.Engine (Configure as in the raw part, not started); alphabet: token /internal/a, other user's token /internal/b, no token, token of an " +
		"unauthorised key, expired token on /internal, anonymous public route, anonymous /internal path and /status on the public listener, anonymous " +
		"/health /metrics /status; scheduling points before applying, before running, at next-call and next-return of every middleware the engine installs, " +
		"and at every sync primitive of http/ and http/tokenV2; configurations: two listeners, one shared address, two listeners with rate limiter and loggers; " +
		"a case is one execution (schedule) of one multiset of requests")
	r.Assume("echo and net/http are exercised, not modelled: code between two scheduling points (inside one middleware, inside echo's router) runs atomically; " +
		"preemption inside a middleware body is not enumerated unless it passes a sync primitive of the product")

	signers := makeSigners(t)
	keysPath := writeKeys(t, signers)
	alphabet := schedAlphabet(t, signers)
	byKind := map[string]*schedReq{}
	for _, a := range alphabet {
		byKind[a.Kind] = a
		a.RefCode, a.RefRoute = map[string]int{}, map[string]string{}
	}
	cfgByName := map[string]schedConfig{}
	for _, c := range schedConfigs {
		cfgByName[c.Name] = c
	}

	// judge: the oracle of one execution (also of the sequential reference runs, where `conc` is false)
	judge := func(cfg schedConfig, w *world, reqs []*schedReq, recs []*httptest.ResponseRecorder, conc bool, rc schedCase, trace []string) {
		others := func(i int) string {
			var o []string
			for j, q := range reqs {
				if j != i {
					o = append(o, q.Kind)
				}
			}
			sort.Strings(o)
			return strings.Join(o, ",")
		}
		scen := "concurrent"
		if !conc {
			scen = "sequential"
		}
		what := func(s string, i int) string {
			return fmt.Sprintf("configuration %s, requests %v, %s: %s (victim request #%d %s, in flight with [%s]); schedule trace %v", cfg.Name, rc.Kinds, scen, s, i, reqs[i].Kind, others(i), trace)
		}
		// One signature per oracle clause and class of victim; the most specific clause wins (a request without a token
		// that is served by an /internal handler is clause a, not also "foreign handler").
		class := func(q *schedReq) string {
			switch {
			case q.TokenOK:
				return "valid-token"
			case q.Authz != "":
				return "refused-token"
			}
			return "anonymous"
		}
		perReq := make([]int, len(reqs))
		for _, run := range w.runs {
			idx := -1
			fmt.Sscanf(run.ReqID, "%d", &idx)
			if idx < 0 || idx >= len(reqs) || fmt.Sprint(idx) != run.ReqID {
				r.Violation("C04|sched|"+scen+"|foreign-handler|unknown-request", fmt.Sprintf("configuration %s, requests %v: handler %s observed request id %q", cfg.Name, rc.Kinds, run.Route, run.ReqID), rc)
				continue
			}
			perReq[idx]++
			q := reqs[idx]
			switch {
			// (a) a handler registered under /internal runs for a request only if THAT request carried an acceptable token
			case isInternalRoute(run.Route) && !q.TokenOK:
				r.Violation("C04|sched|"+scen+"|internal-handler-without-token|"+class(q), what("handler "+run.Route+" ran for a request that carried no acceptable token", idx), rc)
			// (c) nothing registered on the internal listener answers on the public one
			case !cfg.Same && isInternalListenerRoute(run.Route) && (q.Public || run.OnPublic):
				r.Violation("C04|sched|"+scen+"|public-listener|"+class(q), what("handler "+run.Route+" was served for a request that arrived on the public listener", idx), rc)
			// (b) the handler that runs for a request is the one of its own route
			case conc && run.Route != q.RefRoute[cfg.Name]:
				r.Violation("C04|sched|concurrent|foreign-handler|"+class(q), what(fmt.Sprintf("handler %s ran for it instead of %q", run.Route, q.RefRoute[cfg.Name]), idx), rc)
			case conc && perReq[idx] > 1:
				r.Violation("C04|sched|concurrent|foreign-handler|"+class(q), what("a second handler ran for it", idx), rc)
			}
			if conc && isInternalRoute(run.Route) && q.TokenOK && run.User != q.Issuer {
				r.Observation("sched-user-context-of-other-request", fmt.Sprintf("%s: handler %s saw user %q, token issuer %q", cfg.Name, run.Route, run.User, q.Issuer))
			}
		}
		for i, q := range reqs {
			rec := recs[i]
			if rec == nil {
				continue // thread did not finish (panic / deadlock): reported by the caller
			}
			body := rec.Body.String()
			route, id, isMarker := bodyRoute(body)
			r.Outcome(fmt.Sprintf("sched %s status=%d handler-answer=%v", q.Kind, rec.Code, isMarker))
			if isMarker {
				// the same clauses on the response the request RECEIVES (its own recorder)
				switch {
				case isInternalRoute(route) && !q.TokenOK:
					r.Violation("C04|sched|"+scen+"|internal-handler-without-token|"+class(q), what(fmt.Sprintf("it received the response %q of an /internal handler without an acceptable token", body), i), rc)
				case !cfg.Same && q.Public && isInternalListenerRoute(route):
					r.Violation("C04|sched|"+scen+"|public-listener|"+class(q), what(fmt.Sprintf("the public listener answered %q", body), i), rc)
				case id != fmt.Sprint(i):
					r.Violation("C04|sched|"+scen+"|foreign-handler|"+class(q), what(fmt.Sprintf("its response %q was produced for another request", body), i), rc)
				case conc && route != q.RefRoute[cfg.Name]:
					r.Violation("C04|sched|concurrent|foreign-handler|"+class(q), what(fmt.Sprintf("its response is %q, alone it is served by %q", body, q.RefRoute[cfg.Name]), i), rc)
				}
			}
			// every failure is answered 401: a request that alone is refused with 401 and is not served must still get 401
			if conc && q.RefCode[cfg.Name] == 401 && perReq[i] == 0 && !isMarker && rec.Code != 401 {
				r.Violation("C04|sched|concurrent|not-401|"+class(q), what(fmt.Sprintf("refused request answered %d instead of 401", rec.Code), i), rc)
			}
			if conc && q.RefCode[cfg.Name] == 200 && rec.Code != 200 {
				r.Observation("sched-served-alone-but-not-in-this-schedule", fmt.Sprintf("%s %s: status %d", cfg.Name, q.Kind, rec.Code))
			}
		}
	}

	// ---- sequential reference on a fresh engine per request (also judged: clauses a and c hold for a request alone)
	for _, cfg := range schedConfigs {
		for _, q := range alphabet {
			w, err := newWorld(cfg, keysPath)
			if err != nil {
				t.Fatalf("harness: %v", err)
			}
			rec := w.serve(q, "0")
			q.RefCode[cfg.Name] = rec.Code
			if len(w.runs) == 1 {
				q.RefRoute[cfg.Name] = w.runs[0].Route
			}
			judge(cfg, w, []*schedReq{q}, []*httptest.ResponseRecorder{rec}, false, schedCase{Config: cfg.Name, Kinds: []string{q.Kind}}, nil)
			r.Outcome(fmt.Sprintf("reference %s %s -> %d %q", cfg.Name, q.Kind, rec.Code, q.RefRoute[cfg.Name]))
		}
		// vacuity guards: the honest requests are served by their own handler, the anonymous ones refused
		chk := func(kind string, code int, route string) {
			q := byKind[kind]
			if q.RefCode[cfg.Name] != code || q.RefRoute[cfg.Name] != route {
				if r.Violations() > 0 {
					return // already reported as a violation of the statement by a request alone
				}
				t.Fatalf("harness: reference run %s %s: status %d route %q, expected %d %q", cfg.Name, kind, q.RefCode[cfg.Name], q.RefRoute[cfg.Name], code, route)
			}
		}
		chk("token-internal-a", 200, "/internal/a")
		chk("token-internal-b", 200, "/internal/b")
		chk("anon-internal", 401, "")
		chk("badtoken-internal", 401, "")
		chk("staletoken-internal", 401, "")
		chk("anon-public", 200, "/public/x")
		chk("anon-health", 200, "/health")
		if !cfg.Same {
			chk("anon-internal-path-on-public", 401, "") // the authentication guards the path on every listener, before the router's 404
			chk("anon-status-on-public", 404, "")
		}
	}

	// ---- exploration
	explore := func(rc schedCase, replay bool) sched.Result {
		cfg, ok := cfgByName[rc.Config]
		if !ok {
			t.Fatalf("unknown configuration %q", rc.Config)
		}
		reqs := make([]*schedReq, len(rc.Kinds))
		for i, k := range rc.Kinds {
			if reqs[i] = byKind[k]; reqs[i] == nil {
				t.Fatalf("unknown request kind %q", k)
			}
		}
		opts := sched.Options{Bound: rc.Bound, MaxSteps: 5000}
		if replay {
			opts.Replay = rc.Schedule
			if opts.Replay == nil {
				opts.Replay = []int{}
			}
		}
		var steps int64
		res := sched.Explore(opts, func(x *sched.Exec) func(*sched.Exec) {
			w, err := newWorld(cfg, keysPath)
			if err != nil {
				t.Fatalf("harness: %v", err)
			}
			recs := make([]*httptest.ResponseRecorder, len(reqs))
			for i, q := range reqs {
				i, q := i, q
				x.Go(fmt.Sprintf("r%d:%s", i, q.Kind), func() { recs[i] = w.serve(q, fmt.Sprint(i)) })
			}
			return func(x *sched.Exec) {
				c := rc
				c.Schedule = x.Choices()
				steps += int64(len(x.Trace))
				r.Eval(fmt.Sprintf("sched|%s|%v|%v", rc.Config, rc.Kinds, c.Schedule))
				judge(cfg, w, reqs, recs, true, c, x.Trace)
				for i, p := range x.Panics() {
					if p != nil {
						r.Observation("sched-request-panicked", fmt.Sprintf("%s %v request #%d: %.300s", rc.Config, rc.Kinds, i, fmt.Sprint(p)))
					}
				}
				if x.Deadlock {
					r.Observation("sched-deadlock", fmt.Sprintf("%s %v schedule %v", rc.Config, rc.Kinds, c.Schedule))
				}
				if replay {
					fmt.Printf("REPLAY %s %v\n  trace: %v\n  handler runs: %+v\n", rc.Config, rc.Kinds, x.Trace, w.runs)
					for i, rec := range recs {
						if rec != nil {
							fmt.Printf("  request #%d %s -> %d %q\n", i, reqs[i].Kind, rec.Code, strings.TrimSpace(rec.Body.String()))
						}
					}
				}
			}
		})
		r.States(res.Executions)
		r.Transitions(steps)
		return res
	}

	var rc schedCase
	if r.ReplayCase(&rc) {
		if rc.Config == "" {
			return // a replay case of another part
		}
		explore(rc, true)
		r.Eval("replay")
		r.Eval("replay2")
		return
	}
	if os.Getenv("VERIF_REPLAY") != "" {
		return // a replay of another part's case
	}

	type job struct {
		cfg   schedConfig
		kinds []int
		bound int
	}
	var jobs []job
	fullBound, tripleBound := 2, 0
	if r.Thorough() {
		fullBound, tripleBound = 3, 3
	}
	for _, cfg := range schedConfigs {
		b := -1
		if cfg.Full {
			b = fullBound
		}
		for _, ms := range multisets(len(alphabet), 2) {
			jobs = append(jobs, job{cfg, ms, b})
		}
	}
	if r.Thorough() {
		for _, cfg := range schedConfigs {
			b := tripleBound
			if cfg.Full {
				b = 2
			}
			for _, ms := range multisets(len(alphabet), 3) {
				if cfg.Full {
					// the long chain gets triples over the core of the alphabet (one request per distinct path through the chain)
					skip := false
					for _, k := range ms {
						switch alphabet[k].Kind {
						case "staletoken-internal", "anon-metrics", "anon-status", "anon-status-on-public":
							skip = true
						}
					}
					if skip {
						continue
					}
				}
				jobs = append(jobs, job{cfg, ms, b})
			}
		}
	}
	r.Bound("sched_requests_per_execution", map[bool]int{false: 2, true: 3}[r.Thorough()])
	r.Bound("sched_pairs_preemption_bound", "none (complete) on the 1-middleware chain; "+fmt.Sprint(fullBound)+" on the full chain")
	if r.Thorough() {
		r.Bound("sched_triples_preemption_bound", fmt.Sprintf("%d on the 1-middleware chain (all 286 multisets); 2 on the full chain (84 multisets over 7 request kinds)", tripleBound))
	}
	r.Bound("sched_request_multisets", len(jobs))
	maxPoints, complete := 0, 0
	for idx, j := range jobs {
		if !r.Mine(idx) {
			continue
		}
		if r.Expired() {
			break
		}
		c := schedCase{Config: j.cfg.Name, Bound: j.bound}
		for _, k := range j.kinds {
			c.Kinds = append(c.Kinds, alphabet[k].Kind)
		}
		res := explore(c, false)
		if res.MaxPoints > maxPoints {
			maxPoints = res.MaxPoints
		}
		if len(res.Errors) > 0 {
			// scheduler machinery trouble (divergence, horizon) is never a verdict
			r.NotExhaustive(fmt.Sprintf("%s %v: %v", c.Config, c.Kinds, res.Errors))
			continue
		}
		if !res.Exhaustive {
			r.NotExhaustive(fmt.Sprintf("%s %v: %s", c.Config, c.Kinds, res.Capped))
			continue
		}
		complete++
		r.AddExtra(fmt.Sprintf("sched_schedules_%s_%d-requests_bound%d", c.Config, len(c.Kinds), c.Bound), res.Executions)
		if idx%37 == 0 {
			r.Sample(map[string]any{"config": c.Config, "requests": c.Kinds, "preemption_bound": c.Bound, "schedules": res.Executions, "choice_points": res.MaxPoints})
		}
	}
	r.AddExtra("sched_multisets_completed", int64(complete))
	r.Extra("sched_max_choice_points_seen_by_one_worker", fmt.Sprint(maxPoints))
}

var _ = nethttp.MethodGet
